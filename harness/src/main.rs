//! `hls_harness <input-file>`
//!
//! Each input line is `id<TAB>op<TAB>arg1<TAB>arg2...`; for each one exactly one
//! line `id<TAB>result` is printed.  Text arguments are lowercase-hex encoded
//! UTF-8, numeric arguments are decimal.  See `DUMP.md` for the dump grammar.
//!
//! Adding an op: write a `fn(&[&str]) -> String` and add one arm to `dispatch`.

mod api;
mod builder;
mod laws;
mod observe;

use std::convert::TryFrom;
use std::fmt;
use std::io::{self, BufWriter, Write};
use std::panic::{catch_unwind, AssertUnwindSafe};
use std::time::Duration;

use hls_m3u8::tags::{
    ExtInf, ExtXByteRange, ExtXDateRange, ExtXKey, ExtXMap, ExtXMedia, ExtXProgramDateTime,
    ExtXSessionData, ExtXSessionKey, ExtXStart, ExtXVersion, VariantStream,
};
use hls_m3u8::types::{
    ByteRange, Channels, ClosedCaptions, Codecs, DecryptionKey, EncryptionMethod, Float,
    HdcpLevel, InStreamId, InitializationVector, KeyFormat, KeyFormatVersions, MediaType,
    PlaylistType, ProtocolVersion, Resolution, StreamData, UFloat, Value,
};
use hls_m3u8::{MasterPlaylist, MediaPlaylist, RequiredVersion};

pub(crate) const PANIC: &str = "panic";
pub(crate) const ERR: &str = "err";
pub(crate) const BADINPUT: &str = "badinput";
pub(crate) const BADOP: &str = "badop";

// ---------------------------------------------------------------- protocol loop

fn main() {
    // Panics are results here, not diagnostics: keep stderr silent.
    std::panic::set_hook(Box::new(|_| {}));

    let path = match std::env::args_os().nth(1) {
        Some(p) => p,
        None => {
            eprintln!("usage: hls_harness <input-file>");
            std::process::exit(2);
        }
    };
    let bytes = match std::fs::read(&path) {
        Ok(b) => b,
        Err(e) => {
            eprintln!("hls_harness: cannot read {:?}: {}", path, e);
            std::process::exit(2);
        }
    };
    let input = String::from_utf8_lossy(&bytes);

    let stdout = io::stdout();
    let mut out = BufWriter::with_capacity(1 << 16, stdout.lock());

    for line in input.split('\n') {
        let line = line.strip_suffix('\r').unwrap_or(line);
        if line.is_empty() {
            continue;
        }
        let mut parts = line.split('\t');
        let id = parts.next().unwrap_or("");
        let op = parts.next().unwrap_or("");
        let args: Vec<&str> = parts.collect();

        let result = guard(|| dispatch(op, &args)).unwrap_or_else(|| PANIC.to_string());

        if out.write_all(id.as_bytes()).is_err()
            || out.write_all(b"\t").is_err()
            || out.write_all(result.as_bytes()).is_err()
            || out.write_all(b"\n").is_err()
        {
            return; // stdout closed
        }
    }
    let _ = out.flush();
}

/// One arm per op; every op is a `fn(&[&str]) -> String`.
fn dispatch(op: &str, args: &[&str]) -> String {
    match op {
        "media" => op_media(args),
        "timing" => op_timing(args),
        "master" => op_master(args),
        "media_excess" => op_media_excess(args),
        "media_fromstr" => op_media_fromstr(args),
        "tag" => op_tag(args),
        "own_media" => op_own::<Media>(args),
        "own_master" => op_own::<Master>(args),
        "repeat_media" => op_repeat::<Media>(args),
        "repeat_master" => op_repeat::<Master>(args),
        "bmedia" => builder::op_bmedia(args),
        "bmaster" => builder::op_bmaster(args),
        "bown" => builder::op_bown(args),
        "media_preset" => builder::op_media_preset(args),
        "media_twice" => op_media_twice(args),
        "master_twice" => op_master_twice(args),
        "media_remove" => op_media_remove(args),
        "media_set_mseq" => op_media_set_mseq(args),
        "eq_media" => op_eq::<Media>(args),
        "eq_master" => op_eq::<Master>(args),
        "laws" => laws::op_laws(args),
        "assoc" => laws::op_assoc(args),
        "btag" => builder::op_btag(args),
        "api" => api::op_api(args),
        // "decr_none": not implemented yet
        _ => BADOP.to_string(),
    }
}

// ---------------------------------------------------------------- helpers

/// Runs `f`, turning a panic into `None`.
pub(crate) fn guard<T>(f: impl FnOnce() -> T) -> Option<T> {
    catch_unwind(AssertUnwindSafe(f)).ok()
}

pub(crate) fn hex_digit(c: u8) -> Option<u8> {
    match c {
        b'0'..=b'9' => Some(c - b'0'),
        b'a'..=b'f' => Some(c - b'a' + 10),
        b'A'..=b'F' => Some(c - b'A' + 10),
        _ => None,
    }
}

/// Hex-encoded UTF-8 text argument number `i`.
pub(crate) fn text_arg(args: &[&str], i: usize) -> Option<String> {
    let hex = args.get(i)?.as_bytes();
    if hex.len() % 2 != 0 {
        return None;
    }
    let mut bytes = Vec::with_capacity(hex.len() / 2);
    for pair in hex.chunks_exact(2) {
        bytes.push(hex_digit(pair[0])? << 4 | hex_digit(pair[1])?);
    }
    String::from_utf8(bytes).ok()
}

/// Decimal argument number `i`.
pub(crate) fn num_arg<T: std::str::FromStr>(args: &[&str], i: usize) -> Option<T> {
    let a = args.get(i)?;
    if a.is_empty() || !a.bytes().all(|c| c.is_ascii_digit()) {
        return None;
    }
    a.parse().ok()
}

/// `to_string()` with its own panic guard.
fn display_guarded<T: fmt::Display>(x: &T) -> Option<String> {
    guard(|| x.to_string())
}

/// `TEXT`: `(text S)` or the bare atom `panic`.
fn push_text(out: &mut String, t: &Option<String>) {
    match t {
        Some(t) => observe::text(out, t),
        None => out.push_str(PANIC),
    }
}

// ---------------------------------------------------------------- playlists

/// The two playlist kinds, so that the playlist ops are written once.
pub(crate) trait Kind: 'static {
    type P<'a>: fmt::Display + RequiredVersion + Clone + PartialEq;
    /// Name of the result node of the round-trip ops.
    const RES: &'static str;
    /// `excess = None`: `TryFrom<&str>`; `Some(d)`: builder with that
    /// allowable excess duration (media playlists only).
    fn parse<'a>(excess: Option<Duration>, s: &'a str) -> Option<Self::P<'a>>;
    fn dump(p: &Self::P<'_>, out: &mut String);
    fn into_owned(p: Self::P<'_>) -> Self::P<'static>;
    fn eq_owned(x: &Self::P<'_>, o: &Self::P<'static>) -> bool;
}

pub(crate) struct Media;
pub(crate) struct Master;

impl Kind for Media {
    type P<'a> = MediaPlaylist<'a>;
    const RES: &'static str = "mres";

    fn parse<'a>(excess: Option<Duration>, s: &'a str) -> Option<MediaPlaylist<'a>> {
        match excess {
            None => MediaPlaylist::try_from(s).ok(),
            Some(d) => MediaPlaylist::builder()
                .allowable_excess_duration(d)
                .parse(s)
                .ok(),
        }
    }

    fn dump(p: &MediaPlaylist<'_>, out: &mut String) {
        observe::media_playlist(p, out);
    }

    fn into_owned(p: MediaPlaylist<'_>) -> MediaPlaylist<'static> {
        p.into_owned()
    }

    fn eq_owned(x: &MediaPlaylist<'_>, o: &MediaPlaylist<'static>) -> bool {
        x == o
    }
}

impl Kind for Master {
    type P<'a> = MasterPlaylist<'a>;
    const RES: &'static str = "ares";

    fn parse<'a>(_excess: Option<Duration>, s: &'a str) -> Option<MasterPlaylist<'a>> {
        MasterPlaylist::try_from(s).ok()
    }

    fn dump(p: &MasterPlaylist<'_>, out: &mut String) {
        observe::master_playlist(p, out);
    }

    fn into_owned(p: MasterPlaylist<'_>) -> MasterPlaylist<'static> {
        p.into_owned()
    }

    fn eq_owned(x: &MasterPlaylist<'_>, o: &MasterPlaylist<'static>) -> bool {
        x == o
    }
}

/// `err` | `panic` | `ok (RES DUMP (rv N) TEXT RE)`.
///
/// The re-parse uses the same parse function (same `excess`) as the first one.
fn roundtrip<K: Kind>(text: &str, excess: Option<Duration>) -> String {
    let x = match guard(|| K::parse(excess, text)) {
        None => return PANIC.to_string(),
        Some(None) => return ERR.to_string(),
        Some(Some(x)) => x,
    };
    value_result::<K>(&x, excess, text.len())
}

/// `ok (RES DUMP (rv N) TEXT RE)` for a value that was obtained somehow.
pub(crate) fn value_result<K: Kind>(x: &K::P<'_>, excess: Option<Duration>, size_hint: usize) -> String {
    let mut out = String::with_capacity(64 + size_hint * 8);
    out.push_str("ok (");
    out.push_str(K::RES);
    out.push(' ');
    K::dump(x, &mut out);
    out.push(' ');
    observe::rv(&mut out, x.required_version());
    out.push(' ');

    match display_guarded(x) {
        None => out.push_str("panic (re skipped)"),
        Some(t) => {
            observe::text(&mut out, &t);
            out.push(' ');
            match guard(|| K::parse(excess, &t)) {
                None => out.push_str("(re panic)"),
                Some(None) => out.push_str("(re err)"),
                Some(Some(y)) => {
                    out.push_str("(re ok ");
                    K::dump(&y, &mut out);
                    out.push(' ');
                    push_text(&mut out, &display_guarded(&y));
                    out.push(')');
                }
            }
        }
    }
    out.push(')');
    out
}

fn op_media(args: &[&str]) -> String {
    let Some(text) = text_arg(args, 0) else {
        return BADINPUT.to_string();
    };
    roundtrip::<Media>(&text, None)
}

/// `timing KIND TEXT` -> `ok (timing (parse_us N) (tostring_us N) (reparse_us N) (len N))` | `err` | `panic`:
/// wall time of the three steps alone (no dump), for the time-scaling measurement of C05.
fn op_timing(args: &[&str]) -> String {
    let (Some(kind), Some(text)) = (args.first().copied(), text_arg(args, 1)) else {
        return BADINPUT.to_string();
    };
    // Ok((parse, to_string, re-parse, text length)) | Err(parse time of a rejected input)
    let run = || -> Result<(u128, u128, u128, usize), u128> {
        use std::convert::TryFrom;
        let t0 = std::time::Instant::now();
        if kind == "master" {
            let p = hls_m3u8::MasterPlaylist::try_from(text.as_str()).map_err(|_| t0.elapsed().as_micros())?;
            let t1 = t0.elapsed().as_micros();
            let s = p.to_string();
            let t2 = t0.elapsed().as_micros();
            let _ = hls_m3u8::MasterPlaylist::try_from(s.as_str()).is_ok();
            let t3 = t0.elapsed().as_micros();
            Ok((t1, t2 - t1, t3 - t2, s.len()))
        } else {
            let p = MediaPlaylist::try_from(text.as_str()).map_err(|_| t0.elapsed().as_micros())?;
            let t1 = t0.elapsed().as_micros();
            let s = p.to_string();
            let t2 = t0.elapsed().as_micros();
            let _ = MediaPlaylist::try_from(s.as_str()).is_ok();
            let t3 = t0.elapsed().as_micros();
            Ok((t1, t2 - t1, t3 - t2, s.len()))
        }
    };
    match guard(run) {
        None => PANIC.to_string(),
        Some(Err(us)) => format!("err (timing (parse_us {}))", us),
        Some(Ok((a, b, c, n))) => format!("ok (timing (parse_us {}) (tostring_us {}) (reparse_us {}) (len {}))", a, b, c, n),
    }
}

fn op_master(args: &[&str]) -> String {
    let Some(text) = text_arg(args, 0) else {
        return BADINPUT.to_string();
    };
    roundtrip::<Master>(&text, None)
}

fn op_media_excess(args: &[&str]) -> String {
    let (Some(text), Some(ns)) = (text_arg(args, 0), num_arg::<u128>(args, 1)) else {
        return BADINPUT.to_string();
    };
    let Ok(secs) = u64::try_from(ns / 1_000_000_000) else {
        return BADINPUT.to_string();
    };
    let d = Duration::new(secs, (ns % 1_000_000_000) as u32);
    roundtrip::<Media>(&text, Some(d))
}

/// `media_twice TEXT1 TEXT2`: one `MediaPlaylist::builder()`, `parse(TEXT1)` (its
/// result, `Ok` or `Err`, is dropped), then `parse(TEXT2)` on the same builder.
/// `badinput` | `panic` (either parse) | `err` | `ok (mres …)` as the `media` op
/// prints the value of the second parse (the re-parse is a plain `try_from`).
fn op_media_twice(args: &[&str]) -> String {
    let (Some(t1), Some(t2)) = (text_arg(args, 0), text_arg(args, 1)) else {
        return BADINPUT.to_string();
    };
    if args.len() != 2 {
        return BADINPUT.to_string();
    }
    let mut b = MediaPlaylist::builder();
    if guard(|| {
        let _ = b.parse(&t1);
    })
    .is_none()
    {
        return PANIC.to_string();
    }
    let second = guard(|| b.parse(&t2));
    match second {
        None => PANIC.to_string(),
        Some(Err(_)) => ERR.to_string(),
        Some(Ok(x)) => value_result::<Media>(&x, None, t2.len()),
    }
}

/// `master_twice TEXT1 TEXT2`: `MasterPlaylist::try_from(TEXT1)` in this thread (its
/// result, `Ok` or `Err`, is dropped), then `MasterPlaylist::try_from(TEXT2)`.
/// Prints the second result as the `master` op does.
fn op_master_twice(args: &[&str]) -> String {
    let (Some(t1), Some(t2)) = (text_arg(args, 0), text_arg(args, 1)) else {
        return BADINPUT.to_string();
    };
    if args.len() != 2 {
        return BADINPUT.to_string();
    }
    if guard(|| {
        let _ = MasterPlaylist::try_from(t1.as_str());
    })
    .is_none()
    {
        return PANIC.to_string();
    }
    roundtrip::<Master>(&t2, None)
}

/// `media_remove TEXT I1 I2 ...`: `MediaPlaylist::try_from(TEXT)`, then
/// `playlist.segments.remove(i)` (public `StableVec` field) for every index in
/// order; a `None` result is ignored, and so is an index `StableVec::remove`
/// rejects by panicking (out of bounds): that call is guarded and counts as a
/// no-op.  `badinput` | `panic` | `err` | `ok (mres …)` of the mutated value
/// (dump, `required_version()`, `to_string()`, plain `try_from` of that text).
fn op_media_remove(args: &[&str]) -> String {
    let Some(text) = text_arg(args, 0) else {
        return BADINPUT.to_string();
    };
    let mut indices: Vec<usize> = Vec::with_capacity(args.len().saturating_sub(1));
    for i in 1..args.len() {
        let Some(index) = num_arg::<usize>(args, i) else {
            return BADINPUT.to_string();
        };
        indices.push(index);
    }
    let mut x = match guard(|| MediaPlaylist::try_from(text.as_str())) {
        None => return PANIC.to_string(),
        Some(Err(_)) => return ERR.to_string(),
        Some(Ok(x)) => x,
    };
    for index in indices {
        // Bounds are checked before anything is touched, so the value is
        // unchanged when the call panics.
        let _ = guard(|| {
            let _ = x.segments.remove(index);
        });
    }
    value_result::<Media>(&x, None, text.len())
}

/// `media_set_mseq TEXT N`: `MediaPlaylist::try_from(TEXT)`, then the public field
/// `media_sequence` is set to `N` (a window renumbered by hand).  `badinput` | `panic`
/// | `err` | `ok (mres …)` of the mutated value as `media_remove` prints it.
fn op_media_set_mseq(args: &[&str]) -> String {
    let (Some(text), Some(n)) = (text_arg(args, 0), num_arg::<usize>(args, 1)) else {
        return BADINPUT.to_string();
    };
    let mut x = match guard(|| MediaPlaylist::try_from(text.as_str())) {
        None => return PANIC.to_string(),
        Some(Err(_)) => return ERR.to_string(),
        Some(Ok(x)) => x,
    };
    x.media_sequence = n;
    value_result::<Media>(&x, None, text.len())
}

/// `eq_media TEXT1 TEXT2` / `eq_master TEXT1 TEXT2`: both texts parsed with a
/// plain `try_from`, compared with the playlist's own `PartialEq`.
/// `badinput` (not exactly two hex arguments) | `panic` | `err` (either parse
/// rejected) | `ok (eq B(x1==x2) DUMP1 DUMP2)`.
fn op_eq<K: Kind>(args: &[&str]) -> String {
    let (Some(t1), Some(t2)) = (text_arg(args, 0), text_arg(args, 1)) else {
        return BADINPUT.to_string();
    };
    if args.len() != 2 {
        return BADINPUT.to_string();
    }
    // One lifetime for both borrows, so that `x1 == x2` type-checks.
    let (t1, t2): (&str, &str) = (&t1, &t2);
    let (x1, x2) = match (guard(|| K::parse(None, t1)), guard(|| K::parse(None, t2))) {
        (None, _) | (_, None) => return PANIC.to_string(),
        (Some(None), _) | (_, Some(None)) => return ERR.to_string(),
        (Some(Some(x1)), Some(Some(x2))) => (x1, x2),
    };
    let Some(equal) = guard(|| x1 == x2) else {
        return PANIC.to_string();
    };
    let mut out = String::with_capacity(64 + (t1.len() + t2.len()) * 8);
    out.push_str("ok (eq ");
    observe::b(&mut out, equal);
    out.push(' ');
    K::dump(&x1, &mut out);
    out.push(' ');
    K::dump(&x2, &mut out);
    out.push(')');
    out
}

/// `ok MEDIA` | `err` | `panic`
fn op_media_fromstr(args: &[&str]) -> String {
    let Some(text) = text_arg(args, 0) else {
        return BADINPUT.to_string();
    };
    match guard(|| text.parse::<MediaPlaylist<'static>>()) {
        None => PANIC.to_string(),
        Some(Err(_)) => ERR.to_string(),
        Some(Ok(x)) => {
            let mut out = String::from("ok ");
            observe::media_playlist(&x, &mut out);
            out
        }
    }
}

/// `ok (own B(x==c) B(x==o) D(x) D(c) D(o) TEXT(x) TEXT(c) TEXT(o))` | `err` | `panic`
fn op_own<K: Kind>(args: &[&str]) -> String {
    let Some(text) = text_arg(args, 0) else {
        return BADINPUT.to_string();
    };
    let x = match guard(|| K::parse(None, &text)) {
        None => return PANIC.to_string(),
        Some(None) => return ERR.to_string(),
        Some(Some(x)) => x,
    };
    own_result::<K>(&x)
}

/// `ok (own …)` for a value that was obtained somehow (`own_media`, `own_master`, `bown`).
pub(crate) fn own_result<K: Kind>(x: &K::P<'_>) -> String {
    let c = x.clone();
    let o = K::into_owned(x.clone());

    let mut out = String::from("ok (own ");
    observe::b(&mut out, *x == c);
    out.push(' ');
    observe::b(&mut out, K::eq_owned(x, &o));
    out.push(' ');
    K::dump(x, &mut out);
    out.push(' ');
    K::dump(&c, &mut out);
    out.push(' ');
    K::dump(&o, &mut out);
    out.push(' ');
    push_text(&mut out, &display_guarded(x));
    out.push(' ');
    push_text(&mut out, &display_guarded(&c));
    out.push(' ');
    push_text(&mut out, &display_guarded(&o));
    out.push(')');
    out
}

/// One observation of a parse: the dump (or `err`/`panic`) and the text
/// (`None` when there is no value or `to_string` panicked).
type Observation = (String, Option<String>);

fn observe_value<K: Kind>(x: &K::P<'_>) -> Observation {
    let mut dump = String::new();
    K::dump(x, &mut dump);
    (dump, display_guarded(x))
}

fn observe_parse<K: Kind>(text: &str) -> Observation {
    match guard(|| K::parse(None, text)) {
        None => (PANIC.to_string(), None),
        Some(None) => (ERR.to_string(), None),
        Some(Some(x)) => observe_value::<K>(&x),
    }
}

/// `ok (rep B(dumps identical) B(texts identical) B(same-thread values ==) DUMP TEXT)`
/// | `err` | `panic`
fn op_repeat<K: Kind>(args: &[&str]) -> String {
    const SAME_THREAD_PARSES: usize = 4;

    let (Some(text), Some(threads)) = (text_arg(args, 0), num_arg::<usize>(args, 1)) else {
        return BADINPUT.to_string();
    };

    let first = match guard(|| K::parse(None, &text)) {
        None => return PANIC.to_string(),
        Some(None) => return ERR.to_string(),
        Some(Some(x)) => x,
    };
    let first_obs = observe_value::<K>(&first);

    let handles: Vec<_> = (0..threads)
        .map(|_| {
            let owned = text.clone();
            std::thread::spawn(move || observe_parse::<K>(&owned))
        })
        .collect();

    let mut others: Vec<Observation> = Vec::with_capacity(SAME_THREAD_PARSES - 1 + threads);
    let mut values_equal = true;
    for _ in 1..SAME_THREAD_PARSES {
        match guard(|| K::parse(None, &text)) {
            None => {
                values_equal = false;
                others.push((PANIC.to_string(), None));
            }
            Some(None) => {
                values_equal = false;
                others.push((ERR.to_string(), None));
            }
            Some(Some(x)) => {
                values_equal &= first == x;
                others.push(observe_value::<K>(&x));
            }
        }
    }
    for h in handles {
        others.push(h.join().unwrap_or_else(|_| (PANIC.to_string(), None)));
    }

    let dumps_equal = others.iter().all(|o| o.0 == first_obs.0);
    let texts_equal = others.iter().all(|o| o.1 == first_obs.1);

    let mut out = String::from("ok (rep ");
    observe::b(&mut out, dumps_equal);
    out.push(' ');
    observe::b(&mut out, texts_equal);
    out.push(' ');
    observe::b(&mut out, values_equal);
    out.push(' ');
    out.push_str(&first_obs.0);
    out.push(' ');
    push_text(&mut out, &first_obs.1);
    out.push(')');
    out
}

// ---------------------------------------------------------------- tag op

/// `err` | `panic` | `ok (t DUMP (text S) RE)` with
/// `RE = (re ok DUMP) | (re err) | (re panic)`.
///
/// `$s => $parse` is an expression of type `Result<T, _>` over the `&str`
/// named `$s`; it is expanded twice (input text, then `to_string()` output)
/// so that borrowed results get the right lifetime each time.
macro_rules! tag_case {
    ($text:expr, $s:ident => $parse:expr, $dump:path) => {{
        let $s: &str = $text;
        match guard(|| $parse) {
            None => PANIC.to_string(),
            Some(Err(_)) => ERR.to_string(),
            Some(Ok(v)) => {
                let mut out = String::from("ok (t ");
                $dump(&v, &mut out);
                out.push(' ');
                let printed = v.to_string();
                observe::text(&mut out, &printed);
                out.push(' ');
                let $s: &str = &printed;
                match guard(|| $parse) {
                    None => out.push_str("(re panic)"),
                    Some(Err(_)) => out.push_str("(re err)"),
                    Some(Ok(w)) => {
                        out.push_str("(re ok ");
                        $dump(&w, &mut out);
                        out.push(')');
                    }
                }
                out.push(')');
                out
            }
        }
    }};
}

fn op_tag(args: &[&str]) -> String {
    let Some(type_name) = args.first().copied() else {
        return BADINPUT.to_string();
    };
    let Some(text) = text_arg(args, 1) else {
        return BADINPUT.to_string();
    };
    let text: &str = &text;

    match type_name {
        "ExtInf" => tag_case!(text, s => ExtInf::try_from(s), observe::inf),
        "ExtXByteRange" => tag_case!(text, s => ExtXByteRange::try_from(s), observe::byte_range),
        "ByteRange" => tag_case!(text, s => ByteRange::try_from(s), observe::byte_range),
        "ExtXKey" => tag_case!(text, s => ExtXKey::try_from(s), observe::xkey),
        "ExtXMap" => tag_case!(text, s => ExtXMap::try_from(s), observe::map),
        "ExtXProgramDateTime" => {
            tag_case!(text, s => ExtXProgramDateTime::try_from(s), observe::program_date_time)
        }
        "ExtXDateRange" => tag_case!(text, s => ExtXDateRange::try_from(s), observe::date_range),
        "ExtXStart" => tag_case!(text, s => ExtXStart::try_from(s), observe::start),
        "ExtXMedia" => tag_case!(text, s => ExtXMedia::try_from(s), observe::ext_x_media),
        "VariantStream" => {
            tag_case!(text, s => VariantStream::try_from(s), observe::variant_stream)
        }
        "ExtXSessionData" => {
            tag_case!(text, s => ExtXSessionData::try_from(s), observe::session_data)
        }
        "ExtXSessionKey" => {
            tag_case!(text, s => ExtXSessionKey::try_from(s), observe::session_key)
        }
        "DecryptionKey" => tag_case!(text, s => DecryptionKey::try_from(s), observe::key),
        "Channels" => tag_case!(text, s => s.parse::<Channels>(), observe::channels),
        "Resolution" => tag_case!(text, s => s.parse::<Resolution>(), observe::resolution),
        "Codecs" => tag_case!(text, s => Codecs::try_from(s), observe::codecs),
        "ClosedCaptions" => {
            tag_case!(text, s => ClosedCaptions::try_from(s), observe::closed_captions)
        }
        "Float" => tag_case!(text, s => s.parse::<Float>(), observe::float),
        "UFloat" => tag_case!(text, s => s.parse::<UFloat>(), observe::ufloat),
        "InitializationVector" => {
            tag_case!(text, s => s.parse::<InitializationVector>(), observe::initialization_vector)
        }
        "KeyFormat" => {
            tag_case!(text, s => Ok::<_, ()>(KeyFormat::from(s)), observe::key_format)
        }
        "KeyFormatVersions" => {
            tag_case!(text, s => s.parse::<KeyFormatVersions>(), observe::key_format_versions)
        }
        "ProtocolVersion" => {
            tag_case!(text, s => s.parse::<ProtocolVersion>(), observe::protocol_version)
        }
        "ExtXVersion" => tag_case!(text, s => ExtXVersion::try_from(s), observe::ext_x_version),
        "PlaylistType" => tag_case!(text, s => PlaylistType::try_from(s), observe::playlist_type),
        "MediaType" => tag_case!(text, s => s.parse::<MediaType>(), observe::media_type),
        "HdcpLevel" => tag_case!(text, s => s.parse::<HdcpLevel>(), observe::hdcp_level),
        "EncryptionMethod" => {
            tag_case!(text, s => s.parse::<EncryptionMethod>(), observe::encryption_method)
        }
        "InStreamId" => tag_case!(text, s => s.parse::<InStreamId>(), observe::in_stream_id),
        "Value" => tag_case!(text, s => Value::try_from(s), observe::value),
        "StreamData" => tag_case!(text, s => StreamData::try_from(s), observe::stream_data),
        _ => BADOP.to_string(),
    }
}
