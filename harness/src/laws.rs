//! `laws` (Eq / Ord / Hash laws on three values) and `assoc` (rendition lookup).

use std::borrow::Cow;
use std::cmp::Ordering;
use std::collections::hash_map::DefaultHasher;
use std::convert::TryFrom;
use std::hash::{Hash, Hasher};

use hls_m3u8::tags::{
    ExtInf, ExtXDateRange, ExtXKey, ExtXMap, ExtXMedia, ExtXSessionData, ExtXSessionKey,
    ExtXStart, VariantStream,
};
use hls_m3u8::types::{
    ByteRange, Channels, ClosedCaptions, Codecs, DecryptionKey, Float, InitializationVector,
    KeyFormat, KeyFormatVersions, ProtocolVersion, Resolution, StreamData, UFloat, Value,
};
use hls_m3u8::{MasterPlaylist, MediaPlaylist};

use crate::builder::{build_segment, BADSCRIPT};
use crate::{guard, observe, text_arg, BADINPUT, BADOP, ERR, PANIC};

// ---------------------------------------------------------------- laws

/// `num:N` = `InitializationVector::Number(N)`, `missing` = `Missing` (values only the API can build), else `FromStr`.
fn iv_from(s: &str) -> Result<InitializationVector, ()> {
    if let Some(n) = s.strip_prefix("num:") {
        return n.parse::<u128>().map(InitializationVector::Number).map_err(|_| ());
    }
    if s == "missing" {
        return Ok(InitializationVector::Missing);
    }
    s.parse::<InitializationVector>().map_err(|_| ())
}

/// A key attribute list, optionally followed by `#ivnum=N`: the public field `iv` is then set to `Number(N)`.
fn key_from(s: &str) -> Result<DecryptionKey<'_>, ()> {
    let (text, num) = match s.split_once("#ivnum=") {
        Some((t, n)) => (t, Some(n.parse::<u128>().map_err(|_| ())?)),
        None => (s, None),
    };
    let mut k = DecryptionKey::try_from(text).map_err(|_| ())?;
    if let Some(n) = num {
        k.iv = InitializationVector::Number(n);
    }
    Ok(k)
}

/// `other:REST` = the variant `KeyFormat::Other(Cow::Owned(REST))` itself (a value only the API can build when REST is
/// a well-known format string), else `KeyFormat::from(&str)` (which normalises the well-known strings).
fn key_format_from(s: &str) -> KeyFormat<'_> {
    match s.strip_prefix("other:") {
        Some(rest) => KeyFormat::Other(Cow::Owned(rest.to_string())),
        None => KeyFormat::from(s),
    }
}

fn hash_of<T: Hash>(x: &T) -> u64 {
    let mut h = DefaultHasher::new();
    x.hash(&mut h);
    h.finish()
}

fn push_cmp(out: &mut String, o: Ordering) {
    out.push_str(match o {
        Ordering::Less => "lt",
        Ordering::Equal => "eq",
        Ordering::Greater => "gt",
    });
}

/// The four `E` fields, each followed by a space.
#[allow(clippy::eq_op)]
fn push_eqs<T: PartialEq + Clone>(out: &mut String, a: &T, b: &T) {
    for e in [a == b, b == a, a == a, *a == a.clone()] {
        observe::b(out, e);
        out.push(' ');
    }
}

fn push_dumps<T>(out: &mut String, a: &T, b: &T, c: &T, dump: impl Fn(&T, &mut String)) {
    dump(a, out);
    out.push(' ');
    dump(b, out);
    out.push(' ');
    dump(c, out);
}

/// `ok (laws E E E E C C C C C H H H DUMP DUMP DUMP)`
fn laws3<T: PartialEq + Ord + Hash + Clone>(
    a: &T,
    b: &T,
    c: &T,
    dump: impl Fn(&T, &mut String),
) -> String {
    let mut out = String::from("ok (laws ");
    push_eqs(&mut out, a, b);
    for o in [a.cmp(b), b.cmp(a), b.cmp(c), a.cmp(c), a.cmp(a)] {
        push_cmp(&mut out, o);
        out.push(' ');
    }
    for h in [
        hash_of(a) == hash_of(b),
        hash_of(b) == hash_of(c),
        hash_of(a) == hash_of(&a.clone()),
    ] {
        observe::b(&mut out, h);
        out.push(' ');
    }
    push_dumps(&mut out, a, b, c, dump);
    out.push(')');
    out
}

/// Same shape for a type without `Ord` / `Hash`: every `C` and `H` is `na`.
fn laws3_eq<T: PartialEq + Clone>(a: &T, b: &T, c: &T, dump: impl Fn(&T, &mut String)) -> String {
    let mut out = String::from("ok (laws ");
    push_eqs(&mut out, a, b);
    for _ in 0..8 {
        out.push_str("na ");
    }
    push_dumps(&mut out, a, b, c, dump);
    out.push(')');
    out
}

/// How a `KeyFormatVersions` law text failed.
pub(crate) enum KfvError {
    /// The `#k[+v]` suffix is not well formed (harness syntax) -> `badinput`.
    Syntax,
    /// `FromStr` rejected the versions part -> `err`.
    Parse,
}

/// `<versions>[#<k>[+<v>]][~<n>]`: `versions` is parsed with `FromStr` (or is
/// the literal `empty` = `KeyFormatVersions::new()`), then `.truncate(k)`, then
/// `.push(v)`, then `n` times `.pop()` (the text behind the last `~` of the
/// whole text).  The part of the buffer behind the length keeps stale data.
fn key_format_versions(text: &str) -> Result<KeyFormatVersions, KfvError> {
    key_format_versions_from(text, false)
}

/// The notation of [`key_format_versions`]; with `allow_new` (the `api` op)
/// the versions part may also be `new:a/b/c` (`new:` alone = no element):
/// `KeyFormatVersions::new()` followed by `push(a)`, `push(b)`, ... so that
/// lists `FromStr` would not produce (all zeros) can be built through the API.
pub(crate) fn key_format_versions_from(
    text: &str,
    allow_new: bool,
) -> Result<KeyFormatVersions, KfvError> {
    fn dec<T: std::str::FromStr>(s: &str) -> Result<T, KfvError> {
        if s.is_empty() || !s.bytes().all(|c| c.is_ascii_digit()) {
            return Err(KfvError::Syntax);
        }
        s.parse().map_err(|_| KfvError::Syntax)
    }

    // `~N` at the very end: N times `.pop()` after everything else.
    let (text, pops) = match text.rsplit_once('~') {
        Some((t, n)) => (t, dec::<usize>(n)?),
        None => (text, 0),
    };

    let (versions, suffix) = match text.split_once('#') {
        Some((v, s)) => (v, Some(s)),
        None => (text, None),
    };
    let edit = match suffix {
        None => None,
        Some(s) => Some(match s.split_once('+') {
            Some((k, v)) => (dec::<usize>(k)?, Some(dec::<u8>(v)?)),
            None => (dec::<usize>(s)?, None),
        }),
    };

    let pushed = if allow_new { versions.strip_prefix("new:") } else { None };
    let mut x = if versions == "empty" {
        KeyFormatVersions::new()
    } else if let Some(items) = pushed {
        let mut x = KeyFormatVersions::new();
        if !items.is_empty() {
            for item in items.split('/') {
                x.push(dec::<u8>(item)?);
            }
        }
        x
    } else {
        versions
            .parse::<KeyFormatVersions>()
            .map_err(|_| KfvError::Parse)?
    };
    if let Some((k, push)) = edit {
        x.truncate(k);
        if let Some(v) = push {
            x.push(v);
        }
    }
    for _ in 0..pops {
        let _ = x.pop();
    }
    Ok(x)
}

/// `$s => $parse` is an expression of type `Result<T, _>` over the `&str`
/// named `$s`; it is expanded once per text.
macro_rules! laws_case {
    ($laws:ident, $a:expr, $b:expr, $c:expr, $s:ident => $parse:expr, $dump:path) => {{
        let a = {
            let $s: &str = $a;
            $parse
        };
        let b = {
            let $s: &str = $b;
            $parse
        };
        let c = {
            let $s: &str = $c;
            $parse
        };
        match (a, b, c) {
            (Ok(a), Ok(b), Ok(c)) => $laws(&a, &b, &c, $dump),
            _ => ERR.to_string(),
        }
    }};
}

/// `laws <Type> <hexA> <hexB> <hexC>`:
/// `badinput` | `badop` | `err` | `panic` | `ok (laws …)`
pub(crate) fn op_laws(args: &[&str]) -> String {
    let Some(type_name) = args.first().copied() else {
        return BADINPUT.to_string();
    };
    let (Some(ta), Some(tb), Some(tc)) = (text_arg(args, 1), text_arg(args, 2), text_arg(args, 3))
    else {
        return BADINPUT.to_string();
    };
    let (ta, tb, tc): (&str, &str, &str) = (&ta, &tb, &tc);

    match type_name {
        "Float" => laws_case!(laws3, ta, tb, tc, s => s.parse::<Float>(), observe::float),
        "UFloat" => laws_case!(laws3, ta, tb, tc, s => s.parse::<UFloat>(), observe::ufloat),
        "ByteRange" => {
            laws_case!(laws3, ta, tb, tc, s => ByteRange::try_from(s), observe::byte_range)
        }
        "Channels" => laws_case!(laws3, ta, tb, tc, s => s.parse::<Channels>(), observe::channels),
        "Resolution" => {
            laws_case!(laws3, ta, tb, tc, s => s.parse::<Resolution>(), observe::resolution)
        }
        "Codecs" => laws_case!(laws3, ta, tb, tc, s => Codecs::try_from(s), observe::codecs),
        "ClosedCaptions" => {
            laws_case!(laws3, ta, tb, tc, s => ClosedCaptions::try_from(s), observe::closed_captions)
        }
        "KeyFormat" => {
            laws_case!(laws3, ta, tb, tc, s => Ok::<_, ()>(key_format_from(s)), observe::key_format)
        }
        "KeyFormatVersions" => {
            let parsed = [ta, tb, tc].map(key_format_versions);
            if parsed.iter().any(|r| matches!(r, Err(KfvError::Syntax))) {
                return BADINPUT.to_string();
            }
            match parsed {
                [Ok(a), Ok(b), Ok(c)] => laws3(&a, &b, &c, observe::key_format_versions),
                _ => ERR.to_string(),
            }
        }
        "InitializationVector" => {
            laws_case!(laws3, ta, tb, tc, s => iv_from(s), observe::initialization_vector)
        }
        "Value" => laws_case!(laws3, ta, tb, tc, s => Value::try_from(s), observe::value),
        "DecryptionKey" => {
            laws_case!(laws3, ta, tb, tc, s => key_from(s), observe::key)
        }
        "ExtXKey" => laws_case!(laws3, ta, tb, tc, s => ExtXKey::try_from(s), observe::xkey),
        "ExtInf" => laws_case!(laws3, ta, tb, tc, s => ExtInf::try_from(s), observe::inf),
        "ExtXMap" => laws_case!(laws3, ta, tb, tc, s => ExtXMap::try_from(s), observe::map),
        "ExtXDateRange" => {
            laws_case!(laws3, ta, tb, tc, s => ExtXDateRange::try_from(s), observe::date_range)
        }
        "ExtXStart" => laws_case!(laws3, ta, tb, tc, s => ExtXStart::try_from(s), observe::start),
        "ExtXMedia" => {
            laws_case!(laws3, ta, tb, tc, s => ExtXMedia::try_from(s), observe::ext_x_media)
        }
        "VariantStream" => {
            laws_case!(laws3, ta, tb, tc, s => VariantStream::try_from(s), observe::variant_stream)
        }
        "ExtXSessionData" => {
            laws_case!(laws3, ta, tb, tc, s => ExtXSessionData::try_from(s), observe::session_data)
        }
        "ExtXSessionKey" => {
            laws_case!(laws3, ta, tb, tc, s => ExtXSessionKey::try_from(s), observe::session_key)
        }
        "StreamData" => {
            laws_case!(laws3, ta, tb, tc, s => StreamData::try_from(s), observe::stream_data)
        }
        "ProtocolVersion" => {
            laws_case!(laws3, ta, tb, tc, s => s.parse::<ProtocolVersion>(), observe::protocol_version)
        }
        "MasterPlaylist" => {
            laws_case!(laws3, ta, tb, tc, s => MasterPlaylist::try_from(s), observe::master_playlist)
        }
        "MediaPlaylist" => {
            laws_case!(laws3_eq, ta, tb, tc, s => MediaPlaylist::try_from(s), observe::media_playlist)
        }
        "MediaSegment" => {
            // Each text is a mini script of segment-level builder commands
            // (`builder::build_segment`); script syntax errors are `badinput`.
            let built = [ta, tb, tc].map(|s| guard(|| build_segment(s)));
            if built.iter().any(|r| r.is_none()) {
                return PANIC.to_string();
            }
            if built.iter().any(|r| matches!(r, Some(Err(stop)) if *stop == BADSCRIPT)) {
                return BADINPUT.to_string();
            }
            match built {
                [Some(Ok(a)), Some(Ok(b)), Some(Ok(c))] => laws3(&a, &b, &c, observe::segment),
                _ => ERR.to_string(),
            }
        }
        _ => BADOP.to_string(),
    }
}

// ---------------------------------------------------------------- assoc

/// Position of `x` in `items` by pointer identity; `notfound` if it is not an
/// element of the slice (cannot happen for a reference handed out by the
/// playlist's own iterators).
fn push_index<T>(out: &mut String, items: &[T], x: &T) {
    match items.iter().position(|y| std::ptr::eq(y, x)) {
        Some(i) => observe::n(out, i as u64),
        None => out.push_str("notfound"),
    }
}

/// `assoc <hex master text>`:
/// `badinput` | `err` | `panic`
/// | `ok (assoc (v I*)… (audio J*) (video J*) (isassoc B))`
pub(crate) fn op_assoc(args: &[&str]) -> String {
    let Some(text) = text_arg(args, 0) else {
        return BADINPUT.to_string();
    };
    let p = match guard(|| MasterPlaylist::try_from(text.as_str())) {
        None => return PANIC.to_string(),
        Some(Err(_)) => return ERR.to_string(),
        Some(Ok(p)) => p,
    };

    let mut out = String::from("ok (assoc");
    let mut consistent = true;

    for variant in &p.variant_streams {
        out.push_str(" (v");
        let mut found: Vec<usize> = Vec::new();
        for media in p.associated_with(variant) {
            out.push(' ');
            push_index(&mut out, &p.media, media);
            match p.media.iter().position(|y| std::ptr::eq(y, media)) {
                Some(i) => found.push(i),
                None => consistent = false,
            }
        }
        out.push(')');

        let direct: Vec<usize> = (0..p.media.len())
            .filter(|&i| variant.is_associated(&p.media[i]))
            .collect();
        found.sort_unstable();
        found.dedup();
        consistent &= found == direct;
    }

    out.push_str(" (audio");
    for stream in p.audio_streams() {
        out.push(' ');
        push_index(&mut out, &p.variant_streams, stream);
    }
    out.push_str(") (video");
    for stream in p.video_streams() {
        out.push(' ');
        push_index(&mut out, &p.variant_streams, stream);
    }
    out.push_str(") (isassoc ");
    observe::b(&mut out, consistent);
    out.push_str("))");
    out
}
