//! Canonical observation dumps.  The grammar is in `../DUMP.md`; the Coq side
//! (`coq/Model/Dump.v`) must produce byte-identical text.
//!
//! Every printer appends to an output `String` and never emits leading or
//! trailing spaces itself; separators are written by the caller.

use std::fmt::Write;
use std::time::Duration;

use hls_m3u8::tags::{
    ExtInf, ExtXDateRange, ExtXKey, ExtXMap, ExtXMedia, ExtXProgramDateTime, ExtXSessionData,
    ExtXSessionKey, ExtXStart, ExtXVersion, SessionData, VariantStream,
};
use hls_m3u8::types::{
    ByteRange, Channels, ClosedCaptions, Codecs, DecryptionKey, EncryptionMethod, Float,
    HdcpLevel, InStreamId, InitializationVector, KeyFormat, KeyFormatVersions, MediaType,
    PlaylistType, ProtocolVersion, Resolution, StreamData, UFloat, Value,
};
use hls_m3u8::{Decryptable, MasterPlaylist, MediaPlaylist, MediaSegment};

// ---------------------------------------------------------------- atoms

/// `S(x)`
pub fn s(out: &mut String, x: &str) {
    out.push('s');
    let mut first = true;
    for c in x.chars() {
        if !first {
            out.push('.');
        }
        first = false;
        let _ = write!(out, "{}", c as u32);
    }
}

/// `N(x)`
pub fn n<T: Into<u128>>(out: &mut String, x: T) {
    let _ = write!(out, "{}", x.into());
}

fn n_usize(out: &mut String, x: usize) {
    let _ = write!(out, "{}", x);
}

/// `B(x)`
pub fn b(out: &mut String, x: bool) {
    out.push(if x { '1' } else { '0' });
}

/// `F(x)`
fn f(out: &mut String, x: f32) {
    n(out, x.to_bits());
}

/// `D(x)`
fn d(out: &mut String, x: Duration) {
    n(out, x.as_nanos());
}

/// `O(x)`
fn o<T>(out: &mut String, x: Option<T>, item: impl FnOnce(&mut String, T)) {
    match x {
        None => out.push_str("none"),
        Some(v) => item(out, v),
    }
}

/// `(name item item ...)`; `(name)` when empty.
fn list<T>(
    out: &mut String,
    name: &str,
    items: impl IntoIterator<Item = T>,
    mut item: impl FnMut(&mut String, T),
) {
    out.push('(');
    out.push_str(name);
    for x in items {
        out.push(' ');
        item(out, x);
    }
    out.push(')');
}

/// `(name <content>)`
fn field(out: &mut String, name: &str, content: impl FnOnce(&mut String)) {
    out.push('(');
    out.push_str(name);
    out.push(' ');
    content(out);
    out.push(')');
}

fn sp(out: &mut String) {
    out.push(' ');
}

/// `(text S)`
pub fn text(out: &mut String, x: &str) {
    field(out, "text", |out| s(out, x));
}

// ---------------------------------------------------------------- small types

/// `(f F)`
pub fn float(x: &Float, out: &mut String) {
    field(out, "f", |out| f(out, x.as_f32()));
}

/// `(uf F)`
pub fn ufloat(x: &UFloat, out: &mut String) {
    field(out, "uf", |out| f(out, x.as_f32()));
}

pub fn protocol_version_number(x: ProtocolVersion) -> u32 {
    match x {
        ProtocolVersion::V1 => 1,
        ProtocolVersion::V2 => 2,
        ProtocolVersion::V3 => 3,
        ProtocolVersion::V4 => 4,
        ProtocolVersion::V5 => 5,
        ProtocolVersion::V6 => 6,
        ProtocolVersion::V7 => 7,
        // non_exhaustive
        _ => 0,
    }
}

/// `(pv N)`
pub fn protocol_version(x: &ProtocolVersion, out: &mut String) {
    field(out, "pv", |out| n(out, protocol_version_number(*x)));
}

/// `(pv N)`
pub fn ext_x_version(x: &ExtXVersion, out: &mut String) {
    protocol_version(&x.version(), out);
}

/// `(rv N)`
pub fn rv(out: &mut String, x: ProtocolVersion) {
    field(out, "rv", |out| n(out, protocol_version_number(x)));
}

/// `PT` for a present playlist type.
pub fn playlist_type(x: &PlaylistType, out: &mut String) {
    out.push_str(match x {
        PlaylistType::Event => "event",
        PlaylistType::Vod => "vod",
    });
}

/// `MT`
pub fn media_type(x: &MediaType, out: &mut String) {
    out.push_str(match x {
        MediaType::Audio => "audio",
        MediaType::Video => "video",
        MediaType::Subtitles => "subtitles",
        MediaType::ClosedCaptions => "cc",
        _ => "unknownmediatype",
    });
}

/// `HDCP`
pub fn hdcp_level(x: &HdcpLevel, out: &mut String) {
    out.push_str(match x {
        HdcpLevel::Type0 => "type0",
        HdcpLevel::None => "hnone",
        _ => "unknownhdcp",
    });
}

/// `METHOD`
pub fn encryption_method(x: &EncryptionMethod, out: &mut String) {
    out.push_str(match x {
        EncryptionMethod::Aes128 => "aes128",
        EncryptionMethod::SampleAes => "sampleaes",
        _ => "unknownmethod",
    });
}

/// `ID`
pub fn in_stream_id(x: &InStreamId, out: &mut String) {
    let _ = write!(out, "{}", x);
}

/// `CH`
pub fn channels(x: &Channels, out: &mut String) {
    out.push_str("(ch ");
    n(out, x.number());
    sp(out);
    b(out, x.has_joc_content());
    out.push(')');
}

/// `RES`
pub fn resolution(x: &Resolution, out: &mut String) {
    out.push_str("(x ");
    n_usize(out, x.width());
    sp(out);
    n_usize(out, x.height());
    out.push(')');
}

/// `CODECS`
pub fn codecs(x: &Codecs<'_>, out: &mut String) {
    list(out, "c", x.iter(), |out, c| s(out, c));
}

/// `CC`
pub fn closed_captions(x: &ClosedCaptions<'_>, out: &mut String) {
    match x {
        ClosedCaptions::None => out.push_str("ccnone"),
        ClosedCaptions::GroupId(g) => field(out, "ccgroup", |out| s(out, g)),
        _ => out.push_str("unknowncc"),
    }
}

/// `IV`
pub fn initialization_vector(x: &InitializationVector, out: &mut String) {
    match x {
        InitializationVector::Missing => out.push_str("missing"),
        InitializationVector::Aes128(bytes) => {
            field(out, "aes", |out| n(out, u128::from_be_bytes(*bytes)))
        }
        InitializationVector::Number(num) => field(out, "num", |out| n(out, *num)),
        _ => out.push_str("unknowniv"),
    }
}

/// `KF`
pub fn key_format(x: &KeyFormat<'_>, out: &mut String) {
    match x {
        KeyFormat::Identity => out.push_str("identity"),
        KeyFormat::FairPlay => out.push_str("fairplay"),
        KeyFormat::Widevine => out.push_str("widevine"),
        KeyFormat::PlayReady => out.push_str("playready"),
        KeyFormat::Other(v) => field(out, "other", |out| s(out, v)),
        _ => out.push_str("unknownkf"),
    }
}

/// `VERS`
pub fn key_format_versions(x: &KeyFormatVersions, out: &mut String) {
    let used: &[u8] = x.as_ref();
    list(out, "v", used.iter(), |out, v| n(out, *v));
}

/// `VALUE`
pub fn value(x: &Value<'_>, out: &mut String) {
    match x {
        Value::String(v) => field(out, "vs", |out| s(out, v)),
        Value::Hex(bytes) => list(out, "vh", bytes.iter(), |out, v| n(out, *v)),
        Value::Float(v) => field(out, "vf", |out| f(out, v.as_f32())),
        _ => out.push_str("unknownvalue"),
    }
}

/// `R`
pub fn byte_range(x: &ByteRange, out: &mut String) {
    out.push_str("(r ");
    o(out, x.start(), n_usize);
    sp(out);
    n_usize(out, x.end());
    out.push(')');
}

/// `START`
pub fn start(x: &ExtXStart, out: &mut String) {
    out.push_str("(start ");
    f(out, x.time_offset().as_f32());
    sp(out);
    b(out, x.is_precise());
    out.push(')');
}

// ---------------------------------------------------------------- keys

/// `KEY`
pub fn key(x: &DecryptionKey<'_>, out: &mut String) {
    out.push_str("(key ");
    field(out, "method", |out| encryption_method(&x.method, out));
    sp(out);
    field(out, "uri", |out| s(out, x.uri()));
    sp(out);
    field(out, "iv", |out| initialization_vector(&x.iv, out));
    sp(out);
    field(out, "format", |out| {
        o(out, x.format.as_ref(), |out, v| key_format(v, out))
    });
    sp(out);
    field(out, "versions", |out| {
        o(out, x.versions.as_ref(), |out, v| key_format_versions(v, out))
    });
    out.push(')');
}

/// `XKEY`
pub fn xkey(x: &ExtXKey<'_>, out: &mut String) {
    match &x.0 {
        None => out.push_str("(nokey)"),
        Some(k) => key(k, out),
    }
}

/// `KEY` of the wrapped key.
pub fn session_key(x: &ExtXSessionKey<'_>, out: &mut String) {
    key(&x.0, out);
}

/// `(dlen N) (dfirst O(KEY))`
fn decryptable<'a, T: Decryptable<'a>>(x: &T, out: &mut String) {
    field(out, "dlen", |out| n_usize(out, Decryptable::len(x)));
    sp(out);
    field(out, "dfirst", |out| {
        o(out, Decryptable::first_key(x), |out, k| key(k, out))
    });
}

// ---------------------------------------------------------------- segment tags

/// `(inf D O(S))`
pub fn inf(x: &ExtInf<'_>, out: &mut String) {
    out.push_str("(inf ");
    d(out, x.duration());
    sp(out);
    o(out, x.title().as_deref(), s);
    out.push(')');
}

/// `(pdt S)`
pub fn program_date_time(x: &ExtXProgramDateTime<'_>, out: &mut String) {
    field(out, "pdt", |out| s(out, &x.date_time));
}

/// `MAP`
///
/// `ExtXMap` has no public accessor for its raw `keys` field (the shorthand
/// getter is skipped), so `(keys ...)` lists `Decryptable::keys(&map)`, each
/// as `KEY` (there are no `(nokey)` entries).
pub fn map(x: &ExtXMap<'_>, out: &mut String) {
    out.push_str("(map ");
    field(out, "uri", |out| s(out, x.uri()));
    sp(out);
    field(out, "range", |out| {
        o(out, x.range(), |out, r| byte_range(&r, out))
    });
    sp(out);
    list(out, "keys", Decryptable::keys(x), |out, k| key(k, out));
    sp(out);
    decryptable(x, out);
    out.push(')');
}

/// `DR`
pub fn date_range(x: &ExtXDateRange<'_>, out: &mut String) {
    out.push_str("(dr ");
    field(out, "id", |out| s(out, x.id()));
    sp(out);
    field(out, "class", |out| o(out, x.class().map(|v| &**v), s));
    sp(out);
    field(out, "sdate", |out| {
        o(out, x.start_date().map(|v| &**v), s)
    });
    sp(out);
    field(out, "edate", |out| o(out, x.end_date().map(|v| &**v), s));
    sp(out);
    field(out, "dur", |out| o(out, x.duration, d));
    sp(out);
    field(out, "planned", |out| o(out, x.planned_duration, d));
    sp(out);
    field(out, "cmd", |out| o(out, x.scte35_cmd().map(|v| &**v), s));
    sp(out);
    field(out, "out", |out| o(out, x.scte35_out().map(|v| &**v), s));
    sp(out);
    field(out, "in", |out| o(out, x.scte35_in().map(|v| &**v), s));
    sp(out);
    field(out, "eon", |out| b(out, x.end_on_next));
    sp(out);
    list(out, "client", x.client_attributes.iter(), |out, (k, v)| {
        out.push_str("(ca ");
        s(out, k);
        sp(out);
        value(v, out);
        out.push(')');
    });
    out.push(')');
}

/// `SEG`
pub fn segment(x: &MediaSegment<'_>, out: &mut String) {
    out.push_str("(seg ");
    field(out, "num", |out| n_usize(out, x.number()));
    sp(out);
    field(out, "uri", |out| s(out, x.uri()));
    sp(out);
    field(out, "dur", |out| d(out, x.duration.duration()));
    sp(out);
    field(out, "title", |out| o(out, x.duration.title().as_deref(), s));
    sp(out);
    field(out, "disc", |out| b(out, x.has_discontinuity));
    sp(out);
    field(out, "pdt", |out| {
        o(out, x.program_date_time.as_ref(), |out, v| s(out, &v.date_time))
    });
    sp(out);
    field(out, "range", |out| {
        o(out, x.byte_range.as_ref(), |out, v| byte_range(v, out))
    });
    sp(out);
    field(out, "map", |out| o(out, x.map.as_ref(), |out, v| map(v, out)));
    sp(out);
    field(out, "daterange", |out| {
        o(out, x.date_range.as_ref(), |out, v| date_range(v, out))
    });
    sp(out);
    list(out, "keys", x.keys.iter(), |out, k| xkey(k, out));
    sp(out);
    decryptable(x, out);
    out.push(')');
}

/// `MEDIA`
pub fn media_playlist(x: &MediaPlaylist<'_>, out: &mut String) {
    out.push_str("(media ");
    field(out, "target", |out| d(out, x.target_duration));
    sp(out);
    field(out, "mseq", |out| n_usize(out, x.media_sequence));
    sp(out);
    field(out, "dseq", |out| n_usize(out, x.discontinuity_sequence));
    sp(out);
    field(out, "ptype", |out| {
        o(out, x.playlist_type.as_ref(), |out, v| playlist_type(v, out))
    });
    sp(out);
    field(out, "iframes", |out| b(out, x.has_i_frames_only));
    sp(out);
    field(out, "indep", |out| b(out, x.has_independent_segments));
    sp(out);
    field(out, "start", |out| {
        o(out, x.start.as_ref(), |out, v| start(v, out))
    });
    sp(out);
    field(out, "endlist", |out| b(out, x.has_end_list));
    sp(out);
    field(out, "excess", |out| d(out, x.allowable_excess_duration));
    sp(out);
    list(out, "unknown", x.unknown.iter(), |out, v| s(out, v));
    sp(out);
    list(out, "segs", x.segments.values(), |out, v| segment(v, out));
    out.push(')');
}

// ---------------------------------------------------------------- master playlist

/// `XM`
pub fn ext_x_media(x: &ExtXMedia<'_>, out: &mut String) {
    out.push_str("(m ");
    field(out, "type", |out| media_type(&x.media_type, out));
    sp(out);
    field(out, "uri", |out| o(out, x.uri().map(|v| &**v), s));
    sp(out);
    field(out, "group", |out| s(out, x.group_id()));
    sp(out);
    field(out, "lang", |out| o(out, x.language().map(|v| &**v), s));
    sp(out);
    field(out, "assoc", |out| {
        o(out, x.assoc_language().map(|v| &**v), s)
    });
    sp(out);
    field(out, "name", |out| s(out, x.name()));
    sp(out);
    field(out, "default", |out| b(out, x.is_default));
    sp(out);
    field(out, "autoselect", |out| b(out, x.is_autoselect));
    sp(out);
    field(out, "forced", |out| b(out, x.is_forced));
    sp(out);
    field(out, "instream", |out| {
        o(out, x.instream_id.as_ref(), |out, v| in_stream_id(v, out))
    });
    sp(out);
    field(out, "chars", |out| {
        o(out, x.characteristics().map(|v| &**v), s)
    });
    sp(out);
    field(out, "channels", |out| {
        o(out, x.channels.as_ref(), |out, v| channels(v, out))
    });
    out.push(')');
}

/// `SDT`
pub fn stream_data(x: &StreamData<'_>, out: &mut String) {
    out.push_str("(sd ");
    field(out, "bw", |out| n(out, x.bandwidth()));
    sp(out);
    field(out, "avg", |out| o(out, x.average_bandwidth(), n::<u64>));
    sp(out);
    field(out, "codecs", |out| {
        o(out, x.codecs(), |out, v| codecs(v, out))
    });
    sp(out);
    field(out, "res", |out| {
        o(out, x.resolution(), |out, v| resolution(&v, out))
    });
    sp(out);
    field(out, "hdcp", |out| {
        o(out, x.hdcp_level(), |out, v| hdcp_level(&v, out))
    });
    sp(out);
    field(out, "video", |out| o(out, x.video().map(|v| &**v), s));
    out.push(')');
}

/// `VS`
pub fn variant_stream(x: &VariantStream<'_>, out: &mut String) {
    match x {
        VariantStream::ExtXIFrame { uri, stream_data: sd } => {
            out.push_str("(iframe ");
            field(out, "uri", |out| s(out, uri));
            sp(out);
            stream_data(sd, out);
            out.push(')');
        }
        VariantStream::ExtXStreamInf {
            uri,
            frame_rate,
            audio,
            subtitles,
            closed_captions: cc,
            stream_data: sd,
        } => {
            out.push_str("(streaminf ");
            field(out, "uri", |out| s(out, uri));
            sp(out);
            field(out, "fr", |out| {
                o(out, frame_rate.as_ref(), |out, v| f(out, v.as_f32()))
            });
            sp(out);
            field(out, "audio", |out| o(out, audio.as_deref(), s));
            sp(out);
            field(out, "subs", |out| o(out, subtitles.as_deref(), s));
            sp(out);
            field(out, "cc", |out| {
                o(out, cc.as_ref(), |out, v| closed_captions(v, out))
            });
            sp(out);
            stream_data(sd, out);
            out.push(')');
        }
    }
}

/// `SD`
pub fn session_data(x: &ExtXSessionData<'_>, out: &mut String) {
    out.push_str("(sdat ");
    field(out, "id", |out| s(out, x.data_id()));
    sp(out);
    match &x.data {
        SessionData::Value(v) => field(out, "value", |out| s(out, v)),
        SessionData::Uri(v) => field(out, "uri", |out| s(out, v)),
    }
    sp(out);
    field(out, "lang", |out| o(out, x.language().map(|v| &**v), s));
    out.push(')');
}

/// `MASTER`
pub fn master_playlist(x: &MasterPlaylist<'_>, out: &mut String) {
    out.push_str("(master ");
    field(out, "indep", |out| b(out, x.has_independent_segments));
    sp(out);
    field(out, "start", |out| {
        o(out, x.start.as_ref(), |out, v| start(v, out))
    });
    sp(out);
    list(out, "media", x.media.iter(), |out, v| ext_x_media(v, out));
    sp(out);
    list(out, "variants", x.variant_streams.iter(), |out, v| {
        variant_stream(v, out)
    });
    sp(out);
    list(out, "sdata", x.session_data.iter(), |out, v| {
        session_data(v, out)
    });
    sp(out);
    list(out, "skeys", x.session_keys.iter(), |out, v| key(&v.0, out));
    sp(out);
    list(out, "unknown", x.unknown_tags.iter(), |out, v| s(out, v));
    out.push(')');
}
