//! `api KIND ARG...`: values built through the public constructors / enum
//! variants / `From` impls / public fields of the library (never by parsing
//! text), then observed: `clone`, `into_owned`, `Display`, re-parse.
//!
//! `ok (api B(x==x.clone()) B(x==owned) DUMP(x) DUMP(owned) TEXT(x) TEXT(owned) RE (reeq B(x==reparsed)|na))`
//! | `panic` | `badinput` | `badop` (| `err` for `kfv` only).
//!
//! `owned = x.clone().into_owned()`, or a second clone for the types without
//! `into_owned`.  Dump function and text parser of every type are the ones the
//! `tag` op uses for the type of the same name.  String arguments are
//! hex-encoded UTF-8, numbers are decimal; the number of arguments is checked.

use std::borrow::Cow;
use std::convert::TryFrom;
use std::time::Duration;

use hls_m3u8::tags::{
    ExtInf, ExtXDateRange, ExtXKey, ExtXMap, ExtXMedia, ExtXSessionData, ExtXSessionKey,
    ExtXStart, SessionData, VariantStream,
};
use hls_m3u8::types::{KeyFormat, 
    ByteRange, Channels, Codecs, DecryptionKey, EncryptionMethod, Float, InitializationVector,
    KeyFormatVersions, MediaType, Resolution, StreamData, Value,
};

use crate::laws::{key_format_versions_from, KfvError};
use crate::{guard, hex_digit, num_arg, observe, text_arg, BADINPUT, BADOP, ERR, PANIC};

// ---------------------------------------------------------------- arguments

/// Argument number `i` as raw bytes: an even number of hex digits.
fn bytes_arg(args: &[&str], i: usize) -> Option<Vec<u8>> {
    let hex = args.get(i)?.as_bytes();
    if hex.len() % 2 != 0 {
        return None;
    }
    let mut bytes = Vec::with_capacity(hex.len() / 2);
    for pair in hex.chunks_exact(2) {
        bytes.push(hex_digit(pair[0])? << 4 | hex_digit(pair[1])?);
    }
    Some(bytes)
}

/// Hex string argument naming an `EncryptionMethod` variant.
fn method_arg(args: &[&str], i: usize) -> Option<EncryptionMethod> {
    match text_arg(args, i)?.as_str() {
        "AES-128" => Some(EncryptionMethod::Aes128),
        "SAMPLE-AES" => Some(EncryptionMethod::SampleAes),
        _ => None,
    }
}

/// Hex string argument naming a `MediaType` variant.
fn media_type_arg(args: &[&str], i: usize) -> Option<MediaType> {
    match text_arg(args, i)?.as_str() {
        "AUDIO" => Some(MediaType::Audio),
        "VIDEO" => Some(MediaType::Video),
        "SUBTITLES" => Some(MediaType::Subtitles),
        "CLOSED-CAPTIONS" => Some(MediaType::ClosedCaptions),
        _ => None,
    }
}

/// Hex string argument holding an `f32` in the syntax of `f32::from_str`.
fn f32_arg(args: &[&str], i: usize) -> Option<f32> {
    text_arg(args, i)?.parse::<f32>().ok()
}

// ---------------------------------------------------------------- observation

/// `$build` is the constructor expression (run under `guard`: a panic is the
/// result `panic`); `$v => $own` turns the clone named `$v` into the owned
/// value; `$s => $parse` / `$dump` are as in `tag_case!` of `main.rs`.
///
/// Like the `tag` op, `to_string()` is not guarded on its own: a panicking
/// `Display` (or `clone` / `==` / `into_owned`) makes the whole result `panic`
/// through the guard around `dispatch`.
macro_rules! api_case {
    ($build:expr, $v:ident => $own:expr, $s:ident => $parse:expr, $dump:path) => {{
        match guard(|| $build) {
            None => PANIC.to_string(),
            Some(x) => {
                #[allow(clippy::clone_on_copy)]
                let c = x.clone();
                #[allow(clippy::clone_on_copy)]
                let owned = {
                    let $v = x.clone();
                    $own
                };
                let mut out = String::from("ok (api ");
                observe::b(&mut out, x == c);
                out.push(' ');
                observe::b(&mut out, x == owned);
                out.push(' ');
                $dump(&x, &mut out);
                out.push(' ');
                $dump(&owned, &mut out);
                out.push(' ');
                let printed = x.to_string();
                observe::text(&mut out, &printed);
                out.push(' ');
                let printed_owned = owned.to_string();
                observe::text(&mut out, &printed_owned);
                out.push(' ');
                let $s: &str = &printed;
                // `(reeq B)`: the type's own `==` between `x` and the re-parsed
                // value; `na` when there is no re-parsed value.
                match guard(|| $parse) {
                    None => out.push_str("(re panic) (reeq na)"),
                    Some(Err(_)) => out.push_str("(re err) (reeq na)"),
                    Some(Ok(w)) => {
                        out.push_str("(re ok ");
                        $dump(&w, &mut out);
                        out.push_str(") (reeq ");
                        observe::b(&mut out, x == w);
                        out.push(')');
                    }
                }
                out.push(')');
                out
            }
        }
    }};
}

// One macro per type: owned value, text parser and dump function of the `tag`
// op's type of the same name.

macro_rules! value_case {
    ($build:expr) => {
        api_case!($build, v => v.into_owned(), s => Value::try_from(s), observe::value)
    };
}
macro_rules! inf_case {
    ($build:expr) => {
        api_case!($build, v => v.into_owned(), s => ExtInf::try_from(s), observe::inf)
    };
}
macro_rules! map_case {
    ($build:expr) => {
        api_case!($build, v => v.into_owned(), s => ExtXMap::try_from(s), observe::map)
    };
}
macro_rules! media_case {
    ($build:expr) => {
        api_case!($build, v => v.into_owned(), s => ExtXMedia::try_from(s), observe::ext_x_media)
    };
}
macro_rules! session_data_case {
    ($build:expr) => {
        api_case!($build, v => v.into_owned(), s => ExtXSessionData::try_from(s), observe::session_data)
    };
}
macro_rules! date_range_case {
    ($build:expr) => {
        api_case!($build, v => v.into_owned(), s => ExtXDateRange::try_from(s), observe::date_range)
    };
}
macro_rules! xkey_case {
    ($build:expr) => {
        api_case!($build, v => v.into_owned(), s => ExtXKey::try_from(s), observe::xkey)
    };
}
macro_rules! session_key_case {
    ($build:expr) => {
        api_case!($build, v => v.into_owned(), s => ExtXSessionKey::try_from(s), observe::session_key)
    };
}
macro_rules! stream_data_case {
    ($build:expr) => {
        api_case!($build, v => v.into_owned(), s => StreamData::try_from(s), observe::stream_data)
    };
}
macro_rules! codecs_case {
    ($build:expr) => {
        api_case!($build, v => v.into_owned(), s => Codecs::try_from(s), observe::codecs)
    };
}
macro_rules! variant_stream_case {
    ($build:expr) => {
        api_case!($build, v => v.into_owned(), s => VariantStream::try_from(s), observe::variant_stream)
    };
}
// No `into_owned` (all `Copy`): owned = a second clone.
macro_rules! start_case {
    ($build:expr) => {
        api_case!($build, v => v, s => ExtXStart::try_from(s), observe::start)
    };
}
macro_rules! resolution_case {
    ($build:expr) => {
        api_case!($build, v => v, s => s.parse::<Resolution>(), observe::resolution)
    };
}
macro_rules! channels_case {
    ($build:expr) => {
        api_case!($build, v => v, s => s.parse::<Channels>(), observe::channels)
    };
}
macro_rules! byte_range_case {
    ($build:expr) => {
        api_case!($build, v => v, s => ByteRange::try_from(s), observe::byte_range)
    };
}
macro_rules! kfv_case {
    ($build:expr) => {
        api_case!($build, v => v, s => s.parse::<KeyFormatVersions>(), observe::key_format_versions)
    };
}
macro_rules! iv_case {
    ($build:expr) => {
        api_case!($build, v => v, s => s.parse::<InitializationVector>(), observe::initialization_vector)
    };
}

// ---------------------------------------------------------------- the op

/// `let PATTERN = EXPR else badinput`
macro_rules! need {
    ($p:pat = $e:expr) => {
        let $p = $e else {
            return BADINPUT.to_string();
        };
    };
}

pub(crate) fn op_api(args: &[&str]) -> String {
    let Some(kind) = args.first().copied() else {
        return BADINPUT.to_string();
    };
    // Number of arguments behind KIND; `None`: one or more (`codecs`).
    let arity: Option<usize> = match kind {
        "iv_missing" => Some(0),
        "value_string" | "value_from_string" | "value_hex" | "value_float" | "inf" | "map"
        | "stream_data" | "start_new" | "channels" | "byte_range_to" | "kfv" | "iv_number"
        | "iv_aes" | "key_format_other" => Some(1),
        "inf_title" | "map_range_to" | "session_data_value" | "session_data_uri" | "daterange"
        | "key" | "session_key" | "start" | "resolution" | "byte_range" | "iframe"
        | "streaminf" => Some(2),
        "map_range" | "media" | "session_data_lang" | "key_iv_number" => Some(3),
        "daterange_client" => Some(4),
        "codecs" => None,
        _ => return BADOP.to_string(),
    };
    match arity {
        Some(n) if args.len() != n + 1 => return BADINPUT.to_string(),
        None if args.len() < 2 => return BADINPUT.to_string(),
        _ => {}
    }

    match kind {
        // ------------------------------------------------------------ Value
        "value_string" => {
            need!(Some(s) = text_arg(args, 1));
            // the enum variant itself, not `From<String>` (which unquotes)
            value_case!(Value::String(Cow::Owned(s)))
        }
        "value_from_string" => {
            need!(Some(s) = text_arg(args, 1));
            value_case!(Value::from(s))
        }
        "value_hex" => {
            // Any byte sequence (a superset of "the bytes of a UTF-8 string").
            need!(Some(bytes) = bytes_arg(args, 1));
            value_case!(Value::from(bytes))
        }
        "value_float" => {
            need!(Some(x) = f32_arg(args, 1));
            // There is no `From<f32> for Value` (`f32: Into<Float>` does not
            // hold); the closest public path is `Float::new` (panics for NaN
            // and the infinities) followed by `Value::from(Float)`.
            value_case!(Value::from(Float::new(x)))
        }

        // ------------------------------------------------------------ ExtInf
        "inf" => {
            need!(Some(ns) = num_arg::<u64>(args, 1));
            inf_case!(ExtInf::new(Duration::from_nanos(ns)))
        }
        "inf_title" => {
            need!(Some(ns) = num_arg::<u64>(args, 1));
            need!(Some(title) = text_arg(args, 2));
            inf_case!(ExtInf::with_title(Duration::from_nanos(ns), title))
        }

        // ------------------------------------------------------------ ExtXMap
        "map" => {
            need!(Some(uri) = text_arg(args, 1));
            map_case!(ExtXMap::new(uri))
        }
        "map_range" => {
            need!(Some(uri) = text_arg(args, 1));
            need!(Some(a) = num_arg::<usize>(args, 2));
            need!(Some(b) = num_arg::<usize>(args, 3));
            // a > b: `From<Range<usize>> for ByteRange` panics -> `panic`
            map_case!(ExtXMap::with_range(uri, a..b))
        }
        "map_range_to" => {
            need!(Some(uri) = text_arg(args, 1));
            need!(Some(b) = num_arg::<usize>(args, 2));
            map_case!(ExtXMap::with_range(uri, ..b))
        }

        // ------------------------------------------------------------ ExtXMedia
        "media" => {
            need!(Some(media_type) = media_type_arg(args, 1));
            need!(Some(group) = text_arg(args, 2));
            need!(Some(name) = text_arg(args, 3));
            media_case!(ExtXMedia::new(media_type, group, name))
        }

        // ------------------------------------------------------------ ExtXSessionData
        "session_data_value" => {
            need!(Some(id) = text_arg(args, 1));
            need!(Some(val) = text_arg(args, 2));
            session_data_case!(ExtXSessionData::new(id, SessionData::Value(Cow::Owned(val))))
        }
        "session_data_uri" => {
            need!(Some(id) = text_arg(args, 1));
            need!(Some(uri) = text_arg(args, 2));
            session_data_case!(ExtXSessionData::new(id, SessionData::Uri(Cow::Owned(uri))))
        }
        "session_data_lang" => {
            need!(Some(id) = text_arg(args, 1));
            need!(Some(val) = text_arg(args, 2));
            need!(Some(lang) = text_arg(args, 3));
            session_data_case!(ExtXSessionData::with_language(
                id,
                SessionData::Value(Cow::Owned(val)),
                lang
            ))
        }

        // ------------------------------------------------------------ ExtXDateRange
        "daterange" => {
            need!(Some(id) = text_arg(args, 1));
            need!(Some(start) = text_arg(args, 2));
            date_range_case!(ExtXDateRange::new(id, start))
        }
        "daterange_client" => {
            need!(Some(id) = text_arg(args, 1));
            need!(Some(start) = text_arg(args, 2));
            need!(Some(name) = text_arg(args, 3));
            need!(Some(val) = text_arg(args, 4));
            // `client_attributes` is a public field.
            date_range_case!({
                let mut x = ExtXDateRange::new(id, start);
                x.client_attributes
                    .insert(Cow::Owned(name), Value::String(Cow::Owned(val)));
                x
            })
        }

        // ------------------------------------------------------------ keys
        "key" => {
            need!(Some(method) = method_arg(args, 1));
            need!(Some(uri) = text_arg(args, 2));
            xkey_case!(ExtXKey::new(DecryptionKey::new(method, uri)))
        }
        "key_iv_number" => {
            need!(Some(method) = method_arg(args, 1));
            need!(Some(uri) = text_arg(args, 2));
            need!(Some(n) = num_arg::<u128>(args, 3));
            // `iv` is a public field.
            xkey_case!({
                let mut k = DecryptionKey::new(method, uri);
                k.iv = InitializationVector::Number(n);
                ExtXKey::new(k)
            })
        }
        "session_key" => {
            need!(Some(method) = method_arg(args, 1));
            need!(Some(uri) = text_arg(args, 2));
            session_key_case!(ExtXSessionKey::new(DecryptionKey::new(method, uri)))
        }

        // ------------------------------------------------------------ small types
        "stream_data" => {
            need!(Some(bw) = num_arg::<u64>(args, 1));
            stream_data_case!(StreamData::new(bw))
        }
        "start" => {
            need!(Some(x) = f32_arg(args, 1));
            need!(Some(precise) = num_arg::<u64>(args, 2));
            start_case!(ExtXStart::with_precise(Float::new(x), precise != 0))
        }
        "start_new" => {
            need!(Some(x) = f32_arg(args, 1));
            start_case!(ExtXStart::new(Float::new(x)))
        }
        "codecs" => {
            let mut items: Vec<String> = Vec::with_capacity(args.len() - 1);
            for i in 1..args.len() {
                need!(Some(item) = text_arg(args, i));
                items.push(item);
            }
            codecs_case!(Codecs::from(items))
        }
        "resolution" => {
            need!(Some(w) = num_arg::<usize>(args, 1));
            need!(Some(h) = num_arg::<usize>(args, 2));
            resolution_case!(Resolution::new(w, h))
        }
        "channels" => {
            need!(Some(n) = num_arg::<u64>(args, 1));
            channels_case!(Channels::new(n))
        }
        "byte_range" => {
            need!(Some(a) = num_arg::<usize>(args, 1));
            need!(Some(b) = num_arg::<usize>(args, 2));
            // a > b: the `From` impl panics -> `panic`
            byte_range_case!(ByteRange::from(a..b))
        }
        "byte_range_to" => {
            need!(Some(b) = num_arg::<usize>(args, 1));
            byte_range_case!(ByteRange::from(..b))
        }
        "kfv" => {
            need!(Some(text) = text_arg(args, 1));
            // The notation of the `laws` op plus `new:a/b/c`; as there, a
            // versions part rejected by `FromStr` is `err`.
            match guard(|| key_format_versions_from(&text, true)) {
                None => PANIC.to_string(),
                Some(Err(KfvError::Syntax)) => BADINPUT.to_string(),
                Some(Err(KfvError::Parse)) => ERR.to_string(),
                Some(Ok(x)) => kfv_case!(x),
            }
        }
        "iv_number" => {
            need!(Some(n) = num_arg::<u128>(args, 1));
            iv_case!(InitializationVector::Number(n))
        }
        "iv_aes" => {
            // The argument is the 16 bytes themselves: 32 hex digits.
            need!(Some(bytes) = bytes_arg(args, 1));
            need!(Ok(bytes) = <[u8; 16]>::try_from(bytes));
            iv_case!(InitializationVector::Aes128(bytes))
        }
        "iv_missing" => iv_case!(InitializationVector::Missing),
        // `KeyFormat::Other(text)` built directly (the enum variant; `KeyFormat::from` would
        // normalise the well-known identifiers); re-parsed like the `tag` op does for KeyFormat.
        "key_format_other" => {
            need!(Some(text) = text_arg(args, 1));
            api_case!(
                KeyFormat::Other(Cow::Owned(text.clone())),
                v => v.into_owned(),
                s => Ok::<_, ()>(KeyFormat::from(s)),
                observe::key_format
            )
        }

        // ------------------------------------------------------------ VariantStream
        "iframe" => {
            need!(Some(uri) = text_arg(args, 1));
            need!(Some(bw) = num_arg::<u64>(args, 2));
            variant_stream_case!(VariantStream::ExtXIFrame {
                uri: Cow::Owned(uri),
                stream_data: StreamData::new(bw),
            })
        }
        "streaminf" => {
            need!(Some(uri) = text_arg(args, 1));
            need!(Some(bw) = num_arg::<u64>(args, 2));
            variant_stream_case!(VariantStream::ExtXStreamInf {
                uri: Cow::Owned(uri),
                frame_rate: None,
                audio: None,
                subtitles: None,
                closed_captions: None,
                stream_data: StreamData::new(bw),
            })
        }

        _ => BADOP.to_string(),
    }
}
