//! Builder ops: `bmedia` / `bown` / `media_preset` (MediaPlaylistBuilder /
//! MediaSegmentBuilder), `bmaster` (MasterPlaylistBuilder) and `btag` (the
//! builders of the tag and attribute types).
//!
//! A script is a multi-line text, one command per line (`\n` separated): the
//! command word, then a single space, then the rest of the line as the
//! argument (taken verbatim, it may contain spaces).  Empty lines are skipped.
//! Commands run in order; the first one that stops the op (`badscript`, `err`)
//! decides the result.

use std::borrow::Cow;
use std::convert::TryFrom;
use std::str::FromStr;
use std::time::Duration;

use hls_m3u8::builder::{MediaPlaylistBuilder, MediaSegmentBuilder};
use hls_m3u8::tags::{
    ExtInf, ExtXByteRange, ExtXDateRange, ExtXKey, ExtXMap, ExtXMedia, ExtXProgramDateTime,
    ExtXSessionData, ExtXSessionKey, ExtXStart, SessionData, VariantStream,
};
use hls_m3u8::types::{
    Channels, DecryptionKey, EncryptionMethod, Float, HdcpLevel, InStreamId, KeyFormat,
    KeyFormatVersions, MediaType, PlaylistType, StreamData, Value,
};
use hls_m3u8::{MasterPlaylist, MediaPlaylist, MediaSegment};

use crate::{
    guard, hex_digit, observe, own_result, text_arg, value_result, Master, Media, BADINPUT, BADOP,
    ERR, PANIC,
};

pub(crate) const BADSCRIPT: &str = "badscript";
const NOBUILD: &str = "nobuild";

/// The early-exit result atom of a script (`badscript` / `err`).
type Stop = &'static str;

// ---------------------------------------------------------------- script syntax

/// `(command word, argument)` of every non-empty line.
fn commands(script: &str) -> impl Iterator<Item = (&str, Option<&str>)> {
    script
        .split('\n')
        .filter(|line| !line.is_empty())
        .map(|line| match line.split_once(' ') {
            Some((cmd, arg)) => (cmd, Some(arg)),
            None => (line, None),
        })
}

/// The argument of a command that needs one.
fn need(arg: Option<&str>) -> Result<&str, Stop> {
    arg.ok_or(BADSCRIPT)
}

/// A command that takes no argument.
fn no_arg(arg: Option<&str>) -> Result<(), Stop> {
    match arg {
        None => Ok(()),
        Some(_) => Err(BADSCRIPT),
    }
}

/// Unsigned decimal number: digits only, must fit `T`.
fn num<T: FromStr>(arg: Option<&str>) -> Result<T, Stop> {
    let a = need(arg)?;
    if a.is_empty() || !a.bytes().all(|c| c.is_ascii_digit()) {
        return Err(BADSCRIPT);
    }
    a.parse().map_err(|_| BADSCRIPT)
}

/// `0` | `1`
fn flag(arg: Option<&str>) -> Result<bool, Stop> {
    match need(arg)? {
        "0" => Ok(false),
        "1" => Ok(true),
        _ => Err(BADSCRIPT),
    }
}

/// Total nanoseconds (u128); the seconds part must fit a `u64`.
fn dur(arg: Option<&str>) -> Result<Duration, Stop> {
    let ns: u128 = num(arg)?;
    let secs = u64::try_from(ns / 1_000_000_000).map_err(|_| BADSCRIPT)?;
    Ok(Duration::new(secs, (ns % 1_000_000_000) as u32))
}

/// Hex digits (either case), even count; the empty text is the empty vector.
fn hex_bytes(text: &str) -> Result<Vec<u8>, Stop> {
    let hex = text.as_bytes();
    if hex.len() % 2 != 0 {
        return Err(BADSCRIPT);
    }
    let mut bytes = Vec::with_capacity(hex.len() / 2);
    for pair in hex.chunks_exact(2) {
        match (hex_digit(pair[0]), hex_digit(pair[1])) {
            (Some(hi), Some(lo)) => bytes.push(hi << 4 | lo),
            _ => return Err(BADSCRIPT),
        }
    }
    Ok(bytes)
}

fn finish(r: Result<String, Stop>) -> String {
    r.unwrap_or_else(|stop| stop.to_string())
}

// ---------------------------------------------------------------- bmedia

/// The playlist-level setter commands of a media script (`bmedia`, `bown`,
/// `media_preset`), applied to `b`; `Ok(false)`: `cmd` is not one of them.
///
/// `Tn <ns>` target duration, `M <n>` media sequence, `D <n>` discontinuity
/// sequence, `P event|vod|none` playlist type, `I 0|1` i-frames only,
/// `N 0|1` independent segments, `E 0|1` end list, `S <#EXT-X-START line>`,
/// `X <ns>` allowable excess duration, `U <text>` (pending unknown tag),
/// `unknown` (`.unknown(pending tags)`).
fn playlist_cmd<'a>(
    b: &mut MediaPlaylistBuilder<'a>,
    unknown: &mut Vec<&'a str>,
    cmd: &str,
    arg: Option<&'a str>,
) -> Result<bool, Stop> {
    match cmd {
        "Tn" => {
            b.target_duration(dur(arg)?);
        }
        "M" => {
            b.media_sequence(num::<usize>(arg)?);
        }
        "D" => {
            b.discontinuity_sequence(num::<usize>(arg)?);
        }
        "P" => match need(arg)? {
            "event" => {
                b.playlist_type(PlaylistType::Event);
            }
            "vod" => {
                b.playlist_type(PlaylistType::Vod);
            }
            // The generated setter is `playlist_type<V: Into<PlaylistType>>`
            // (`strip_option` + `into`), so `None::<PlaylistType>` does not
            // compile and the public API has no way to reset the field:
            // `P none` is accepted and does nothing.
            "none" => {}
            _ => return Err(BADSCRIPT),
        },
        "I" => {
            b.has_i_frames_only(flag(arg)?);
        }
        "N" => {
            b.has_independent_segments(flag(arg)?);
        }
        "E" => {
            b.has_end_list(flag(arg)?);
        }
        "S" => {
            let start = ExtXStart::try_from(need(arg)?).map_err(|_| ERR)?;
            b.start(start);
        }
        "X" => {
            b.allowable_excess_duration(dur(arg)?);
        }
        "U" => unknown.push(need(arg)?),
        "unknown" => {
            no_arg(arg)?;
            let tags: Vec<Cow<'a, str>> = unknown.iter().map(|t| Cow::Borrowed(*t)).collect();
            b.unknown(tags);
        }
        _ => return Ok(false),
    }
    Ok(true)
}

/// One segment under construction (`bmedia` / `bown` scripts between `seg`
/// and `end`, and the mini scripts of `laws MediaSegment`).
///
/// `MediaSegmentBuilder` does not hand its `ExtInf` back, so the last one
/// given to `.duration(..)` and the text of a `title` command are kept here.
struct Seg<'a> {
    b: MediaSegmentBuilder<'a>,
    inf: Option<ExtInf<'a>>,
    title: Option<&'a str>,
}

impl<'a> Seg<'a> {
    fn new() -> Self {
        Seg {
            b: MediaSegment::builder(),
            inf: None,
            title: None,
        }
    }

    fn set_inf(&mut self, inf: ExtInf<'a>) {
        self.b.duration(inf.clone());
        self.inf = Some(inf);
    }

    /// The segment-level commands; `Ok(false)`: `cmd` is not one of them.
    ///
    /// * `uri <text>`, `num <n>` (`.number(Some(n))`), `disc 0|1`
    ///   (`.has_discontinuity(b)`), `tag <line>` (one segment tag, parsed).
    /// * `dur <ns>`: `ExtInf::new(d)`; after a `title <t>` of the same segment
    ///   `ExtInf::with_title(d, t)`.
    /// * `dur2 <ns0> <ns>`: `ExtInf::new(d0)` then `.set_duration(d)`; after a
    ///   `title <t>` of the same segment also `.set_title(Some(t))`.
    /// * `title <t>`: remembered for later `dur` / `dur2`; if the segment
    ///   already got an `ExtInf` (`dur`, `dur2`, `tag #EXTINF:`), that value
    ///   gets `.set_title(Some(t))` and is given to `.duration(..)` again.
    fn cmd(&mut self, cmd: &str, arg: Option<&'a str>) -> Result<bool, Stop> {
        match cmd {
            "dur" => {
                let d = dur(arg)?;
                let inf = match self.title {
                    None => ExtInf::new(d),
                    Some(t) => ExtInf::with_title(d, t),
                };
                self.set_inf(inf);
            }
            "dur2" => {
                let (ns0, ns) = need(arg)?.split_once(' ').ok_or(BADSCRIPT)?;
                let (d0, d) = (dur(Some(ns0))?, dur(Some(ns))?);
                let mut inf = ExtInf::new(d0);
                inf.set_duration(d);
                if let Some(t) = self.title {
                    inf.set_title(Some(t));
                }
                self.set_inf(inf);
            }
            "title" => {
                let t = need(arg)?;
                self.title = Some(t);
                if let Some(mut inf) = self.inf.take() {
                    inf.set_title(Some(t));
                    self.set_inf(inf);
                }
            }
            "num" => {
                if need(arg)? == "none" {
                    self.b.number(None);
                } else {
                    self.b.number(Some(num::<usize>(arg)?));
                }
            }
            "disc" => {
                self.b.has_discontinuity(flag(arg)?);
            }
            "tag" => {
                let line = need(arg)?;
                if line.starts_with("#EXTINF:") {
                    let inf = ExtInf::try_from(line).map_err(|_| ERR)?;
                    self.set_inf(inf);
                } else if line.starts_with("#EXT-X-BYTERANGE:") {
                    self.b
                        .byte_range(ExtXByteRange::try_from(line).map_err(|_| ERR)?);
                } else if line == "#EXT-X-DISCONTINUITY" {
                    self.b.has_discontinuity(true);
                } else if line.starts_with("#EXT-X-KEY:") {
                    self.b.push_key(ExtXKey::try_from(line).map_err(|_| ERR)?);
                } else if line.starts_with("#EXT-X-MAP:") {
                    self.b.map(ExtXMap::try_from(line).map_err(|_| ERR)?);
                } else if line.starts_with("#EXT-X-PROGRAM-DATE-TIME:") {
                    self.b
                        .program_date_time(ExtXProgramDateTime::try_from(line).map_err(|_| ERR)?);
                } else if line.starts_with("#EXT-X-DATERANGE:") {
                    self.b
                        .date_range(ExtXDateRange::try_from(line).map_err(|_| ERR)?);
                } else {
                    return Err(ERR);
                }
            }
            "uri" => {
                self.b.uri(need(arg)?);
            }
            _ => return Ok(false),
        }
        Ok(true)
    }

    fn build(&self) -> Result<MediaSegment<'a>, Stop> {
        self.b.build().map_err(|_| ERR)
    }
}

/// One segment from a mini script of segment-level commands only
/// (`laws MediaSegment`): `Err(badscript)` for anything else or a malformed
/// argument, `Err(err)` for a rejected `tag` line or a failing `.build()`.
pub(crate) fn build_segment(script: &str) -> Result<MediaSegment<'_>, Stop> {
    let mut seg = Seg::new();
    for (cmd, arg) in commands(script) {
        if !seg.cmd(cmd, arg)? {
            return Err(BADSCRIPT);
        }
    }
    seg.build()
}

/// What a media script built: `None` without a `build` command, else the
/// result of the last `build`.
type Built = Option<Result<MediaPlaylist<'static>, String>>;

/// `bmedia <hex script>`:
/// `badinput` | `badscript` | `nobuild` | `err` | `panic` | `ok (mres …)`
/// (the last one exactly as the `media` op prints a parsed value).
pub(crate) fn op_bmedia(args: &[&str]) -> String {
    let Some(script) = text_arg(args, 0) else {
        return BADINPUT.to_string();
    };
    // The builders borrow their strings; this is a one-shot tool, so leak.
    let script: &'static str = Box::leak(script.into_boxed_str());
    finish(run_bmedia(script).map(|built| match built {
        None => NOBUILD.to_string(),
        Some(Err(_)) => ERR.to_string(),
        Some(Ok(p)) => value_result::<Media>(&p, None, script.len()),
    }))
}

/// `bown <hex script>`: the script of `bmedia`; the built value is observed
/// like `own_media` observes a parsed one:
/// `badinput` | `badscript` | `nobuild` | `err` | `panic` | `ok (own …)`.
pub(crate) fn op_bown(args: &[&str]) -> String {
    let Some(script) = text_arg(args, 0) else {
        return BADINPUT.to_string();
    };
    let script: &'static str = Box::leak(script.into_boxed_str());
    finish(run_bmedia(script).map(|built| match built {
        None => NOBUILD.to_string(),
        Some(Err(_)) => ERR.to_string(),
        Some(Ok(p)) => own_result::<Media>(&p),
    }))
}

fn run_bmedia(script: &'static str) -> Result<Built, Stop> {
    let mut b = MediaPlaylist::builder();
    let mut unknown: Vec<&'static str> = Vec::new();
    let mut list: Vec<MediaSegment<'static>> = Vec::new();
    let mut seg: Seg<'static> = Seg::new();
    let mut out: Built = None;

    for (cmd, arg) in commands(script) {
        if playlist_cmd(&mut b, &mut unknown, cmd, arg)? || seg.cmd(cmd, arg)? {
            continue;
        }
        match cmd {
            "seg" => {
                let a = need(arg)?;
                if a == "-" {
                    seg = Seg::new();
                } else {
                    let n = num::<usize>(arg)?;
                    seg = Seg::new();
                    seg.b.number(Some(n));
                }
            }
            "end" => match need(arg)? {
                "push" => {
                    let s = seg.build()?;
                    b.push_segment(s);
                }
                "list" => {
                    let s = seg.build()?;
                    list.push(s);
                }
                _ => return Err(BADSCRIPT),
            },
            "segments" => {
                no_arg(arg)?;
                b.segments(std::mem::take(&mut list));
            }
            "build" => {
                no_arg(arg)?;
                out = Some(b.build());
            }
            _ => return Err(BADSCRIPT),
        }
    }
    Ok(out)
}

// ---------------------------------------------------------------- media_preset

/// `media_preset <hex script> <hex text>`: the script may only hold the
/// playlist-level setter commands (see [`playlist_cmd`]); they are applied to a
/// fresh `MediaPlaylist::builder()`, then `builder.parse(text)`.
/// `badinput` | `badscript` | `err` | `panic` | `ok (mres …)` as the `media` op
/// prints it (the re-parse of the written text is a plain `try_from`, without
/// the preset).
pub(crate) fn op_media_preset(args: &[&str]) -> String {
    let (Some(script), Some(text)) = (text_arg(args, 0), text_arg(args, 1)) else {
        return BADINPUT.to_string();
    };
    if args.len() != 2 {
        return BADINPUT.to_string();
    }
    finish(run_media_preset(&script, &text))
}

fn run_media_preset(script: &str, text: &str) -> Result<String, Stop> {
    let mut b = MediaPlaylist::builder();
    let mut unknown: Vec<&str> = Vec::new();
    for (cmd, arg) in commands(script) {
        if !playlist_cmd(&mut b, &mut unknown, cmd, arg)? {
            return Err(BADSCRIPT);
        }
    }
    match guard(|| b.parse(text)) {
        None => Ok(PANIC.to_string()),
        Some(Err(_)) => Err(ERR),
        Some(Ok(p)) => Ok(value_result::<Media>(&p, None, text.len())),
    }
}

// ---------------------------------------------------------------- bmaster

/// `bmaster <hex script>`: a master playlist through `MasterPlaylist::builder()`.
/// `badinput` | `badscript` | `nobuild` | `err` | `panic` | `ok (ares …)`
/// (the last one exactly as the `master` op prints a parsed value).
///
/// Item commands parse one line (a rejected line is `err`) and append it to a
/// pending list, which only reaches the builder through `set <list>`:
/// `media <#EXT-X-MEDIA line>`, `variant <#EXT-X-I-FRAME-STREAM-INF line>`,
/// `streaminf <#EXT-X-STREAM-INF line>` + later `vuri <uri>` (the variant is
/// parsed from `"<line>\n<uri>"` and appended when `vuri` arrives),
/// `sdata <#EXT-X-SESSION-DATA line>`, `skey <#EXT-X-SESSION-KEY line>`,
/// `unknown <text>` (not parsed).
/// `set media|variants|sdata|skeys|unknown` calls `.media(..)` /
/// `.variant_streams(..)` / `.session_data(..)` / `.session_keys(..)` /
/// `.unknown_tags(..)` with a copy of the pending list (which is kept).
/// `indep 0|1`, `start <#EXT-X-START line>`, `build`.
pub(crate) fn op_bmaster(args: &[&str]) -> String {
    let Some(script) = text_arg(args, 0) else {
        return BADINPUT.to_string();
    };
    let script: &'static str = Box::leak(script.into_boxed_str());
    finish(run_bmaster(script))
}

fn run_bmaster(script: &'static str) -> Result<String, Stop> {
    let mut b = MasterPlaylist::builder();
    let mut media: Vec<ExtXMedia<'static>> = Vec::new();
    let mut variants: Vec<VariantStream<'static>> = Vec::new();
    let mut sdata: Vec<ExtXSessionData<'static>> = Vec::new();
    let mut skeys: Vec<ExtXSessionKey<'static>> = Vec::new();
    let mut unknown: Vec<Cow<'static, str>> = Vec::new();
    let mut streaminf: Option<&'static str> = None;
    let mut out: Option<Result<MasterPlaylist<'static>, _>> = None;

    for (cmd, arg) in commands(script) {
        match cmd {
            "media" => media.push(ExtXMedia::try_from(need(arg)?).map_err(|_| ERR)?),
            "variant" => variants.push(VariantStream::try_from(need(arg)?).map_err(|_| ERR)?),
            "streaminf" => streaminf = Some(need(arg)?),
            "vuri" => {
                let uri = need(arg)?;
                let line = streaminf.take().ok_or(BADSCRIPT)?;
                // The variant borrows its text: leak, as for the script.
                let text: &'static str = Box::leak(format!("{}\n{}", line, uri).into_boxed_str());
                variants.push(VariantStream::try_from(text).map_err(|_| ERR)?);
            }
            "sdata" => sdata.push(ExtXSessionData::try_from(need(arg)?).map_err(|_| ERR)?),
            "skey" => skeys.push(ExtXSessionKey::try_from(need(arg)?).map_err(|_| ERR)?),
            "unknown" => unknown.push(Cow::Borrowed(need(arg)?)),
            "set" => match need(arg)? {
                "media" => {
                    b.media(media.clone());
                }
                "variants" => {
                    b.variant_streams(variants.clone());
                }
                "sdata" => {
                    b.session_data(sdata.clone());
                }
                "skeys" => {
                    b.session_keys(skeys.clone());
                }
                "unknown" => {
                    b.unknown_tags(unknown.clone());
                }
                _ => return Err(BADSCRIPT),
            },
            "indep" => {
                b.has_independent_segments(flag(arg)?);
            }
            "start" => {
                let start = ExtXStart::try_from(need(arg)?).map_err(|_| ERR)?;
                b.start(start);
            }
            "build" => {
                no_arg(arg)?;
                out = Some(b.build());
            }
            _ => return Err(BADSCRIPT),
        }
    }

    match out {
        None => Ok(NOBUILD.to_string()),
        Some(Err(_)) => Ok(ERR.to_string()),
        Some(Ok(p)) => Ok(value_result::<Master>(&p, None, script.len())),
    }
}

// ---------------------------------------------------------------- btag

/// `btag <Type> <hex script>`:
/// `badinput` | `badop` | `badscript` | `err` | `panic` | `ok <DUMP>`
pub(crate) fn op_btag(args: &[&str]) -> String {
    let Some(type_name) = args.first().copied() else {
        return BADINPUT.to_string();
    };
    let Some(script) = text_arg(args, 1) else {
        return BADINPUT.to_string();
    };
    let script: &str = &script;

    match type_name {
        "ExtXMedia" => finish(build_media(script)),
        "ExtXDateRange" => finish(build_date_range(script)),
        "ExtXSessionData" => finish(build_session_data(script)),
        "DecryptionKey" => finish(build_key(script)),
        "StreamData" => finish(build_stream_data(script)),
        _ => BADOP.to_string(),
    }
}

/// `ok <DUMP>`
fn ok_dump<T>(x: &T, dump: impl Fn(&T, &mut String)) -> String {
    let mut out = String::from("ok ");
    dump(x, &mut out);
    out
}

fn build_media(script: &str) -> Result<String, Stop> {
    let mut b = ExtXMedia::builder();
    for (cmd, arg) in commands(script) {
        match cmd {
            "type" => {
                b.media_type(MediaType::from_str(need(arg)?).map_err(|_| BADSCRIPT)?);
            }
            "uri" => {
                b.uri(need(arg)?);
            }
            "group" => {
                b.group_id(need(arg)?);
            }
            "lang" => {
                b.language(need(arg)?);
            }
            "assoc" => {
                b.assoc_language(need(arg)?);
            }
            "name" => {
                b.name(need(arg)?);
            }
            "default" => {
                b.is_default(flag(arg)?);
            }
            "autoselect" => {
                b.is_autoselect(flag(arg)?);
            }
            "forced" => {
                b.is_forced(flag(arg)?);
            }
            "instream" => {
                b.instream_id(InStreamId::from_str(need(arg)?).map_err(|_| BADSCRIPT)?);
            }
            "chars" => {
                b.characteristics(need(arg)?);
            }
            "channels" => {
                b.channels(Channels::from_str(need(arg)?).map_err(|_| BADSCRIPT)?);
            }
            _ => return Err(BADSCRIPT),
        }
    }
    let x = b.build().map_err(|_| ERR)?;
    Ok(ok_dump(&x, observe::ext_x_media))
}

fn build_date_range(script: &str) -> Result<String, Stop> {
    let mut b = ExtXDateRange::builder();
    for (cmd, arg) in commands(script) {
        match cmd {
            "id" => {
                b.id(need(arg)?);
            }
            "class" => {
                b.class(need(arg)?);
            }
            "start" => {
                b.start_date(need(arg)?);
            }
            "end" => {
                b.end_date(need(arg)?);
            }
            "dur" => {
                b.duration(dur(arg)?);
            }
            "planned" => {
                b.planned_duration(dur(arg)?);
            }
            "cmd" => {
                b.scte35_cmd(need(arg)?);
            }
            "out" => {
                b.scte35_out(need(arg)?);
            }
            "in" => {
                b.scte35_in(need(arg)?);
            }
            "eon" => {
                b.end_on_next(flag(arg)?);
            }
            "client" => {
                // `<NAME> s <text>` | `<NAME> h <hexbytes>` | `<NAME> f <f32 text>`
                let mut parts = need(arg)?.splitn(3, ' ');
                let (Some(name), Some(kind), Some(text)) =
                    (parts.next(), parts.next(), parts.next())
                else {
                    return Err(BADSCRIPT);
                };
                let value = match kind {
                    "s" => Value::String(Cow::Borrowed(text)),
                    "h" => Value::Hex(hex_bytes(text)?),
                    "f" => {
                        let x = text.parse::<f32>().map_err(|_| BADSCRIPT)?;
                        // `Float::new` panics on NaN / infinities -> `panic`.
                        Value::Float(Float::new(x))
                    }
                    _ => return Err(BADSCRIPT),
                };
                b.insert_client_attribute(name, value);
            }
            _ => return Err(BADSCRIPT),
        }
    }
    let x = b.build().map_err(|_| ERR)?;
    Ok(ok_dump(&x, observe::date_range))
}

fn build_session_data(script: &str) -> Result<String, Stop> {
    let mut b = ExtXSessionData::builder();
    for (cmd, arg) in commands(script) {
        match cmd {
            "id" => {
                b.data_id(need(arg)?);
            }
            "value" => {
                b.data(SessionData::Value(Cow::Borrowed(need(arg)?)));
            }
            "datauri" => {
                b.data(SessionData::Uri(Cow::Borrowed(need(arg)?)));
            }
            "lang" => {
                b.language(need(arg)?);
            }
            _ => return Err(BADSCRIPT),
        }
    }
    let x = b.build().map_err(|_| ERR)?;
    Ok(ok_dump(&x, observe::session_data))
}

fn build_key(script: &str) -> Result<String, Stop> {
    let mut b = DecryptionKey::builder();
    for (cmd, arg) in commands(script) {
        match cmd {
            "method" => {
                b.method(EncryptionMethod::from_str(need(arg)?).map_err(|_| BADSCRIPT)?);
            }
            "uri" => {
                b.uri(need(arg)?);
            }
            "iv" => {
                let bytes = hex_bytes(need(arg)?)?;
                let iv = <[u8; 16]>::try_from(bytes.as_slice()).map_err(|_| BADSCRIPT)?;
                b.iv(iv);
            }
            "format" => {
                b.format(KeyFormat::from(need(arg)?));
            }
            "versions" => {
                b.versions(KeyFormatVersions::from_str(need(arg)?).map_err(|_| BADSCRIPT)?);
            }
            _ => return Err(BADSCRIPT),
        }
    }
    let x = b.build().map_err(|_| ERR)?;
    Ok(ok_dump(&x, observe::key))
}

fn build_stream_data(script: &str) -> Result<String, Stop> {
    let mut b = StreamData::builder();
    for (cmd, arg) in commands(script) {
        match cmd {
            "bw" => {
                b.bandwidth(num::<u64>(arg)?);
            }
            "avg" => {
                b.average_bandwidth(num::<u64>(arg)?);
            }
            "codecs" => {
                let list: Vec<&str> = need(arg)?.split(',').collect();
                b.codecs(list);
            }
            "res" => {
                let (w, h) = need(arg)?.split_once('x').ok_or(BADSCRIPT)?;
                let w = num::<usize>(Some(w))?;
                let h = num::<usize>(Some(h))?;
                b.resolution((w, h));
            }
            "hdcp" => {
                b.hdcp_level(HdcpLevel::from_str(need(arg)?).map_err(|_| BADSCRIPT)?);
            }
            "video" => {
                b.video(need(arg)?);
            }
            _ => return Err(BADSCRIPT),
        }
    }
    let x = b.build().map_err(|_| ERR)?;
    Ok(ok_dump(&x, observe::stream_data))
}
