//! Builder ops: `bmedia` (MediaPlaylistBuilder / MediaSegmentBuilder) and
//! `btag` (the builders of the tag and attribute types).
//!
//! A script is a multi-line text, one command per line (`\n` separated): the
//! command word, then a single space, then the rest of the line as the
//! argument (taken verbatim, it may contain spaces).  Empty lines are skipped.
//! Commands run in order; the first one that stops the op (`badscript`, `err`)
//! decides the result.

use std::borrow::Cow;
use std::convert::TryFrom;
use std::str::FromStr;
use std::time::Duration;

use hls_m3u8::tags::{
    ExtInf, ExtXByteRange, ExtXDateRange, ExtXKey, ExtXMap, ExtXMedia, ExtXProgramDateTime,
    ExtXSessionData, ExtXStart, SessionData,
};
use hls_m3u8::types::{
    Channels, DecryptionKey, EncryptionMethod, Float, HdcpLevel, InStreamId, KeyFormat,
    KeyFormatVersions, MediaType, PlaylistType, StreamData, Value,
};
use hls_m3u8::{MediaPlaylist, MediaSegment};

use crate::{hex_digit, observe, text_arg, value_result, Media, BADINPUT, BADOP, ERR};

pub(crate) const BADSCRIPT: &str = "badscript";
const NOBUILD: &str = "nobuild";

/// The early-exit result atom of a script (`badscript` / `err`).
type Stop = &'static str;

// ---------------------------------------------------------------- script syntax

/// `(command word, argument)` of every non-empty line.
fn commands(script: &str) -> impl Iterator<Item = (&str, Option<&str>)> {
    script
        .split('\n')
        .filter(|line| !line.is_empty())
        .map(|line| match line.split_once(' ') {
            Some((cmd, arg)) => (cmd, Some(arg)),
            None => (line, None),
        })
}

/// The argument of a command that needs one.
fn need(arg: Option<&str>) -> Result<&str, Stop> {
    arg.ok_or(BADSCRIPT)
}

/// A command that takes no argument.
fn no_arg(arg: Option<&str>) -> Result<(), Stop> {
    match arg {
        None => Ok(()),
        Some(_) => Err(BADSCRIPT),
    }
}

/// Unsigned decimal number: digits only, must fit `T`.
fn num<T: FromStr>(arg: Option<&str>) -> Result<T, Stop> {
    let a = need(arg)?;
    if a.is_empty() || !a.bytes().all(|c| c.is_ascii_digit()) {
        return Err(BADSCRIPT);
    }
    a.parse().map_err(|_| BADSCRIPT)
}

/// `0` | `1`
fn flag(arg: Option<&str>) -> Result<bool, Stop> {
    match need(arg)? {
        "0" => Ok(false),
        "1" => Ok(true),
        _ => Err(BADSCRIPT),
    }
}

/// Total nanoseconds (u128); the seconds part must fit a `u64`.
fn dur(arg: Option<&str>) -> Result<Duration, Stop> {
    let ns: u128 = num(arg)?;
    let secs = u64::try_from(ns / 1_000_000_000).map_err(|_| BADSCRIPT)?;
    Ok(Duration::new(secs, (ns % 1_000_000_000) as u32))
}

/// Hex digits (either case), even count; the empty text is the empty vector.
fn hex_bytes(text: &str) -> Result<Vec<u8>, Stop> {
    let hex = text.as_bytes();
    if hex.len() % 2 != 0 {
        return Err(BADSCRIPT);
    }
    let mut bytes = Vec::with_capacity(hex.len() / 2);
    for pair in hex.chunks_exact(2) {
        match (hex_digit(pair[0]), hex_digit(pair[1])) {
            (Some(hi), Some(lo)) => bytes.push(hi << 4 | lo),
            _ => return Err(BADSCRIPT),
        }
    }
    Ok(bytes)
}

fn finish(r: Result<String, Stop>) -> String {
    r.unwrap_or_else(|stop| stop.to_string())
}

// ---------------------------------------------------------------- bmedia

/// `bmedia <hex script>`:
/// `badinput` | `badscript` | `nobuild` | `err` | `panic` | `ok (mres …)`
/// (the last one exactly as the `media` op prints a parsed value).
pub(crate) fn op_bmedia(args: &[&str]) -> String {
    let Some(script) = text_arg(args, 0) else {
        return BADINPUT.to_string();
    };
    // The builders borrow their strings; this is a one-shot tool, so leak.
    let script: &'static str = Box::leak(script.into_boxed_str());
    finish(run_bmedia(script))
}

fn run_bmedia(script: &'static str) -> Result<String, Stop> {
    let mut b = MediaPlaylist::builder();
    let mut unknown: Vec<&'static str> = Vec::new();
    let mut list: Vec<MediaSegment<'static>> = Vec::new();
    let mut seg = MediaSegment::builder();
    let mut out: Option<Result<MediaPlaylist<'static>, String>> = None;

    for (cmd, arg) in commands(script) {
        match cmd {
            "Tn" => {
                b.target_duration(dur(arg)?);
            }
            "M" => {
                b.media_sequence(num::<usize>(arg)?);
            }
            "D" => {
                b.discontinuity_sequence(num::<usize>(arg)?);
            }
            "P" => match need(arg)? {
                "event" => {
                    b.playlist_type(PlaylistType::Event);
                }
                "vod" => {
                    b.playlist_type(PlaylistType::Vod);
                }
                // The generated setter is `playlist_type<V: Into<PlaylistType>>`
                // (`strip_option` + `into`), so `None::<PlaylistType>` does not
                // compile and the public API has no way to reset the field:
                // `P none` is accepted and does nothing.
                "none" => {}
                _ => return Err(BADSCRIPT),
            },
            "I" => {
                b.has_i_frames_only(flag(arg)?);
            }
            "N" => {
                b.has_independent_segments(flag(arg)?);
            }
            "E" => {
                b.has_end_list(flag(arg)?);
            }
            "S" => {
                let start = ExtXStart::try_from(need(arg)?).map_err(|_| ERR)?;
                b.start(start);
            }
            "X" => {
                b.allowable_excess_duration(dur(arg)?);
            }
            "U" => unknown.push(need(arg)?),
            "unknown" => {
                no_arg(arg)?;
                let tags: Vec<Cow<'static, str>> =
                    unknown.iter().map(|t| Cow::Borrowed(*t)).collect();
                b.unknown(tags);
            }
            "seg" => {
                let a = need(arg)?;
                if a == "-" {
                    seg = MediaSegment::builder();
                } else {
                    let n = num::<usize>(arg)?;
                    seg = MediaSegment::builder();
                    seg.number(Some(n));
                }
            }
            "dur" => {
                seg.duration(ExtInf::new(dur(arg)?));
            }
            "tag" => {
                let line = need(arg)?;
                if line.starts_with("#EXTINF:") {
                    seg.duration(ExtInf::try_from(line).map_err(|_| ERR)?);
                } else if line.starts_with("#EXT-X-BYTERANGE:") {
                    seg.byte_range(ExtXByteRange::try_from(line).map_err(|_| ERR)?);
                } else if line == "#EXT-X-DISCONTINUITY" {
                    seg.has_discontinuity(true);
                } else if line.starts_with("#EXT-X-KEY:") {
                    seg.push_key(ExtXKey::try_from(line).map_err(|_| ERR)?);
                } else if line.starts_with("#EXT-X-MAP:") {
                    seg.map(ExtXMap::try_from(line).map_err(|_| ERR)?);
                } else if line.starts_with("#EXT-X-PROGRAM-DATE-TIME:") {
                    seg.program_date_time(ExtXProgramDateTime::try_from(line).map_err(|_| ERR)?);
                } else if line.starts_with("#EXT-X-DATERANGE:") {
                    seg.date_range(ExtXDateRange::try_from(line).map_err(|_| ERR)?);
                } else {
                    return Err(ERR);
                }
            }
            "uri" => {
                seg.uri(need(arg)?);
            }
            "end" => match need(arg)? {
                "push" => {
                    let s = seg.build().map_err(|_| ERR)?;
                    b.push_segment(s);
                }
                "list" => {
                    let s = seg.build().map_err(|_| ERR)?;
                    list.push(s);
                }
                _ => return Err(BADSCRIPT),
            },
            "segments" => {
                no_arg(arg)?;
                b.segments(std::mem::take(&mut list));
            }
            "build" => {
                no_arg(arg)?;
                out = Some(b.build());
            }
            _ => return Err(BADSCRIPT),
        }
    }

    match out {
        None => Ok(NOBUILD.to_string()),
        Some(Err(_)) => Ok(ERR.to_string()),
        Some(Ok(p)) => Ok(value_result::<Media>(&p, None, script.len())),
    }
}

// ---------------------------------------------------------------- btag

/// `btag <Type> <hex script>`:
/// `badinput` | `badop` | `badscript` | `err` | `panic` | `ok <DUMP>`
pub(crate) fn op_btag(args: &[&str]) -> String {
    let Some(type_name) = args.first().copied() else {
        return BADINPUT.to_string();
    };
    let Some(script) = text_arg(args, 1) else {
        return BADINPUT.to_string();
    };
    let script: &str = &script;

    match type_name {
        "ExtXMedia" => finish(build_media(script)),
        "ExtXDateRange" => finish(build_date_range(script)),
        "ExtXSessionData" => finish(build_session_data(script)),
        "DecryptionKey" => finish(build_key(script)),
        "StreamData" => finish(build_stream_data(script)),
        _ => BADOP.to_string(),
    }
}

/// `ok <DUMP>`
fn ok_dump<T>(x: &T, dump: impl Fn(&T, &mut String)) -> String {
    let mut out = String::from("ok ");
    dump(x, &mut out);
    out
}

fn build_media(script: &str) -> Result<String, Stop> {
    let mut b = ExtXMedia::builder();
    for (cmd, arg) in commands(script) {
        match cmd {
            "type" => {
                b.media_type(MediaType::from_str(need(arg)?).map_err(|_| BADSCRIPT)?);
            }
            "uri" => {
                b.uri(need(arg)?);
            }
            "group" => {
                b.group_id(need(arg)?);
            }
            "lang" => {
                b.language(need(arg)?);
            }
            "assoc" => {
                b.assoc_language(need(arg)?);
            }
            "name" => {
                b.name(need(arg)?);
            }
            "default" => {
                b.is_default(flag(arg)?);
            }
            "autoselect" => {
                b.is_autoselect(flag(arg)?);
            }
            "forced" => {
                b.is_forced(flag(arg)?);
            }
            "instream" => {
                b.instream_id(InStreamId::from_str(need(arg)?).map_err(|_| BADSCRIPT)?);
            }
            "chars" => {
                b.characteristics(need(arg)?);
            }
            "channels" => {
                b.channels(Channels::from_str(need(arg)?).map_err(|_| BADSCRIPT)?);
            }
            _ => return Err(BADSCRIPT),
        }
    }
    let x = b.build().map_err(|_| ERR)?;
    Ok(ok_dump(&x, observe::ext_x_media))
}

fn build_date_range(script: &str) -> Result<String, Stop> {
    let mut b = ExtXDateRange::builder();
    for (cmd, arg) in commands(script) {
        match cmd {
            "id" => {
                b.id(need(arg)?);
            }
            "class" => {
                b.class(need(arg)?);
            }
            "start" => {
                b.start_date(need(arg)?);
            }
            "end" => {
                b.end_date(need(arg)?);
            }
            "dur" => {
                b.duration(dur(arg)?);
            }
            "planned" => {
                b.planned_duration(dur(arg)?);
            }
            "cmd" => {
                b.scte35_cmd(need(arg)?);
            }
            "out" => {
                b.scte35_out(need(arg)?);
            }
            "in" => {
                b.scte35_in(need(arg)?);
            }
            "eon" => {
                b.end_on_next(flag(arg)?);
            }
            "client" => {
                // `<NAME> s <text>` | `<NAME> h <hexbytes>` | `<NAME> f <f32 text>`
                let mut parts = need(arg)?.splitn(3, ' ');
                let (Some(name), Some(kind), Some(text)) =
                    (parts.next(), parts.next(), parts.next())
                else {
                    return Err(BADSCRIPT);
                };
                let value = match kind {
                    "s" => Value::String(Cow::Borrowed(text)),
                    "h" => Value::Hex(hex_bytes(text)?),
                    "f" => {
                        let x = text.parse::<f32>().map_err(|_| BADSCRIPT)?;
                        // `Float::new` panics on NaN / infinities -> `panic`.
                        Value::Float(Float::new(x))
                    }
                    _ => return Err(BADSCRIPT),
                };
                b.insert_client_attribute(name, value);
            }
            _ => return Err(BADSCRIPT),
        }
    }
    let x = b.build().map_err(|_| ERR)?;
    Ok(ok_dump(&x, observe::date_range))
}

fn build_session_data(script: &str) -> Result<String, Stop> {
    let mut b = ExtXSessionData::builder();
    for (cmd, arg) in commands(script) {
        match cmd {
            "id" => {
                b.data_id(need(arg)?);
            }
            "value" => {
                b.data(SessionData::Value(Cow::Borrowed(need(arg)?)));
            }
            "datauri" => {
                b.data(SessionData::Uri(Cow::Borrowed(need(arg)?)));
            }
            "lang" => {
                b.language(need(arg)?);
            }
            _ => return Err(BADSCRIPT),
        }
    }
    let x = b.build().map_err(|_| ERR)?;
    Ok(ok_dump(&x, observe::session_data))
}

fn build_key(script: &str) -> Result<String, Stop> {
    let mut b = DecryptionKey::builder();
    for (cmd, arg) in commands(script) {
        match cmd {
            "method" => {
                b.method(EncryptionMethod::from_str(need(arg)?).map_err(|_| BADSCRIPT)?);
            }
            "uri" => {
                b.uri(need(arg)?);
            }
            "iv" => {
                let bytes = hex_bytes(need(arg)?)?;
                let iv = <[u8; 16]>::try_from(bytes.as_slice()).map_err(|_| BADSCRIPT)?;
                b.iv(iv);
            }
            "format" => {
                b.format(KeyFormat::from(need(arg)?));
            }
            "versions" => {
                b.versions(KeyFormatVersions::from_str(need(arg)?).map_err(|_| BADSCRIPT)?);
            }
            _ => return Err(BADSCRIPT),
        }
    }
    let x = b.build().map_err(|_| ERR)?;
    Ok(ok_dump(&x, observe::key))
}

fn build_stream_data(script: &str) -> Result<String, Stop> {
    let mut b = StreamData::builder();
    for (cmd, arg) in commands(script) {
        match cmd {
            "bw" => {
                b.bandwidth(num::<u64>(arg)?);
            }
            "avg" => {
                b.average_bandwidth(num::<u64>(arg)?);
            }
            "codecs" => {
                let list: Vec<&str> = need(arg)?.split(',').collect();
                b.codecs(list);
            }
            "res" => {
                let (w, h) = need(arg)?.split_once('x').ok_or(BADSCRIPT)?;
                let w = num::<usize>(Some(w))?;
                let h = num::<usize>(Some(h))?;
                b.resolution((w, h));
            }
            "hdcp" => {
                b.hdcp_level(HdcpLevel::from_str(need(arg)?).map_err(|_| BADSCRIPT)?);
            }
            "video" => {
                b.video(need(arg)?);
            }
            _ => return Err(BADSCRIPT),
        }
    }
    let x = b.build().map_err(|_| ERR)?;
    Ok(ok_dump(&x, observe::stream_data))
}
