(* driver.ml — line protocol glue around the extracted model: int <-> N, UTF-8 <-> code
   points.  Input lines: id<TAB>op<TAB>args… (text args hex-encoded UTF-8); output lines:
   id<TAB>result. *)
module M = Model

let rec pos_of_int (n : int) : M.positive =
  if n = 1 then M.XH
  else if n land 1 = 0 then M.XO (pos_of_int (n lsr 1))
  else M.XI (pos_of_int (n lsr 1))
let n_of_int (n : int) : M.n = if n = 0 then M.N0 else M.Npos (pos_of_int n)
let rec int_of_pos (p : M.positive) : int =
  match p with M.XH -> 1 | M.XO q -> 2 * int_of_pos q | M.XI q -> 2 * int_of_pos q + 1
let int_of_n (x : M.n) : int = match x with M.N0 -> 0 | M.Npos p -> int_of_pos p

(* decimal string -> N, for numbers beyond OCaml int *)
let n_of_decimal (s : string) : M.n =
  let ten = n_of_int 10 in
  let acc = ref M.N0 in
  String.iter (fun c -> acc := M.N.add (M.N.mul !acc ten) (n_of_int (Char.code c - 48))) s;
  !acc

let unhex (s : string) : string =
  if String.length s land 1 = 1 then failwith "hex";
  let n = String.length s / 2 in
  let v c = match c with
    | '0'..'9' -> Char.code c - 48
    | 'a'..'f' -> Char.code c - 87
    | 'A'..'F' -> Char.code c - 55
    | _ -> failwith "hex" in
  String.init n (fun i -> Char.chr (v s.[2*i] * 16 + v s.[2*i+1]))

(* UTF-8 bytes -> list of code points (input is valid UTF-8 by construction) *)
let codepoints (s : string) : M.n list =
  let len = String.length s in
  let rec go i acc =
    if i >= len then List.rev acc
    else
      let c = Char.code s.[i] in
      if c < 0x80 then go (i+1) (n_of_int c :: acc)
      else if c < 0xE0 then
        go (i+2) (n_of_int (((c land 0x1F) lsl 6) lor (Char.code s.[i+1] land 0x3F)) :: acc)
      else if c < 0xF0 then
        go (i+3) (n_of_int (((c land 0x0F) lsl 12) lor ((Char.code s.[i+1] land 0x3F) lsl 6)
                            lor (Char.code s.[i+2] land 0x3F)) :: acc)
      else
        go (i+4) (n_of_int (((c land 0x07) lsl 18) lor ((Char.code s.[i+1] land 0x3F) lsl 12)
                            lor ((Char.code s.[i+2] land 0x3F) lsl 6)
                            lor (Char.code s.[i+3] land 0x3F)) :: acc)
  in go 0 []

(* dumps are ASCII *)
let string_of_str (l : M.n list) : string =
  let b = Buffer.create 256 in
  List.iter (fun c -> Buffer.add_char b (Char.chr (int_of_n c land 0xFF))) l;
  Buffer.contents b

let text a = codepoints (unhex a)

(* builder scripts: one command per line, command word, one space, rest of line verbatim *)
exception Bad_script
let split_cmd (l : string) : string * string =
  match String.index_opt l ' ' with
  | Some i -> (String.sub l 0 i, String.sub l (i + 1) (String.length l - i - 1))
  | None -> (l, "")
let is_decimal (s : string) = s <> "" && String.for_all (fun c -> c >= '0' && c <= '9') s
let num (s : string) : M.n = if is_decimal s then n_of_decimal s else raise Bad_script
let flag (s : string) : bool = match s with "1" -> true | "0" -> false | _ -> raise Bad_script
let bop_of_line (l : string) : M.bop =
  let (c, a) = split_cmd l in
  match c with
  | "Tn" -> M.BTarget (num a)
  | "M" -> M.BMseq (num a)
  | "D" -> M.BDseq (num a)
  | "P" -> (match a with "event" -> M.BPtype (Some (n_of_int 0)) | "vod" -> M.BPtype (Some (n_of_int 1))
                        | "none" -> M.BPtype None | _ -> raise Bad_script)
  | "I" -> M.BIframes (flag a)
  | "N" -> M.BIndep (flag a)
  | "E" -> M.BEndlist (flag a)
  | "S" -> M.BStart (codepoints a)
  | "X" -> M.BExcess (num a)
  | "U" -> M.BUnknownAdd (codepoints a)
  | "unknown" -> M.BUnknownSet
  | "seg" -> if a = "-" then M.BSegBegin None else M.BSegBegin (Some (num a))
  | "dur" -> M.BSegDur (num a)
  | "tag" -> M.BSegTag (codepoints a)
  | "uri" -> M.BSegUri (codepoints a)
  | "end" -> (match a with "push" -> M.BSegEndPush | "list" -> M.BSegEndList | _ -> raise Bad_script)
  | "segments" -> M.BSegments
  | "build" -> M.BBuild
  | _ -> raise Bad_script
(* `num <n>` / `num none` after `seg …`: MediaSegmentBuilder::number called again on the same segment builder — the last call
   wins (C20_setters), so the line is folded into the `seg` line it follows *)
let fold_num (lines : string list) : string list =
  let is_pref p l = String.length l >= String.length p && String.sub l 0 (String.length p) = p in
  let rec go acc = function
    | [] -> List.rev acc
    | l :: rest when is_pref "num " l ->
        let a = String.sub l 4 (String.length l - 4) in
        let a' = if a = "none" then "-" else a in
        let rec repl = function
          | [] -> raise Bad_script
          | x :: xs when is_pref "seg " x -> ("seg " ^ a') :: xs
          | x :: xs -> x :: repl xs in
        go (repl acc) rest
    | l :: rest -> go (l :: acc) rest in
  go [] lines
let run_script (script : string) : string =
  let lines = List.filter (fun l -> l <> "" && l <> "P none") (String.split_on_char '\n' script) in
  let lines = (try fold_num lines with Bad_script -> ["badscript-line"]) in
  match (try Some (List.map bop_of_line lines) with Bad_script -> None) with
  | None -> "badscript"
  | Some ops -> string_of_str (M.run_builder ops)

let dispatch (op : string) (args : string list) : string =
  match op, args with
  | "media", [a] -> string_of_str (M.run_media (text a))
  | "media_excess", [a; ns] -> string_of_str (M.run_media_with (M.with_excess (n_of_decimal ns)) (text a))
  | "master", [a] -> string_of_str (M.run_master (text a))
  | "tag", [ty; a] -> string_of_str (M.run_tag (codepoints ty) (text a))
  | "bmedia", [a] -> run_script (unhex a)
  | "assoc", [a] -> string_of_str (M.run_assoc (text a))
  | _ -> "badop"

let () =
  let ic = open_in Sys.argv.(1) in
  let out = Buffer.create 65536 in
  (try
     while true do
       let line = input_line ic in
       if line <> "" then begin
         match String.split_on_char '\t' line with
         | id :: op :: args ->
           let r = (try dispatch op args with Failure _ -> "badinput" | Invalid_argument _ -> "badinput" | Not_found -> "badop") in
           Buffer.add_string out id; Buffer.add_char out '\t';
           Buffer.add_string out r; Buffer.add_char out '\n';
           if Buffer.length out > 60000 then (print_string (Buffer.contents out); Buffer.clear out)
         | _ -> ()
       end
     done
   with End_of_file -> ());
  print_string (Buffer.contents out)
