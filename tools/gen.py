"""Input generators: abstract playlists (the valid domain), their rendering under a
surface style, the spec-level expectation (independent of the Coq model and of the
implementation), key histories, mutators and presentation transformations.

Every random choice comes from one random.Random seeded from VERIF_SEED."""
import random
from fractions import Fraction

U64 = 2 ** 64 - 1

# ---------------------------------------------------------------- helpers


def S(s):
    """dump atom of a string"""
    return "s" + ".".join(str(ord(c)) for c in s)


def O(x, f=lambda v: v):
    return "none" if x is None else f(x)


def P(name, *fields):
    return "(" + " ".join([name] + list(fields)) + ")"


def B(b):
    return "1" if b else "0"


def round_to_format(fr, prec, emin, emax):
    """round a positive Fraction to nearest-even in a binary format; returns (m, e) or 'inf'/(0,0)"""
    if fr == 0:
        return (0, 0)
    # find e with 2^(prec-1) <= fr / 2^e < 2^prec
    n, d = fr.numerator, fr.denominator
    e = n.bit_length() - d.bit_length() - prec
    while fr / Fraction(2) ** e >= 2 ** prec:
        e += 1
    while fr / Fraction(2) ** e < 2 ** (prec - 1):
        e -= 1
    e = max(e, emin)
    q = fr / Fraction(2) ** e
    m = q.numerator // q.denominator
    rem = q - m
    if rem > Fraction(1, 2) or (rem == Fraction(1, 2) and m % 2 == 1):
        m += 1
    if m == 2 ** prec:
        m //= 2
        e += 1
    if e > emax:
        return "inf"
    return (m, e)


def f32_bits(text):
    """bits of the f32 nearest to the decimal text (plain decimal notation, optional sign)"""
    neg = text.startswith("-")
    t = text.lstrip("+-")
    fr = Fraction(t)
    r = round_to_format(fr, 24, -149, 104)
    assert r != "inf"
    m, e = r
    sign = 0x80000000 if neg else 0
    if m == 0:
        return sign
    if m >= 2 ** 23:
        return sign + (e + 150) * 2 ** 23 + (m - 2 ** 23)
    return sign + m


def dur_ns(text):
    """decimal seconds with at most 9 fractional digits -> ns (exact)"""
    fr = Fraction(text) * 10 ** 9
    assert fr.denominator == 1, text
    return int(fr)


# ---------------------------------------------------------------- value pools
WORDS = ["a", "seg", "video", "audio-en", "x y", "a,b", "k=v", "café", "日本", "q?x=1&y=2",
         "http://example.com/p/1.ts", "../up/file", "a'b", "tür, €=5", "\U0001f600 ok", "#frag", "1e5", "NONE", "0x12"]
URI_WORDS = ["a.ts", "seg/1.ts", "http://example.com/p/1.ts?x=1&y=2", "../up/file.mp4", "日本.ts",
             "café 1.ts", "a,b=c.ts", "main.mp4", "1", "x#y"]
BOUNDARY = [0, 1, 2, 9, 10, 255, 256, 65535, 2 ** 31, 2 ** 32 - 1, 2 ** 32, 2 ** 53, 2 ** 63, U64 - 1, U64]


class G:
    def __init__(self, seed):
        self.r = random.Random(seed)

    def chance(self, p):
        return self.r.random() < p

    def pick(self, l):
        return l[self.r.randrange(len(l))]

    def word(self):
        return self.pick(WORDS)

    def qstring(self):
        """a string admissible inside quotes: no '"', CR, LF; not blank"""
        if self.chance(0.7):
            return self.word()
        n = self.r.randint(1, 12)
        alphabet = "abcXYZ019 ,=:/-_.%&;éß中\U0001f3b5\\\u0301\u200d'"
        s = "".join(self.pick(alphabet) for _ in range(n))
        if self.chance(0.15):
            s += self.pick(["\\", "\\\\", "dir\\"])       # RFC 8216 has no escapes: a backslash, also right before the closing quote, is an ordinary character
        return s if s.strip() else "w" + s

    def uri(self):
        return self.pick(URI_WORDS) if self.chance(0.8) else (self.qstring().strip().lstrip("#").strip() or "u")

    def u64(self):
        if self.chance(0.3):
            return self.pick(BOUNDARY)
        if self.chance(0.5):
            return self.r.randrange(0, 10 ** 7)
        return self.r.randrange(0, U64 + 1)

    def small(self, hi=1000):
        return self.r.randrange(0, hi)

    def duration_text(self, max_secs):
        """decimal seconds < max_secs with 0..9 fractional digits"""
        whole = self.r.randrange(0, max(1, max_secs))
        nd = self.pick([0, 0, 1, 2, 3, 3, 6, 9])
        if nd == 0:
            return str(whole)
        if self.chance(0.2):
            # fractions at the edges: below a microsecond / millisecond, around one half, all nines
            frac = self.pick([1, 500, 999, 1000, 999999, 1000000, 499999999, 500000000, 500000001, 999999999, 999999000, 100000000])
            return ("%d.%09d" % (whole, frac)).rstrip("0") if self.chance(0.5) else "%d.%09d" % (whole, frac)
        frac = self.r.randrange(0, 10 ** nd)
        return "%d.%0*d" % (whole, nd, frac)

    def f32_text(self, signed=True):
        if self.chance(0.15):
            return self.f32_midpoint_text(signed)
        v = self.pick(["0", "1", "1.5", "2.25", "10.125", "0.5", "3.75", "29.97", "23.976", "59.94", "60", "25", "0.001", "12345.678"])
        if signed and self.chance(0.3):
            v = "-" + v
        return v

    def hexbytes(self, n):
        return bytes(self.r.randrange(256) for _ in range(n))

    def f32_midpoint_text(self, signed=True):
        """a decimal just above / below / at the midpoint of two adjacent positive f32 values with a short integer part"""
        import struct
        bits = self.pick([0x4B800000, 0x4B800001, 0x4C000000, 0x3F800000, 0x3F800001, 0x15AE43FD, self.r.randrange(0x3A000000, 0x4E000000)])
        x = Fraction(struct.unpack(">f", struct.pack(">I", bits))[0])
        y = Fraction(struct.unpack(">f", struct.pack(">I", bits + 1))[0])
        mid = (x + y) / 2
        from decimal import Decimal, getcontext
        getcontext().prec = 400
        t = format(Decimal(mid.numerator) / Decimal(mid.denominator), "f")
        if "." not in t:
            t += ".0"
        kind = self.r.randrange(3)
        if kind == 0:
            t = t + "0" * self.r.randint(0, 12) + "1"                   # just above the midpoint
        elif kind == 1:
            # just below: decrement the last digit of the exact midpoint expansion and append nines
            t = t.rstrip("0")
            t = t[:-1] + str(int(t[-1]) - 1) + "9" * self.r.randint(10, 25) if t[-1] not in ".0" else t + "0"
        return ("-" + t) if (signed and self.chance(0.3)) else t

    def iv(self):
        """16 octets; edge cases: leading zero nibbles / octets, all zero, all ones, small numbers"""
        if self.chance(0.35):
            return self.pick([bytes(16), bytes(15) + b"\x01", b"\xff" * 16, bytes(8) + b"\xff" * 8, b"\x0f" + self.hexbytes(15),
                              b"\x00" + self.hexbytes(15), (self.r.randrange(0, 1000)).to_bytes(16, "big"), b"\x80" + bytes(15)])
        return self.hexbytes(16)


# tag names that only LOOK like known tags: a flag tag with a suffix or a value, a value tag without its colon, a longer name
NEAR_MISS_TAGS = ["#EXT-X-ENDLISTX", "#EXT-X-ENDLIST-POLICY:KEEP", "#EXT-X-ENDLIST:1", "#EXT-X-I-FRAMES-ONLY:YES", "#EXT-X-I-FRAMES-ONLY-HINT",
                  "#EXT-X-INDEPENDENT-SEGMENTS-HINT:MODE=\"soft\"", "#EXT-X-INDEPENDENT-SEGMENTS:NO", "#EXT-X-DISCONTINUITY:reason=ad-break",
                  "#EXT-X-DISCONTINUITYX", "#EXT-X-KEY", "#EXT-X-MAP", "#EXT-X-START", "#EXT-X-SESSION-KEY", "#EXT-X-KEYS:METHOD=NONE",
                  "#EXT-X-MAPPING:URI=\"x\"", "#EXT-X-MEDIA-SEQUENCEX:5", "#EXT-X-TARGETDURATIONS:9", "#EXT-X-PLAYLIST-TYPES:VOD", "#EXTINFO:1,",
                  "#EXT-X-BYTERANGES:1@2", "#EXT-X-DATERANGES:ID=\"x\"", "#EXT-X-PROGRAM-DATE-TIMES:x", "#EXT-X-STREAM-INFO:BANDWIDTH=1",
                  "#EXT-X-MEDIAS:TYPE=AUDIO", "#EXT-X-SESSION-DATAS:DATA-ID=\"x\"", "#EXT-X-I-FRAME-STREAM-INFO:BANDWIDTH=1", "#EXT-X-VERSIONS:3",
                  "#EXT-X-DISCONTINUITY-SEQUENCES:3", "#EXT-X-TARGETDURATION", "#EXT-X-MEDIA-SEQUENCE"]

# ---------------------------------------------------------------- keys
KEYFORMATS = [None, "identity", "com.apple.streamingkeydelivery", "com.microsoft.playready",
              "urn:uuid:edef8ba9-79d6-4ace-a3c8-27dcd51d21ed", "com.example.drm",
              # near misses of the well-known identifiers: other spellings are OTHER formats (quoted strings compare byte-wise)
              "IDENTITY", "Identity", "urn:uuid:EDEF8BA9-79D6-4ACE-A3C8-27DCD51D21ED", "com.apple.StreamingKeyDelivery",
              "com.microsoft.PlayReady", "identity ", "urn:uuid:edef8ba9-79d6-4ace-a3c8-27dcd51d21e", "", " "]
KF_ATOM = {"identity": "identity", "com.apple.streamingkeydelivery": "fairplay",
           "urn:uuid:edef8ba9-79d6-4ace-a3c8-27dcd51d21ed": "widevine",
           "com.microsoft.playready": "playready"}


def gen_key(g, fmt_pool=KEYFORMATS, allow_sample=True):
    fmt = g.pick(fmt_pool)
    method = "AES-128" if (not allow_sample or g.chance(0.7)) else "SAMPLE-AES"
    k = {"method": method, "uri": g.pick(["k1", "https://k.example/key?id=7", "k,2=a", "schüssel", "file:///C:\\keys\\"]) + str(g.small(5)) + ("\\" if g.chance(0.06) else ""),
         "iv": g.iv() if g.chance(0.4) else None, "format": fmt, "versions": None}
    if g.chance(0.25):
        k["versions"] = [g.pick([1, 2, 3, 5, 255, 0]) for _ in range(g.r.randint(1, 4))]
        if g.chance(0.1):
            k["versions"] = [0] * g.r.randint(1, 9)
        elif g.chance(0.1):
            k["versions"] = [g.pick([1, 255, 0, 7]) for _ in range(9)]
    elif g.chance(0.08):
        # the default list spelled out, on a key without KEYFORMAT: still an attribute that asks for protocol version 5
        k["versions"] = [1]
        if g.chance(0.7):
            k["format"] = None
    return k


def fmt_norm(k):
    return k["format"] if k["format"] is not None else "identity"


def key_line(k, g=None):
    if k is None:
        # the tag is recognised from its attribute list: white space and unknown attributes are presentation only
        return "#EXT-X-KEY:" + attrs_of("key", [("METHOD", "NONE")], g)
    attrs = [("METHOD", k["method"]), ("URI", '"%s"' % k["uri"])]
    if k["iv"] is not None:
        attrs.append(("IV", "0x" + k["iv"].hex()))
    if k["format"] is not None:
        attrs.append(("KEYFORMAT", '"%s"' % k["format"]))
    if k["versions"] is not None:
        attrs.append(("KEYFORMATVERSIONS", '"%s"' % "/".join(str(v) for v in k["versions"])))
    return "#EXT-X-KEY:" + attrs_of("key", attrs, g)


def spec_key(k, number=None):
    """dump of a key as RFC 8216 says it applies to a segment with the given number"""
    if k is None:
        return "(nokey)"
    if k["iv"] is not None:
        iv = P("aes", str(int.from_bytes(k["iv"], "big")))
    elif number is not None and k["method"] == "AES-128" and fmt_norm(k) == "identity":
        iv = P("num", str(number))
    else:
        iv = "missing"
    fmt = O(k["format"], lambda f: KF_ATOM.get(f) or P("other", S(f)))
    vers = O(k["versions"], lambda v: P("v", *[str(x) for x in v]))
    return P("key", P("method", "aes128" if k["method"] == "AES-128" else "sampleaes"), P("uri", S(k["uri"])),
             P("iv", iv), P("format", fmt), P("versions", vers))


def keys_in_effect(history):
    """spec: RFC 8216 4.3.2.4 over a list of key events (None = METHOD=NONE)"""
    cur = []
    for ev in history:
        if ev is None:
            cur = [None]
        else:
            cur = [x for x in cur if x is not None and fmt_norm(x) != fmt_norm(ev)] + [ev]
    return cur


# ---------------------------------------------------------------- surface style
ATTR_NAMES = {
    "key": ["METHOD", "URI", "IV", "KEYFORMAT", "KEYFORMATVERSIONS"],
    "map": ["URI", "BYTERANGE"],
    "daterange": ["ID", "CLASS", "START-DATE", "END-DATE", "DURATION", "PLANNED-DURATION", "SCTE35-CMD", "SCTE35-OUT", "SCTE35-IN", "END-ON-NEXT"],
    "start": ["TIME-OFFSET", "PRECISE"],
    "media": ["TYPE", "URI", "GROUP-ID", "LANGUAGE", "ASSOC-LANGUAGE", "NAME", "DEFAULT", "AUTOSELECT", "FORCED", "INSTREAM-ID", "CHARACTERISTICS", "CHANNELS"],
    "streaminf": ["BANDWIDTH", "AVERAGE-BANDWIDTH", "CODECS", "RESOLUTION", "HDCP-LEVEL", "VIDEO", "FRAME-RATE", "AUDIO", "SUBTITLES", "CLOSED-CAPTIONS"],
    "iframe": ["BANDWIDTH", "AVERAGE-BANDWIDTH", "CODECS", "RESOLUTION", "HDCP-LEVEL", "VIDEO", "URI"],
    "sdata": ["DATA-ID", "VALUE", "URI", "LANGUAGE"],
}
FOREIGN_ATTR_NAMES = sorted(set(n for v in ATTR_NAMES.values() for n in v))


def attrs_of(tagkind, attrs, g):
    """render_attrs for a tag of the given kind: attribute names of OTHER tags may be added as unknown attributes"""
    if g is None:
        return render_attrs(attrs, None)
    g.style["own_names"] = ATTR_NAMES[tagkind]
    try:
        return render_attrs(attrs, g)
    finally:
        g.style["own_names"] = None


def render_attrs(attrs, g):
    """attrs: list of (name, already-formatted value).  With a generator: permute, pad,
    add unknown attributes."""
    attrs = list(attrs)
    if g is not None and g.style.get("perm"):
        g.r.shuffle(attrs)
    if g is not None and g.style.get("unknown_attrs") and g.chance(0.3):
        attrs.insert(g.r.randrange(len(attrs) + 1), (g.pick(["UNKNOWN-ATTR", "FOO", "Z-9"]), g.pick(['"q,=x"', "42", "YES"])))
    if g is not None and g.style.get("unknown_attrs") and g.chance(0.25):
        # an attribute some OTHER tag defines is just as unknown here, whatever its value looks like
        own = set(k for k, _ in attrs)
        cand = [n for n in FOREIGN_ATTR_NAMES if n not in own and n not in g.style.get("own_names", ())]
        if cand and g.style.get("own_names") is not None:
            attrs.insert(g.r.randrange(len(attrs) + 1), (g.pick(cand), g.pick(["VARIABLE", '"25"', "-1", "0xFF", "NONE", "x", '"a,b"', "1.5", "nan"])))
    out = []
    for k, v in attrs:
        if g is not None and g.style.get("pad") and g.chance(0.3):
            ws = ["", " ", "\t", "  ", "\u00a0", "\u2003", "\u3000\t", "\x0b", "\x0c"]
            out.append("%s%s%s=%s%s%s" % (g.pick(ws), k, g.pick(ws), g.pick(ws), v, g.pick(ws)))
        else:
            out.append("%s=%s" % (k, v))
    return ",".join(out)


def q(s):
    return '"%s"' % s


# ---------------------------------------------------------------- media playlists
def gen_media(g, nseg=None, feature_p=0.35, max_formats=3, with_keys=True):
    a = {}
    a["target"] = g.pick([1, 2, 6, 10, 10, 30, 3600, 10 ** 6])
    a["mseq"] = g.pick([None, 0, 1, 5, 2680, 2 ** 32, 2 ** 63]) if g.chance(0.6) else None
    a["dseq"] = g.pick([None, 0, 3, 2 ** 40]) if g.chance(0.4) else None
    a["ptype"] = g.pick([None, None, "EVENT", "VOD"])
    a["iframes"] = g.chance(0.15)
    a["indep"] = g.chance(0.15)
    a["start"] = (g.f32_text(), g.chance(0.5)) if g.chance(0.3) else None
    a["endlist"] = g.chance(0.5)
    a["version_tag"] = g.pick([None, None, 3, 7])
    n = nseg if nseg is not None else g.pick([0, 1, 1, 2, 3, 5, 8, 20])
    fmts = [None, "identity"][: 1 + g.r.randrange(2)] + g.r.sample(KEYFORMATS[2:], g.r.randrange(0, max_formats))
    segs = []
    hist = []
    prev_range = None  # (uri, end)
    unknown = []
    for i in range(n):
        s = {"pre": [], "uri": g.uri()}
        # key events before this segment; MAP may sit among them
        evs = []
        if with_keys and g.chance(feature_p):
            for _ in range(g.pick([1, 1, 2, 3])):
                if g.chance(0.2):
                    evs.append(None)
                else:
                    evs.append(gen_key(g, fmts))
        s["map"] = None
        if g.chance(feature_p * 0.6):
            rng = (g.small(10 ** 6), g.pick([g.small(10 ** 6), 0, None, None])) if g.chance(0.5) else None
            s["map"] = {"uri": g.uri(), "range": rng, "pos": g.r.randrange(len(evs) + 1)}
        s["keys_before"] = evs
        dur_cap = a["target"]
        s["dur"] = g.duration_text(dur_cap) if g.chance(0.8) else str(dur_cap)
        # keep rounded duration <= target
        if (dur_ns(s["dur"]) + 5 * 10 ** 8) // 10 ** 9 > a["target"]:
            s["dur"] = str(a["target"])
        s["title"] = g.qstring().strip() if g.chance(0.3) else None
        if s["title"] is not None and (s["title"] == "" or "\n" in s["title"]):
            s["title"] = None
        s["disc"] = g.chance(0.15)
        s["pdt"] = g.pick(["2010-02-19T14:54:23.031+08:00", "2021-01-01T00:00:00Z"]) if g.chance(0.2) else None
        s["range"] = None
        if g.chance(feature_p):
            length = g.pick([0, 1, 100, 75232, 2 ** 32, g.small(10 ** 9)])
            if prev_range is not None and prev_range[0] == s["uri"] and g.chance(0.6):
                s["range"] = (length, None)
            else:
                s["range"] = (length, g.pick([0, 1, 1000, 2 ** 33, g.small(10 ** 9)]))
        elif prev_range is not None and g.chance(0.2):
            s["uri"] = prev_range[0]
            s["range"] = (g.small(1000), None)
        prev_dr = [x["daterange"] for x in segs if x["daterange"] is not None]
        s["daterange"] = (dict(g.pick(prev_dr)) if (prev_dr and g.chance(0.4)) else gen_daterange(g)) if g.chance(feature_p * 0.5) else None
        if g.chance(0.1):
            unknown.append((i, g.pick(["#EXT-X-FOO:bar", "#EXT-UNKNOWN", "#EXTFOO:1,2", "#EXT-X-CUSTOM:A=\"b,c\""] + NEAR_MISS_TAGS)))
        # bookkeeping for ranges
        if s["range"] is not None:
            start = s["range"][1] if s["range"][1] is not None else prev_range[1]
            prev_range = (s["uri"], start + s["range"][0])
        else:
            prev_range = None
        segs.append(s)
    if g.chance(0.2):
        unknown.append((n, "#EXT-X-TRAILER:1"))
    a["segs"] = segs
    if segs and g.chance(0.06):
        a["mseq"] = 2 ** 64 - len(segs)        # the last segment gets the number 2^64-1: still valid
    a["unknown"] = unknown
    # playlist-level tags may stand anywhere (RFC 8216 4.3.3): before which segment each one is written
    # (None = in the header / ENDLIST at the very end)
    a["late"] = {}
    a["dseq_late"] = g.chance(0.3)
    if n > 0 and g.chance(0.3):
        for t in ("endlist", "ptype", "iframes", "indep", "start", "version_tag", "target"):
            if g.chance(0.5):
                a["late"][t] = g.r.randrange(0, n + 1)
    # the library's independent-segments rule (known finding D17) — keep most cases clear of it
    a["d17"] = False
    if a["indep"]:
        allk = [k for s in segs for k in s["keys_before"]]
        if any(k is not None and k["method"] == "AES-128" for k in allk) and \
                any(k is None or k["method"] != "AES-128" for k in allk):
            a["d17"] = True
    return a


def gen_daterange(g):
    # a quoted-string may be empty: an attribute that is present with an empty value is reported as such, not as absent
    d = {"id": g.qstring(), "class": (g.qstring() if g.chance(0.9) else "") if g.chance(0.5) else None,
         "start": "2014-03-05T11:15:00Z" if g.chance(0.7) else None,
         "end": None, "dur": None, "planned": None, "cmd": None, "out": None, "in": None,
         "eon": False, "client": {}}
    if g.chance(0.3):
        d["eon"] = True
        if d["class"] is None:
            d["class"] = "cls"
    else:
        if g.chance(0.4):
            d["end"] = "2014-03-05T11:16:00Z"
        if g.chance(0.4):
            d["dur"] = g.duration_text(10 ** 5)
    if g.chance(0.4):
        d["planned"] = g.duration_text(10 ** 5)
    for f in ("cmd", "out", "in"):
        if g.chance(0.2):
            d[f] = "0x" + g.hexbytes(g.r.randint(1, 6)).hex().upper()
    for _ in range(g.pick([0, 0, 1, 2, 3])):
        name = "X-" + g.pick(["COM-EXAMPLE-AD", "A", "CUSTOM-1", "Z9", "AD-ID"])
        kind = g.pick(["s", "h", "f"])
        if kind == "s":
            v = ("s", g.qstring())
            # a quoted string that looks like a number or hex is still a string after unquote? no:
            # Value::try_from sees the raw token including quotes, so any quoted text is a string
        elif kind == "h":
            v = ("h", g.hexbytes(g.r.randint(0, 5)))
        else:
            v = ("f", g.f32_text())
        d["client"][name] = v
    return d


def daterange_line(d, g):
    attrs = [("ID", q(d["id"]))]
    if d["class"] is not None:
        attrs.append(("CLASS", q(d["class"])))
    if d["start"] is not None:
        attrs.append(("START-DATE", q(d["start"])))
    if d["end"] is not None:
        attrs.append(("END-DATE", q(d["end"])))
    if d["dur"] is not None:
        attrs.append(("DURATION", d["dur"]))
    if d["planned"] is not None:
        attrs.append(("PLANNED-DURATION", d["planned"]))
    for f, n in (("cmd", "SCTE35-CMD"), ("out", "SCTE35-OUT"), ("in", "SCTE35-IN")):
        if d[f] is not None:
            attrs.append((n, d[f]))
    for name in sorted(d["client"]):
        kind, v = d["client"][name]
        attrs.append((name, q(v) if kind == "s" else ("0x" + v.hex().upper() if kind == "h" else v)))
    if d["eon"]:
        attrs.append(("END-ON-NEXT", "YES"))
    return "#EXT-X-DATERANGE:" + attrs_of("daterange", attrs, g)


def spec_daterange(d):
    ca = []
    for name in sorted(d["client"]):
        kind, v = d["client"][name]
        if kind == "s":
            val = P("vs", S(v))
        elif kind == "h":
            val = P("vh", *[str(b) for b in v])
        else:
            val = P("vf", str(f32_bits(v)))
        ca.append(P("ca", S(name), val))
    return P("dr", P("id", S(d["id"])), P("class", O(d["class"], S)), P("sdate", O(d["start"], S)),
             P("edate", O(d["end"], S)), P("dur", O(d["dur"], lambda t: str(dur_ns(t)))),
             P("planned", O(d["planned"], lambda t: str(dur_ns(t)))), P("cmd", O(d["cmd"], S)),
             P("out", O(d["out"], S)), P("in", O(d["in"], S)), P("eon", B(d["eon"])), P("client", *ca))


def seg_tag_lines(s, g):
    """the tag lines of one segment (before its URI), KEY/MAP relative order as given"""
    keymap = []
    evs = s["keys_before"]
    pos = s["map"]["pos"] if s["map"] is not None else None
    for i, k in enumerate(evs):
        if pos == i:
            keymap.append(map_line(s["map"], g))
        keymap.append(key_line(k, g))
    if pos is not None and pos >= len(evs):
        keymap.append(map_line(s["map"], g))
    others = []
    if s["range"] is not None:
        others.append("#EXT-X-BYTERANGE:%d%s" % (s["range"][0], "" if s["range"][1] is None else "@%d" % s["range"][1]))
    if s["daterange"] is not None:
        others.append(daterange_line(s["daterange"], g))
    if s["disc"]:
        others.append("#EXT-X-DISCONTINUITY")
    if s["pdt"] is not None:
        others.append("#EXT-X-PROGRAM-DATE-TIME:" + s["pdt"])
    others.append("#EXTINF:%s,%s" % (s["dur"], s["title"] or ""))
    if g is not None and g.style.get("seg_perm"):
        # interleave: non-key tags in any order, anywhere among the key/map lines
        g.r.shuffle(others)
        merged = list(keymap)
        for o in others:
            merged.insert(g.r.randrange(len(merged) + 1), o)
        return merged
    return keymap + others


def map_line(m, g):
    attrs = [("URI", q(m["uri"]))]
    if m["range"] is not None:
        attrs.append(("BYTERANGE", q("%d@%d" % m["range"] if m["range"][1] is not None else "%d" % m["range"][0])))
    return "#EXT-X-MAP:" + attrs_of("map", attrs, g)


def render_media(a, g=None):
    """g carries the style; None = plain canonical-ish style"""
    hdr = []
    late = a.get("late", {})
    later = {}

    def put(tagname, line):
        if tagname in late:
            later.setdefault(late[tagname], []).append(line)
        else:
            hdr.append(line)
    put("target", "#EXT-X-TARGETDURATION:%d" % a["target"])
    if a["mseq"] is not None:
        hdr.append("#EXT-X-MEDIA-SEQUENCE:%d" % a["mseq"])
    if a["ptype"] is not None:
        put("ptype", "#EXT-X-PLAYLIST-TYPE:" + a["ptype"])
    if a["iframes"]:
        put("iframes", "#EXT-X-I-FRAMES-ONLY")
    if a["indep"]:
        put("indep", "#EXT-X-INDEPENDENT-SEGMENTS")
    if a["start"] is not None:
        attrs = [("TIME-OFFSET", a["start"][0])]
        if a["start"][1]:
            attrs.append(("PRECISE", "YES"))
        elif g is not None and g.chance(0.3):
            attrs.append(("PRECISE", "NO"))
        put("start", "#EXT-X-START:" + attrs_of("start", attrs, g))
    if a["version_tag"] is not None:
        put("version_tag", "#EXT-X-VERSION:%d" % a["version_tag"])
    if a["endlist"] and "endlist" in late:
        later.setdefault(late["endlist"], []).append("#EXT-X-ENDLIST")
    if g is not None and g.style.get("hdr_perm"):
        g.r.shuffle(hdr)
    dseq = ["#EXT-X-DISCONTINUITY-SEQUENCE:%d" % a["dseq"]] if a["dseq"] is not None else []
    # DISCONTINUITY-SEQUENCE must stay before the first media segment (its URI line) and before any EXT-X-DISCONTINUITY tag:
    # it may stand among the tags of the first segment
    dseq_in_first = bool(dseq) and bool(a["segs"]) and a.get("dseq_late") and g is not None
    if dseq and not dseq_in_first:
        hdr.insert(g.r.randrange(len(hdr) + 1) if g is not None and g.style.get("hdr_perm") else len(hdr), dseq[0])
    body = []
    unk = {}
    for pos, line in a["unknown"]:
        unk.setdefault(pos, []).append(line)
    for i, s in enumerate(a["segs"]):
        body += later.get(i, [])
        for u in unk.get(i, []):
            body.append(u)
        tl = seg_tag_lines(s, g)
        if i == 0 and dseq_in_first:
            stop = min([j for j, l in enumerate(tl) if l.startswith("#EXT-X-DISCONTINUITY") and not l.startswith("#EXT-X-DISCONTINUITY-SEQUENCE")] + [len(tl)])
            tl.insert(g.r.randrange(stop + 1), dseq[0])
        body += tl
        body.append(s["uri"])
    body += later.get(len(a["segs"]), [])
    for u in unk.get(len(a["segs"]), []):
        body.append(u)
    if a["endlist"] and "endlist" not in late:
        body.append("#EXT-X-ENDLIST")
    lines = ["#EXTM3U"] + hdr + body
    return style_lines(lines, g)


def style_lines(lines, g, protect_pairs=True):
    """line-level surface variation: CRLF, blank lines, comments, leading/trailing blanks"""
    if g is None:
        return "\n".join(lines) + "\n"
    eol = "\r\n" if g.style.get("crlf") else "\n"
    out = []
    for i, l in enumerate(lines):
        after_streaminf = protect_pairs and i > 0 and lines[i - 1].startswith("#EXT-X-STREAM-INF:")
        if g.style.get("blank") and not after_streaminf and i > 0 and g.chance(0.15):
            out.append(g.pick(["", "   ", "# a comment", "#comment, with = and \"quotes\"", "\t", "\u00a0", "\u2003\u3000", "\x0b",
                               "# was: #EXTINF:2.9,", "## #EXT-X-KEY:METHOD=NONE", "#ext-x-endlist", "# #EXT-X-STREAM-INF:BANDWIDTH=1"]))
        elif g.style.get("blank") and after_streaminf and g.chance(0.15):
            # between EXT-X-STREAM-INF and its URI only blank lines are transparent (a comment would be the URI)
            for _ in range(g.pick([1, 1, 2])):
                out.append(g.pick(["", "   ", "\t"]))
        if g.style.get("linepad") and i > 0 and g.chance(0.2):
            l = g.pick(["", " ", "\t", "\u00a0", "\u2003 ", "\x0b", "\u3000"]) + l + g.pick(["", " ", "  \t", "\u00a0", "\x0b", "\x0c ", "\u2003", "\u0085"])
        out.append(l)
    text = eol.join(out)
    if not g.style.get("no_final_eol"):
        text += eol
    return text


def spec_media(a):
    """RFC-level expectation of the parse result (dump grammar of DUMP.md)"""
    mseq = a["mseq"] or 0
    segs = []
    hist = []
    prev_end = None
    for i, s in enumerate(a["segs"]):
        num = mseq + i
        evs = s["keys_before"]
        map_keys = None
        if s["map"] is not None:
            map_keys = keys_in_effect(hist + evs[: s["map"]["pos"]])
        hist = hist + evs
        cur = keys_in_effect(hist)
        hist = list(cur)  # compact history: the keys in effect restated
        rng = None
        if s["range"] is not None:
            length, off = s["range"]
            start = off if off is not None else prev_end
            rng = P("r", str(start), str(start + length))
            prev_end = start + length
        else:
            prev_end = None
        m = "none"
        if s["map"] is not None:
            mk = [k for k in map_keys if k is not None]
            mr = O(s["map"]["range"], lambda r: P("r", str(r[1]), str(r[1] + r[0])) if r[1] is not None else P("r", "none", str(r[0])))
            m = P("map", P("uri", S(s["map"]["uri"])), P("range", mr),
                  P("keys", *[spec_key(k) for k in mk]), P("dlen", str(len(mk))),
                  P("dfirst", spec_key(mk[0]) if mk else "none"))
        real = [k for k in cur if k is not None]
        segs.append(P("seg", P("num", str(num)), P("uri", S(s["uri"])), P("dur", str(dur_ns(s["dur"]))),
                      P("title", O(s["title"], S)), P("disc", B(s["disc"])), P("pdt", O(s["pdt"], S)),
                      P("range", rng or "none"), P("map", m),
                      P("daterange", O(s["daterange"], spec_daterange)),
                      P("keys", *[spec_key(k, num) for k in cur]), P("dlen", str(len(real))),
                      P("dfirst", spec_key(real[0], num) if real else "none")))
    start = O(a["start"], lambda st: P("start", str(f32_bits(st[0])), B(st[1])))
    return P("media", P("target", str(a["target"] * 10 ** 9)), P("mseq", str(mseq)), P("dseq", str(a["dseq"] or 0)),
             P("ptype", {None: "none", "EVENT": "event", "VOD": "vod"}[a["ptype"]]), P("iframes", B(a["iframes"])),
             P("indep", B(a["indep"])), P("start", start), P("endlist", B(a["endlist"])), P("excess", "0"),
             P("unknown", *[S(u) for _, u in sorted(a["unknown"], key=lambda x: x[0])]), P("segs", *segs))


# ---------------------------------------------------------------- master playlists
INSTREAM = ["CC%d" % i for i in range(1, 5)] + ["SERVICE%d" % i for i in range(1, 64)]
MTYPES = ["AUDIO", "VIDEO", "SUBTITLES", "CLOSED-CAPTIONS"]
MT_ATOM = {"AUDIO": "audio", "VIDEO": "video", "SUBTITLES": "subtitles", "CLOSED-CAPTIONS": "cc"}


def gen_xmedia(g, ty=None, group=None):
    ty = ty or g.pick(MTYPES)
    m = {"type": ty, "uri": None, "group": group or g.pick(["g1", "g2", "aud", "grp,1", "grü=n", "NONE", "g1"]),   # a group may be spelled like the NONE keyword
         "lang": g.pick(["en", "de-CH", "zh-Hans", ""]) if g.chance(0.5) else None,
         "assoc": g.pick(["fr", "es", ""]) if g.chance(0.2) else None, "name": g.qstring(),
         "default": False, "autoselect": False, "forced": False, "instream": None,
         "chars": g.pick(["public.accessibility.describes-video", "a,b", ""]) if g.chance(0.25) else None,
         "channels": None}
    if ty == "SUBTITLES" or (ty in ("AUDIO", "VIDEO") and g.chance(0.6)):
        m["uri"] = g.uri()
    if ty == "CLOSED-CAPTIONS":
        m["instream"] = g.pick(INSTREAM)
    m["autoselect"] = g.chance(0.4)
    m["default"] = g.chance(0.3)
    m["autoselect_written"] = m["autoselect"] or (not m["default"] and g.chance(0.2))   # AUTOSELECT=NO written?
    if m["default"] and not m["autoselect"]:
        m["autoselect_written"] = False
    if ty == "SUBTITLES":
        m["forced"] = g.chance(0.3)
    if g.chance(0.3):
        m["channels"] = (g.pick([1, 2, 6, 16, U64]), g.chance(0.3))
    return m


def xmedia_line(m, g):
    attrs = [("TYPE", m["type"])]
    if m["uri"] is not None:
        attrs.append(("URI", q(m["uri"])))
    attrs.append(("GROUP-ID", q(m["group"])))
    if m["lang"] is not None:
        attrs.append(("LANGUAGE", q(m["lang"])))
    if m["assoc"] is not None:
        attrs.append(("ASSOC-LANGUAGE", q(m["assoc"])))
    attrs.append(("NAME", q(m["name"])))
    if m["default"]:
        attrs.append(("DEFAULT", "YES"))
    if m["autoselect"]:
        attrs.append(("AUTOSELECT", "YES"))
    elif m.get("autoselect_written"):
        attrs.append(("AUTOSELECT", "NO"))
    if m["forced"]:
        attrs.append(("FORCED", "YES"))
    if m["instream"] is not None:
        attrs.append(("INSTREAM-ID", q(m["instream"])))
    if m["chars"] is not None:
        attrs.append(("CHARACTERISTICS", q(m["chars"])))
    if m["channels"] is not None:
        attrs.append(("CHANNELS", q("%d%s" % (m["channels"][0], "/JOC" if m["channels"][1] else ""))))
    return "#EXT-X-MEDIA:" + attrs_of("media", attrs, g)


def spec_xmedia(m):
    return P("m", P("type", MT_ATOM[m["type"]]), P("uri", O(m["uri"], S)), P("group", S(m["group"])),
             P("lang", O(m["lang"], S)), P("assoc", O(m["assoc"], S)), P("name", S(m["name"])),
             P("default", B(m["default"])), P("autoselect", B(m["autoselect"])), P("forced", B(m["forced"])),
             P("instream", O(m["instream"])), P("chars", O(m["chars"], S)),
             P("channels", O(m["channels"], lambda c: P("ch", str(c[0]), B(c[1])))))


def gen_stream_data(g, video=None):
    return {"bw": g.u64(), "avg": g.u64() if g.chance(0.4) else None,
            "codecs": g.pick([["avc1.4d401e", "mp4a.40.2"], ["mp4a.40.5"], ["hvc1.2.4.L123.B0", "ec-3", "x y"], ["avc1.4d401e", " mp4a.40.2"],
                              ["avc1.4d401e", "  mp4a.40.2", "ec-3 "], [" a", "b  ", "  c"]]) if g.chance(0.5) else None,
            "res": (g.pick([0, 416, 1280, 1920, U64]), g.pick([0, 234, 720, 1080, U64])) if g.chance(0.5) else None,
            "hdcp": g.pick(["TYPE-0", "NONE"]) if g.chance(0.3) else None, "video": video}


def sd_attrs(d):
    attrs = [("BANDWIDTH", str(d["bw"]))]
    if d["avg"] is not None:
        attrs.append(("AVERAGE-BANDWIDTH", str(d["avg"])))
    if d["codecs"] is not None:
        attrs.append(("CODECS", q(",".join(d["codecs"]))))
    if d["res"] is not None:
        attrs.append(("RESOLUTION", "%dx%d" % d["res"]))
    if d["hdcp"] is not None:
        attrs.append(("HDCP-LEVEL", d["hdcp"]))
    if d["video"] is not None:
        attrs.append(("VIDEO", q(d["video"])))
    return attrs


def spec_sd(d):
    return P("sd", P("bw", str(d["bw"])), P("avg", O(d["avg"], str)),
             P("codecs", O(d["codecs"], lambda c: P("c", *[S(x) for x in c]))),
             P("res", O(d["res"], lambda r: P("x", str(r[0]), str(r[1])))),
             P("hdcp", O(d["hdcp"], lambda h: "type0" if h == "TYPE-0" else "hnone")),
             P("video", O(d["video"], S)))


def gen_master(g, consistent=True):
    a = {"indep": g.chance(0.3), "start": (g.f32_text(), g.chance(0.5)) if g.chance(0.3) else None,
         "version_tag": g.pick([None, 4, 7]), "media": [], "variants": [], "sdata": [], "skeys": [], "unknown": []}
    groups = {}
    for _ in range(g.pick([0, 1, 2, 3, 5])):
        m = gen_xmedia(g)
        a["media"].append(m)
        groups.setdefault(m["type"], []).append(m["group"])
    cc_mode = g.pick(["none", "group", "absent"])
    for _ in range(g.pick([0, 1, 2, 3])):
        if g.chance(0.3):
            vid = g.pick(groups["VIDEO"]) if groups.get("VIDEO") and g.chance(0.5) else None
            a["variants"].append({"kind": "iframe", "uri": g.uri(), "sd": gen_stream_data(g, vid)})
        else:
            vid = g.pick(groups["VIDEO"]) if groups.get("VIDEO") and g.chance(0.4) else None
            v = {"kind": "streaminf", "uri": g.uri(), "sd": gen_stream_data(g, vid),
                 "fr": g.pick(["25", "29.97", "23.976", "60", "59.94", "0", "0.5", "120.125"]) if g.chance(0.4) else None,
                 "audio": g.pick(groups["AUDIO"]) if groups.get("AUDIO") and g.chance(0.5) else None,
                 "subs": g.pick(groups["SUBTITLES"]) if groups.get("SUBTITLES") and g.chance(0.5) else None,
                 "cc": None}
            if cc_mode == "none" and g.chance(0.6):
                v["cc"] = "NONE"
            elif cc_mode == "group" and groups.get("CLOSED-CAPTIONS") and g.chance(0.6):
                v["cc"] = ("g", g.pick(groups["CLOSED-CAPTIONS"]))
            a["variants"].append(v)
    seen = set()
    for _ in range(g.pick([0, 0, 1, 2, 3])):
        d = {"id": g.pick(["com.example.title", "com.example.lyrics", "a,b", "id3", "id3-en", "com.example.title-de"]), "lang": g.pick([None, "en", "de", "", "US"]),
             "data": ("value", g.qstring()) if g.chance(0.6) else ("uri", g.uri())}
        if (d["id"], d["lang"]) in seen:
            continue
        seen.add((d["id"], d["lang"]))
        a["sdata"].append(d)
    for _ in range(g.pick([0, 0, 1, 2])):
        a["skeys"].append(gen_key(g))
    if a["skeys"] and g.chance(0.35):
        k2 = dict(a["skeys"][0])
        c3 = g.r.randrange(3)
        if c3 == 0:
            k2["iv"] = None if k2["iv"] is not None else g.iv()
        elif c3 == 1:
            k2["format"] = {None: "identity", "identity": None}.get(k2["format"], None)
        else:
            # the same key offered with another list of format versions: two different tags, both kept
            k2["versions"] = [1, 2, 5] if k2["versions"] != [1, 2, 5] else [3]
        a["skeys"].append(k2)
    for _ in range(g.pick([0, 0, 1, 2])):
        a["unknown"].append(g.pick(["#EXT-X-FOO:bar", "#EXT-UNKNOWN", "#EXT-X-CUSTOM:A=\"b,c\""] + NEAR_MISS_TAGS))
    return a


def variant_lines(v, g):
    if v["kind"] == "iframe":
        return ["#EXT-X-I-FRAME-STREAM-INF:" + attrs_of("iframe", [("URI", q(v["uri"]))] + sd_attrs(v["sd"]), g)]
    attrs = sd_attrs(v["sd"])
    if v["fr"] is not None:
        attrs.append(("FRAME-RATE", v["fr"]))
    if v["audio"] is not None:
        attrs.append(("AUDIO", q(v["audio"])))
    if v["subs"] is not None:
        attrs.append(("SUBTITLES", q(v["subs"])))
    if v["cc"] is not None:
        attrs.append(("CLOSED-CAPTIONS", "NONE" if v["cc"] == "NONE" else q(v["cc"][1])))
    return ["#EXT-X-STREAM-INF:" + attrs_of("streaminf", attrs, g), v["uri"]]


def sdata_line(d, g):
    attrs = [("DATA-ID", q(d["id"])), ("VALUE" if d["data"][0] == "value" else "URI", q(d["data"][1]))]
    if d["lang"] is not None:
        attrs.append(("LANGUAGE", q(d["lang"])))
    return "#EXT-X-SESSION-DATA:" + attrs_of("sdata", attrs, g)


def render_master(a, g=None):
    groups = []
    groups.append([xmedia_line(m, g) for m in a["media"]])
    vs = []
    for v in a["variants"]:
        vs.append(variant_lines(v, g))
    sd = [sdata_line(d, g) for d in a["sdata"]]
    sk = [key_line(k, g).replace("#EXT-X-KEY:", "#EXT-X-SESSION-KEY:", 1) for k in a["skeys"]]
    misc = []
    if a["indep"]:
        misc.append("#EXT-X-INDEPENDENT-SEGMENTS")
    if a["start"] is not None:
        attrs = [("TIME-OFFSET", a["start"][0])] + ([("PRECISE", "YES")] if a["start"][1] else [])
        misc.append("#EXT-X-START:" + attrs_of("start", attrs, g))
    if a["version_tag"] is not None:
        misc.append("#EXT-X-VERSION:%d" % a["version_tag"])
    # blocks: each is a list of lines that stays together; order within a kind is kept
    blocks = [[l] for l in groups[0]] + vs + [[l] for l in sd] + [[l] for l in sk] + [[l] for l in misc] + [[u] for u in a["unknown"]]
    if g is not None and g.style.get("hdr_perm"):
        # interleave kinds while preserving the order inside each kind
        kinds = [[[l] for l in groups[0]], vs, [[l] for l in sd], [[l] for l in sk], [[u] for u in a["unknown"]]]
        merged = []
        idx = [0] * len(kinds)
        remaining = sum(len(k) for k in kinds)
        while remaining:
            c = g.pick([i for i in range(len(kinds)) if idx[i] < len(kinds[i])])
            merged.append(kinds[c][idx[c]])
            idx[c] += 1
            remaining -= 1
        for mline in misc:
            merged.insert(g.r.randrange(len(merged) + 1), [mline])
        blocks = merged
    lines = ["#EXTM3U"] + [l for b in blocks for l in b]
    return style_lines(lines, g)


def spec_master(a):
    vs = []
    for v in a["variants"]:
        if v["kind"] == "iframe":
            vs.append(P("iframe", P("uri", S(v["uri"])), spec_sd(v["sd"])))
        else:
            cc = "none" if v["cc"] is None else ("ccnone" if v["cc"] == "NONE" else P("ccgroup", S(v["cc"][1])))
            vs.append(P("streaminf", P("uri", S(v["uri"])), P("fr", O(v["fr"], lambda t: str(f32_bits(t)))),
                        P("audio", O(v["audio"], S)), P("subs", O(v["subs"], S)), P("cc", cc), spec_sd(v["sd"])))
    sd = [P("sdat", P("id", S(d["id"])), P(d["data"][0], S(d["data"][1])), P("lang", O(d["lang"], S))) for d in a["sdata"]]
    start = O(a["start"], lambda st: P("start", str(f32_bits(st[0])), B(st[1])))
    return P("master", P("indep", B(a["indep"])), P("start", start), P("media", *[spec_xmedia(m) for m in a["media"]]),
             P("variants", *vs), P("sdata", *sd), P("skeys", *[spec_key(k) for k in a["skeys"]]),
             P("unknown", *[S(u) for u in a["unknown"]]))


# ---------------------------------------------------------------- styles
def random_style(g):
    g.style = {"perm": g.chance(0.6), "pad": g.chance(0.4), "unknown_attrs": g.chance(0.4), "crlf": g.chance(0.3),
               "blank": g.chance(0.5), "linepad": g.chance(0.4), "hdr_perm": g.chance(0.5), "seg_perm": g.chance(0.5),
               "no_final_eol": g.chance(0.2)}
    return g.style


def plain_style(g):
    g.style = {}
    return g.style


# ---------------------------------------------------------------- malformed stream (C05)
NASTY_TOKENS = ["-1", "0", "18446744073709551615", "18446744073709551616", "340282366920938463463374607431768211456",
                "nan", "NaN", "inf", "-inf", "infinity", "1e400", "1e-400", "-0", "+5", "1e19", "1.8446744073709552e19",
                "18446744073709551615.5", "", '"', '""', '"""', "'", "é", "\U0001f600", "=", ",", "@", "x", "/",
                "0x", "0X", "0x0", "0xzz", "YES", "NO", "NONE", "9" * 40, "0." + "9" * 40, "1" + "0" * 400, "1e" + "9" * 12]


def mutate(text, g):
    """one near-valid mutation of a playlist text"""
    lines = text.split("\n")
    kind = g.r.randrange(9)
    if kind == 0 and lines:       # replace a numeric / token run by a nasty token
        i = g.r.randrange(len(lines))
        import re
        toks = list(re.finditer(r"[0-9][0-9.xXa-fA-F]*|\"[^\"]*\"|[A-Z][A-Z0-9-]+", lines[i]))
        if toks:
            t = g.pick(toks)
            lines[i] = lines[i][: t.start()] + g.pick(NASTY_TOKENS) + lines[i][t.end():]
    elif kind == 1 and lines:     # truncate a line at a random char
        i = g.r.randrange(len(lines))
        lines[i] = lines[i][: g.r.randrange(len(lines[i]) + 1)]
    elif kind == 2 and lines:     # duplicate a line
        i = g.r.randrange(len(lines))
        lines.insert(i, lines[i])
    elif kind == 3 and len(lines) > 1:   # swap two lines
        i, j = g.r.randrange(len(lines)), g.r.randrange(len(lines))
        lines[i], lines[j] = lines[j], lines[i]
    elif kind == 4 and lines:     # delete a line
        del lines[g.r.randrange(len(lines))]
    elif kind == 5:               # truncate the text
        t = "\n".join(lines)
        return t[: g.r.randrange(len(t) + 1)]
    elif kind == 6 and lines:     # insert a multi-byte char somewhere
        i = g.r.randrange(len(lines))
        p = g.r.randrange(len(lines[i]) + 1)
        lines[i] = lines[i][:p] + g.pick(["é", "中", "\U0001f600", " ", " ", "\""]) + lines[i][p:]
    elif kind == 7 and lines:     # replace an attribute value by a nasty token
        i = g.r.randrange(len(lines))
        if "=" in lines[i]:
            parts = lines[i].split(",")
            j = g.r.randrange(len(parts))
            if "=" in parts[j]:
                k = parts[j].split("=", 1)[0]
                parts[j] = k + "=" + g.pick(NASTY_TOKENS)
            lines[i] = ",".join(parts)
    else:                         # a value after the colon replaced
        i = g.r.randrange(len(lines)) if lines else 0
        if lines and ":" in lines[i]:
            lines[i] = lines[i].split(":", 1)[0] + ":" + g.pick(NASTY_TOKENS) + g.pick(["", ",", "@1", ",x"])
    return "\n".join(lines)
