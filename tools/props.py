"""Per-property plug-ins of ./check: case generation, projections (what is compared
between the extracted model and the implementation), oracles (the property evaluated on the
implementation's own observations; the search for a failing input), known-finding classes."""
import itertools
import random
import json
import os
import re
import time

import gen
import vlib
from vlib import parse_sexp, unparse, field, fields, decode_s, hx, sha

REGISTRY = {}

# statements kept visible at full strength but not proved (see DESIGN.md); the correspondence
# check samples them, it does not settle them
OPEN = {
    "C01": ["C01_parse_sem for an ARBITRARY surface style: forall sty a, parse_media (render_media sty a) = Ok (sem a) -- proved for the canonical style (C01_canonical_text: every tag through the tokenizer and its parser) and, for arbitrary styles, in layers (tokenizer under any padding, attribute order, unknown attributes ignored, dispatch, CRLF/blank/comment lines, assembly); the composition over all styles is not one theorem (durations and floats no longer enter as hypotheses: C01_duration_exact, C18_duration_hypothesis, C18_parsed_float)"],
    "C02": ["C02_parse_sem for an ARBITRARY surface style -- proved for the canonical style (C02_canonical_text) and in layers for arbitrary styles (tokenizer under any padding, unknown attributes ignored, attribute order for three tags, dispatch, source order); the composition over all styles is not one theorem; frame rates enter as ufloat_rt"],
    "C03": ["C03_roundtrip_parsed is stated for parse results with durations below 2^20 s and plain unquoted SCTE35-* values (media_small: decidable, no reference to the float conversions); outside it (a duration of 12 days or more, an unquoted SCTE35-* value with a comma or quote, which the writer cannot express) the round trip is sampled by the correspondence check only",
            "byte-identical second serialisation and the order inside a key list: FALSE in general (known findings D20, D9-K1); keys are compared as sets, a map's keys are the reader's keys"],
    "C04": ["C04_roundtrip carries floats_master p (decidable): it holds for every TIME-OFFSET the reader accepts and every FRAME-RATE with at most three decimals below 8192 (C04_float_hypotheses); a FRAME-RATE text with more decimals parses to a value the {:.3} writer cannot reproduce -- a property of the writer's format, sampled by the correspondence check; C04_roundtrip_parsed discharges the TIME-OFFSET part for parse results (threaded through the master parser) and keeps rates_ok p as the only hypothesis"],
    "C05": ["C05_cost for the WHOLE parser as a function of the input length: not proved -- no cost model of the tokenizer, the line splitter and the float conversions was built; what is proved is the part that is not constant per line, the key machinery (C05_keys_bounded, C05_key_work_linear, C05_key_work_quadratic: linear when the key formats are bounded, quadratic otherwise); wall-clock scaling is MEASURED in the thorough tier (five input families at n and 4n, evidence field streams.time_scaling)"],
    "C12": ["C12_restyle as ONE theorem over whole playlists: forall sty1 sty2 a, parse (render sty1 a) = parse (render sty2 a) -- proved per transformation: CRLF, blank lines, line padding, comments, redundant version tags, unknown tags (arbitrary text / item lists), and, for every attribute-list parser, any attribute order + any padding + unknown attributes (C12_any_attribute_syntax); the relative order of playlist-level tags and of the non-key tags of a segment is C12_tag_order (item level, media playlists; EXT-X-KEY and DISCONTINUITY-SEQUENCE excluded because they are position dependent); for master playlists the five lists are independent by construction (C02_source_order)"],
    "C16": ["C16_slide is proved for the restatement the WRITER produces for the slid value (keys and maps re-announced by the library itself); a server that restates tags differently (e.g. repeats all keys in another order) is covered by C06/C12 only"],
    "C18": ["FRAME-RATE values that are NOT the nearest f32 to a number with at most three decimals (or are 8192 and above): the {:.3} writer prints a different number, so ufloat_rt is false by design; for every three-decimal rate below 8192 it is a theorem (C18_frame_rate_3dec), as are the types' own text forms for every finite f32 and every Duration below 2^20 s (C18_f32_text, C18_uf32_text, C18_duration_text)"],
    "C20": ["C20_ops: run_builder (the call sequence for a content) = build (builder_of ...) -- the step from a sequence of public builder CALLS (setters, push_segment / segments, tag arguments given as text) to the builder record is proved for the setters (commute / last wins) and the slot vector; that the calls for a content produce exactly `builder_of p raws` is sampled by the correspondence check, not proved; C20_rebuild / C20_paths_agree are stated on the builder record"],
}


def register(cls):
    REGISTRY[cls.pid] = cls
    return cls


def unhex(h):
    return bytes.fromhex(h).decode("utf-8", "replace")


KNOWN = {k["id"]: k for k in vlib.load_known()}


def known_active(kid):
    return kid in KNOWN and KNOWN[kid].get("status") == "known"


class Prop:
    pid = None
    proofs = []                 # extra make targets (Proofs/*.vo) besides Properties/<pid>.vo
    rule = ""

    def proof_targets(self):
        return ["Properties/%s.vo" % self.pid] + ["Properties/%s.vo" % x for x in vlib.EXTRA_PROPERTY_FILES.get(self.pid, [])]

    def correspondence_obligations(self):
        return ["corr:%s:model=impl on the property's projection" % self.pid]

    def open_statements(self):
        return OPEN.get(self.pid, [])

    def assumptions(self):
        return ["the extracted model agrees with the implementation outside the explored inputs (differential testing, not proof)",
                "Rust std / dependency behaviour as written into coq/Model (DESIGN.md 1.2)"]

    def cases(self, tier, seed):
        raise NotImplementedError

    def judge(self, run, c, m, i):
        """-> dict(agree=bool|None, ok=bool|None, nontrivial=bool, known=None|str, detail=str)"""
        raise NotImplementedError

    def sample(self, c):
        args = c["args"]
        if c["op"] in ("timing", "tag", "btag") and len(args) > 1 and re.fullmatch(r"[0-9a-f]*", str(args[1])[:1200]):
            return {"op": c["op"] + " " + str(args[0]), "input": unhex(str(args[1])[:1200])[:600]}
        txt = unhex(str(args[0])[:2400]) if args and re.fullmatch(r"[0-9a-f]*", str(args[0])[:2400]) else str(args[0]) if args else ""
        return {"op": c["op"], "input": txt[:600]}


class Run:
    def __init__(self, prop, pid, tier, seed, model_ok):
        self.prop, self.pid, self.tier, self.seed, self.model_ok = prop, pid, tier, seed, model_ok
        self.violations, self.known_hits, self.disagreements = [], [], []
        self.stats = {}
        self.n_cases = 0
        self.nontrivial_keys = set()
        self.samples = []
        self.t_model = self.t_impl = 0.0

    def run_both(self, cases):
        t = time.time()
        mcases = [c for c in cases if c.get("model", True)]
        self.model = vlib.run_model(mcases) if (self.model_ok and mcases) else {}
        self.t_model += time.time() - t
        t = time.time()
        self.impl = vlib.run_impl([c for c in cases if not c["meta"].get("solo")])
        for c in cases:
            if c["meta"].get("solo"):
                self.impl[c["id"]] = vlib.run_solo(vlib.HARNESS_BIN_DEBUG if c["meta"].get("debug") else vlib.HARNESS_BIN, c, timeout=c["meta"].get("timeout", 120))
        self.t_impl += time.time() - t

    def execute(self):
        cases = self.prop.cases(self.tier, self.seed)
        self.cases = cases
        self.n_cases = len(cases)
        self.run_both(cases)
        self.judge_all(cases)
        if hasattr(self.prop, "post"):
            self.prop.post(self)

    def judge_all(self, cases):
        known_seen = {}
        for c in cases:
            m = self.model.get(c["id"]) if c.get("model", True) and self.model_ok else None
            i = self.impl.get(c["id"])
            try:
                j = self.prop.judge(self, c, m, i)
            except Exception as e:  # a judge that crashes is a machinery bug: make it loud
                j = {"agree": None, "ok": False, "nontrivial": False, "known": None, "detail": "judge crashed: %r" % (e,)}
            for k, v in j.get("stats", {}).items():
                self.stats[k] = self.stats.get(k, 0) + v
            if j.get("nontrivial"):
                self.nontrivial_keys.add(sha(i or ""))
                if len(self.samples) < 3:
                    self.samples.append(self.prop.sample(c))
            if j.get("ok") is False:
                kid = j.get("known")
                if kid and known_active(kid):
                    if kid not in known_seen:
                        known_seen[kid] = c
                        self.known_hits.append("%s: %s [e.g. %s]" % (kid, KNOWN[kid]["what_fails"], self.prop.sample(c)["input"][:120].replace("\n", "\\n")))
                else:
                    self.violations.append(self.record(c, m, i, j, "violation"))
            elif j.get("agree") is False:
                self.disagreements.append(self.record(c, m, i, j, "disagreement"))
        if not self.samples and cases:
            self.samples.append(self.prop.sample(cases[0]))

    def record(self, c, m, i, j, kind):
        return {"property": self.pid, "kind": kind, "seed": self.seed, "tier": self.tier,
                "case": {"id": c["id"], "op": c["op"], "args": c["args"], "model": c.get("model", True)},
                "meta": {k: v for k, v in c.get("meta", {}).items() if k in ("solo", "debug", "timeout", "what", "stream")},
                "input_text": self.prop.sample(c)["input"], "model": (m or "")[:3000], "impl": (i or "")[:3000],
                "detail": j.get("detail", ""), "known_class": j.get("known"),
                "how_to_replay": "./check %s --replay <this file>" % self.pid}

    def replay(self, path):
        data = json.load(open(path))
        c = data.get("case") or (data.get("first_disagreement") or {}).get("case")
        if not c:
            print("replay file names no input (obligation only):", data.get("obligations"))
            return
        c = dict(c, meta=data.get("meta", {}))
        self.cases = [c]
        self.n_cases = 1
        self.run_both([c])
        print("model:", self.model.get(c["id"]))
        print("impl :", self.impl.get(c["id"]))
        if c["id"].startswith(("g", "h")) or True:
            # judge with what the case alone allows (pairwise oracles need their partner; the
            # model/impl comparison is always available)
            m, i = self.model.get(c["id"]), self.impl.get(c["id"])
            if m is not None and m != i:
                self.disagreements.append(self.record(c, m, i, {"detail": "replayed"}, "disagreement"))
            if data.get("kind") == "violation":
                self.violations.append(self.record(c, m, i, {"detail": "replayed violation: " + data.get("detail", "")}, "violation"))

    def coverage(self):
        return {"evaluations": self.n_cases, "distinct_nontrivial": len(self.nontrivial_keys),
                "rule": self.prop.rule, "samples": self.samples or ["-"],
                "streams": self.stats, "disagreements_checked": self.n_cases if self.model_ok else 0,
                "model_executed": self.model_ok, "known_findings_hit": self.known_hits,
                "t_model_s": round(self.t_model, 2), "t_impl_s": round(self.t_impl, 2)}


HYP_IMPORTS = ("From hls Require Import Base Float Lex Kinds Types Tags Line Keys Media Master.\n"
               "From hls.Proofs Require Import TagText TagTextMedia TagTextVariant MasterText ParsedWf TagTextSegment TagTextDateRange MediaText "
               "C03Items ParsedBuilt MediaParsedWf.\nOpen Scope N_scope.\n")


def hyp_counts(out):
    """the `= [b; b; ...]` lists printed by coqc for Eval commands -> list of lists of strings"""
    res = []
    for m in re.finditer(r"=\s*\[(.*?)\]\s*:\s*list", out, re.S):
        body = m.group(1).strip()
        res.append([x.strip() for x in body.split(";")] if body else [])
    return res


def hypothesis_playlists(run, kind, n):
    """evaluate the decidable hypotheses of the text-level round-trip theorem on generated valid playlists (in Coq, on the
    model's own parse): how many satisfy them -- the theorem's domain is not vacuous on the generator's domain"""
    g = gen.G(run.seed * 1000003 + 77)
    terms = []
    for _ in range(n):
        gen.random_style(g)
        text = gen.render_media(gen.gen_media(g), g) if kind == "media" else gen.render_master(gen.gen_master(g), g)
        terms.append(vlib.coq_str_of(text))
    if kind == "media":
        f = "(fun t => match parse_media t with Ok p => (1 + (if wf_media p then 2 else 0) + (if media_domain p then 4 else 0)) | _ => 0 end)"
    else:
        f = "(fun t => match parse_master t with Ok p => (1 + (if wf_master p then 2 else 0) + (if floats_master p then 4 else 0)) | _ => 0 end)"
    body = "Eval vm_compute in (map %s [\n%s])." % (f, ";\n".join(terms))
    out = vlib.coq_eval("hyp_%s_%d" % (kind, os.getpid()), HYP_IMPORTS, body)
    vals = [int(x.replace("%N", "")) for x in hyp_counts(out)[0]]
    return {"playlists": n, "accepted_by_model": sum(1 for v in vals if v & 1), "hypotheses_hold (wf)": sum(1 for v in vals if v & 2),
            "value_conditions_hold (floats/durations/domain)": sum(1 for v in vals if v & 4)}


# ------------------------------------------------------------------ helpers on results
def res_kind(r):
    if r is None:
        return "none"
    return r.split(" ", 1)[0] if r else "empty"


def mres(r):
    """parsed (mres|ares …) node of an ok result, else None"""
    if r is None or not r.startswith("ok "):
        return None
    t = parse_sexp(r)
    return t[1]


def first_dump(node):
    return node[1]


def media_segs(media_node):
    return fields(field(media_node, "segs"), "seg")


def strip_derived_iv(keynode):
    s = unparse(keynode)
    return re.sub(r"\(iv \(num \d+\)\)", "(iv missing)", s)


def first_diff(exp, got, ctx=160):
    j = 0
    while j < min(len(exp), len(got)) and exp[j] == got[j]:
        j += 1
    return "at %d: expected …%s… got …%s…" % (j, exp[max(0, j - ctx): j + ctx], got[max(0, j - ctx): j + ctx])


def count_tier(tier, quick, thorough):
    return thorough if tier == "thorough" else quick


def mk(idp, n, op, *args, **meta):
    c = {"id": "%s%d" % (idp, n), "op": op, "args": list(args), "meta": meta}
    if "model" in meta:
        c["model"] = meta["model"]
    return c


# ------------------------------------------------------------------ C01 / C02
@register
class C01(Prop):
    pid = "C01"
    rule = ("structured generator over the valid media-playlist domain (0..20 segments, every tag, key histories, "
            "quoted strings with , = space non-ASCII, boundary integers, 0-9 fractional digits) rendered under a random "
            "surface style; compared: impl dump vs the generator's own RFC-level expectation (oracle) and vs the extracted "
            "Coq model (correspondence); non-trivial = at least one segment; distinct = distinct impl dumps")

    def cases(self, tier, seed):
        g = gen.G(seed * 1000003 + 1)
        out = []
        for n in range(count_tier(tier, 1500, 40000)):
            gen.random_style(g) if n % 4 else gen.plain_style(g)
            a = gen.gen_media(g)
            text = gen.render_media(a, g)
            out.append(mk("g", n, "media", hx(text), spec=gen.spec_media(a), d17=a["d17"], nseg=len(a["segs"])))
        return out

    def judge(self, run, c, m, i):
        agree = (m == i) if m is not None else None
        node = mres(i)
        spec = c["meta"]["spec"]
        if node is None:
            if c["meta"]["d17"]:
                return {"agree": agree, "ok": False, "known": "D17", "nontrivial": False, "detail": "valid playlist rejected (independent segments + mixed keys)", "stats": {"d17": 1}}
            return {"agree": agree, "ok": False, "known": None, "nontrivial": False, "detail": "valid playlist rejected: " + res_kind(i)}
        got = unparse(first_dump(node))
        ok = got == spec
        detail = "" if ok else "parse result differs from what the text says " + first_diff(spec, got)
        return {"agree": agree, "ok": ok, "known": None, "nontrivial": c["meta"]["nseg"] > 0, "detail": detail,
                "stats": {"accepted": 1, "segments": c["meta"]["nseg"]}}


@register
class C02(Prop):
    pid = "C02"
    rule = ("structured generator over valid master playlists (renditions of all 4 types, both variant kinds, session "
            "data/keys, all 67 in-stream ids, u64 boundaries, quoted commas/equals/unicode) under a random surface style; "
            "impl dump vs generator expectation (oracle) and vs Coq model; non-trivial = at least one tag")

    def cases(self, tier, seed):
        g = gen.G(seed * 1000003 + 2)
        out = []
        for n in range(count_tier(tier, 1500, 40000)):
            gen.random_style(g) if n % 4 else gen.plain_style(g)
            a = gen.gen_master(g)
            text = gen.render_master(a, g)
            ntags = len(a["media"]) + len(a["variants"]) + len(a["sdata"]) + len(a["skeys"])
            out.append(mk("g", n, "master", hx(text), spec=gen.spec_master(a), ntags=ntags))
        return out

    def judge(self, run, c, m, i):
        agree = (m == i) if m is not None else None
        node = mres(i)
        if node is None:
            return {"agree": agree, "ok": False, "nontrivial": False, "detail": "valid master playlist rejected: " + res_kind(i)}
        got = unparse(first_dump(node))
        ok = got == c["meta"]["spec"]
        return {"agree": agree, "ok": ok, "nontrivial": c["meta"]["ntags"] > 0,
                "detail": "" if ok else "parse result differs from what the text says " + first_diff(c["meta"]["spec"], got), "stats": {"accepted": 1, "tags": c["meta"]["ntags"]}}


# ------------------------------------------------------------------ key histories (C03, C06, C07, C11)
def gen_key_history(g, nfmt=4, length=None, with_maps=True, mseq=None):
    """a media playlist whose interest is its key/map/segment event sequence"""
    # absent and explicit identity are the same format: keep both spellings in most histories
    fmts = ([None, "identity"] + g.r.sample(gen.KEYFORMATS[2:], max(0, nfmt - 2))) if g.chance(0.7) else g.r.sample(gen.KEYFORMATS, min(nfmt, len(gen.KEYFORMATS)))
    n = length if length is not None else g.r.randint(1, 10)
    # the EXT-X-VERSION line of the INPUT says nothing about how its keys are scoped (a low number next to KEYFORMAT attributes
    # is a defect of the playlist's author, not a reason to read the keys differently)
    a = {"target": 10, "mseq": mseq, "dseq": None, "ptype": None, "iframes": False, "indep": False, "start": None,
         "endlist": g.chance(0.5), "version_tag": g.pick([None, None, 1, 3, 4, 5, 7]), "unknown": [], "d17": False, "segs": []}
    pending = []
    mp = None
    for _ in range(n):
        ev = g.r.randrange(10)
        if ev < 1 and (pending or a["segs"]):
            # restate a key that is currently in effect, unchanged
            hist_now = [k for s in a["segs"] for k in s["keys_before"]] + pending
            eff = [k for k in gen.keys_in_effect(hist_now) if k is not None]
            if eff:
                pending.append(dict(g.pick(eff)))
        elif ev < 4:
            used = [k for s_ in a["segs"] for k in s_["keys_before"] if k is not None] + [k for k in pending if k is not None]
            if used and g.chance(0.2):
                k2 = dict(g.pick(used))                     # an earlier key again, only its IV attribute differs
                k2["iv"] = None if (k2["iv"] is not None and g.chance(0.6)) else g.iv()
                pending.append(k2)
            elif used and g.chance(0.35):
                pending.append(dict(g.pick(used)))          # an earlier key again, byte for byte (it may have been replaced meanwhile)
            else:
                pending.append(gen.gen_key(g, fmts))
        elif ev < 5:
            pending.append(None)
        elif ev < 6 and with_maps and mp is None:
            mp = {"uri": "init%d.mp4" % g.small(3), "range": None, "pos": len(pending)}
        else:
            a["segs"].append({"keys_before": pending, "map": mp, "uri": "s%d.ts" % len(a["segs"]), "dur": "9.5", "title": None,
                              "disc": False, "pdt": None, "range": None, "daterange": None})
            pending, mp = [], None
    a["segs"].append({"keys_before": pending, "map": mp, "uri": "s%d.ts" % len(a["segs"]), "dur": "10", "title": None,
                      "disc": False, "pdt": None, "range": None, "daterange": None})
    if g.chance(0.25):
        # the segments are consecutive sub-ranges of ONE resource (offset given for the first, omitted or given for the others):
        # the keys of a segment are still the ones in effect at its URI line
        off = 0
        for j, s_ in enumerate(a["segs"]):
            s_["uri"] = "media.mp4"
            ln = g.pick([1000, 1, 4096])
            s_["range"] = (ln, off if (j == 0 or g.chance(0.3)) else None)
            off += ln
            if g.chance(0.15):
                s_["disc"] = True
    return a


def rotation_histories():
    """deterministic key histories: nf formats stated before the first segment (in every rotation of their order for nf=3),
    then one format (each in turn) restated with a new URI before the second segment, optionally a second one before the third"""
    fm = [None, "com.apple.streamingkeydelivery", "urn:uuid:edef8ba9-79d6-4ace-a3c8-27dcd51d21ed", "com.microsoft.playready"]
    def key(f, u):
        return {"method": "AES-128" if f is None else "SAMPLE-AES", "uri": u, "iv": None, "format": f, "versions": None}
    def seg(i, keys):
        return {"keys_before": keys, "map": None, "uri": "r%d.ts" % i, "dur": "9.5", "title": None, "disc": False, "pdt": None,
                "range": None, "daterange": None}
    out = []
    for nf in (3, 4):
        orders = [list(range(nf))[i:] + list(range(nf))[:i] for i in range(nf)] + [list(reversed(range(nf)))]
        for order in orders:
            for rot in range(nf):
                for rot2 in [None] + [x for x in range(nf) if x != rot][:2]:
                    segs = [seg(0, [key(fm[i], "k%d" % i) for i in order]), seg(1, [key(fm[rot], "k%d-b" % rot)])]
                    segs.append(seg(2, [key(fm[rot2], "k%d-c" % rot2)] if rot2 is not None else []))
                    segs.append(seg(3, []))
                    out.append({"target": 10, "mseq": 3, "dseq": None, "ptype": None, "iframes": False, "indep": False, "start": None,
                                "endlist": False, "version_tag": None, "unknown": [], "d17": False, "segs": segs})
    return out



def enum_key_histories(maxlen):
    """exhaustive: all sequences of events over {K(f,v) for f in 3 formats, v in 2 versions, NONE, MAP, SEG}"""
    fm = [None, "identity", "com.example.drm"]
    def key(fi, v):
        return {"method": "AES-128" if fi < 2 else "SAMPLE-AES", "uri": "k%d%d" % (fi, v), "iv": None, "format": fm[fi], "versions": None}
    alphabet = [("k", key(f, v)) for f in range(3) for v in range(2)] + [("n", None), ("m", None), ("s", None)]
    for L in range(1, maxlen + 1):
        for seq in itertools.product(range(len(alphabet)), repeat=L):
            a = {"target": 10, "mseq": 7, "dseq": None, "ptype": None, "iframes": False, "indep": False, "start": None,
                 "endlist": False, "version_tag": None, "unknown": [], "d17": False, "segs": []}
            pending, mp = [], None
            for x in seq:
                kind, k = alphabet[x]
                if kind == "k":
                    pending.append(k)
                elif kind == "n":
                    pending.append(None)
                elif kind == "m":
                    mp = {"uri": "init.mp4", "range": None, "pos": len(pending)}
                else:
                    a["segs"].append({"keys_before": pending, "map": mp, "uri": "s%d.ts" % len(a["segs"]), "dur": "10", "title": None,
                                      "disc": False, "pdt": None, "range": None, "daterange": None})
                    pending, mp = [], None
            a["segs"].append({"keys_before": pending, "map": mp, "uri": "last.ts", "dur": "10", "title": None,
                              "disc": False, "pdt": None, "range": None, "daterange": None})
            yield a


def seg_key_view(segnode):
    """(keys, dlen, dfirst, mapkeys) strings of a SEG node"""
    mp = field(segnode, "map")
    mk_ = None
    if mp is not None and isinstance(mp[1], list):
        mk_ = unparse(field(mp[1], "keys")) + unparse(field(mp[1], "dlen")) + unparse(field(mp[1], "dfirst"))
    return (unparse(field(segnode, "keys")), unparse(field(segnode, "dlen")), unparse(field(segnode, "dfirst")), mk_)


def sort_keys_in_dump(d):
    """canonical form of a MEDIA dump in which every (keys …) list is sorted"""
    def canon(x):
        if isinstance(x, list):
            y = [canon(e) for e in x]
            if y and y[0] == "keys":
                return ["keys"] + sorted(y[1:], key=unparse)
            if y and y[0] == "dfirst":
                return ["dfirst"]
            return y
        return x
    return unparse(canon(d))


def classify_roundtrip_known(node):
    """known classes of C03 on a parsed (mres …): D20 key order only; D9-K1 map under different keys than its segment"""
    re_ = field(node, "re")
    if re_ is not None and re_[1] == "ok" and sort_keys_in_dump(re_[2]) == sort_keys_in_dump(first_dump(node)):
        return "D20"
    segs = media_segs(first_dump(node))
    for s in segs:
        mp = field(s, "map")
        if mp is not None and isinstance(mp[1], list):
            mkeys = [unparse(k) for k in field(mp[1], "keys")[1:]]
            skeys = [strip_derived_iv(k) for k in field(s, "keys")[1:] if k != ["nokey"]]
            if mkeys != skeys:
                return "D9-K1"
    return None


@register
class C03(Prop):
    pid = "C03"
    rule = ("every C01-style playlist plus key histories (up to 4 formats, replacements, METHOD=NONE, maps anywhere; "
            "exhaustive over all event sequences up to a length bound, random beyond): to_string, re-parse, to_string on the "
            "implementation (oracle: same dump, same text) and on the model (correspondence); non-trivial = a key or map present")

    def cases(self, tier, seed):
        g = gen.G(seed * 1000003 + 3)
        gen.plain_style(g)
        out = []
        n = 0
        for a in enum_key_histories(count_tier(tier, 3, 5)):
            out.append(mk("e", n, "media", hx(gen.render_media(a, None)), stream="exhaustive", nontrivial=True))
            n += 1
        for k in range(count_tier(tier, 600, 20000)):
            a = gen_key_history(g, length=g.r.randint(3, 30))
            out.append(mk("h", k, "media", hx(gen.render_media(a, None)), stream="history", nontrivial=True))
        for k in range(count_tier(tier, 600, 20000)):
            gen.random_style(g)
            a = gen.gen_media(g)
            out.append(mk("g", k, "media", hx(gen.render_media(a, g)), stream="structured", nontrivial=len(a["segs"]) > 0, d17=a["d17"]))
        return out

    def judge(self, run, c, m, i):
        agree = (m == i) if m is not None else None
        node = mres(i)
        st = {c["meta"]["stream"]: 1}
        if node is None:
            return {"agree": agree, "ok": None, "nontrivial": False, "stats": st}   # acceptance is C01's business
        re_ = field(node, "re")
        d1 = unparse(first_dump(node))
        t1 = unparse(field(node, "text")) if field(node, "text") else "panic"
        ok = re_ is not None and re_[1] == "ok" and unparse(re_[2]) == d1 and unparse(re_[3]) == t1
        known = None
        detail = ""
        if not ok:
            known = classify_roundtrip_known(node)
            detail = "serialise->parse changed the value or the text: re=%s" % (unparse(re_)[:1200] if re_ else None)
        return {"agree": agree, "ok": ok, "known": known, "nontrivial": c["meta"]["nontrivial"], "detail": detail, "stats": st}

    def post(self, run):
        if run.tier == "thorough":
            run.stats["hypothesis_coverage"] = hypothesis_playlists(run, "media", 300)


@register
class C04(Prop):
    pid = "C04"
    rule = ("C02-style master playlists (frame rates with at most 3 decimals): to_string, re-parse, to_string; oracle: same "
            "dump and byte-identical text; correspondence with the model on all of it")

    def cases(self, tier, seed):
        g = gen.G(seed * 1000003 + 4)
        out = []
        for n in range(count_tier(tier, 1500, 40000)):
            gen.random_style(g)
            a = gen.gen_master(g)
            ntags = len(a["media"]) + len(a["variants"]) + len(a["sdata"]) + len(a["skeys"])
            out.append(mk("g", n, "master", hx(gen.render_master(a, g)), ntags=ntags))
        return out

    def judge(self, run, c, m, i):
        agree = (m == i) if m is not None else None
        node = mres(i)
        if node is None:
            return {"agree": agree, "ok": None, "nontrivial": False}
        re_ = field(node, "re")
        d1 = unparse(first_dump(node))
        t1 = unparse(field(node, "text")) if field(node, "text") else "panic"
        ok = re_ is not None and re_[1] == "ok" and unparse(re_[2]) == d1 and unparse(re_[3]) == t1
        return {"agree": agree, "ok": ok, "nontrivial": c["meta"]["ntags"] > 0,
                "detail": "" if ok else "serialise->parse changed the value or the text: re=%s" % (unparse(re_)[:1200] if re_ else None)}

    def post(self, run):
        if run.tier == "thorough":
            run.stats["hypothesis_coverage"] = hypothesis_playlists(run, "master", 300)


# ------------------------------------------------------------------ C06 / C07
def expected_key_views(a):
    """per segment: (keys dump, map keys dump or None) from the RFC rule (gen.keys_in_effect)"""
    out = []
    hist = []
    mseq = a["mseq"] or 0
    for idx, s in enumerate(a["segs"]):
        num = mseq + idx
        evs = s["keys_before"]
        mk_ = None
        if s["map"] is not None:
            eff = gen.keys_in_effect(hist + evs[: s["map"]["pos"]])
            real = [k for k in eff if k is not None]
            mk_ = gen.P("keys", *[gen.spec_key(k) for k in real]) + gen.P("dlen", str(len(real))) + gen.P("dfirst", gen.spec_key(real[0]) if real else "none")
        cur = gen.keys_in_effect(hist + evs)
        hist = list(cur)
        real = [k for k in cur if k is not None]
        out.append((gen.P("keys", *[gen.spec_key(k, num) for k in cur]), gen.P("dlen", str(len(real))),
                    gen.P("dfirst", gen.spec_key(real[0], num) if real else "none"), mk_))
    return out


@register
class C06(Prop):
    pid = "C06"
    rule = ("key-event histories (new key in one of up to 4 formats incl. absent/identity, replacement, METHOD=NONE, EXT-X-MAP, "
            "segment): exhaustive over all sequences up to a length bound over a 9-letter alphabet, random to 60 events; oracle: "
            "each segment's keys / Decryptable view and each map's keys equal RFC 8216 4.3.2.4 computed independently in the "
            "harness driver; correspondence with the model, whose key_step is proved equal to the spec")

    def cases(self, tier, seed):
        g = gen.G(seed * 1000003 + 6)
        gen.plain_style(g)
        out = []
        n = 0
        for a in enum_key_histories(count_tier(tier, 3, 5)):
            out.append(mk("e", n, "media", hx(gen.render_media(a, None)), exp=expected_key_views(a), stream="exhaustive"))
            n += 1
        for k in range(count_tier(tier, 1500, 40000)):
            a = gen_key_history(g, length=g.r.randint(2, 60))
            out.append(mk("h", k, "media", hx(gen.render_media(a, None)), exp=expected_key_views(a), stream="random"))
        # sizes: N key formats in effect at once (keys accumulate without limit), a map and a segment behind them, one of them
        # replaced, then METHOD=NONE
        def seg(keys, mp=None, j=0):
            return {"keys_before": keys, "map": mp, "uri": "s%d.ts" % j, "dur": "9.5", "title": None, "disc": False, "pdt": None, "range": None, "daterange": None}
        for N in list(range(1, 41)) + [63, 64, 65, 100, 128, 129, 200]:
            keys = [{"method": "SAMPLE-AES", "uri": "k%d" % j, "iv": None, "format": "com.example.f%d" % j, "versions": None} for j in range(N)]
            a = {"target": 10, "mseq": None, "dseq": None, "ptype": None, "iframes": False, "indep": False, "start": None, "endlist": True,
                 "version_tag": None, "unknown": [], "d17": False,
                 "segs": [seg(keys, {"uri": "init.mp4", "range": None, "pos": N}, 0),
                          seg([dict(keys[N // 2], uri="replaced")], None, 1), seg([None], None, 2), seg([dict(keys[0])], None, 3)]}
            out.append(mk("z", n, "media", hx(gen.render_media(a, None)), exp=expected_key_views(a), stream="sizes"))
            n += 1
        return out

    def judge(self, run, c, m, i):
        node = mres(i)
        st = {c["meta"]["stream"]: 1}
        mn = mres(m) if m is not None else None
        if node is None:
            return {"agree": (m == i) if m is not None else None, "ok": False, "nontrivial": False, "detail": "valid key history rejected: " + res_kind(i), "stats": st}
        views = [seg_key_view(s) for s in media_segs(first_dump(node))]
        agree = None
        if m is not None:
            agree = mn is not None and [seg_key_view(s) for s in media_segs(first_dump(mn))] == views
        exp = [tuple(e) for e in c["meta"]["exp"]]
        ok = views == exp
        dup = False
        for s in media_segs(first_dump(node)):
            fm = [unparse(field(k, "format")).replace("(format none)", "(format identity)") for k in field(s, "keys")[1:] if k != ["nokey"]]
            if len(fm) != len(set(fm)):
                dup = True
        detail = "" if ok and not dup else "keys differ from the keys in effect; expected %s got %s" % (exp, views)
        return {"agree": agree, "ok": ok and not dup, "nontrivial": True, "detail": detail[:2500], "stats": st}


@register
class C07(Prop):
    pid = "C07"
    rule = ("key histories x media sequence values {absent,0,1,2^32,2^63,2^64-1-len,2^64-len (must be rejected)} x explicit/absent IVs; "
            "oracle: numbers = mseq+position, effective IVs per rule, `IV=` in the text only for explicit IVs, window slide keeps the text valid; "
            "correspondence on numbers/IVs/text")

    def cases(self, tier, seed):
        g = gen.G(seed * 1000003 + 7)
        gen.plain_style(g)
        out = []
        prev_text = None
        for k in range(count_tier(tier, 1500, 40000)):
            a = gen_key_history(g, length=g.r.randint(1, 25))
            n = len(a["segs"])
            choice = g.r.randrange(8)
            a["mseq"] = [None, 0, 1, 2 ** 32, 2 ** 63, 2 ** 64 - n, 2 ** 64 - n + 1, g.r.randrange(2 ** 64 - n)][choice]
            overflow = a["mseq"] is not None and a["mseq"] + n - 1 > 2 ** 64 - 1
            text = gen.render_media(a, g)
            if g.chance(0.5):   # the MEDIA-SEQUENCE tag anywhere in the header / even after segments
                lines = text.split("\n")
                ms = [l for l in lines if l.startswith("#EXT-X-MEDIA-SEQUENCE")]
                if ms:
                    lines.remove(ms[0])
                    lines.insert(g.r.randrange(1, 3), ms[0])
                    text = "\n".join(lines)
            nexplicit = sum(1 for s in a["segs"] for kk in s["keys_before"] if kk is not None and kk["iv"] is not None)
            out.append(mk("h", k, "media", hx(text), exp=None if overflow else expected_key_views(a), mseq=a["mseq"] or 0, overflow=overflow, nexplicit=nexplicit))
            # the same text through a builder that was used before (live polling with one builder) or that carries preset values:
            # what the text says decides
            if k % 4 == 0 and not overflow and a["mseq"] is not None:
                # (a builder keeps what it was given for tags the text does not carry: only texts with their own MEDIA-SEQUENCE tag)
                if prev_text is not None:
                    out.append(mk("w", k, "media_twice", hx(prev_text), hx(text), exp=expected_key_views(a), mseq=a["mseq"] or 0, overflow=False, nexplicit=nexplicit, model=False))
                if a["mseq"] is not None:
                    preset = "M %d" % g.pick([0, 3, 2680, 2 ** 63])
                    out.append(mk("q", k, "media_preset", hx(preset), hx(text), exp=expected_key_views(a), mseq=a["mseq"], overflow=False, nexplicit=nexplicit, model=False))
            if not overflow:
                prev_text = text
            if k % 6 == 1 and not overflow and n >= 2 and nexplicit == 0:
                # the value after segments were taken out through the public `segments` field (a window slid by hand): its text still
                # carries no derived IV — `IV=` belongs to explicit IVs only
                idx = [0] if g.chance(0.5) else sorted(g.r.sample(range(n), g.r.randint(1, n - 1)))
                out.append(mk("r", k, "media_remove", hx(gen.render_media(a, None)), *idx, exp=None, mseq=a["mseq"] or 0, overflow=False, nexplicit=0, model=False))
                # ... or renumbered by hand through the public `media_sequence` field
                out.append(mk("u", k, "media_set_mseq", hx(gen.render_media(a, None)), (a["mseq"] or 0) + g.pick([1, 2, 100]) if (a["mseq"] or 0) < 2 ** 63 else 5,
                              exp=None, mseq=0, overflow=False, nexplicit=0, model=False))
            if k % 5 == 0 and not overflow and (a["mseq"] or 0) == 0:
                # the same history through the builder with every segment numbered explicitly (number = media sequence + position)
                script = ["Tn 10000000000"] + (["M %d" % a["mseq"]] if a["mseq"] is not None else [])
                hist = []
                use_list = g.chance(0.5)
                for idx, sg in enumerate(a["segs"]):
                    hist = gen.keys_in_effect(hist + sg["keys_before"])
                    script.append("seg %d" % idx)
                    script += ["tag " + gen.key_line(kk) for kk in hist] + ["dur 9000000000", "uri s%d.ts" % idx, "end list" if use_list else "end push"]
                script += (["segments"] if use_list else []) + ["build"]
                exp_b = [[v[0], v[1], v[2], None] for v in expected_key_views(dict(a, segs=[dict(sg, map=None) for sg in a["segs"]]))]
                out.append(mk("x", k, "bmedia", hx("\n".join(script)), exp=exp_b, mseq=a["mseq"] or 0, overflow=False, nexplicit=nexplicit, model=False))
        return out

    def judge(self, run, c, m, i):
        node = mres(i)
        mn = mres(m) if m is not None else None
        if c["meta"]["overflow"]:
            ok = res_kind(i) == "err"
            return {"agree": (res_kind(m) == res_kind(i)) if m is not None else None, "ok": ok, "nontrivial": True,
                    "detail": "" if ok else "segment numbers beyond 2^64-1 must be rejected, got " + res_kind(i), "stats": {"overflow": 1}}
        if node is None:
            return {"agree": (m == i) if m is not None else None, "ok": False, "nontrivial": False, "detail": "rejected: " + res_kind(i)}
        if c["op"] in ("media_remove", "media_set_mseq"):
            text = decode_s(field(node, "text")[1]) if field(node, "text") else ""
            ok = ",IV=" not in text and ":IV=" not in text
            return {"agree": None, "ok": ok, "nontrivial": True, "stats": {"removed": 1},
                    "detail": "" if ok else "after segments.remove(..) / media_sequence = n the written text carries an IV attribute although no key has an explicit IV: " + text[:400]}
        segs = media_segs(first_dump(node))
        nums = [int(field(s, "num")[1]) for s in segs]
        views = [seg_key_view(s) for s in segs]
        text = decode_s(field(node, "text")[1]) if field(node, "text") else None
        agree = None
        if m is not None:
            agree = mn is not None and [seg_key_view(s) for s in media_segs(first_dump(mn))] == views and \
                [int(field(s, "num")[1]) for s in media_segs(first_dump(mn))] == nums and unparse(field(mn, "text")) == unparse(field(node, "text"))
        ok_nums = nums == [c["meta"]["mseq"] + k for k in range(len(segs))]
        ok_iv = views == [tuple(e) for e in c["meta"]["exp"]]
        # the text never carries a derived IV: every IV= attribute belongs to an explicit IV
        ok_text = text is not None and all("IV=0x" in l for l in text.split("\n") if ",IV=" in l) and \
            "InitializationVector" not in text
        explicit_in_dump = len(set(re.findall(r"\(iv \(aes \d+\)\)", " ".join(unparse(field(s, "keys")) for s in segs))))
        ok_text = ok_text and (text.count(",IV=") >= (1 if explicit_in_dump else 0))
        # the written text stays valid: read again it gives the same numbers and effective IVs
        re_ = field(node, "re")
        ok_re = True
        if re_ is not None and len(re_) > 2 and re_[1] == "ok":
            rsegs = media_segs(re_[2])
            # (segment keys as a set: the ORDER of a key list and the keys of a map behind a key tag are the known findings D20 / D9-K1 of C03)
            kset = lambda s_: sorted(unparse(k_) for k_ in field(s_, "keys")[1:])
            ok_re = [int(field(s_, "num")[1]) for s_ in rsegs] == nums and [kset(s_) for s_ in rsegs] == [kset(s_) for s_ in segs]
        ok = ok_nums and ok_iv and ok_text and ok_re
        return {"agree": agree, "ok": ok, "nontrivial": len(segs) > 1,
                "detail": "" if ok else "numbers ok=%s ivs ok=%s text ok=%s re-parse keeps numbers and IVs=%s" % (ok_nums, ok_iv, ok_text, ok_re),
                "stats": {"explicit_iv_cases": 1 if c["meta"]["nexplicit"] else 0}}


# ------------------------------------------------------------------ C08
def resolve_ranges(segs):
    """spec: list of (uri, None | (len, off|None)) -> None if invalid else list of None|(start,end)"""
    out = []
    prev = None   # (uri, end) of the immediately preceding segment if it was a sub-range
    for uri, r in segs:
        if r is None:
            out.append(None)
            prev = None
            continue
        length, off = r
        if off is None:
            if prev is None or prev[0] != uri:
                return None
            start = prev[1]
        else:
            start = off
        out.append((start, start + length))
        prev = (uri, start + length)
    return out


@register
class C08(Prop):
    pid = "C08"
    rule = ("chains of segments over 3 URIs, each with no range / range with offset / range without offset, lengths and offsets "
            "from {0,1,2^32,2^62} and random; exhaustive for chains up to a length bound, random beyond; plus EXT-X-MAP byte ranges; "
            "oracle: accepted iff the chain resolves, ranges as resolved, text carries explicit offsets that re-parse to the same ranges")

    def _case(self, idp, n, chain, maprange=None, maps=None):
        """maps: {segment index: (uri, None | (len, off|None))} — EXT-X-MAP tags anywhere, possibly on the segment's own resource"""
        lines = ["#EXTM3U", "#EXT-X-TARGETDURATION:10"]
        if n % 3 == 1:
            lines.append("#EXT-X-MEDIA-SEQUENCE:%d" % [1, 7, 2 ** 32][n % 9 // 3])      # a sliding window resolves its ranges like any other playlist
        maps = dict(maps or {})
        if maprange is not None:
            maps[0] = ("init.mp4", maprange)
        for k, (uri, r) in enumerate(chain):
            if k in maps:
                muri, mr = maps[k]
                lines.append('#EXT-X-MAP:URI="%s"%s' % (muri, "" if mr is None else ',BYTERANGE="%s"' % ("%d@%d" % mr if mr[1] is not None else "%d" % mr[0])))
            rr = random.Random(n * 7919 + k)
            neutral = []
            if rr.random() < 0.25:
                # tags of the segment that have no bearing on where its sub-range starts
                for _ in range(rr.randint(1, 2)):
                    neutral.append(rr.choice(["#EXT-X-DISCONTINUITY", '#EXT-X-KEY:METHOD=AES-128,URI="k%d"' % k, "#EXT-X-KEY:METHOD=NONE",
                                              "#EXT-X-PROGRAM-DATE-TIME:2020-01-01T00:00:0%d.000Z" % (k % 10), '#EXT-X-DATERANGE:ID="d%d",START-DATE="2020-01-01T00:00:00Z"' % k]))
            neutral = list(dict.fromkeys(neutral))
            cut = rr.randint(0, len(neutral))
            lines += neutral[:cut]
            if r is not None:
                lines.append("#EXT-X-BYTERANGE:%d%s" % (r[0], "" if r[1] is None else "@%d" % r[1]))
            lines += neutral[cut:]
            lines.append("#EXTINF:5,")
            lines.append(uri)
        exp = resolve_ranges(chain)
        if exp is not None and any(e is not None and e[1] > 2 ** 64 - 1 for e in exp):
            exp = "overflow"
        return mk(idp, n, "media", hx("\n".join(lines) + "\n"), exp=exp, maps={str(k): v for k, v in maps.items()}, nlen=len(chain))

    def cases(self, tier, seed):
        g = gen.G(seed * 1000003 + 8)
        out = []
        n = 0
        uris = ["a.ts", "a.ts?x=2"]        # (two different resources that differ only behind a `?`)
        opts = [None, (10, 5), (7, None), (0, None), (3, 0)]
        for L in range(1, count_tier(tier, 3, 5) + 1):
            for combo in itertools.product(itertools.product(uris, opts), repeat=L):
                out.append(self._case("e", n, list(combo)))
                n += 1
        vals = [0, 1, 2 ** 32, 2 ** 62, 2 ** 63]
        for k in range(count_tier(tier, 1500, 40000)):
            chain = []
            for _ in range(g.r.randint(1, 12)):
                uri = g.pick(["a.ts", "b.ts", "c d.ts", "a.ts?x=1", "a.ts?x=2", "a.ts#a", "a.ts#b", "A.ts"])
                kind = g.r.randrange(4)
                if kind == 0:
                    r = None
                elif kind == 1:
                    r = (g.pick(vals + [g.small(10 ** 6)]), g.pick(vals + [g.small(10 ** 6)]))
                else:
                    r = (g.pick(vals + [g.small(10 ** 6)]), None)
                chain.append((uri, r))
            mr = (g.small(1000), g.pick([g.small(10 ** 6), 0, None])) if g.chance(0.3) else None
            # maps anywhere, also on the resource of the segment itself, their ranges touching the previous sub-range
            maps = {}
            res = resolve_ranges(chain)
            for j, (uri, r) in enumerate(chain):
                if g.chance(0.25) and not (j == 0 and mr is not None):
                    prev_end = res[j - 1][1] if (res and j > 0 and res[j - 1] is not None) else g.small(1000)
                    off = g.pick([prev_end, prev_end, 0, g.small(10 ** 6), None])
                    ln = g.pick([0, 1, 700, g.small(10 ** 6)])
                    if off is None or off + ln < 2 ** 64:
                        maps[j] = (g.pick([uri, uri, "init.mp4", "a.ts"]), (ln, off) if g.chance(0.8) else None)
            out.append(self._case("r", k, chain, mr, maps))
        # chains that resolve by construction (an offset is omitted only behind a sub-range of the same resource), with EXT-X-MAP tags on
        # the same resource whose range touches the previous sub-range: the map must not disturb the continuation
        for k in range(count_tier(tier, 800, 20000)):
            chain, maps = [], {}
            prev = None
            for j in range(g.r.randint(2, 8)):
                # (different strings are different resources, however similar: query, fragment, case, trailing characters)
                uri = prev[0] if (prev is not None and g.chance(0.6)) else g.pick(["a.ts", "b.ts", "main.mp4", "a.ts?x=1", "a.ts?x=2", "a.ts#a", "a.ts#b", "A.ts", "a.ts/", "a.ts ", "./a.ts"])
                if prev is not None and prev[0] == uri and g.chance(0.6):
                    r = (g.pick([1, 1000, g.small(10 ** 6)]), None)
                    start = prev[1]
                elif g.chance(0.8):
                    r = (g.pick([1, 1000, g.small(10 ** 6)]), g.pick([0, 719, g.small(10 ** 6)]))
                    start = r[1]
                else:
                    r, start = None, None
                if g.chance(0.4):
                    pe = prev[1] if prev is not None else 0
                    maps[j] = (g.pick([uri, uri, "init.mp4"]), g.pick([(700, pe), (g.small(1000), pe), (700, 0), (5, None), None]))
                chain.append((uri, r))
                prev = (uri, start + r[0]) if r is not None else None
            out.append(self._case("v", k, chain, None, maps))
            if k % 3 == 0:
                # the same chain through the builder, every segment numbered explicitly: same ranges as the text path
                script = ["Tn 10000000000"]
                use_list = g.chance(0.5)
                for j, (uri, r) in enumerate(chain):
                    script.append("seg %d" % j)
                    if r is not None:
                        script.append("tag #EXT-X-BYTERANGE:%d%s" % (r[0], "" if r[1] is None else "@%d" % r[1]))
                    script += ["dur 5000000000", "uri " + uri, "end list" if use_list else "end push"]
                script += (["segments"] if use_list else []) + ["build"]
                exp = resolve_ranges(chain)
                out.append(mk("b", k, "bmedia", hx("\n".join(script)), exp=exp, maps={}, nlen=len(chain), model=False))
        return out

    def judge(self, run, c, m, i):
        exp = c["meta"]["exp"]
        node = mres(i)
        mn = mres(m) if m is not None else None
        agree = None

        def rng(n):
            return [unparse(field(s, "range")) for s in media_segs(first_dump(n))]
        if m is not None:
            agree = (res_kind(m) == res_kind(i)) and (node is None or (mn is not None and rng(mn) == rng(node) and unparse(field(mn, "text")) == unparse(field(node, "text"))))
        if exp == "overflow":
            # sums beyond the integer domain are outside the property's domain; only "no panic" matters (C05)
            return {"agree": agree, "ok": res_kind(i) != "panic", "nontrivial": False, "stats": {"overflow": 1}}
        if exp is None:
            ok = res_kind(i) == "err"
            return {"agree": agree, "ok": ok, "nontrivial": True, "detail": "" if ok else "an offset-less range without a preceding sub-range of the same URI must be rejected", "stats": {"reject": 1}}
        if node is None:
            return {"agree": agree, "ok": False, "nontrivial": True, "detail": "resolvable chain rejected"}
        want = ["(range none)" if e is None else "(range (r %d %d))" % tuple(e) for e in exp]
        got = rng(node)
        text = decode_s(field(node, "text")[1])
        explicit = all("@" in l for l in text.split("\n") if l.startswith("#EXT-X-BYTERANGE:"))
        re_ = field(node, "re")
        re_ok = re_ is not None and re_[1] == "ok" and rng(re_[2:3] and ["x", re_[2]]) == got
        map_ok = True
        segs_ = media_segs(first_dump(node))
        for kk, (muri, mr) in c["meta"]["maps"].items():
            mnode = field(segs_[int(kk)], "map")[1]
            # EXT-X-MAP URI and BYTERANGE are reported as written: an omitted offset stays omitted
            want_r = "(range none)" if mr is None else ("(range (r %d %d))" % (mr[1], mr[1] + mr[0]) if mr[1] is not None else "(range (r none %d))" % mr[0])
            if mnode == "none" or unparse(field(mnode, "range")) != want_r or decode_s(field(mnode, "uri")[1]) != muri:
                map_ok = False
        ok = got == want and explicit and re_ok and map_ok
        return {"agree": agree, "ok": ok, "nontrivial": any(e is not None for e in exp),
                "detail": "" if ok else "ranges want=%s got=%s explicit=%s reparse=%s map=%s" % (want, got, explicit, re_ok, map_ok), "stats": {"accept": 1}}


# ------------------------------------------------------------------ C09 (text path; builder path in C20's op)
@register
class C09(Prop):
    pid = "C09"
    rule = ("segment durations x.5 s +/- {0,1} ns around x in {0,1,target,target+1,2^24,2^32} and random, target durations "
            "{0,1,10,2^24,2^32}, allowances {absent,0,1 ns,0.5 s,1 s,2^63 s,Duration::MAX}; text path (media_excess) and builder path "
            "(bmedia, exact nanosecond durations); oracle: accepted iff for every segment (dur+5*10^8) div 10^9 <= target+allowance")

    def cases(self, tier, seed):
        g = gen.G(seed * 1000003 + 9)
        out = []
        n = 0
        targets = [0, 1, 10, 2 ** 24, 2 ** 32]
        allow = [None, 0, 1, 5 * 10 ** 8, 10 ** 9, 2 ** 63 * 10 ** 9, (2 ** 64 - 1) * 10 ** 9 + 999999999]
        for t in targets:
            for al in allow:
                for x in sorted(set([0, 1, t, t + 1, max(t - 1, 0)])):
                    for delta in (-1, 0, 1):
                        ns = x * 10 ** 9 + 5 * 10 ** 8 + delta
                        out.append(self._case(n, t, al, [ns], g)); n += 1
                        out.append(self._bcase(n, t, al, [ns])); n += 1
        # the top of the Duration range (builder only: no text denotes these exactly): target + allowance saturates at Duration::MAX,
        # and u64::MAX s + 0.5 s rounds to 2^64 s, which is above every bound
        TOP = 2 ** 64 - 1
        for t in (TOP, TOP - 1):
            for al in (None, 0, 10 ** 9, (2 ** 64 - 1) * 10 ** 9 + 999999999):
                for x in (TOP, TOP - 1, TOP - 2):
                    for frac in (0, 499999999, 500000000, 999999999):
                        out.append(self._bcase(n, t, al, [x * 10 ** 9 + frac])); n += 1
        for al in ((2 ** 64 - 1) * 10 ** 9 + 999999999, (2 ** 64 - 1) * 10 ** 9):
            for frac in (499999999, 500000000, 999999999):
                out.append(self._bcase(n, 10, al, [TOP * 10 ** 9 + frac])); n += 1
        # allowances with a sub-second part: the bound is target + allowance, the segment duration is rounded first
        for t in (0, 8, 2 ** 24):
            for al in (500000001, 700000000, 999999999, 1700000000, 499999999):
                for x in (t, t + 1, t + 2):
                    for frac in sorted(set([0, 499999999, 500000000, 600000000, al % 10 ** 9 - 1, al % 10 ** 9, al % 10 ** 9 + 1, 999999999])):
                        ns = x * 10 ** 9 + frac
                        out.append(self._case(n, t, al, [ns], g)); n += 1
                        out.append(self._bcase(n, t, al, [ns])); n += 1
        # fractional target durations exist only through the builder: the bound is still target + allowance, and the value
        # handed back carries the target it was given
        for tn in (8600000000, 8750000000, 8000000001, 999999999, 8500000000):
            for al in (None, 0, 500000000, 250000000, 400000000, 1):
                for ns in (8 * 10 ** 9, 8499999999, 8500000000, 9 * 10 ** 9, 9499999999, 9500000000, 10 ** 9, 499999999):
                    script = ["Tn %d" % tn] + (["X %d" % al] if al is not None else []) + ["seg -", "dur %d" % ns, "uri s.ts", "end push", "build"]
                    ok_ = ((ns + 5 * 10 ** 8) // 10 ** 9) * 10 ** 9 <= tn + (al or 0)
                    out.append(mk("b", n, "bmedia", hx("\n".join(script)), exp=ok_, exact=True, path="builder_fractional_target", model=False, target_ns=tn)); n += 1
        for k in range(count_tier(tier, 600, 20000)):
            t = g.pick(targets + [g.small(100)])
            al = g.pick(allow + [g.small(3 * 10 ** 9)])
            durs = []
            for _ in range(g.r.randint(1, 4)):
                x = g.pick([0, t, t + 1, max(t - 1, 0), g.small(200)])
                durs.append(x * 10 ** 9 + g.pick([0, 1, 499999999, 500000000, 500000001, 999999999, g.small(10 ** 9)]))
            out.append(self._case(n, t, al, durs, g)); n += 1
            out.append(self._bcase(n, t, al, durs)); n += 1
        # the rule inside an otherwise valid playlist of the full domain (flags, keys, maps, ranges, date ranges ...): one segment
        # is put at the boundary; accepted iff its rounded duration does not exceed the target (both paths)
        for k in range(count_tier(tier, 500, 10000)):
            gen.plain_style(g)
            a = gen.gen_media(g, nseg=g.r.randint(1, 6))
            hist = []
            for sg in a["segs"]:
                if sg["map"] is not None and gen.keys_in_effect(hist + sg["keys_before"][: sg["map"]["pos"]]) not in ([], ):
                    sg["map"] = None
                hist = gen.keys_in_effect(hist + sg["keys_before"])
            if a["d17"]:
                continue
            t = a["target"]
            over = g.chance(0.5)
            sg = g.pick(a["segs"])
            sg["dur"] = g.pick(["%d.5" % t, "%d" % (t + 1), "%d.500000001" % t, "%d.999999999" % t]) if over else \
                g.pick(["%d.499999999" % t, "%d" % t, "%d.000000001" % t, "%d.5" % max(t - 1, 0)])
            out.append(mk("c", n, "media", hx(gen.render_media(a, None)), exp=not over, exact=True, path="text_in_context")); n += 1
            out.append(mk("d", n, "bmedia", hx(builder_script(a, g)), exp=not over, exact=True, path="builder_in_context")); n += 1
            if k % 3 == 0:
                # the same text through a builder that carries another target duration: the tag in the text decides, wherever it stands
                preset = "Tn %d" % (g.pick([0, 1, max(t - 1, 0), t + 5, 4]) * 10 ** 9)
                out.append(mk("e", n, "media_preset", hx(preset), hx(gen.render_media(a, None)), exp=not over, exact=True, path="text_preset_builder", model=False)); n += 1
        return out

    @staticmethod
    def _expect(t, al, durs):
        mx = min(t * 10 ** 9 + (al or 0), (2 ** 64 - 1) * 10 ** 9 + 999999999)
        return all(((d + 5 * 10 ** 8) // 10 ** 9) * 10 ** 9 <= mx for d in durs)

    def _case(self, n, t, al, durs, g):
        lines = ["#EXTM3U", "#EXT-X-TARGETDURATION:%d" % t]
        for k, d in enumerate(durs):
            lines.append("#EXTINF:%d.%09d," % (d // 10 ** 9, d % 10 ** 9))
            lines.append("s%d.ts" % k)
        if n % 4 == 2:
            # playlist-level tags may stand anywhere, EXT-X-ENDLIST included: the segments behind it are still part of the playlist
            lines.insert(2 + 2 * ((n // 4) % (len(durs) + 1)), ["#EXT-X-ENDLIST", "#EXT-X-PLAYLIST-TYPE:VOD", "#EXT-X-INDEPENDENT-SEGMENTS"][(n // 8) % 3])
        text = "\n".join(lines) + "\n"
        # durations above 2^24 s are not exactly representable after the f64 text conversion: the
        # reported duration decides, so those cases are judged on the builder path only
        exact = all(d < 2 ** 24 * 10 ** 9 for d in durs)
        if al is None:
            return mk("t", n, "media", hx(text), exp=self._expect(t, None, durs), exact=exact, path="text")
        return mk("t", n, "media_excess", hx(text), al, exp=self._expect(t, al, durs), exact=exact, path="text")

    def _bcase(self, n, t, al, durs):
        script = ["Tn %d" % (t * 10 ** 9)] + (["X %d" % al] if al is not None else [])
        for k, d in enumerate(durs):
            # every other duration is set through ExtInf::set_duration on a tag constructed with another value
            script += ["seg -", ("dur %d" % d) if (n + k) % 2 else ("dur2 %d %d" % ((d * 7 + 4 * 10 ** 9) % (2 ** 64), d)), "uri s%d.ts" % k, "end push"]
        script.append("build")
        return mk("b", n, "bmedia", hx("\n".join(script)), exp=self._expect(t, al, durs), exact=True, path="builder", model=(n + 0) % 2 == 1 and all((n + k) % 2 for k in range(len(durs))))

    def judge(self, run, c, m, i):
        agree = (res_kind(m) == res_kind(i)) if m is not None else None
        if not c["meta"]["exact"]:
            # judge by the durations the parse reports, when accepted
            node = mres(i)
            if node is None:
                return {"agree": agree, "ok": None, "nontrivial": False, "stats": {"inexact_text": 1}}
            target = int(field(first_dump(node), "target")[1])
            excess = int(field(first_dump(node), "excess")[1])
            mx = min(target + excess, (2 ** 64 - 1) * 10 ** 9 + 999999999)
            ok = all(((int(field(s, "dur")[1]) + 5 * 10 ** 8) // 10 ** 9) * 10 ** 9 <= mx for s in media_segs(first_dump(node)))
            return {"agree": agree, "ok": ok, "nontrivial": True, "detail": "" if ok else "accepted value holds a segment longer than the bound", "stats": {"inexact_text": 1}}
        want = "ok" if c["meta"]["exp"] else "err"
        ok = res_kind(i) == want
        detail = "" if ok else "expected %s got %s" % (want, res_kind(i))
        if ok and want == "ok" and c["meta"].get("target_ns") is not None:
            got_t = int(field(first_dump(mres(i)), "target")[1])
            if got_t != c["meta"]["target_ns"]:
                ok, detail = False, "the built value reports target duration %d ns, the builder was given %d ns" % (got_t, c["meta"]["target_ns"])
        return {"agree": agree, "ok": ok, "nontrivial": True, "detail": detail, "stats": {c["meta"]["path"]: 1}}


# ------------------------------------------------------------------ C10
def scan_features(text):
    """independent scan of a serialised playlist: (version lines, RFC 8216 section 7 minimum, conservative flags)"""
    lines = text.split("\n")
    versions = [l for l in lines if l.startswith("#EXT-X-VERSION:")]
    need = 1
    has_map = any(l.startswith("#EXT-X-MAP:") for l in lines)
    iframes = "#EXT-X-I-FRAMES-ONLY" in lines
    aes_no_iv = False
    for l in lines:
        if l.startswith("#EXT-X-KEY:") or l.startswith("#EXT-X-SESSION-KEY:"):
            if ",IV=" in l:
                need = max(need, 2)
            if ",KEYFORMAT=" in l or ",KEYFORMATVERSIONS=" in l:
                need = max(need, 5)
        if l.startswith("#EXTINF:"):
            d = l[len("#EXTINF:"):].split(",", 1)[0]
            if "." in d:
                need = max(need, 3)
        if l.startswith("#EXT-X-BYTERANGE:") or l == "#EXT-X-I-FRAMES-ONLY":
            need = max(need, 4)
        if l.startswith("#EXT-X-MAP:"):
            need = max(need, 5 if iframes else 6)
        if l.startswith("#EXT-X-MEDIA:") and re.search(r'INSTREAM-ID="SERVICE', l):
            need = max(need, 7)
    return versions, need, has_map


@register
class C10(Prop):
    pid = "C10"
    rule = ("all accepted C01/C02-style values: the serialised text is scanned independently (plain line scanner) for its "
            "EXT-X-VERSION lines and RFC 8216 section 7 features; oracle: at most one version tag, equal to required_version(), omitted iff 1, "
            ">= the section-7 minimum, and > minimum only in the documented conservative cases (EXT-X-MAP gives 6; derived-IV AES-128 key gives 2)")

    def cases(self, tier, seed):
        g = gen.G(seed * 1000003 + 10)
        out = []
        for n in range(count_tier(tier, 1000, 30000)):
            gen.random_style(g)
            if n % 2:
                a = gen.gen_media(g) if n % 4 != 3 else gen_key_history(g, length=g.r.randint(3, 12), with_maps=g.chance(0.3))
                if g.chance(0.08):
                    a["version_tag"] = g.pick([8, 9, 12, 0, 255, 18446744073709551615])
                if n % 4 == 3 and g.chance(0.5):
                    for sg in a["segs"]:
                        for kk in sg["keys_before"]:
                            if kk is not None:
                                kk["method"] = "SAMPLE-AES"      # (no derived IV: nothing but an explicit IV asks for version 2)
                                kk["format"], kk["versions"] = None, None
                        sg["dur"], sg["map"] = "9", None
                out.append(mk("m", n, "media", hx(gen.render_media(a, g)), kind="media"))
                if len(a["segs"]) >= 2 and n % 3 == 1:
                    # the same value after segments were removed through the public `segments` field: the text of ANY playlist value
                    # carries a sound version tag
                    idx = sorted(g.r.sample(range(len(a["segs"])), g.r.randint(1, len(a["segs"]) - 1)))
                    out.append(mk("r", n, "media_remove", hx(gen.render_media(a, None)), *idx, kind="media_removed", model=False))
            else:
                a = gen.gen_master(g)
                if g.chance(0.08):
                    a["version_tag"] = g.pick([8, 9, 12, 0, 255])
                out.append(mk("a", n, "master", hx(gen.render_master(a, g)), kind="master"))
        # a fractional EXTINF asks for protocol version 3 however small the fraction is: durations with a sub-microsecond part, alone
        for j, dtxt in enumerate(["4.0000005", "9.000000125", "1.000000999", "0.000000001", "7.000001", "3.0000000005", "5.000000001"]):
            out.append(mk("f", 200000 + j, "media", hx("#EXTM3U\n#EXT-X-TARGETDURATION:10\n#EXTINF:%s,\ns.ts\n" % dtxt), kind="media"))
        # every in-stream id on its own (SERVICE1..63 ask for protocol version 7, CC1..4 do not): nothing else in the playlist
        # raises the version
        ids = ["CC%d" % j for j in range(1, 5)] + ["SERVICE%d" % j for j in range(1, 64)]
        for j, iid in enumerate(ids):
            text = '#EXTM3U\n#EXT-X-MEDIA:TYPE=CLOSED-CAPTIONS,GROUP-ID="cc",NAME="n",INSTREAM-ID="%s"\n#EXT-X-STREAM-INF:BANDWIDTH=1,CLOSED-CAPTIONS="cc"\nv.m3u8\n' % iid
            out.append(mk("i", 100000 + j, "master", hx(text), kind="master"))
        return out

    def judge(self, run, c, m, i):
        node = mres(i)
        mn = mres(m) if m is not None else None
        agree = None
        if m is not None:
            agree = (node is None and mn is None) or (node is not None and mn is not None and unparse(field(mn, "rv")) == unparse(field(node, "rv")) and unparse(field(mn, "text")) == unparse(field(node, "text")))
        if node is None:
            return {"agree": agree, "ok": None, "nontrivial": False}
        rv = int(field(node, "rv")[1])
        text = decode_s(field(node, "text")[1])
        versions, need, has_map = scan_features(text)
        ok_tag = (len(versions) == 0 and rv == 1) or (len(versions) == 1 and rv != 1 and versions[0] == "#EXT-X-VERSION:%d" % rv)
        ok_sound = rv >= need
        # conservative cases: any MAP gives 6; an AES-128 key with derived IV gives 2 (the value has an IV the text omits)
        dump = unparse(first_dump(node))
        derived = "(iv (num " in dump
        ok_tight = rv == need or (has_map and rv == 6) or (derived and rv == 2 and need < 2)
        ok = ok_tag and ok_sound and ok_tight
        return {"agree": agree, "ok": ok, "nontrivial": rv > 1,
                "detail": "" if ok else "rv=%d section-7 minimum=%d version lines=%s tag=%s sound=%s tight=%s" % (rv, need, versions, ok_tag, ok_sound, ok_tight),
                "stats": {"rv%d" % rv: 1}}


# ------------------------------------------------------------------ C11
@register
class C11(Prop):
    pid = "C11"
    rule = ("accepted texts with several simultaneously active key formats (and master playlists): parsed 4x in one thread and in 4 "
            "further threads (op repeat_*), and the whole case file in 3 separate harness processes (fresh hash seeds); oracle: all dumps, "
            "all texts identical and all values ==; correspondence: the single model answer equals every repetition")

    def cases(self, tier, seed):
        g = gen.G(seed * 1000003 + 11)
        gen.plain_style(g)
        out = []
        for n in range(count_tier(tier, 1500, 20000)):
            if n % 5 == 4:
                a = gen.gen_master(g)
                text = gen.render_master(a, g)
                out.append(mk("a", n, "repeat_master", hx(text), 4, base="master", model=False))
                out.append(mk("A", n, "master", hx(text), base="master"))
                if n % 2 == 0:
                    # a failed parse (the text cut at some line, e.g. right behind a STREAM-INF line) leaves nothing behind in the
                    # thread: the next parse is a function of its own text
                    ls = text.split("\n")
                    cuts = [j + 1 for j, l_ in enumerate(ls) if l_.lstrip().startswith("#EXT-X-STREAM-INF")] or [max(1, len(ls) // 2)]
                    cut = g.pick(cuts) if g.chance(0.7) else g.r.randrange(1, len(ls) + 1)
                    out.append(mk("v", n, "master_twice", hx("\n".join(ls[:cut])), hx(text), base="mtwice", model=False))
            else:
                a = gen_key_history(g, length=g.r.randint(3, 25))
                text = gen.render_media(a, None)
                if n % 7 == 3:
                    # over-long / repetitive KEYFORMATVERSIONS lists, mutated texts
                    text = text.replace('URI="', 'KEYFORMATVERSIONS="%s",URI="' % "/".join(str(g.pick([1, 2, 3])) for _ in range(g.r.randint(9, 12))), 1) if g.chance(0.5) else gen.mutate(text, g)
                if n % 10 == 1:
                    # keys of one format around an EXT-X-MAP (one before it, another behind it), an older key of that format in effect
                    # before and coming back later, a key of a second format throughout: what the writer's key set holds must not
                    # depend on the order a hash set happens to iterate in
                    fa, fb = g.r.sample([None, "com.apple.streamingkeydelivery", "urn:uuid:edef8ba9-79d6-4ace-a3c8-27dcd51d21ed", "com.example.drm"], 2)
                    def kk(u, f):
                        return {"method": "AES-128" if f is None else "SAMPLE-AES", "uri": u, "iv": None, "format": f, "versions": None}
                    def sg(j, keys, mp=None):
                        return {"keys_before": keys, "map": mp, "uri": "m%d.ts" % j, "dur": "9.5", "title": None, "disc": False, "pdt": None, "range": None, "daterange": None}
                    k1, k2, k3, other = kk("k1", fa), kk("k2", fa), kk("k3", fa), kk("o", fb)
                    a = {"target": 10, "mseq": None, "dseq": None, "ptype": None, "iframes": False, "indep": False, "start": None, "endlist": True,
                         "version_tag": None, "unknown": [], "d17": False,
                         "segs": [sg(0, [other, k1] if g.chance(0.5) else [k1, other]), sg(1, [k2, k3], {"uri": "init.mp4", "range": None, "pos": 1}),
                                  sg(2, [k1]), sg(3, []), sg(4, [k2] if g.chance(0.5) else [])]}
                    text = gen.render_media(a, None)
                out.append(mk("m", n, "repeat_media", hx(text), 8, base="media", model=False))
                out.append(mk("M", n, "media", hx(text), base="media"))
                if n % 3 == 0:
                    # the same text parsed twice through ONE builder (MediaPlaylistBuilder::parse takes &mut self): the second
                    # result is a function of the text too.  Unknown tags in some of them.
                    t2 = text
                    if g.chance(0.6):
                        ls = t2.split("\n")
                        for _ in range(g.r.randint(1, 2)):
                            ls.insert(g.r.randrange(1, len(ls)), g.pick(["#EXT-X-CUE-OUT:30", "#EXT-UNKNOWN", "#EXT-X-FOO:a=b"]))
                        t2 = "\n".join(ls)
                    out.append(mk("w", n, "media_twice", hx(t2), hx(t2), base="twice", model=False))
                    out.append(mk("W", n, "media", hx(t2), base="media"))
        return out

    def judge(self, run, c, m, i):
        if c["op"].startswith("repeat_"):
            # compare across processes: run the repeat cases twice more in fresh processes (once per Run)
            if not hasattr(run, "_extra"):
                reps = [x for x in run.cases if x["op"].startswith("repeat_")]
                run._extra = [vlib.run_impl(reps, shards=1), vlib.run_impl(reps, shards=2)]
            t = parse_sexp(i) if i and i.startswith("ok ") else None
            if t is None:
                return {"agree": None, "ok": None, "nontrivial": False}
            flags = t[1][1:4]
            same_proc = all(e.get(c["id"]) == i for e in run._extra)
            partner = run.impl.get(("M" if c["id"][0] == "m" else "A") + c["id"][1:])
            pn = mres(partner)
            single = pn is not None and unparse(first_dump(pn)) == unparse(t[1][4]) and unparse(field(pn, "text")) == unparse(t[1][5])
            ok = flags == ["1", "1", "1"] and same_proc and single
            nkeys = unparse(t[1][4]).count("(key ")
            return {"agree": None, "ok": ok, "nontrivial": nkeys >= 2 or c["meta"]["base"] == "master",
                    "detail": "" if ok else "repetitions differ: flags=%s across-processes=%s single-parse=%s" % (flags, same_proc, single), "stats": {"repeat": 1}}
        if c["op"] == "master_twice":
            partner = run.impl.get("A" + c["id"][1:])
            ok = (i == partner)
            return {"agree": None, "ok": ok, "nontrivial": res_kind(i) == "ok", "stats": {"after_failure": 1},
                    "detail": "" if ok else "a master playlist parsed after another (cut) text in the same thread differs from its fresh parse: %s vs %s" % ((i or "")[:300], (partner or "")[:300])}
        if c["op"] == "media_twice":
            partner = run.impl.get("W" + c["id"][1:])
            ok = (i == partner)
            return {"agree": None, "ok": ok, "nontrivial": res_kind(i) == "ok", "stats": {"twice": 1},
                    "detail": "" if ok else "the second parse of the same text through one builder differs from a fresh parse: %s vs %s" % ((i or "")[:300], (partner or "")[:300])}
        agree = (m == i) if m is not None else None
        return {"agree": agree, "ok": None, "nontrivial": False}


# ------------------------------------------------------------------ C12
def transform(text, g, kind):
    """one presentation change the RFC declares irrelevant; returns (new text, unknown tags added)"""
    lines = text.split("\n")
    if lines and lines[-1] == "":
        lines = lines[:-1]
    added = []
    def protected(k):   # the line after a STREAM-INF line is its URI
        return k > 0 and lines[k - 1].lstrip().startswith("#EXT-X-STREAM-INF:")
    if kind == "crlf":
        return "\r\n".join(lines) + "\r\n", added
    if kind == "blank":
        out = []
        for k, l in enumerate(lines):
            if k > 0 and not protected(k) and g.chance(0.3):
                out.append(g.pick(["", "  ", "# comment", "#just, a = comment \"x\""]))
            out.append(l)
        return "\n".join(out) + "\n", added
    if kind == "pad":
        return "\n".join((g.pick(["", " ", "\t "]) + l + g.pick(["", "  ", "\t"])) if k > 0 else l for k, l in enumerate(lines)) + "\n", added
    if kind == "version":
        k = g.r.randrange(1, len(lines) + 1)
        while protected(k) and k < len(lines):
            k += 1
        lines.insert(k, "#EXT-X-VERSION:%d" % g.r.randint(1, 7))
        return "\n".join(lines) + "\n", added
    if kind == "unknown":
        k = g.r.randrange(1, len(lines) + 1)
        while k < len(lines) and protected(k):
            k += 1
        u = g.pick(["#EXT-X-NEW-TAG:1", "#EXT-FOO", "#EXT-X-CUE-OUT:30", "#EXT-X-ENDLISTS", "#EXT-X-DISCONTINUITY-X"] + gen.NEAR_MISS_TAGS)
        lines.insert(k, u)
        return "\n".join(lines) + "\n", [(k, u)]
    if kind == "noeol":
        return "\n".join(lines), added
    return text, added


@register
class C12(Prop):
    pid = "C12"
    rule = ("every accepted generated text (media and master) re-rendered from the same abstract playlist under a second random "
            "surface style (attribute order, unknown attributes, padding around = and , , CRLF, blank/comment lines, header order, order of the "
            "non-key tags before a URI, redundant EXT-X-VERSION) and under random compositions of text-level transformations incl. inserted "
            "unknown #EXT tags; oracle: equal dumps (unknown-tag insertion changes only the unknown list); correspondence on every text")

    def cases(self, tier, seed):
        g = gen.G(seed * 1000003 + 12)
        out = []
        for n in range(count_tier(tier, 500, 12000)):
            media = n % 2 == 0
            gen.plain_style(g)
            a = gen.gen_media(g) if media else gen.gen_master(g)
            render = gen.render_media if media else gen.render_master
            op = "media" if media else "master"
            base = render(a, None)
            out.append(mk("b", n, op, hx(base), role="base", nontrivial=True))
            gen.random_style(g)
            styled = render(a, g)
            out.append(mk("s", n, op, hx(styled), role="styled", partner="b%d" % n, added=0))
            # the two parse results compare equal with the library's own `==` (not only by observable content)
            out.append(mk("q", n, "eq_" + op, hx(base), hx(styled), role="eq", model=False))
            t = base
            added = 0
            for _ in range(g.r.randint(1, 4)):
                kind = g.pick(["crlf", "blank", "pad", "version", "unknown", "noeol"])
                if kind == "crlf" and "\r" in t:
                    continue
                t, ad = transform(t, g, kind)
                added += len(ad)
            out.append(mk("t", n, op, hx(t), role="transformed", partner="b%d" % n, added=added))
        # directed: on every attribute-list tag, every attribute name that only OTHER tags define, with values that would be
        # invalid there, is an unrecognised attribute: the tag parses as without it
        canon = {"key": ("ExtXKey", '#EXT-X-KEY:METHOD=AES-128,URI="k"'), "map": ("ExtXMap", '#EXT-X-MAP:URI="i"'),
                 "daterange": ("ExtXDateRange", '#EXT-X-DATERANGE:ID="d"'), "start": ("ExtXStart", "#EXT-X-START:TIME-OFFSET=1.5"),
                 "media": ("ExtXMedia", '#EXT-X-MEDIA:TYPE=AUDIO,GROUP-ID="g",NAME="n"'), "streaminf": ("VariantStream", "#EXT-X-STREAM-INF:BANDWIDTH=1"),
                 "iframe": ("VariantStream", '#EXT-X-I-FRAME-STREAM-INF:BANDWIDTH=1,URI="u"'), "sdata": ("ExtXSessionData", '#EXT-X-SESSION-DATA:DATA-ID="i",VALUE="v"')}
        k = len(out)
        for kind, (ty, line) in canon.items():
            tail = "\nu.m3u8" if kind == "streaminf" else ""
            out.append(mk("fb", k, "tag", ty, hx(line + tail), role="base", nontrivial=True))
            base_id = "fb%d" % k
            k += 1
            for name in gen.FOREIGN_ATTR_NAMES + ["METHOD", "X"]:
                if name in gen.ATTR_NAMES[kind] or (kind == "key" and name == "METHOD"):
                    continue
                for val in ["VARIABLE", '"25"', "-1", "0xFF", "NONE", '"a,b"', "nan", ""]:
                    styled = line + "," + name + "=" + val if g.chance(0.5) else line.split(":", 1)[0] + ":" + name + "=" + val + "," + line.split(":", 1)[1]
                    out.append(mk("fs", k, "tag", ty, hx(styled + tail), role="foreign", partner=base_id, added=0))
                    k += 1
        none_line = "#EXT-X-KEY:METHOD=NONE"
        out.append(mk("fb", k, "tag", "ExtXKey", hx(none_line), role="base", nontrivial=True))
        base_id = "fb%d" % k
        k += 1
        for styled in ["#EXT-X-KEY:METHOD = NONE", "#EXT-X-KEY: METHOD=NONE ", "#EXT-X-KEY:METHOD=NONE,FOO=1", "#EXT-X-KEY:BANDWIDTH=x,METHOD=NONE",
                       "#EXT-X-KEY:\u00a0METHOD\u2003=\tNONE", '#EXT-X-KEY:METHOD=NONE,X-Y="a,b"']:
            out.append(mk("fs", k, "tag", "ExtXKey", hx(styled), role="foreign", partner=base_id, added=0))
            k += 1
        return out

    @staticmethod
    def _strip_unknown(dump):
        return re.sub(r"\(unknown[^()]*\)", "(unknown)", dump)

    def judge(self, run, c, m, i):
        agree = (m == i) if m is not None else None
        if c["meta"]["role"] == "base":
            return {"agree": agree, "ok": None, "nontrivial": False}
        if c["meta"]["role"] == "eq":
            if not (i or "").startswith("ok "):
                return {"agree": None, "ok": None if res_kind(i) == "err" else False, "nontrivial": False, "detail": "eq op: " + res_kind(i)}
            t = parse_sexp(i)[1]
            same = unparse(t[2]) == unparse(t[3])
            ok = t[1] == "1" or not same
            return {"agree": None, "ok": ok, "nontrivial": True, "stats": {"eq": 1},
                    "detail": "" if ok else "two presentations of the same playlist parse to values with the same content that do not compare equal (==)"}
        base = run.impl.get(c["meta"]["partner"])
        if c["meta"]["role"] == "foreign":
            if not (base or "").startswith("ok "):
                return {"agree": agree, "ok": None, "nontrivial": False}
            if not (i or "").startswith("ok "):
                return {"agree": agree, "ok": False, "nontrivial": True, "detail": "a tag with an attribute it does not define (the name belongs to another tag) is rejected: " + res_kind(i), "stats": {"foreign_attr": 1}}
            ok = unparse(parse_sexp(base)[1][1]) == unparse(parse_sexp(i)[1][1])
            return {"agree": agree, "ok": ok, "nontrivial": True, "detail": "" if ok else "an unrecognised attribute changes the parsed tag", "stats": {"foreign_attr": 1}}
        bn, node = mres(base), mres(i)
        if bn is None:
            if node is not None and res_kind(base) == "err":
                return {"agree": agree, "ok": False, "nontrivial": True, "detail": "the canonical presentation is rejected while another presentation of the same playlist is accepted"}
            return {"agree": agree, "ok": None, "nontrivial": False}
        if node is None:
            return {"agree": agree, "ok": False, "nontrivial": True, "detail": "a presentation variant of an accepted text is rejected"}
        d0, d1 = unparse(first_dump(bn)), unparse(first_dump(node))
        if c["meta"]["added"]:
            n0 = len(field(first_dump(bn), "unknown")) - 1
            n1 = len(field(first_dump(node), "unknown")) - 1
            ok = self._strip_unknown(d0) == self._strip_unknown(d1) and n1 == n0 + c["meta"]["added"]
        else:
            ok = d0 == d1
        return {"agree": agree, "ok": ok, "nontrivial": True, "detail": "" if ok else "variant parses differently", "stats": {c["meta"]["role"]: 1}}


# ------------------------------------------------------------------ C15
REPR_LINES = [
    "#EXTINF:5,", "#EXT-X-BYTERANGE:10@0", "#EXT-X-DISCONTINUITY", '#EXT-X-KEY:METHOD=AES-128,URI="k"', '#EXT-X-MAP:URI="i"',
    "#EXT-X-PROGRAM-DATE-TIME:2010-02-19T14:54:23.031+08:00", '#EXT-X-DATERANGE:ID="d"', "#EXT-X-TARGETDURATION:10",
    "#EXT-X-MEDIA-SEQUENCE:1", "#EXT-X-DISCONTINUITY-SEQUENCE:1", "#EXT-X-ENDLIST", "#EXT-X-PLAYLIST-TYPE:VOD", "#EXT-X-I-FRAMES-ONLY",
    '#EXT-X-MEDIA:TYPE=AUDIO,GROUP-ID="g",NAME="n"', "#EXT-X-STREAM-INF:BANDWIDTH=1", '#EXT-X-I-FRAME-STREAM-INF:BANDWIDTH=1,URI="u"',
    '#EXT-X-SESSION-DATA:DATA-ID="i",VALUE="v"', '#EXT-X-SESSION-KEY:METHOD=AES-128,URI="k"', "#EXT-X-INDEPENDENT-SEGMENTS",
    "#EXT-X-START:TIME-OFFSET=1", "#EXT-X-VERSION:3", "seg.ts", "# comment", "#EXT-X-UNKNOWN:1"]
MEDIA_ONLY = set(range(0, 13))
MASTER_ONLY = set(range(13, 18))
# malformed lines of each kind (index = the kind's letter in REPR_LINES): a tag does not stop being that tag because its value is bad
MALFORMED = {0: ["#EXTINF:abc,", "#EXTINF:"], 1: ["#EXT-X-BYTERANGE:x", "#EXT-X-BYTERANGE:"], 3: ["#EXT-X-KEY:METHOD=FOO", "#EXT-X-KEY:URI=\"k\""],
             4: ["#EXT-X-MAP:BYTERANGE=\"1\"", "#EXT-X-MAP:"], 6: ['#EXT-X-DATERANGE:CLASS="c"', "#EXT-X-DATERANGE:ID=\"d\",PLANNED-DURATION=about-a-minute", "#EXT-X-DATERANGE:"],
             7: ["#EXT-X-TARGETDURATION:x"], 8: ["#EXT-X-MEDIA-SEQUENCE:-1"], 9: ["#EXT-X-DISCONTINUITY-SEQUENCE:x"], 11: ["#EXT-X-PLAYLIST-TYPE:LIVE"],
             13: ["#EXT-X-MEDIA:TYPE=AUDIO", "#EXT-X-MEDIA:"], 14: ["#EXT-X-STREAM-INF:BANDWIDTH=x", "#EXT-X-STREAM-INF:"], 15: ["#EXT-X-I-FRAME-STREAM-INF:BANDWIDTH=1"],
             16: ['#EXT-X-SESSION-DATA:DATA-ID="i"', "#EXT-X-SESSION-DATA:"], 17: ["#EXT-X-SESSION-KEY:METHOD=NONE", "#EXT-X-SESSION-KEY:METHOD=FOO"], 19: ["#EXT-X-START:PRECISE=YES"],
             20: ["#EXT-X-VERSION:x", "#EXT-X-VERSION:8"]}


def tag_positions(idx_seq):
    """indices of the lines in tag position: the line following a STREAM-INF line is its URI"""
    out = []
    skip = False
    for k, x in enumerate(idx_seq):
        if skip:
            skip = False
            continue
        out.append(k)
        if x == 14:
            skip = True
    return out


@register
class C15(Prop):
    pid = "C15"
    rule = ("all sequences of up to N lines (quick 3, thorough 4) over one representative line per tag kind + URI + comment + unknown tag "
            "(24 letters), with and without the EXTM3U header, each fed to both parsers; plus generated playlists of either kind fed to the "
            "other parser; oracle: never both accepted; any media tag or bare URI in tag position => master rejects; any master tag, missing "
            "header or missing TARGETDURATION => media rejects")

    def cases(self, tier, seed):
        out = []
        n = 0
        L = count_tier(tier, 3, 4)
        for ln in range(0, L + 1):
            for seq in itertools.product(range(len(REPR_LINES)), repeat=ln):
                text = "#EXTM3U\n" + "".join(REPR_LINES[x] + "\n" for x in seq)
                out.append(mk("x", n, "media", hx(text), seq=seq, hdr=True, which="media"))
                out.append(mk("y", n, "master", hx(text), seq=seq, hdr=True, which="master"))
                n += 1
        g = gen.G(seed * 1000003 + 15)
        # the same letters with white space around the line (every White_Space code point str::trim removes): tag position is
        # decided after trimming, so nothing changes
        pads = ["", " ", "\t", "\x0b", "\x0c", "\u0085", "\u00a0", "\u1680", "\u2003", "\u2028", "\u2029", "\u202f", "\u205f", "\u3000", "\r"]
        for x in range(len(REPR_LINES)):
            for pl in pads:
                for pr in pads:
                    if pl == "" and pr == "":
                        continue
                    # a valid neighbour so that acceptance is possible at all: TARGETDURATION (7) for media, nothing for master
                    # (the padded line must also occur in the middle: the end of the whole text is trimmed with the EXTM3U tag)
                    for seq in ((x,), (7, x, 23), (x, 23)):
                        text = "#EXTM3U\n" + "".join((pl + REPR_LINES[y] + pr if j == seq.index(x) else REPR_LINES[y]) + "\n" for j, y in enumerate(seq))
                        out.append(mk("x", n, "media", hx(text), seq=seq, hdr=True, which="media"))
                        out.append(mk("y", n, "master", hx(text), seq=seq, hdr=True, which="master"))
                        n += 1
        # a malformed line of a kind, alone or next to the lines that make a text acceptable at all: never accepted by the other parser
        for x, bads in MALFORMED.items():
            for bad in bads:
                for pre, post in (((), ()), ((7,), ()), ((7,), (0, 21)), ((), (14, 21)), ((13,), ()), ((), (21,)), ((), (0,)), ((), (7,)), ((13,), (5,)), ((), (12,))):
                    seq = tuple(pre) + (x,) + tuple(post)
                    ls = [REPR_LINES[y] for y in pre] + [bad] + [REPR_LINES[y] for y in post]
                    text = "#EXTM3U\n" + "".join(l + "\n" for l in ls)
                    out.append(mk("x", n, "media", hx(text), seq=seq, hdr=True, which="media", malformed=True))
                    out.append(mk("y", n, "master", hx(text), seq=seq, hdr=True, which="master", malformed=True))
                    n += 1
        for k in range(count_tier(tier, 300, 3000)):
            gen.random_style(g)
            text = gen.render_media(gen.gen_media(g), g) if k % 2 else gen.render_master(gen.gen_master(g), g)
            if g.chance(0.3):
                # the header is the first thing after white space: a byte-order mark, a zero-width character, a comment line or
                # another tag in front of it means the text lacks the header
                text = text.replace("#EXTM3U", g.pick(["", "#EXTM3", "#EXT-X-VERSION:3\n#EXTM3U", "\ufeff#EXTM3U", "\ufeff\ufeff#EXTM3U",
                                                       "\u200b#EXTM3U", "# c\n#EXTM3U", "\u2060#EXTM3U", "#extm3u", "\ufffe#EXTM3U"]), 1)
            out.append(mk("x", n, "media", hx(text), seq=None, which="media"))
            out.append(mk("y", n, "master", hx(text), seq=None, which="master"))
            n += 1
        return out

    def judge(self, run, c, m, i):
        agree = (res_kind(m) == res_kind(i)) if m is not None else None
        if c["meta"]["which"] == "master":
            return {"agree": agree, "ok": None, "nontrivial": False}
        other = run.impl.get("y" + c["id"][1:])
        mo, ao = res_kind(i) == "ok", res_kind(other) == "ok"
        ok = not (mo and ao)
        detail = "accepted by both parsers" if not ok else ""
        seq = c["meta"].get("seq")
        if seq is not None and ok:
            pos = tag_positions(seq)
            kinds = [seq[k] for k in pos]
            if any(x in MEDIA_ONLY or x == 21 for x in kinds) and ao:
                ok, detail = False, "master parser accepted a media tag / bare URI in tag position"
            if (any(x in MASTER_ONLY for x in kinds) or 7 not in kinds) and mo:
                ok, detail = False, "media parser accepted a master tag or a playlist without TARGETDURATION"
        if seq is None and ok:
            text = unhex(c["args"][0])
            if not text.lstrip().startswith("#EXTM3U") and (mo or ao):
                ok, detail = False, "accepted without EXTM3U header"
        return {"agree": agree, "ok": ok, "nontrivial": mo or ao, "detail": detail, "stats": {"media_ok": int(mo), "master_ok": int(ao)}}


# ------------------------------------------------------------------ C16
@register
class C16(Prop):
    pid = "C16"
    rule = ("every line-boundary prefix of generated media and master playlists (truncated downloads), append-extensions and window slides "
            "(drop k segments, raise MEDIA-SEQUENCE by k, restate keys/map/range in effect); oracle: common segments identical in number and "
            "content between accepted prefix and full text; slid window keeps number/URI/range/keys/IV; a text cut after a segment tag or after "
            "EXT-X-STREAM-INF is rejected")

    def cases(self, tier, seed):
        g = gen.G(seed * 1000003 + 16)
        out = []
        n = 0
        rots = rotation_histories()
        if tier == "quick":
            rots = rots[(seed % 3)::3]
        nrand = count_tier(tier, 120, 2500)
        for k in range(nrand + len(rots)):
            gen.plain_style(g)
            if k >= nrand:
                a = rots[k - nrand]          # three / four key formats in effect, one of them rotated: order of the keys in effect
                text = gen.render_media(a, None)
                op = "media"
            elif k % 4 == 3:
                a = gen.gen_master(g)
                text = gen.render_master(a, None)
                op = "master"
            else:
                a = gen.gen_media(g, nseg=g.r.randint(1, 6)) if k % 2 else gen_key_history(g, length=g.r.randint(3, 14))
                text = gen.render_media(a, None)
                op = "media"
            lines = text.split("\n")[:-1]
            if op == "media" and g.chance(0.5):
                # insert non-segment tags at random places, also between an item's tags and its URI
                for _ in range(g.r.randint(1, 3)):
                    lines.insert(g.r.randrange(1, len(lines) + 1), g.pick(["#EXT-X-CUE-OUT:DURATION=30", "#EXT-X-VERSION:3", "#EXT-X-INDEPENDENT-SEGMENTS",
                                                                            "#EXT-X-START:TIME-OFFSET=1", "#EXT-UNKNOWN", "# comment"]))
                text = "\n".join(lines) + "\n"
            out.append(mk("f", n, op, hx(text), role="full", group=k))
            full_id = "f%d" % n
            n += 1
            for cut in range(1, len(lines)):
                pre = "\n".join(lines[:cut]) + "\n"
                last = lines[cut - 1]
                seg_tags = ("#EXTINF:", "#EXT-X-BYTERANGE:", "#EXT-X-KEY:", "#EXT-X-MAP:", "#EXT-X-PROGRAM-DATE-TIME:", "#EXT-X-DATERANGE:")
                def is_seg_tag(l):
                    return l.startswith(seg_tags) or l == "#EXT-X-DISCONTINUITY"
                pending = False          # a segment tag seen since the last URI line
                for l in lines[:cut]:
                    if is_seg_tag(l):
                        pending = True
                    elif not l.startswith("#"):
                        pending = False
                mid_item = (op == "media" and pending) or (op == "master" and last.startswith("#EXT-X-STREAM-INF:"))
                out.append(mk("p", n, op, hx(pre), role="prefix", full=full_id, mid=mid_item, kind=op))
                n += 1
            if op == "media" and len(a["segs"]) > 1:
                for kk in range(1, len(a["segs"])):
                    stext = gen.render_media(slide(a, kk), None)
                    out.append(mk("w", n, "media", hx(stext), role="slide", full=full_id, k=kk))
                    n += 1
                    if kk == 1 or g.chance(0.3):
                        # a client that reloads a live playlist through ONE builder: the reloaded (slid) text parses as it does
                        # with a fresh builder (both texts carry the same playlist-level tags)
                        out.append(mk("r", n, "media_twice", hx(gen.render_media(a, None)), hx(stext), role="reload", fresh="w%d" % (n - 1), model=False))
                        n += 1
        return out

    def judge(self, run, c, m, i):
        agree = (m == i) if m is not None else None
        role = c["meta"]["role"]
        if role == "reload":
            fresh = run.impl.get(c["meta"]["fresh"])
            ok = (i == fresh)
            return {"agree": None, "ok": ok, "nontrivial": res_kind(i) == "ok", "stats": {"reload": 1},
                    "detail": "" if ok else "the slid text parsed through a builder that parsed the unslid text before differs from a fresh parse: %s vs %s" % ((i or "")[:300], (fresh or "")[:300])}
        if role == "full":
            return {"agree": agree, "ok": None, "nontrivial": False}
        full = mres(run.impl.get(c["meta"]["full"]))
        node = mres(i)
        if role == "prefix":
            if c["meta"]["mid"]:
                ok = node is None
                return {"agree": agree, "ok": ok, "nontrivial": True, "detail": "" if ok else "text cut in the middle of an item was accepted", "stats": {"cut_mid_item": 1}}
            if node is None or full is None:
                return {"agree": agree, "ok": None, "nontrivial": False, "stats": {"prefix_rejected": 1}}
            if c["meta"]["kind"] == "master":
                a, b = first_dump(node), first_dump(full)
                ok = all(unparse(field(a, f))[:-1] == unparse(field(b, f))[: len(unparse(field(a, f))) - 1] for f in ("media", "variants", "sdata", "skeys"))
                return {"agree": agree, "ok": ok, "nontrivial": True, "detail": "" if ok else "master prefix items differ", "stats": {"prefix_ok": 1}}
            ps, fs = media_segs(first_dump(node)), media_segs(first_dump(full))
            ok = len(ps) <= len(fs) and all(unparse(x) == unparse(y) for x, y in zip(ps, fs))
            return {"agree": agree, "ok": ok, "nontrivial": len(ps) > 0, "detail": "" if ok else "common segments differ between prefix and full text", "stats": {"prefix_ok": 1}}
        # slide
        if node is None or full is None:
            return {"agree": agree, "ok": full is None, "nontrivial": False, "detail": "slid window rejected"}
        k = c["meta"]["k"]
        fs, ws = media_segs(first_dump(full))[k:], media_segs(first_dump(node))

        def ident(s):
            return (unparse(field(s, "num")), unparse(field(s, "uri")), unparse(field(s, "range")), unparse(field(s, "keys")), unparse(field(s, "dfirst")))
        ok = len(fs) == len(ws) and all(ident(x) == ident(y) for x, y in zip(fs, ws))
        return {"agree": agree, "ok": ok, "nontrivial": True, "detail": "" if ok else "slide by %d changed a remaining segment" % k, "stats": {"slide": 1}}


def slide(a, k):
    """drop the first k segments, raise the media sequence, restate what is still in effect"""
    b = dict(a)
    hist = []
    prev_end = None
    for s in a["segs"][:k]:
        hist = gen.keys_in_effect(hist + s["keys_before"])
        if s["range"] is not None:
            start = s["range"][1] if s["range"][1] is not None else prev_end
            prev_end = start + s["range"][0]
        else:
            prev_end = None
    segs = [dict(s) for s in a["segs"][k:]]
    first = segs[0]
    restated = list(hist)
    first["keys_before"] = restated + list(first["keys_before"])
    if first["map"] is not None:
        first["map"] = dict(first["map"], pos=first["map"]["pos"] + len(restated))
    if first["range"] is not None and first["range"][1] is None:
        first["range"] = (first["range"][0], prev_end)
    b["segs"] = segs
    b["mseq"] = (a["mseq"] or 0) + k
    b["unknown"] = []
    b["late"] = {}
    return b


# ------------------------------------------------------------------ values built through the public constructors (op api)
NASTY_STRINGS = ['a"b', 'the "director\'s cut" edition', '"', '""', 'x\ny', 'x\r\ny', 'a,b', 'k=v', ' padded ', 'plain', 'caf\u00e9 "\u65e5\u672c"', '\t', 'NONE', '0x1F', '1.5', "#EXT"]


def api_cases(g, strings, idp, n0, tier_count):
    """(case, kind) list: every api KIND over the given string pool"""
    out = []
    n = n0

    def add(kind, *args):
        nonlocal n
        out.append(mk(idp, n, "api", kind, *args, kind=kind, model=False))
        n += 1
    for s_ in strings:
        h = hx(s_)
        add("value_string", h)
        add("value_from_string", h)
        add("inf_title", g.pick([0, 1500000000, 9999999999]), h)
        add("map", h)
        add("map_range", h, 5, 12)
        add("map_range_to", h, 720)
        for ty in ("AUDIO", "VIDEO"):
            add("media", hx(ty), h, hx("n"))
            add("media", hx(ty), hx("g"), h)
        add("session_data_value", h, hx("v"))
        add("session_data_value", hx("id"), h)
        add("session_data_uri", hx("id"), h)
        add("session_data_lang", hx("id"), hx("v"), h)
        add("daterange", h, hx("2014-03-05T11:15:00Z"))
        add("daterange", hx("id"), h)
        add("daterange_client", hx("id"), hx("2014-03-05T11:15:00Z"), hx("X-A"), h)
        for meth in ("AES-128", "SAMPLE-AES"):
            add("key", hx(meth), h)
        add("session_key", hx("AES-128"), h)
        add("codecs", h, hx("mp4a.40.2"))
        add("iframe", h, 1000)
        add("streaminf", h, 1000)
    for _ in range(tier_count):
        add("value_hex", g.hexbytes(g.r.randint(0, 6)).hex())
        add("value_float", hx(g.f32_text()))
        add("inf", g.pick([0, 1, 999999999, 10 ** 9, gen.dur_ns(g.duration_text(10 ** 6))]))
        add("stream_data", g.u64())
        add("start", hx(g.f32_text()), g.pick([0, 1]))
        add("start_new", hx(g.f32_text()))
        add("resolution", g.pick([0, 1, 1920, 2 ** 32]), g.pick([0, 1, 1080, 2 ** 32]))
        add("channels", g.u64())
        a_, b_ = sorted([g.small(10 ** 6), g.small(10 ** 6)])
        add("byte_range", a_, b_)
        add("byte_range_to", g.small(10 ** 6))
        add("kfv", hx("new:" + "/".join(str(g.pick([0, 0, 1, 2, 255])) for _ in range(g.r.randint(1, 9)))))
        add("kfv", hx("1/2/3#%d+%d" % (g.r.randint(0, 3), g.pick([0, 9]))))
        add("kfv", hx("new:" + "/".join(str(g.pick([1, 2, 3, 255])) for _ in range(g.r.randint(2, 9))) + "~%d" % g.r.randint(1, 2)))
        add("kfv", hx("1/2/3/4~%d" % g.r.randint(1, 3)))
        add("iv_aes", g.iv().hex())
        add("key_format_other", hx(g.pick(["identity", "com.apple.streamingkeydelivery", "com.microsoft.playready", "urn:uuid:edef8ba9-79d6-4ace-a3c8-27dcd51d21ed",
                                            "x", "IDENTITY", ""])))
        add("iv_number", g.pick([0, 1, 2 ** 64, 2 ** 128 - 1]))
        add("key_iv_number", hx("AES-128"), hx("k"), g.pick([0, 7, 2 ** 64]))
    add("iv_missing")
    return out


def api_fields(i):
    """ok (api B1 B2 DUMPX DUMPO TEXTX TEXTO RE) -> dict or None"""
    if not (i or "").startswith("ok "):
        return None
    t = parse_sexp(i)[1]
    reeq = t[8][1] if len(t) > 8 and isinstance(t[8], list) and t[8][0] == "reeq" else None
    return {"b1": t[1], "b2": t[2], "dx": unparse(t[3]), "do": unparse(t[4]), "tx": unparse(t[5]), "to": unparse(t[6]), "re": t[7], "reeq": reeq}


# ------------------------------------------------------------------ C17
@register
class C17(Prop):
    pid = "C17"
    proofs = []
    rule = ("values parsed from C01/C02-style texts: x, x.clone(), x.into_owned() compared by ==, by full dump and by to_string(); the three "
            "entry points TryFrom / FromStr / builder().parse() compared by dump; plus the regenerated field map of every hand-written "
            "into_owned (theorem over the generated table)")

    def cases(self, tier, seed):
        g = gen.G(seed * 1000003 + 17)
        out = []
        for n in range(count_tier(tier, 600, 15000)):
            gen.random_style(g)
            if n % 2:
                text = gen.render_media(gen.gen_media(g), g)
                out.append(mk("o", n, "own_media", hx(text), model=False, kind="own"))
                out.append(mk("f", n, "media_fromstr", hx(text), model=False, kind="fromstr"))
                out.append(mk("e", n, "media_excess", hx(text), 0, kind="builder"))
                out.append(mk("t", n, "media", hx(text), kind="tryfrom"))
            else:
                text = gen.render_master(gen.gen_master(g), g)
                out.append(mk("o", n, "own_master", hx(text), model=False, kind="own"))
        # playlists built through the builder API (push_segment / segments(), explicit numbers in any call order)
        for k in range(count_tier(tier, 200, 4000)):
            gen.plain_style(g)
            a = gen.gen_media(g, nseg=g.r.randint(1, 5))
            hist = []
            for sg in a["segs"]:
                if sg["map"] is not None and gen.keys_in_effect(hist + sg["keys_before"][: sg["map"]["pos"]]) not in ([], ):
                    sg["map"] = None
                hist = gen.keys_in_effect(hist + sg["keys_before"])
            # (with an allowable excess duration set on the builder in half of them: the built value carries it, and so do its copies)
            xs = ("X %d\n" % g.pick([1, 500000000, 2000000000, 10 ** 12])) if g.chance(0.5) else ""
            out.append(mk("p", len(out), "bown", hx(xs + builder_script(a, g, dup_keys=g.chance(0.5))), model=False, kind="bown"))
            cnt = g.r.randint(1, 5)
            use_list = g.chance(0.5)
            m_ = g.r.randint(0, cnt)
            if use_list:
                # segments(): explicit numbers 0..m-1 in any order, mixed with implicit ones (placed behind the highest number)
                calls = list(range(m_)) + [None] * (cnt - m_)
                g.r.shuffle(calls)
            else:
                # push_segment: m implicit pushes first, then the explicit numbers m..cnt-1 in any order
                rest = list(range(m_, cnt))
                g.r.shuffle(rest)
                calls = [None] * m_ + rest
            script = ["Tn 10000000000"] + (["X %d" % g.pick([1, 10 ** 9])] if g.chance(0.4) else [])
            for j, x in enumerate(calls):
                script += ["seg -" if x is None else "seg %d" % x, "dur 5000000000", "uri s%d.ts" % j, "end list" if use_list else "end push"]
            script += (["segments"] if use_list else []) + ["build"]
            out.append(mk("p", len(out), "bown", hx("\n".join(script)), model=False, kind="bown"))
        # values only the public constructors can build (strings with quotes / line breaks, Number IVs, stale buffers ...)
        for c in api_cases(g, NASTY_STRINGS + [g.qstring() for _ in range(count_tier(tier, 10, 200))], "a", len(out), count_tier(tier, 20, 400)):
            c["meta"]["apikind"] = c["meta"]["kind"]
            c["meta"]["kind"] = "api"
            out.append(c)
        return out

    def judge(self, run, c, m, i):
        kind = c["meta"]["kind"]
        if kind == "api":
            f = api_fields(i)
            if f is None:
                return {"agree": None, "ok": res_kind(i) != "panic" and None, "nontrivial": False, "detail": "api op: " + res_kind(i), "stats": {"api_" + res_kind(i): 1}}
            ok = f["b1"] == "1" and f["b2"] == "1" and f["dx"] == f["do"] and f["tx"] == f["to"]
            return {"agree": None, "ok": ok, "nontrivial": True, "stats": {"api_own": 1},
                    "detail": "" if ok else "%s built through the public API: clone/into_owned is not interchangeable with the original (== %s,%s; content %s vs %s)" % (
                        c["meta"]["apikind"], f["b1"], f["b2"], f["dx"][:200], f["do"][:200])}
        if kind == "bown":
            if not (i or "").startswith("ok "):
                return {"agree": None, "ok": None if res_kind(i) == "err" else False, "nontrivial": False, "detail": "bown: " + res_kind(i)}
            t = parse_sexp(i)[1]
            ok = t[1] == "1" and t[2] == "1" and unparse(t[3]) == unparse(t[4]) == unparse(t[5]) and unparse(t[6]) == unparse(t[7]) == unparse(t[8])
            return {"agree": None, "ok": ok, "nontrivial": True, "detail": "" if ok else "clone/into_owned of a BUILT playlist differs from the original (== %s,%s) in equality, content or text" % (t[1], t[2]), "stats": {"bown": 1, "bown_eq_%s%s" % (t[1], t[2]): 1}}
        if kind == "own":
            if not (i or "").startswith("ok "):
                return {"agree": None, "ok": None, "nontrivial": False}
            t = parse_sexp(i)[1]
            ok = t[1] == "1" and t[2] == "1" and unparse(t[3]) == unparse(t[4]) == unparse(t[5]) and unparse(t[6]) == unparse(t[7]) == unparse(t[8])
            return {"agree": None, "ok": ok, "nontrivial": True, "detail": "" if ok else "clone/into_owned differs from the original: eq=%s,%s" % (t[1], t[2]), "stats": {"own": 1}}
        agree = (m == i) if m is not None else None
        if kind == "tryfrom":
            n = c["id"][1:]
            node = mres(i)
            fs = run.impl.get("f" + n)
            ex = run.impl.get("e" + n)
            if node is None:
                ok = res_kind(fs) == res_kind(i) == res_kind(ex)
            else:
                ok = fs == "ok " + unparse(first_dump(node)) and ex == i
            return {"agree": agree, "ok": ok, "nontrivial": node is not None, "detail": "" if ok else "TryFrom / FromStr / builder().parse() disagree", "stats": {"entry_points": 1}}
        return {"agree": agree, "ok": None, "nontrivial": False}


# ------------------------------------------------------------------ C05
@register
class C05(Prop):
    pid = "C05"
    needs_debug_harness = True
    rule = ("near-valid inputs: generated media/master playlists with one to three mutations (a token replaced by -1, 0, 2^64-1, 2^64, 2^128, nan, "
            "inf, 1e400, empty, lone quote, multi-byte chars; line truncated at any char; lines duplicated/swapped/deleted; text truncated), "
            "structurally valid playlists with numbers at the edges of the integer and duration types (boundary stream), "
            "random strings over the token alphabet, every tag/attribute type on mutated single lines; every text-accepting entry point; oracle: "
            "the call returns (Ok or Err), never panics, and to_string() of an Ok value returns; correspondence: returned/panicked agree with the "
            "model in which every unwinding primitive is an explicit Panic; thorough adds the time-scaling measurement")

    TAG_TYPES = {"#EXTINF": "ExtInf", "#EXT-X-BYTERANGE": "ExtXByteRange", "#EXT-X-KEY": "ExtXKey", "#EXT-X-MAP": "ExtXMap",
                 "#EXT-X-DATERANGE": "ExtXDateRange", "#EXT-X-START": "ExtXStart", "#EXT-X-MEDIA:": "ExtXMedia",
                 "#EXT-X-SESSION-DATA": "ExtXSessionData", "#EXT-X-SESSION-KEY": "ExtXSessionKey", "#EXT-X-I-FRAME-STREAM-INF": "VariantStream",
                 "#EXT-X-PROGRAM-DATE-TIME": "ExtXProgramDateTime", "#EXT-X-VERSION": "ExtXVersion", "#EXT-X-PLAYLIST-TYPE": "PlaylistType"}
    VALUE_TYPES = ["ByteRange", "Channels", "Resolution", "Codecs", "ClosedCaptions", "Float", "UFloat", "InitializationVector", "KeyFormat",
                   "KeyFormatVersions", "ProtocolVersion", "MediaType", "HdcpLevel", "EncryptionMethod", "InStreamId", "Value", "StreamData", "DecryptionKey"]

    def cases(self, tier, seed):
        g = gen.G(seed * 1000003 + 5)
        out = []
        n = 0
        for k in range(count_tier(tier, 4000, 150000)):
            gen.random_style(g)
            media = k % 2 == 0
            text = gen.render_media(gen.gen_media(g), g) if media else gen.render_master(gen.gen_master(g), g)
            for _ in range(g.r.randint(1, 3)):
                text = gen.mutate(text, g)
            op = g.pick(["media", "media", "master"]) if media else g.pick(["master", "master", "media"])
            if op == "media" and g.chance(0.2):
                out.append(mk("c", n, "media_excess", hx(text), g.pick([0, 1, 10 ** 9, (2 ** 64 - 1) * 10 ** 9 + 999999999]), stream="mutated"))
            else:
                out.append(mk("c", n, op, hx(text), stream="mutated"))
            n += 1
            if k % 4 == 0:
                # single mutated lines against the tag parsers
                for line in text.split("\n"):
                    for pfx, ty in self.TAG_TYPES.items():
                        if line.strip().startswith(pfx) and g.chance(0.3):
                            out.append(mk("c", n, "tag", ty, hx(line), stream="tag", model=False))
                            n += 1
        # every attribute of every tag line of a few rich playlists, replaced in turn by tokens with stray / unbalanced quotes and
        # other one-character surprises (a conversion that became fallible behind an unwrap shows only on its own attribute)
        QUOTE_TOKENS = ['"', '"x', 'x"', 'x"y', '""x', '', ' ', '\\"', "'", "-0", "-0.0", "-1e-46", "nan", "inf", "1e400", "+1", "0x", "18446744073709551616"]
        gq = gen.G(seed * 1000003 + 505)
        RICH = [(False, '#EXTM3U\n#EXT-X-VERSION:7\n#EXT-X-INDEPENDENT-SEGMENTS\n#EXT-X-START:TIME-OFFSET=1.5,PRECISE=YES\n'
                        '#EXT-X-MEDIA:TYPE=AUDIO,URI="a.m3u8",GROUP-ID="aud",LANGUAGE="en",ASSOC-LANGUAGE="fr",NAME="English",DEFAULT=YES,AUTOSELECT=YES,CHARACTERISTICS="public.accessibility.describes-video",CHANNELS="2"\n'
                        '#EXT-X-MEDIA:TYPE=SUBTITLES,URI="s.m3u8",GROUP-ID="sub",NAME="S",FORCED=YES,AUTOSELECT=YES\n'
                        '#EXT-X-MEDIA:TYPE=CLOSED-CAPTIONS,GROUP-ID="cc",NAME="C",INSTREAM-ID="CC1"\n'
                        '#EXT-X-MEDIA:TYPE=VIDEO,URI="v.m3u8",GROUP-ID="vid",NAME="V"\n'
                        '#EXT-X-STREAM-INF:BANDWIDTH=2000,AVERAGE-BANDWIDTH=1500,CODECS="avc1.4d401e,mp4a.40.2",RESOLUTION=1280x720,FRAME-RATE=29.97,HDCP-LEVEL=TYPE-0,AUDIO="aud",VIDEO="vid",SUBTITLES="sub",CLOSED-CAPTIONS="cc"\nv1.m3u8\n'
                        '#EXT-X-STREAM-INF:BANDWIDTH=900,CLOSED-CAPTIONS=NONE\nv2.m3u8\n'
                        '#EXT-X-I-FRAME-STREAM-INF:BANDWIDTH=500,URI="i.m3u8",CODECS="avc1",RESOLUTION=640x360,HDCP-LEVEL=NONE,VIDEO="vid"\n'
                        '#EXT-X-SESSION-DATA:DATA-ID="com.example.title",VALUE="t",LANGUAGE="en"\n'
                        '#EXT-X-SESSION-DATA:DATA-ID="com.example.lyrics",URI="l.json"\n'
                        '#EXT-X-SESSION-KEY:METHOD=SAMPLE-AES,URI="skd://k",IV=0x000102030405060708090a0b0c0d0e0f,KEYFORMAT="com.apple.streamingkeydelivery",KEYFORMATVERSIONS="1/2"\n'),
                (True, '#EXTM3U\n#EXT-X-VERSION:7\n#EXT-X-TARGETDURATION:10\n#EXT-X-MEDIA-SEQUENCE:7\n#EXT-X-DISCONTINUITY-SEQUENCE:2\n#EXT-X-PLAYLIST-TYPE:EVENT\n'
                       '#EXT-X-START:TIME-OFFSET=-2.5\n'
                       '#EXT-X-KEY:METHOD=AES-128,URI="k1",IV=0x000102030405060708090a0b0c0d0e0f,KEYFORMAT="identity",KEYFORMATVERSIONS="1"\n'
                       '#EXT-X-MAP:URI="init.mp4",BYTERANGE="100@0"\n'
                       '#EXT-X-DATERANGE:ID="d1",CLASS="c",START-DATE="2020-01-01T00:00:00Z",END-DATE="2020-01-01T00:01:00Z",DURATION=60,PLANNED-DURATION=60.5,SCTE35-CMD=0xAB,SCTE35-OUT=0xCD,SCTE35-IN=0xEF,X-A="v",X-B=0x0A,X-C=1.5\n'
                       '#EXT-X-DATERANGE:ID="d2",CLASS="c",START-DATE="2020-01-01T00:00:00Z",END-ON-NEXT=YES\n'
                       '#EXT-X-PROGRAM-DATE-TIME:2020-01-01T00:00:00Z\n#EXT-X-BYTERANGE:500@100\n#EXTINF:9.5,first\nseg.mp4\n'
                       '#EXT-X-KEY:METHOD=NONE\n#EXT-X-DISCONTINUITY\n#EXTINF:10,\nplain.ts\n#EXT-X-ENDLIST\n')]
        nrich = count_tier(tier, 4, 12)
        for k in range(nrich + len(RICH)):
            gen.plain_style(gq)
            if k >= nrich:
                media, text = RICH[k - nrich]
            else:
                media = k % 2 == 0
                text = gen.render_media(gen.gen_media(gq, nseg=3), None) if media else gen.render_master(gen.gen_master(gq), None)
            lines = text.split("\n")
            for li, line in enumerate(lines):
                if not line.startswith("#EXT") or ":" not in line or "=" not in line:
                    continue
                head, rest = line.split(":", 1)
                parts = gen.split_attrs(rest) if hasattr(gen, "split_attrs") else None
                if parts is None:
                    # split at commas outside quotes
                    parts, cur, inq = [], "", False
                    for ch in rest:
                        if ch == '"':
                            inq = not inq
                        if ch == "," and not inq:
                            parts.append(cur); cur = ""
                        else:
                            cur += ch
                    parts.append(cur)
                for j, part in enumerate(parts):
                    if "=" not in part:
                        continue
                    name = part.split("=", 1)[0]
                    for tok in QUOTE_TOKENS:
                        p2 = list(parts)
                        p2[j] = name + "=" + tok
                        l2 = list(lines)
                        l2[li] = head + ":" + ",".join(p2)
                        out.append(mk("c", n, "media" if media else "master", hx("\n".join(l2)), stream="attr-quotes"))
                        n += 1
                        for pfx, ty in self.TAG_TYPES.items():
                            if l2[li].startswith(pfx):
                                out.append(mk("c", n, "tag", ty, hx(l2[li]), stream="attr-quotes", model=False))
                                n += 1
        # boundary stream: structurally valid playlists whose numbers sit at the edges of the integer / duration types, so that
        # every arithmetic step of build() (numbering, byte-range continuation, duration rounding, excess) is reached
        BIG = [0, 1, 2, 2 ** 32, 2 ** 63, 2 ** 64 - 2, 2 ** 64 - 1]
        for k in range(count_tier(tier, 2500, 60000)):
            lines = ["#EXTM3U", "#EXT-X-TARGETDURATION:%d" % g.pick([1, 10, 18446744073, 2 ** 64 - 1])]
            if g.chance(0.6):
                lines.append("#EXT-X-MEDIA-SEQUENCE:%d" % g.pick(BIG))
            if g.chance(0.3):
                lines.append("#EXT-X-DISCONTINUITY-SEQUENCE:%d" % g.pick(BIG))
            uri = g.pick(["a.ts", "b.ts"])
            for j in range(g.r.randint(1, 4)):
                if g.chance(0.25):
                    uri = g.pick(["a.ts", "b.ts"])
                if g.chance(0.75):
                    ln = g.pick(BIG)
                    lines.append("#EXT-X-BYTERANGE:%d@%d" % (ln, g.pick(BIG)) if g.chance(0.45) else "#EXT-X-BYTERANGE:%d" % ln)
                if g.chance(0.2):
                    lines.append('#EXT-X-KEY:METHOD=AES-128,URI="k"')
                lines.append("#EXTINF:%s," % g.pick(["1", "0.5", "10", "18446744073", "18446744073709551615", "1.8446744073709552e19", "1e19", "0.9999999995",
                                                      "1.6", "10.6", "1.5", "10.5", "1.699999999", "2.2", "11.4"]))
                lines.append(uri)
            text = "\n".join(lines) + "\n"
            if g.chance(0.3):
                out.append(mk("c", n, "media_excess", hx(text), g.pick([0, 1, 10 ** 9, (2 ** 64 - 1) * 10 ** 9 + 999999999, 700000000, 500000001, 1999999999]), stream="boundary"))
            else:
                out.append(mk("c", n, "media", hx(text), stream="boundary"))
            n += 1
        for pos in range(0, 34):
            for ch in ("\u00e9", "\u20ac", "\U0001f600"):
                w = len(ch.encode("utf-8"))
                if pos + w > 34:
                    continue
                val = ("0x" + "0" * 32)[:pos] + ch + ("0x" + "0" * 32)[pos + w:]
                out.append(mk("c", n, "tag", "InitializationVector", hx(val), stream="fixed-width", model=False)); n += 1
                out.append(mk("c", n, "tag", "ExtXKey", hx('#EXT-X-KEY:METHOD=AES-128,URI="k",IV=' + val), stream="fixed-width", model=False)); n += 1
                out.append(mk("c", n, "master", hx('#EXTM3U\n#EXT-X-SESSION-KEY:METHOD=AES-128,URI="k",IV=' + val + "\n"), stream="fixed-width")); n += 1
        # stress stream: large inputs of simple shape, each in its own process of the UNOPTIMISED harness build (recursion is not
        # turned into a loop there): the entry point has to return -- an abort (stack overflow) or a hang is a violation
        N = count_tier(tier, 300000, 1500000)
        hdr = "#EXTM3U\n#EXT-X-TARGETDURATION:10\n"
        stress = [
            ("media", "blank lines", hdr + "\n" * N + "#EXTINF:1,\ns.ts\n"),
            ("master", "blank lines", "#EXTM3U\n" + "\n" * N + "#EXT-X-STREAM-INF:BANDWIDTH=1\nv.m3u8\n"),
            ("media", "white-space lines", hdr + "  \t\r\n" * (N // 3) + "#EXTINF:1,\ns.ts\n"),
            ("media", "comment lines", hdr + "# c\n" * (N // 3) + "#EXTINF:1,\ns.ts\n"),
            ("master", "comment lines", "#EXTM3U\n" + "#c\n" * (N // 3)),
            ("media", "unknown tags", hdr + "#EXT-X-FOO:1\n" * (N // 10)),
            ("master", "unknown tags", "#EXTM3U\n" + "#EXT-X-FOO:1\n" * (N // 10)),
            ("media", "segments", hdr + "#EXTINF:1,\ns.ts\n" * (N // 30)),
            ("media", "segments with byte ranges and one key", hdr + '#EXT-X-KEY:METHOD=AES-128,URI="k"\n' + "#EXT-X-BYTERANGE:10\n#EXTINF:1,\ns.ts\n".replace("10\n", "10@0\n", 1) * 1 + "#EXT-X-BYTERANGE:10\n#EXTINF:1,\ns.ts\n" * (N // 60)),
            ("master", "variants", "#EXTM3U\n" + "#EXT-X-STREAM-INF:BANDWIDTH=1\nv.m3u8\n" * (N // 60)),
            ("media", "one line of quotes", hdr + "#EXT-X-KEY:" + '"' * N + "\n"),
            ("media", "one line of commas", hdr + "#EXT-X-KEY:" + "," * N + "\n"),
            ("media", "one line of equals signs", hdr + "#EXT-X-DATERANGE:" + "=" * N + "\n"),
            ("media", "one attribute list with many attributes", hdr + '#EXT-X-DATERANGE:ID="d",' + ",".join("X-A%d=%d" % (j, j) for j in range(N // 30)) + "\n#EXTINF:1,\ns.ts\n"),
            ("media", "one long URI line", hdr + "#EXTINF:1,\n" + "a" * N + "\n"),
            ("media", "carriage returns", hdr + "\r" * N + "\n#EXTINF:1,\ns.ts\n"),
            ("media", "no line breaks", "#EXTM3U" + " " * N),
            ("media", "long EXTINF title", hdr + "#EXTINF:1," + "t" * N + "\ns.ts\n"),
            ("media", "long number", hdr + "#EXTINF:" + "9" * (N // 10) + ",\ns.ts\n"),
            ("media", "long fraction", hdr + "#EXTINF:0." + "9" * (N // 10) + ",\ns.ts\n"),
        ]
        for kind, what, text in stress:
            out.append(mk("s", n, "timing", kind, hx(text), stream="stress", model=False, solo=True, debug=True, timeout=300, what=what))
            n += 1
        alphabet = ['"', ",", "=", "@", "/", "x", "0x", "-", "+", ".", "e", "1", "9", "0", "nan", "inf", " ", "é", "\U0001f600", "YES", "NONE",
                    "18446744073709551615", "METHOD", "URI", "#EXT-X-KEY:", "#EXTINF:", "\n", "\r\n", "#EXTM3U", "#EXT-X-TARGETDURATION:", "#EXT-X-STREAM-INF:", "BANDWIDTH=1"]
        for k in range(count_tier(tier, 3000, 100000)):
            s = "".join(g.pick(alphabet) for _ in range(g.r.randint(0, 14)))
            if g.chance(0.5):
                ty = g.pick(self.VALUE_TYPES + list(self.TAG_TYPES.values()))
                out.append(mk("c", n, "tag", ty, hx(s), stream="random-tag", model=False))
            else:
                out.append(mk("c", n, g.pick(["media", "master"]), hx(("#EXTM3U\n" if g.chance(0.7) else "") + s), stream="random"))
            n += 1
        return out

    # ---- time scaling (thorough tier): the same family of inputs at size n and 4n; linear families may grow by 4x (bound 12x, to
    # stay clear of noise), the family with an unbounded number of active key formats by 16x (bound 48x).  Timing is of the whole
    # harness op (parse, dump, to_string, re-parse) minus the process start-up; best of three runs.
    def post(self, run):
        if run.tier != "thorough":
            return

        def media(n, formats_every=None, nformats=2):
            lines = ["#EXTM3U", "#EXT-X-TARGETDURATION:10"]
            for j in range(n):
                if formats_every and j % formats_every == 0:
                    lines.append('#EXT-X-KEY:METHOD=SAMPLE-AES,URI="k%d",KEYFORMAT="f%d"' % (j, (j // formats_every) % nformats))
                lines += ["#EXTINF:9.5,t", "#EXT-X-BYTERANGE:10@%d" % (10 * j), "seg.ts"]
            return "\n".join(lines) + "\n"

        def master(n):
            lines = ["#EXTM3U", '#EXT-X-MEDIA:TYPE=AUDIO,GROUP-ID="a",NAME="n"']
            for j in range(n):
                lines += ['#EXT-X-STREAM-INF:BANDWIDTH=%d,CODECS="avc1.4d401e,mp4a.40.2",RESOLUTION=640x360,AUDIO="a"' % (1000 + j), "v%d.m3u8" % j]
            return "\n".join(lines) + "\n"

        def long_line(n):
            return "#EXTM3U\n#EXT-X-TARGETDURATION:10\n#EXT-X-DATERANGE:ID=\"d\"," + ",".join('X-A%d="v,%d"' % (j, j) for j in range(n)) + "\n#EXTINF:1,\ns.ts\n"

        families = [
            ("media, 2 key formats", "media", lambda n: media(n, 50, 2), 4000, 12.0),
            ("master, n variants", "master", master, 4000, 12.0),
            ("one DATERANGE line with n client attributes", "media", long_line, 4000, 12.0),
            ("garbage line of n quotes", "media", lambda n: "#EXTM3U\n#EXT-X-KEY:" + '"' * n + "\n", 40000, 12.0),
            ("media, a new key format every segment (unbounded)", "media", lambda n: media(n, 1, n), 400, 48.0),
        ]

        def timed(kind, text):
            """in-process times of parse / to_string / re-parse (harness op `timing`), best of three"""
            best = None
            for _ in range(3):
                r = list(vlib.run_impl([mk("z", 0, "timing", kind, hx(text))], shards=1).values())[0]
                if not r.startswith(("ok ", "err ")):
                    return None, r
                t = parse_sexp(r)[1]
                cur = [int(field(t, k)[1]) if field(t, k) else 0 for k in ("parse_us", "tostring_us", "reparse_us")]
                best = cur if best is None else [min(x, y) for x, y in zip(best, cur)]
            return best, r
        report = []
        for name, op, f, n0, bound in families:
            t1, r1 = timed(op, f(n0))
            t2, r2 = timed(op, f(4 * n0))
            entry = {"family": name, "n": n0, "bound": bound, "result": res_kind(r2)}
            bad = None
            if res_kind(r2) == "panic" or res_kind(r1) == "panic":
                bad = "panic"
            elif t1 is not None and t2 is not None:
                for step, a_us, b_us in zip(("parse", "to_string", "re-parse"), t1, t2):
                    ratio = b_us / max(a_us, 2000)       # below 2 ms the measurement is noise
                    entry["%s_us" % step] = [a_us, b_us]
                    entry["%s_ratio" % step] = round(ratio, 2)
                    if ratio > bound:
                        bad = "%s: %d us at n=%d, %d us at 4n (ratio %.1f > %.0f)" % (step, a_us, n0, b_us, ratio, bound)
            report.append(entry)
            if bad:
                run.violations.append({"property": run.pid, "kind": "violation", "seed": run.seed, "tier": run.tier,
                                       "case": {"id": "z0", "op": "timing", "args": [op, hx(f(4 * n0))]}, "input_text": f(4 * n0)[:600],
                                       "detail": "time scaling, family '%s': %s" % (name, bad),
                                       "how_to_replay": "./check C05 --replay <this file>"})
        run.stats["time_scaling"] = report

    def judge(self, run, c, m, i):
        rk = res_kind(i)
        ok = rk in ("ok", "err") and "panic" not in (i or "panic")[:50000].split(" (re ")[0]
        # a panic inside to_string or the re-parse shows up inside the mres
        if rk == "ok" and (" panic" in i or "(re panic)" in i):
            ok = False
        agree = None
        if m is not None:
            agree = (res_kind(m) == "panic") == (rk == "panic")
        return {"agree": agree, "ok": ok, "nontrivial": rk == "err" or rk == "ok",
                "detail": "" if ok else "entry point %s did not return normally: %s%s" % (c["op"], (i or "")[:80], " [stress input: %s]" % c["meta"]["what"] if c["meta"].get("what") else ""),
                "stats": {c["meta"]["stream"]: 1, "result_" + rk: 1}}


# ------------------------------------------------------------------ C13
def master_text(media, variants, sdata, g=None):
    lines = ["#EXTM3U"]
    blocks = []
    for ty, grp in media:
        extra = ',URI="u"' if ty == "SUBTITLES" else (',INSTREAM-ID="CC1"' if ty == "CLOSED-CAPTIONS" else "")
        blocks.append(['#EXT-X-MEDIA:TYPE=%s,GROUP-ID="%s",NAME="n%s"%s' % (ty, grp, grp, extra)])
    for v in variants:
        if v["kind"] == "iframe":
            a = 'BANDWIDTH=1,URI="i"' + (',VIDEO="%s"' % v["video"] if v["video"] else "")
            blocks.append(["#EXT-X-I-FRAME-STREAM-INF:" + a])
        else:
            a = "BANDWIDTH=1"
            for name, key in (("AUDIO", "audio"), ("VIDEO", "video"), ("SUBTITLES", "subs")):
                if v[key]:
                    a += ',%s="%s"' % (name, v[key])
            if v["cc"] == "NONE":
                a += ",CLOSED-CAPTIONS=NONE"
            elif v["cc"]:
                a += ',CLOSED-CAPTIONS="%s"' % (v["cc"][2:] if v["cc"].startswith("q:") else v["cc"])
            blocks.append(["#EXT-X-STREAM-INF:" + a, "v.m3u8"])
    for did, lang in sdata:
        blocks.append(['#EXT-X-SESSION-DATA:DATA-ID="%s",VALUE="x"%s' % (did, ',LANGUAGE="%s"' % lang if lang else "")])
    if g is not None:
        g.r.shuffle(blocks)
    for b in blocks:
        lines += b
    return "\n".join(lines) + "\n"


def master_consistent(media, variants, sdata):
    have = set(media)
    none = any(v["kind"] == "s" and v["cc"] == "NONE" for v in variants)
    grp = any(v["kind"] == "s" and v["cc"] not in (None, "NONE") for v in variants)
    for v in variants:
        if v["video"] and ("VIDEO", v["video"]) not in have:
            return False
        if v["kind"] == "s":
            if v["audio"] and ("AUDIO", v["audio"]) not in have:
                return False
            if v["subs"] and ("SUBTITLES", v["subs"]) not in have:
                return False
            ccg = v["cc"][2:] if (v["cc"] or "").startswith("q:") else v["cc"]      # "q:NONE" = the GROUP named NONE, written with quotes
            if v["cc"] not in (None, "NONE") and ("CLOSED-CAPTIONS", ccg) not in have:
                return False
    if none and grp:
        return False
    return len(set(sdata)) == len(sdata)


@register
class C13(Prop):
    pid = "C13"
    rule = ("master playlists over renditions {4 types x 2 group ids} (every subset in thorough, sampled in quick), up to 2 STREAM-INF variants with "
            "{absent,g1,g2} for AUDIO/VIDEO/SUBTITLES and {absent,g1,g2,NONE} for CLOSED-CAPTIONS plus an optional I-frame variant, 0-2 session-data tags over "
            "2 ids x {no language, en}, tags in any order; a rendition group literally named NONE exercises the known finding; oracle: accepted iff consistent "
            "(independent python rule), rendition lookup = referenced renditions; correspondence on accept/reject and lookup")

    def cases(self, tier, seed):
        g = gen.G(seed * 1000003 + 13)
        out = []
        n = 0
        types = ["AUDIO", "VIDEO", "SUBTITLES", "CLOSED-CAPTIONS"]
        allm = [(t, grp) for t in types for grp in ("g1", "g2")]
        for k in range(count_tier(tier, 2500, 60000)):
            media = [m for m in allm if g.chance(0.5)]
            if g.chance(0.1):
                media.append(("CLOSED-CAPTIONS", "NONE"))
            variants = []
            for _ in range(g.pick([0, 1, 1, 2, 2, 3, 4])):
                variants.append({"kind": "s", "audio": g.pick([None, "g1", "g2"]), "video": g.pick([None, None, "g1", "g2"]),
                                 "subs": g.pick([None, "g1", "g2"]), "cc": g.pick([None, "g1", "g2", "NONE", "q:NONE"])})
            if g.chance(0.4):
                variants.append({"kind": "iframe", "video": g.pick([None, "g1", "g2"])})
            sdata = [(g.pick(["a", "b", "a-en", "a-"]), g.pick([None, "en", "de", "-en"])) for _ in range(g.pick([0, 1, 2, 2, 3, 4, 5]))]   # ids and languages that collide once they are glued together
            text = master_text(media, variants, sdata, g if g.chance(0.7) else None)
            exp = master_consistent(media, variants, sdata)
            d19 = ("CLOSED-CAPTIONS", "NONE") in media and any(v["kind"] == "s" and v["cc"] == "NONE" for v in variants)
            out.append(mk("m", n, "master", hx(text), exp=exp, kind="accept"))
            out.append(mk("l", n, "assoc", hx(text), exp=exp, kind="lookup", d19=d19))
            n += 1
        # spellings: group ids are compared byte for byte — ids that differ in letter case, by a trailing blank or by a
        # composed / decomposed letter are DIFFERENT groups (master_consistent compares strings exactly)
        for k in range(count_tier(tier, 600, 6000)):
            ids = g.pick([("g1", "G1"), ("aud", "AUD"), ("aud", "Aud"), ("g1", "g1 "), ("gr\u00fcn", "gru\u0308n"), ("a", "A")])
            media = [(t, i) for t in types for i in ids if g.chance(0.35)]
            variants = []
            for _ in range(g.pick([1, 1, 2, 3])):
                variants.append({"kind": "s", "audio": g.pick([None, ids[0], ids[1]]), "video": g.pick([None, None, ids[0], ids[1]]),
                                 "subs": g.pick([None, ids[0], ids[1]]), "cc": g.pick([None, ids[0], ids[1]])})
            if g.chance(0.3):
                variants.append({"kind": "iframe", "video": g.pick([None, ids[0], ids[1]])})
            text = master_text(media, variants, [], None)
            exp = master_consistent(media, variants, [])
            out.append(mk("m", n, "master", hx(text), exp=exp, kind="accept"))
            out.append(mk("l", n, "assoc", hx(text), exp=exp, kind="lookup", d19=False))
            n += 1
        # exhaustive: every sequence of up to 4 (thorough: 5) session-data tags over 2 ids x {no language, en, de}, in source order
        pairs = [(d, l) for d in ("a", "b") for l in (None, "en", "de")]
        for L in range(1, count_tier(tier, 4, 5) + 1):
            for seq in itertools.product(pairs, repeat=L):
                out.append(mk("m", n, "master", hx(master_text([], [], list(seq), None)), exp=len(set(seq)) == len(seq), kind="accept"))
                n += 1
        # sizes: N renditions (one per group id) and one variant referencing the last / a missing one; N variants; N session data
        for N in list(range(0, 70)) + [127, 128, 129, 255, 256, 257]:
            for ty in types:
                media = [(ty, "g%d" % j) for j in range(N)]
                key = {"AUDIO": "audio", "VIDEO": "video", "SUBTITLES": "subs", "CLOSED-CAPTIONS": "cc"}[ty]
                for ref in (["g%d" % (N - 1), "g0", "missing"] if N else ["missing"]):
                    v = {"kind": "s", "audio": None, "video": None, "subs": None, "cc": None}
                    v[key] = ref
                    out.append(mk("m", n, "master", hx(master_text(media, [v], [], None)), exp=master_consistent(media, [v], []), kind="accept"))
                    n += 1
            media = [("AUDIO", "g0")]
            variants = [{"kind": "s", "audio": "g0", "video": None, "subs": None, "cc": None} for _ in range(N)]
            out.append(mk("m", n, "master", hx(master_text(media, variants, [], None)), exp=True, kind="accept")); n += 1
            sdata = [("id%d" % j, None) for j in range(N)]
            out.append(mk("m", n, "master", hx(master_text([], [], sdata, None)), exp=True, kind="accept")); n += 1
            if N:
                out.append(mk("m", n, "master", hx(master_text([], [], sdata + [("id%d" % (N - 1), None)], None)), exp=False, kind="accept")); n += 1
        # the same rule decides builder success: configurations as MasterPlaylistBuilder call sequences; a setter that is never
        # called leaves that list empty
        def bscript(media, variants, sdata, skip_media, skip_variants, skip_sdata):
            lines = master_text(media, variants, sdata, None).split("\n")[1:-1]
            sc, vs = [], False
            for l in lines:
                if l.startswith("#EXT-X-MEDIA:"):
                    sc.append("media " + l)
                elif l.startswith("#EXT-X-STREAM-INF:"):
                    sc.append("streaminf " + l)
                elif l.startswith("#EXT-X-I-FRAME-STREAM-INF:"):
                    sc.append("variant " + l)
                elif l.startswith("#EXT-X-SESSION-DATA:"):
                    sc.append("sdata " + l)
                else:
                    sc.append("vuri " + l)
            sets = ([] if (skip_media and not media) else ["set media"]) + ([] if (skip_variants and not variants) else ["set variants"]) \
                + ([] if (skip_sdata and not sdata) else ["set sdata"])
            g.r.shuffle(sets)
            return "\n".join(sc + sets + ["build"])
        for k in range(count_tier(tier, 1500, 20000)):
            media = [m for m in allm if g.chance(0.4)] if g.chance(0.7) else []
            variants = []
            if g.chance(0.7):
                for _ in range(g.pick([1, 1, 2, 3])):
                    variants.append({"kind": "s", "audio": g.pick([None, "g1", "g2"]), "video": g.pick([None, None, "g1"]),
                                     "subs": g.pick([None, "g1"]), "cc": g.pick([None, "g1", "NONE"])})
            sdata = [(g.pick(["a", "b", "a-en"]), g.pick([None, "en", "de"])) for _ in range(g.pick([0, 0, 1, 2, 3, 4]))]
            exp = master_consistent(media, variants, sdata)
            out.append(mk("m", n, "bmaster", hx(bscript(media, variants, sdata, g.chance(0.6), g.chance(0.6), g.chance(0.6))), exp=exp, kind="accept", model=False))
            n += 1
        # exhaustive: CLOSED-CAPTIONS of up to 4 variants over {absent, g1, NONE} with the group g1 defined
        for L in range(1, 5):
            for seq in itertools.product([None, "g1", "NONE"], repeat=L):
                variants = [{"kind": "s", "audio": None, "video": None, "subs": None, "cc": c} for c in seq]
                media = [("CLOSED-CAPTIONS", "g1")]
                out.append(mk("m", n, "master", hx(master_text(media, variants, [], None)), exp=master_consistent(media, variants, []), kind="accept"))
                n += 1
        return out

    def judge(self, run, c, m, i):
        if c["meta"]["kind"] == "accept":
            agree = (res_kind(m) == res_kind(i)) if m is not None else None
            want = "ok" if c["meta"]["exp"] else "err"
            ok = res_kind(i) == want
            return {"agree": agree, "ok": ok, "nontrivial": True, "detail": "" if ok else "consistent=%s but parser says %s" % (c["meta"]["exp"], res_kind(i)),
                    "stats": {"accepted" if want == "ok" else "rejected": 1}}
        agree = (m == i) if m is not None else None
        if not (i or "").startswith("ok "):
            return {"agree": agree, "ok": None, "nontrivial": False}
        # independent expectation of the lookup from the parsed master dump
        pm = mres(run.impl.get("m" + c["id"][1:]))
        if pm is None:
            return {"agree": agree, "ok": None, "nontrivial": False}
        md = first_dump(pm)
        media = [(unparse(field(x, "type")[1]), decode_s(field(x, "group")[1])) for x in field(md, "media")[1:]]
        exp = []
        audio, video = [], []
        for vi, v in enumerate(field(md, "variants")[1:]):
            sd = field(v, "sd")
            vid = decode_s(field(sd, "video")[1]) if field(sd, "video")[1] != "none" else None
            refs = set()
            if vid is not None:
                refs.add(("video", vid))
                video.append(vi)
            if v[0] == "streaminf":
                for fld, ty in (("audio", "audio"), ("subs", "subtitles")):
                    val = field(v, fld)[1]
                    if val != "none":
                        refs.add((ty, decode_s(val)))
                        if fld == "audio":
                            audio.append(vi)
                cc = field(v, "cc")[1]
                if isinstance(cc, list):
                    refs.add(("cc", decode_s(cc[1])))
            exp.append(["v"] + [str(k) for k, mm in enumerate(media) if mm in refs])
        t = parse_sexp(i)[1]
        got_v = [x for x in t[1:] if x[0] == "v"]
        ok = got_v == exp and field(t, "audio")[1:] == [str(x) for x in audio] and field(t, "video")[1:] == [str(x) for x in video] \
            and field(t, "isassoc")[1] == "1"
        return {"agree": agree, "ok": ok, "known": "D19" if (not ok and c["meta"]["d19"]) else None, "nontrivial": len(media) > 0,
                "detail": "" if ok else "lookup expected %s got %s" % (exp, got_v), "stats": {"lookup": 1}}


# ------------------------------------------------------------------ C14
# IV attribute: "0x" / "0X" followed by exactly 32 hexadecimal digits (RFC 8216 4.2 hexadecimal-sequence, 128 bit)
IV_POOL = [("0x" + "0" * 32, True), ("0X" + "f" * 32, True), ("0x" + "AbCdEf01" * 4, True), ("0x" + "0" * 31 + "1", True),
           ("0x+" + "0" * 31, False), ("0x-" + "0" * 31, False), ("0x " + "0" * 31, False), ("0x" + "0" * 31 + " ", False), ("0x" + "0" * 33, False),
           ("0x" + "0" * 31, False), ("0x" + "0" * 30 + "0x", False), ("0x" + "_" + "0" * 31, False), ("0x" + "0" * 16 + "+" + "0" * 15, False),
           ("+0x" + "0" * 32, False), ("0" * 34, False), ("x0" + "0" * 32, False), ("0x" + "g" + "0" * 31, False), ("0x" + "\u0660" * 32, False),
           ("0x", False), ("", False), ("0x" + "0" * 64, False), ("0x" + "f" * 30 + "+f", False), ("0X+" + "f" * 31, False)]


def attr_line(prefix, attrs):
    return prefix + ",".join("%s=%s" % kv for kv in attrs)


@register
class C14(Prop):
    pid = "C14"
    rule = ("per tag, every presence subset of its attributes (exhaustive where <= 2^12, each enumerated attribute drawn from its value set plus one invalid "
            "value, all other attributes valid): EXT-X-MEDIA, EXT-X-DATERANGE, EXT-X-SESSION-DATA, EXT-X-KEY / SESSION-KEY, STREAM-INF / I-FRAME-STREAM-INF, "
            "EXT-X-START through the tag parsers, and the corresponding builders; oracle: accepted iff the property's rule (independent python predicate); "
            "correspondence with the model's tag parsers; builder deviations of the known class D13 are reported as known findings")

    def _media(self, g, n, out, exhaustive_mask=None):
        names = ["TYPE", "URI", "GROUP-ID", "LANGUAGE", "ASSOC-LANGUAGE", "NAME", "DEFAULT", "AUTOSELECT", "FORCED", "INSTREAM-ID", "CHARACTERISTICS", "CHANNELS"]
        mask = exhaustive_mask if exhaustive_mask is not None else g.r.randrange(1 << 12)
        present = [nm for k, nm in enumerate(names) if mask >> k & 1]
        vals = {}
        ty = g.pick(["AUDIO", "VIDEO", "SUBTITLES", "CLOSED-CAPTIONS", "BOGUS"] if g.chance(0.15) else ["AUDIO", "VIDEO", "SUBTITLES", "CLOSED-CAPTIONS"])
        for nm in present:
            if nm == "TYPE":
                vals[nm] = ty
            elif nm in ("DEFAULT", "AUTOSELECT", "FORCED"):
                vals[nm] = g.pick(["YES", "NO", "NO", "YES", "MAYBE"] if g.chance(0.1) else ["YES", "NO"])
            elif nm == "INSTREAM-ID":
                vals[nm] = g.pick(['"CC1"', '"SERVICE63"', '"SERVICE64"'] if g.chance(0.2) else ['"CC2"', '"SERVICE9"'])
            elif nm == "CHANNELS":
                vals[nm] = g.pick(['"2"', '"16/JOC"', '"x"'] if g.chance(0.15) else ['"2"', '"6/JOC"'])
            else:
                vals[nm] = '"v"'
        attrs = [(nm, vals[nm]) for nm in present]
        g.r.shuffle(attrs)
        for j, (nm, v) in enumerate(list(attrs)):
            if nm in ("TYPE", "DEFAULT", "AUTOSELECT", "FORCED") and g.chance(0.08):
                attrs[j] = (nm, g.pick(['"%s"' % v, v + '"', '"' + v]))
                vals[nm] = "BOGUS" if nm == "TYPE" else "MAYBE"
        line = attr_line("#EXT-X-MEDIA:", attrs)
        valid_vals = vals.get("TYPE", "AUDIO") != "BOGUS" and all(vals.get(k, "YES") in ("YES", "NO") for k in ("DEFAULT", "AUTOSELECT", "FORCED")) \
            and vals.get("INSTREAM-ID", '"CC1"') != '"SERVICE64"' and vals.get("CHANNELS", '"2"') != '"x"'
        t = vals.get("TYPE")
        ok = valid_vals and all(k in vals for k in ("TYPE", "GROUP-ID", "NAME"))
        if ok:
            if t == "SUBTITLES" and "URI" not in vals:
                ok = False
            if t == "CLOSED-CAPTIONS" and ("URI" in vals or "INSTREAM-ID" not in vals):
                ok = False
            if t != "CLOSED-CAPTIONS" and "INSTREAM-ID" in vals:
                ok = False
            if vals.get("FORCED") == "YES" and t != "SUBTITLES":
                ok = False
            if vals.get("DEFAULT") == "YES" and vals.get("AUTOSELECT") == "NO":
                ok = False
        out.append(mk("t", n, "tag", "ExtXMedia", hx(line), exp=ok, tag="media", path="text"))
        # the same through the builder (values without quotes)
        if valid_vals:
            cmd = {"TYPE": "type", "URI": "uri", "GROUP-ID": "group", "LANGUAGE": "lang", "ASSOC-LANGUAGE": "assoc", "NAME": "name", "DEFAULT": "default",
                   "AUTOSELECT": "autoselect", "FORCED": "forced", "INSTREAM-ID": "instream", "CHARACTERISTICS": "chars", "CHANNELS": "channels"}
            script = []
            for nm, v in attrs:
                v = v.strip('"')
                if nm in ("DEFAULT", "AUTOSELECT", "FORCED"):
                    v = "1" if v == "YES" else "0"
                script.append("%s %s" % (cmd[nm], v))
            out.append(mk("b", n, "btag", "ExtXMedia", hx("\n".join(script)), exp=ok, tag="media", path="builder", model=False))

    def cases(self, tier, seed):
        g = gen.G(seed * 1000003 + 14)
        out = []
        n = 0
        if tier == "thorough":
            for mask in range(1 << 12):
                for _ in range(3):
                    self._media(g, n, out, mask); n += 1
        else:
            for mask in range(0, 1 << 12, 3):
                self._media(g, n, out, mask); n += 1
        # DATERANGE
        names = ["ID", "CLASS", "START-DATE", "END-DATE", "DURATION", "PLANNED-DURATION", "SCTE35-CMD", "END-ON-NEXT", "X-CLIENT"]
        reps = count_tier(tier, 2, 10)
        for mask in range(1 << len(names)):
            for _ in range(reps):
                present = [nm for k, nm in enumerate(names) if mask >> k & 1]
                vals = {}
                for nm in present:
                    if nm in ("DURATION", "PLANNED-DURATION"):
                        vals[nm] = g.pick(["1.5", "0", "-1", "-0.000000001"] if g.chance(0.25) else ["1.5", "60"])
                    elif nm == "END-ON-NEXT":
                        vals[nm] = g.pick(["YES", "NO"] if g.chance(0.3) else ["YES"])
                    elif nm == "SCTE35-CMD":
                        vals[nm] = "0xFC00"
                    elif nm == "X-CLIENT":
                        vals[nm] = '"c"'
                    else:
                        vals[nm] = '"v"'
                attrs = []
                for nm in present:
                    key = nm
                    if nm == "X-CLIENT":
                        key = g.pick(["X-CLIENT", "X-CLIENT", "X-client", "X-CLI_ENT", "X-CLIENT", "X-CLI\u0663NT", "X-A\u00b2", "X-\uff11", "X-CLI\u00c9NT", "X-CLI ENT", "X-\u2167"])
                    attrs.append((key, vals[nm]))
                g.r.shuffle(attrs)
                neg = any(vals.get(k, "1").startswith("-") for k in ("DURATION", "PLANNED-DURATION"))
                badname = any(k.startswith("X-") and k != "X-CLIENT" for k, _ in attrs)
                eon = vals.get("END-ON-NEXT")
                ok = "ID" in vals and not neg and not badname and eon in (None, "YES")
                if ok and eon == "YES" and ("CLASS" not in vals or "DURATION" in vals or "END-DATE" in vals):
                    ok = False
                out.append(mk("t", n, "tag", "ExtXDateRange", hx(attr_line("#EXT-X-DATERANGE:", attrs)), exp=ok, tag="daterange", path="text"))
                n += 1
                if not neg and not badname and eon in (None, "YES"):
                    cmd = {"ID": "id", "CLASS": "class", "START-DATE": "start", "END-DATE": "end", "SCTE35-CMD": "cmd"}
                    script = []
                    for k, v in attrs:
                        if k in cmd:
                            script.append("%s %s" % (cmd[k], v.strip('"')))
                        elif k == "DURATION":
                            script.append("dur %d" % gen.dur_ns(v))
                        elif k == "PLANNED-DURATION":
                            script.append("planned %d" % gen.dur_ns(v))
                        elif k == "END-ON-NEXT":
                            script.append("eon 1")
                        elif k == "X-CLIENT":
                            script.append("client X-CLIENT s c")
                    out.append(mk("b", n, "btag", "ExtXDateRange", hx("\n".join(script)), exp=ok, tag="daterange", path="builder", model=False,
                                  d13=(eon == "YES")))
                    n += 1
        # SESSION-DATA, KEY, STREAM-INF, I-FRAME, START: all subsets
        def subsets(prefix, ty, names, rule, tagname, valgen, count=1):
            nonlocal n
            for mask in range(1 << len(names)):
                for _ in range(count):
                    present = [nm for k, nm in enumerate(names) if mask >> k & 1]
                    vals = {nm: valgen(nm) for nm in present}
                    attrs = [(nm, vals[nm][0]) for nm in present]
                    g.r.shuffle(attrs)
                    valid = all(vals[nm][1] for nm in present)
                    out.append(mk("t", n, "tag", ty, hx(attr_line(prefix, attrs)), exp=valid and rule(vals), tag=tagname, path="text"))
                    n += 1
        subsets("#EXT-X-SESSION-DATA:", "ExtXSessionData", ["DATA-ID", "VALUE", "URI", "LANGUAGE"],
                lambda v: "DATA-ID" in v and (("VALUE" in v) != ("URI" in v)), "sessiondata",
                lambda nm: (g.pick(['"x"', '"x"', '""', '" "']), True), count_tier(tier, 4, 12))      # an attribute with an empty value is still present

        def keyval(nm):
            if nm == "METHOD":
                return g.pick([("AES-128", True), ("SAMPLE-AES", True), ("AES-256", False)])
            if nm == "URI":
                return g.pick([('"k"', True), ('"k"', True), ('""', "empty"), ('" "', "empty")])
            if nm == "IV":
                return g.pick([("0x" + "ab" * 16, True), ("0X" + "AB" * 16, True), ("0x" + "ab" * 15, False), ("ab" * 16, False), ("0x" + "zz" * 16, False)]
                              + ([g.pick(IV_POOL)] if g.chance(0.5) else []))
            if nm == "KEYFORMAT":
                return ('"identity"', True)
            if nm == "KEYFORMATVERSIONS":
                return g.pick([('"1/2/3"', True), ('"1/2/3/4/5/6/7/8/9"', True), ('"1/2/3/4/5/6/7/8/9/10"', False), ('"1/256"', False), ('"a"', False)])
            return ('"x"', True)

        def keyrule(v):
            return "METHOD" in v and "URI" in v and v["URI"][1] is True
        for ty, prefix in (("ExtXKey", "#EXT-X-KEY:"), ("ExtXSessionKey", "#EXT-X-SESSION-KEY:")):
            for mask in range(1 << 5):
                for _ in range(count_tier(tier, 6, 40)):
                    names5 = ["METHOD", "URI", "IV", "KEYFORMAT", "KEYFORMATVERSIONS"]
                    present = [nm for k, nm in enumerate(names5) if mask >> k & 1]
                    vals = {nm: keyval(nm) for nm in present}
                    attrs = [(nm, vals[nm][0]) for nm in present]
                    g.r.shuffle(attrs)
                    valid = all(vals[nm][1] is not False for nm in present)
                    out.append(mk("t", n, "tag", ty, hx(attr_line(prefix, attrs)), exp=bool(valid and keyrule(vals)), tag="key", path="text"))
                    n += 1
        out.append(mk("t", n, "tag", "ExtXKey", hx("#EXT-X-KEY:METHOD=NONE"), exp=True, tag="key", path="text")); n += 1
        out.append(mk("t", n, "tag", "ExtXSessionKey", hx("#EXT-X-SESSION-KEY:METHOD=NONE"), exp=False, tag="key", path="text")); n += 1
        for ivt, ivok in IV_POOL:
            out.append(mk("t", n, "tag", "InitializationVector", hx(ivt), exp=ivok, tag="iv", path="text")); n += 1
            out.append(mk("t", n, "tag", "ExtXKey", hx('#EXT-X-KEY:METHOD=AES-128,URI="k",IV=' + ivt), exp=ivok, tag="key", path="text")); n += 1
        # enumerated values: every value of the RFC's set is accepted, near misses are rejected
        for ty, good, bad in (("EncryptionMethod", ["AES-128", "SAMPLE-AES"], ["aes-128", "AES-256", "AES128", "NONE ", "", "SAMPLE-AES-CTR", " AES-128"]),
                              ("MediaType", gen.MTYPES, ["audio", "CLOSED_CAPTIONS", "CLOSEDCAPTIONS", "", "TEXT", "AUDIO "]),
                              ("HdcpLevel", ["TYPE-0", "NONE"], ["TYPE-1", "type-0", "TYPE0", "", "NONE,"]),
                              ("InStreamId", gen.INSTREAM, ["CC0", "CC5", "SERVICE0", "SERVICE64", "cc1", "SERVICE", "CC", "SERVICE01", "CC1 "]),
                              ("PlaylistType", ["#EXT-X-PLAYLIST-TYPE:EVENT", "#EXT-X-PLAYLIST-TYPE:VOD"], ["#EXT-X-PLAYLIST-TYPE:LIVE", "#EXT-X-PLAYLIST-TYPE:vod", "#EXT-X-PLAYLIST-TYPE:", "#EXT-X-PLAYLIST-TYPE:VOD,EVENT"]),
                              ("KeyFormatVersions", ['"1"', '"1/2/3/4/5/6/7/8/9"', '"255"', '"0"'], ['"1/2/3/4/5/6/7/8/9/10"', '"256"', '"-1"', '"1//2"', '"/"', '"a"', '"1/"'])):
            for t_ in good:
                out.append(mk("t", n, "tag", ty, hx(t_), exp=True, tag="enum", path="text")); n += 1
            for t_ in bad:
                out.append(mk("t", n, "tag", ty, hx(t_), exp=False, tag="enum", path="text")); n += 1
        out.append(mk("b", n, "btag", "DecryptionKey", hx("method AES-128\nuri "), exp=False, tag="key", path="builder", model=False, d13=True)); n += 1
        out.append(mk("b", n, "btag", "DecryptionKey", hx("method AES-128"), exp=False, tag="key", path="builder", model=False)); n += 1
        out.append(mk("b", n, "btag", "DecryptionKey", hx("uri k"), exp=False, tag="key", path="builder", model=False)); n += 1
        out.append(mk("b", n, "btag", "DecryptionKey", hx("method SAMPLE-AES\nuri k\nversions 1/2"), exp=True, tag="key", path="builder", model=False)); n += 1

        def sival(nm):
            if nm in ("BANDWIDTH", "AVERAGE-BANDWIDTH"):
                return g.pick([("1000", True), ("18446744073709551615", True), ("18446744073709551616", False), ("-1", False), ("1.5", False)])
            if nm == "RESOLUTION":
                return g.pick([("1x1", True), ("1920x1080", True), ("1920", False), ("ax1", False)])
            if nm == "HDCP-LEVEL":
                return g.pick([("TYPE-0", True), ("NONE", True), ("TYPE-1", False)])
            if nm == "FRAME-RATE":
                return g.pick([("25", True), ("29.97", True), ("-1", False), ("nan", False), ("inf", False)])
            if nm == "CLOSED-CAPTIONS":
                return g.pick([("NONE", True), ('"cc"', True)])
            return ('"x"', True)
        names_si = ["BANDWIDTH", "AVERAGE-BANDWIDTH", "CODECS", "RESOLUTION", "FRAME-RATE", "HDCP-LEVEL", "AUDIO", "VIDEO", "SUBTITLES", "CLOSED-CAPTIONS"]
        for mask in range(0, 1 << len(names_si), count_tier(tier, 3, 1)):
            present = [nm for k, nm in enumerate(names_si) if mask >> k & 1]
            vals = {nm: sival(nm) for nm in present}
            attrs = [(nm, vals[nm][0]) for nm in present]
            g.r.shuffle(attrs)
            valid = all(vals[nm][1] for nm in present)
            line = attr_line("#EXT-X-STREAM-INF:", attrs) + "\nuri.m3u8"
            out.append(mk("t", n, "tag", "VariantStream", hx(line), exp=valid and "BANDWIDTH" in vals, tag="streaminf", path="text")); n += 1
        names_if = ["BANDWIDTH", "URI", "CODECS", "RESOLUTION", "HDCP-LEVEL", "VIDEO"]
        for mask in range(1 << len(names_if)):
            for _ in range(count_tier(tier, 2, 8)):
                present = [nm for k, nm in enumerate(names_if) if mask >> k & 1]
                vals = {nm: sival(nm) for nm in present}
                attrs = [(nm, vals[nm][0]) for nm in present]
                g.r.shuffle(attrs)
                valid = all(vals[nm][1] for nm in present)
                out.append(mk("t", n, "tag", "VariantStream", hx(attr_line("#EXT-X-I-FRAME-STREAM-INF:", attrs)), exp=valid and "BANDWIDTH" in vals and "URI" in vals, tag="iframe", path="text")); n += 1
        for toff in (None, "1.5", "-2", "nan", "x", "inf"):
            for prec in (None, "YES", "NO", "MAYBE", "yes"):
                attrs = ([("TIME-OFFSET", toff)] if toff is not None else []) + ([("PRECISE", prec)] if prec is not None else [])
                if g.chance(0.5):
                    attrs.reverse()
                ok = toff in ("1.5", "-2") and prec in (None, "YES", "NO")
                out.append(mk("t", n, "tag", "ExtXStart", hx(attr_line("#EXT-X-START:", attrs)), exp=ok, tag="start", path="text")); n += 1
        return out

    def judge(self, run, c, m, i):
        agree = (res_kind(m) == res_kind(i)) if m is not None else None
        want = "ok" if c["meta"]["exp"] else "err"
        ok = res_kind(i) == want
        known = "D13" if (not ok and c["meta"].get("d13") and c["meta"]["path"] == "builder") else None
        return {"agree": agree, "ok": ok, "known": known, "nontrivial": True,
                "detail": "" if ok else "%s (%s path): rule says %s, got %s" % (c["meta"]["tag"], c["meta"]["path"], want, res_kind(i)),
                "stats": {c["meta"]["tag"] + ":" + c["meta"]["path"]: 1}}


# ------------------------------------------------------------------ C18
@register
class C18(Prop):
    pid = "C18"
    rule = ("per public type a pool of boundary and random values written in text form: parsed, printed, re-parsed by the implementation (op tag) and by the "
            "model; oracle: re-parse equals the first parse for every accepted value; float types accept exactly finite (UFloat: non-negative-sign) numbers over "
            "a pool of special texts; every enum variant; all 67 in-stream ids; integers up to the type limits; durations below 10^6 s with ns precision")

    def cases(self, tier, seed):
        g = gen.G(seed * 1000003 + 18)
        out = []
        n = 0

        def add(ty, text, **meta):
            nonlocal n
            # every text below (except the float pool, which carries its own `accept`) is the text form of a valid value,
            # built by the generator: its own parser has to accept it
            if "accept" not in meta:
                meta["valid"] = True
            out.append(mk("t", n, "tag", ty, hx(text), ty=ty, **meta))
            n += 1
        ints = [0, 1, 9, 10, 255, 256, 2 ** 32, 2 ** 63, 2 ** 64 - 1]
        P, S_, O_ = gen.P, gen.S, gen.O
        for a in ints + [g.u64() for _ in range(count_tier(tier, 30, 400))]:
            add("ByteRange", "%d" % a, exp="(r none %d)" % a)
            for b in ints[:6] + [g.small(10 ** 9)]:
                if a + b < 2 ** 64:
                    add("ByteRange", "%d@%d" % (a, b), exp="(r %d %d)" % (b, a + b))
                    add("ExtXByteRange", "#EXT-X-BYTERANGE:%d@%d" % (a, b), exp="(r %d %d)" % (b, a + b))
            add("ExtXByteRange", "#EXT-X-BYTERANGE:%d" % a, exp="(r none %d)" % a)
            add("Channels", "%d" % a, exp="(ch %d 0)" % a)
            add("Channels", "%d/JOC" % a, exp="(ch %d 1)" % a)
            h = g.pick(ints)
            add("Resolution", "%dx%d" % (a, h), exp="(x %d %d)" % (a, h))
            avg = g.pick(ints)
            add("StreamData", "BANDWIDTH=%d,AVERAGE-BANDWIDTH=%d" % (a, avg), exp="(sd (bw %d) (avg %d) (codecs none) (res none) (hdcp none) (video none))" % (a, avg))
        for v in range(1, 8):
            add("ProtocolVersion", str(v), exp="(pv %d)" % v)
            add("ExtXVersion", "#EXT-X-VERSION:%d" % v, exp="(pv %d)" % v)
        for s in ["EVENT", "VOD"]:
            add("PlaylistType", "#EXT-X-PLAYLIST-TYPE:" + s, exp=s.lower())
        for s in gen.MTYPES:
            add("MediaType", s, exp=gen.MT_ATOM[s])
        for s in ["TYPE-0", "NONE"]:
            add("HdcpLevel", s, exp="type0" if s == "TYPE-0" else "hnone")
        for s in ["AES-128", "SAMPLE-AES"]:
            add("EncryptionMethod", s, exp="aes128" if s == "AES-128" else "sampleaes")
        for s in gen.INSTREAM:
            add("InStreamId", s, exp=s)
        for s in ["NONE", '"cc1"', '"grp, x=1"', '"\u00e9"', '"NONE"']:
            add("ClosedCaptions", s, exp="ccnone" if s == "NONE" else P("ccgroup", S_(s[1:-1])))
        for k in range(count_tier(tier, 60, 600)):
            iv = g.iv()
            add("InitializationVector", "0x" + iv.hex(), exp="(aes %d)" % int.from_bytes(iv, "big"))
            iv = g.iv()
            add("InitializationVector", "0X" + iv.hex().upper(), exp="(aes %d)" % int.from_bytes(iv, "big"))
            cod = [g.pick(["avc1.4d401e", "mp4a.40.2", "ec-3", "x y", "\u00e9"]) for _ in range(g.r.randint(1, 4))]
            add("Codecs", ",".join(cod), exp=P("c", *[S_(x) for x in cod]))
            vers = [g.pick([1, 2, 3, 9, 255, 0]) for _ in range(g.r.randint(1, 9))]
            if g.chance(0.15):
                vers = [0] * g.r.randint(1, 9)
            add("KeyFormatVersions", '"%s"' % "/".join(str(v) for v in vers), exp=P("v", *[str(v) for v in vers]))
            kf = g.pick(["identity", "com.apple.streamingkeydelivery", "com.microsoft.playready", "urn:uuid:edef8ba9-79d6-4ace-a3c8-27dcd51d21ed", "com.example", "\u00e9,="])
            add("KeyFormat", '"%s"' % kf, exp=gen.KF_ATOM.get(kf) or P("other", S_(kf)))
            kind = g.r.randrange(3)
            if kind == 0:
                qs = g.qstring()
                add("Value", '"%s"' % qs, exp=P("vs", S_(qs)))
            elif kind == 1:
                hb = g.hexbytes(g.r.randint(0, 6))
                add("Value", "0x" + hb.hex().upper(), exp=P("vh", *[str(b) for b in hb]))
            else:
                ft = g.f32_text()
                add("Value", ft, exp=P("vf", str(gen.f32_bits(ft))))
            dt, title = g.duration_text(10 ** 6), g.pick(["", "title", "a,b"])
            add("ExtInf", "#EXTINF:%s,%s" % (dt, title), exp="(inf %d %s)" % (gen.dur_ns(dt), S_(title) if title else "none"))
            kk = gen.gen_key(g)
            add("ExtXKey", gen.key_line(kk), exp=gen.spec_key(kk))
            kk = gen.gen_key(g)
            add("ExtXSessionKey", gen.key_line(kk).replace("#EXT-X-KEY:", "#EXT-X-SESSION-KEY:"), exp=gen.spec_key(kk))
            dr = gen.gen_daterange(g)
            add("ExtXDateRange", gen.daterange_line(dr, None), exp=gen.spec_daterange(dr))
            xm = gen.gen_xmedia(g)
            add("ExtXMedia", gen.xmedia_line(xm, None), exp=gen.spec_xmedia(xm))
            mm = gen.gen_master(g)
            mspec = parse_sexp(gen.spec_master(mm))[0]
            for v, vs in zip(mm["variants"], field(mspec, "variants")[1:]):
                add("VariantStream", "\n".join(gen.variant_lines(v, None)), exp=unparse(vs))
            for d, ds in zip(mm["sdata"], field(mspec, "sdata")[1:]):
                add("ExtXSessionData", gen.sdata_line(d, None), exp=unparse(ds))
            st, pr = g.f32_text(), g.chance(0.5)
            add("ExtXStart", "#EXT-X-START:TIME-OFFSET=%s%s" % (st, ",PRECISE=YES" if pr else ""), exp="(start %d %d)" % (gen.f32_bits(st), 1 if pr else 0))
            mp = {"uri": g.uri(), "range": (g.small(10 ** 6), g.pick([g.small(10 ** 6), 0, None])) if g.chance(0.6) else None}
            mr = "none" if mp["range"] is None else ("(r none %d)" % mp["range"][0] if mp["range"][1] is None else "(r %d %d)" % (mp["range"][1], mp["range"][1] + mp["range"][0]))
            add("ExtXMap", gen.map_line(mp, None), exp="(map (uri %s) (range %s) (keys) (dlen 0) (dfirst none))" % (S_(mp["uri"]), mr))
        add("ExtXKey", "#EXT-X-KEY:METHOD=NONE")
        # values built through the public constructors, written and parsed back (strings a quoted-string can carry)
        clean = [w for w in gen.WORDS if "," not in w] + [g.qstring().replace(",", ";") for _ in range(count_tier(tier, 10, 100))]
        clean = [w.strip() or "w" for w in clean]
        for c in api_cases(g, clean, "a", 0, count_tier(tier, 30, 500)):
            if c["meta"]["kind"] in ("iv_number", "iv_missing", "key_iv_number", "value_from_string", "key_format_other"):
                continue          # not text forms of their own: a derived / missing IV is never written (C07)
            if c["meta"]["kind"] == "daterange" and unhex(c["args"][1]) != "id":
                continue
            c["id"] = "a%d" % n
            c["meta"].update(ty="api:" + c["meta"]["kind"], api=True)
            out.append(c)
            n += 1
        # float types: accept exactly the finite numbers
        specials = ["0", "-0", "+0", "1", "-1", "1.5", "3.4028235e38", "3.4028236e38", "-3.4028235e38", "1e39", "-1e39", "1e-46", "1.4e-45", "1e-50", "inf", "-inf",
                    "+inf", "infinity", "nan", "NaN", "-nan", "", ".", "e5", "1e", "1_0", "0x10", " 1", "1 ", ".5", "5.", "1e5", "1E5", "16777217", "0.1", "123456.789",
                    "340282350000000000000000000000000000000", "340282360000000000000000000000000000000", "-0.0"]
        finite = lambda t: t in ("0", "-0", "+0", "1", "-1", "1.5", "3.4028235e38", "-3.4028235e38", "1e-46", "1.4e-45", "1e-50", ".5", "5.", "1e5", "1E5", "16777217",
                                 "0.1", "123456.789", "340282350000000000000000000000000000000", "-0.0")
        for t in specials:
            add("Float", t, accept=finite(t))
            add("UFloat", t, accept=finite(t) and not t.startswith("-"))
        for k in range(count_tier(tier, 300, 6000)):
            t = g.f32_midpoint_text(signed=False)
            bits = gen.f32_bits(t)
            add("UFloat", t, accept=True, exp="(uf %d)" % bits)
            add("Float", "-" + t, accept=True, exp="(f %d)" % (bits + 0x80000000))
        for k in range(count_tier(tier, 400, 20000)):
            bits = g.r.randrange(0, 0x7F800000)
            import struct
            x = struct.unpack(">f", struct.pack(">I", bits))[0]
            t = repr(x) if g.chance(0.5) else "%.9g" % x
            if "e" in t and g.chance(0.5):
                from decimal import Decimal
                t = format(Decimal(t), "f")
            add("UFloat", t, accept=True)
            add("Float", "-" + t, accept=True)
        return out

    def post(self, run):
        """thorough: the decidable hypotheses under which the tag theorems hold, evaluated in Coq on a sweep of values:
        dur_rt for durations below 10^6 s with ns precision, float_rt for signed decimals, ufloat_rt for decimals with at most
        three fractional digits.  Failures are reported (they would make the theorems inapplicable to those values)."""
        if run.tier != "thorough":
            return
        g = gen.G(run.seed * 1000003 + 1818)
        durs = [0, 1, 999999999, 10 ** 9, 10 ** 15 - 1] + [g.r.randrange(0, 10 ** 15) for _ in range(1500)] \
            + [gen.dur_ns(g.duration_text(10 ** 6)) for _ in range(1500)]
        floats = [g.f32_text() for _ in range(300)] + ["%s%d.%0*d" % (g.pick(["", "-"]), g.r.randrange(0, 10 ** 5), nd, g.r.randrange(0, 10 ** nd))
                                                         for nd in (1, 2, 3) for _ in range(300)]
        ufloats = ["%d.%0*d" % (g.r.randrange(0, 1000), nd, g.r.randrange(0, 10 ** nd)) for nd in (1, 2, 3) for _ in range(500)] + ["0", "25", "60", "120"]
        body = ("Eval vm_compute in (filter (fun n => negb (dur_rt n)) [%s]).\n" % "; ".join(str(d) for d in durs)
                + "Eval vm_compute in (map (fun s => match parse_float s with Ok x => float_rt x | _ => false end) [%s]).\n" % "; ".join(vlib.coq_str_of(t) for t in floats)
                + "Eval vm_compute in (map (fun s => match parse_ufloat s with Ok x => ufloat_rt x | _ => false end) [%s])." % "; ".join(vlib.coq_str_of(t) for t in ufloats))
        out = vlib.coq_eval("hyp_c18_%d" % os.getpid(), HYP_IMPORTS, body)
        lists = hyp_counts(out)
        bad_d = [x for x in lists[0] if x]
        bad_f = [t for t, v in zip(floats, lists[1]) if v != "true"]
        bad_u = [t for t, v in zip(ufloats, lists[2]) if v != "true"]
        run.stats["hypothesis_coverage"] = {"dur_rt": {"sampled": len(durs), "failed": bad_d[:20]},
                                            "float_rt": {"sampled": len(floats), "failed": bad_f[:20]},
                                            "ufloat_rt": {"sampled": len(ufloats), "failed": bad_u[:20]}}

    def judge(self, run, c, m, i):
        agree = (m == i) if m is not None else None
        if c["meta"].get("api"):
            f = api_fields(i)
            if f is None:
                return {"agree": None, "ok": None if res_kind(i) == "badinput" else False, "nontrivial": False, "detail": "api op: " + res_kind(i), "stats": {"api_" + res_kind(i): 1}}
            ok = f["re"][1] == "ok" and unparse(f["re"][2]) == f["dx"] and f["reeq"] in ("1", None)
            return {"agree": None, "ok": ok, "nontrivial": True, "stats": {c["meta"]["ty"]: 1},
                    "known": "D24" if (not ok and c["meta"]["kind"] == "kfv" and f["dx"] == "(v)") else None,
                    "detail": "" if ok else "value built by the public constructor %s: parsing its own text gives %s (== original: %s), not %s" % (c["meta"]["kind"], unparse(f["re"])[:300], f["reeq"], f["dx"][:300])}
        acc = c["meta"].get("accept")
        if acc is not None:
            ok = (res_kind(i) == "ok") == acc
            if not ok:
                return {"agree": agree, "ok": False, "nontrivial": True, "detail": "float text accepted=%s, expected %s" % (res_kind(i), acc), "stats": {"float_accept": 1}}
        if not (i or "").startswith("ok "):
            if c["meta"].get("valid"):
                return {"agree": agree, "ok": False, "nontrivial": True, "stats": {c["meta"]["ty"] + ":rejected": 1},
                        "detail": "the text form of a valid %s value is rejected by its own parser (%s)" % (c["meta"]["ty"], res_kind(i))}
            return {"agree": agree, "ok": acc is not None or None, "nontrivial": False, "detail": "", "stats": {c["meta"]["ty"] + ":rejected": 1}}
        t = parse_sexp(i)[1]
        re_ = field(t, "re")
        ok = re_ is not None and re_[1] == "ok" and unparse(re_[2]) == unparse(t[1])
        exp = c["meta"].get("exp")
        if ok and exp is not None and unparse(t[1]) != exp:
            return {"agree": agree, "ok": False, "nontrivial": True, "stats": {c["meta"]["ty"]: 1},
                    "detail": "the text written for the value %s parses to %s: not an equal value" % (exp[:300], unparse(t[1])[:300])}
        return {"agree": agree, "ok": ok, "nontrivial": True, "detail": "" if ok else "parse(print v) differs from v: %s" % (i[:600]), "stats": {c["meta"]["ty"]: 1}}


# ------------------------------------------------------------------ C19
LAW_POOLS = {
    "Float": ["0", "-0", "1.5", "-1.5", "2", "1e-40", "-1e-40", "3.4028235e38", "0.1", "0.10000001"],
    "UFloat": ["0", "1.5", "2", "1e-40", "3.4028235e38", "0.1", "0.10000001", "25", "29.97"],
    "KeyFormatVersions": ["1/2#2", "3/4#2", "1/2/3#2", "1/2/3", "1", "empty", "1/2/3#1+9", "1/9", "2/1", "1/2/3/4/5/6/7/8/9", "1/2/3/4/5/6/7/8/9#1", "255", "1/2/3#0", "9/9/9#2+1",
                          # a list and the same list followed by zeros only; the empty list and a single zero
                          "1/0", "1/0/0", "0", "0/0", "1/2/0", "1/2"],
    "ByteRange": ["1", "1@0", "1@5", "6@0", "0", "0@0", "5@1"],
    "Channels": ["1", "2", "2/JOC", "1/JOC"],
    "Resolution": ["1x2", "2x1", "1x1", "10x9"],
    "Codecs": ["a", "a,b", "b,a", "a,b,c", "", "A", "A,b", "a,B", "avc1.4d401e", "avc1.4D401E"],
    "ClosedCaptions": ["NONE", '"NONE"', '"a"', '"b"', '"A"', '"none"'],
    "KeyFormat": ['"identity"', "identity", '"com.apple.streamingkeydelivery"', '"x"', '"y"', "other:identity", "other:com.apple.streamingkeydelivery",
                  "other:x", "other:urn:uuid:edef8ba9-79d6-4ace-a3c8-27dcd51d21ed", "other:com.microsoft.playready", '"com.microsoft.playready"'],
    "InitializationVector": ["0x" + "00" * 16, "0x" + "00" * 15 + "01", "0X" + "FF" * 16, "0x" + "ff" * 16, "num:0", "num:1", "num:255", "missing",
                             "0x" + "00" * 15 + "ff", "num:340282366920938463463374607431768211455"],
    "Value": ['"a"', '"b"', "0x00", "0x0000", "1.5", "0", "-0", '"1.5"', '"A"', "0x0A", "0x0a"],
    "DecryptionKey": ['METHOD=AES-128,URI="k"', 'METHOD=AES-128,URI="k",KEYFORMATVERSIONS="1/2"', 'METHOD=AES-128,URI="k",KEYFORMATVERSIONS="3/4"',
                      'METHOD=AES-128,URI="k",KEYFORMAT="identity"', 'METHOD=SAMPLE-AES,URI="k"', 'METHOD=AES-128,URI="k2"',
                      'METHOD=AES-128,URI="k",IV=0x' + "00" * 16, 'METHOD=AES-128,URI="k",KEYFORMATVERSIONS="1/2/3"',
                      'METHOD=AES-128,URI="k"#ivnum=0', 'METHOD=AES-128,URI="k"#ivnum=7', 'METHOD=AES-128,URI="k",IV=0x' + "00" * 15 + "07"],
    "ExtXKey": ["#EXT-X-KEY:METHOD=NONE", '#EXT-X-KEY:METHOD=AES-128,URI="k"', '#EXT-X-KEY:METHOD=AES-128,URI="k",KEYFORMATVERSIONS="1/2"',
                '#EXT-X-KEY:METHOD=AES-128,URI="k",KEYFORMATVERSIONS="2/1"'],
    "ExtInf": ["#EXTINF:1,", "#EXTINF:1,t", "#EXTINF:2,", "#EXTINF:1.000000001,", "#EXTINF:1,T"],
    "ExtXStart": ["#EXT-X-START:TIME-OFFSET=0", "#EXT-X-START:TIME-OFFSET=-0", "#EXT-X-START:TIME-OFFSET=1,PRECISE=YES", "#EXT-X-START:TIME-OFFSET=1"],
    "ExtXMap": ['#EXT-X-MAP:URI="a"', '#EXT-X-MAP:URI="a",BYTERANGE="1@2"', '#EXT-X-MAP:URI="b"', '#EXT-X-MAP:URI="A"'],
    "ExtXSessionData": ['#EXT-X-SESSION-DATA:DATA-ID="a",VALUE="v"', '#EXT-X-SESSION-DATA:DATA-ID="a",URI="v"', '#EXT-X-SESSION-DATA:DATA-ID="a",VALUE="v",LANGUAGE="en"'],
    "StreamData": ["BANDWIDTH=1", "BANDWIDTH=2", 'BANDWIDTH=1,CODECS="a"', "BANDWIDTH=1,RESOLUTION=1x1"],
    "ProtocolVersion": ["1", "2", "7"],
    "MediaSegment": ["uri a\ndur 1000000000", "uri a\ndur 1000000000\nnum 0", "uri a\ndur 1000000000\nnum 1", "uri b\ndur 1000000000",
                     "uri a\ndur 2000000000", "uri a\ndur 1000000000\ntitle t", "uri a\ndur 1000000000\ndisc 1"],
}


@register
class C19(Prop):
    pid = "C19"
    rule = ("all ordered triples (quick: sampled) from a pool of values per public type incl. +0/-0 floats, key format versions with equal length and different "
            "content, truncated buffers with stale data, keys differing only in versions, and whole playlists; the implementation's ==, cmp and DefaultHasher results "
            "are checked against the laws: reflexive, symmetric, equal => same observable content, equal <=> Ordering::Equal, antisymmetric, transitive, equal => equal hashes")

    def cases(self, tier, seed):
        g = gen.G(seed * 1000003 + 19)
        out = []
        n = 0
        for ty, pool in LAW_POOLS.items():
            triples = list(itertools.product(pool, repeat=3))
            if tier != "thorough" and len(triples) > 150:
                triples = g.r.sample(triples, 150)
            for a, b, c_ in triples:
                out.append(mk("l", n, "laws", ty, hx(a), hx(b), hx(c_), ty=ty, model=False))
                n += 1
        for k in range(count_tier(tier, 40, 400)):
            texts = []
            for _ in range(3):
                gen.plain_style(g)
                texts.append(gen.render_master(gen.gen_master(g), None) if k % 2 else gen.render_media(gen.gen_key_history(g, length=4) if False else gen.gen_media(g, nseg=2), None))
            if g.chance(0.5):
                texts[1] = texts[0]
            out.append(mk("l", n, "laws", "MasterPlaylist" if k % 2 else "MediaPlaylist", hx(texts[0]), hx(texts[1]), hx(texts[2]), ty="playlist", model=False))
            n += 1
        return out

    def judge(self, run, c, m, i):
        if not (i or "").startswith("ok "):
            return {"agree": None, "ok": None if res_kind(i) == "err" else False, "nontrivial": False, "detail": "laws op: " + res_kind(i)}
        t = parse_sexp(i)[1]
        e_ab, e_ba, e_aa, e_ac = t[1:5]
        c_ab, c_ba, c_bc, c_ac, c_aa = t[5:10]
        h_ab, h_bc, h_aa = t[10:13]
        da, db, dc = [unparse(x) for x in t[13:16]]
        norm = lambda d: re.sub(r"\((f|uf|vf) 2147483648\)", r"(\1 0)", re.sub(r"\(start 2147483648 ", "(start 0 ", d))
        bad = []
        if e_aa != "1" or e_ac != "1":
            bad.append("not reflexive / clone differs")
        if e_ab != e_ba:
            bad.append("== not symmetric")
        if e_ab == "1" and norm(da) != norm(db):
            bad.append("false equality: a == b but contents differ")
        if e_ab == "0" and da == db and c["meta"]["ty"] != "MediaSegment":
            # (a segment carries the crate-private flag "number was set explicitly", which no accessor shows: unequal values with the
            # same observable content are not excluded by the property)
            bad.append("equal contents compare unequal")
        if c_ab != "na":
            rev = {"lt": "gt", "gt": "lt", "eq": "eq"}
            if c_aa != "eq":
                bad.append("cmp(a,a) != Equal")
            if (c_ab == "eq") != (e_ab == "1"):
                bad.append("a == b is not equivalent to cmp == Equal")
            if rev[c_ab] != c_ba:
                bad.append("cmp not antisymmetric")
            le = lambda x: x in ("lt", "eq")
            if le(c_ab) and le(c_bc) and not le(c_ac):
                bad.append("cmp not transitive")
            if c_ab == "eq" and c_bc == "eq" and c_ac != "eq":
                bad.append("Equal not transitive")
            if e_ab == "1" and h_ab != "1":
                bad.append("a == b but hashes differ")
            if h_aa != "1":
                bad.append("clone hashes differently")
        ok = not bad
        return {"agree": None, "ok": ok, "nontrivial": True, "detail": "; ".join(bad) + " :: " + i[:500] if bad else "", "stats": {c["meta"]["ty"]: 1}}


# ------------------------------------------------------------------ C20
def builder_script(a, g, explicit="none", dup_keys=False):
    """a call sequence realising the abstract media playlist `a` (no explicit numbers unless asked)"""
    setters = ["Tn %d" % (a["target"] * 10 ** 9)]
    if a["mseq"] is not None:
        setters.append("M %d" % a["mseq"])
    if a["dseq"] is not None:
        setters.append("D %d" % a["dseq"])
    if a["ptype"] is not None:
        setters.append("P %s" % a["ptype"].lower())
    if a["iframes"]:
        setters.append("I 1")
    if a["indep"]:
        setters.append("N 1")
    if a["endlist"]:
        setters.append("E 1")
    if a["start"] is not None:
        setters.append("S #EXT-X-START:TIME-OFFSET=%s%s" % (a["start"][0], ",PRECISE=YES" if a["start"][1] else ""))
    unk = [u for _, u in sorted(a["unknown"], key=lambda x: x[0])]
    ulines = ["U " + u for u in unk] + ["unknown"]
    use_list = g.chance(0.5) or not a["segs"]     # an empty playlist needs segments(vec![])
    segs = []
    hist = []
    for idx, s in enumerate(a["segs"]):
        hist = gen.keys_in_effect(hist + s["keys_before"])
        lines = ["seg -" if explicit == "none" else "seg %d" % idx]
        for k in hist:
            lines.append("tag " + gen.key_line(k))
            if dup_keys and g.chance(0.3):
                lines.append("tag " + gen.key_line(k))       # the same key pushed twice
        for l in gen.seg_tag_lines(dict(s, keys_before=[], map=None if s["map"] is None else dict(s["map"], pos=0)), None):
            lines.append("tag " + l)
        lines.append("uri " + s["uri"])
        lines.append("end list" if use_list else "end push")
        segs.append(lines)
    body = [l for sl in segs for l in sl] + (["segments"] if use_list else [])
    # setters in any order, before or after the segments
    g.r.shuffle(setters)
    cut = g.r.randrange(len(setters) + 1)
    script = setters[:cut] + (ulines if g.chance(0.5) else []) + body + setters[cut:]
    if "unknown" not in script:
        script += ulines
    script.append("build")
    return "\n".join(script)


def master_builder_script(a, g, skip_media=False, skip_variants=False):
    """a MasterPlaylistBuilder call sequence for the abstract master playlist `a` (tags handed over in text form)"""
    blocks = []
    b = ["media " + gen.xmedia_line(m, None) for m in a["media"]]
    if not skip_media:
        b.append("set media")
    blocks.append(b)
    b = []
    for v in a["variants"]:
        ls = gen.variant_lines(v, None)
        b += ["variant " + ls[0]] if v["kind"] == "iframe" else ["streaminf " + ls[0], "vuri " + ls[1]]
    blocks.append(b + ([] if (skip_variants and not a["variants"]) else ["set variants"]))
    blocks.append(["sdata " + gen.sdata_line(d, None) for d in a["sdata"]] + ["set sdata"])
    blocks.append(["skey " + gen.key_line(k, None).replace("#EXT-X-KEY:", "#EXT-X-SESSION-KEY:", 1) for k in a["skeys"]] + ["set skeys"])
    blocks.append(["unknown " + u for u in a["unknown"]] + ["set unknown"])
    if a["indep"]:
        blocks.append(["indep 1"])
    if a["start"] is not None:
        blocks.append(["start #EXT-X-START:TIME-OFFSET=%s%s" % (a["start"][0], ",PRECISE=YES" if a["start"][1] else "")])
    g.r.shuffle(blocks)
    return "\n".join([l for b_ in blocks for l in b_] + ["build"])


@register
class C20(Prop):
    pid = "C20"
    rule = ("abstract media playlists (C01 domain; maps only where no key is in effect, because ExtXMap keys cannot be set through the public builder) realised both as "
            "rendered text and as a shuffled builder call sequence (setters in any order before/after the segments, push_segment vs segments()); plus call sequences "
            "with explicit numbers (permutations of 0..n-1, gaps, duplicates, numbers below the media sequence, up to 64); oracle: build() never panics, succeeds iff the "
            "text parses, equal dumps, the built value's text re-parses to the same content, gap-free numbering rule; correspondence with the model's builder")

    def cases(self, tier, seed):
        g = gen.G(seed * 1000003 + 20)
        out = []
        n = 0
        for k in range(count_tier(tier, 700, 20000)):
            gen.plain_style(g)
            a = gen.gen_media(g, nseg=g.r.randint(0, 6))
            hist = []
            for s in a["segs"]:
                if s["map"] is not None and gen.keys_in_effect(hist + s["keys_before"][: s["map"]["pos"]]) not in ([], ):
                    s["map"] = None
                hist = gen.keys_in_effect(hist + s["keys_before"])
            if g.chance(0.15):
                # numbers near the top of the integer range: accepted iff the last number still fits (both paths)
                a["mseq"] = min(2 ** 64 - 1, 2 ** 64 - len(a["segs"]) - g.pick([0, 0, 1, 2, 3, 7, -1]))
            if g.chance(0.2) and a["segs"]:
                # an invalid one: a too long segment or a broken range chain
                if g.chance(0.5):
                    a["segs"][0]["dur"] = str(a["target"] + 1)
                else:
                    a["segs"][0]["range"] = (5, None)
            text = gen.render_media(a, None)
            out.append(mk("t", n, "media", hx(text), role="text"))
            out.append(mk("b", n, "bmedia", hx(builder_script(a, g)), role="builder", partner="t%d" % n, nseg=len(a["segs"])))
            n += 1
        # master playlists: MasterPlaylistBuilder call sequence vs the rendered text (consistent and inconsistent group references;
        # a builder on which media() is never called has no renditions)
        for k in range(count_tier(tier, 500, 10000)):
            gen.plain_style(g)
            a = gen.gen_master(g)
            a["version_tag"] = None
            mut = g.r.randrange(5)
            if mut == 0:
                a["media"] = []
            elif mut == 1 and a["variants"]:
                v = g.pick(a["variants"])
                if v["kind"] == "streaminf":
                    v[g.pick(["audio", "subs"])] = "missing-group"
                else:
                    v["sd"]["video"] = "missing-group"
            elif mut == 2 and a["sdata"]:
                a["sdata"].append(dict(a["sdata"][0]))
            if mut == 3 and a["sdata"]:
                a["variants"] = []
                if g.chance(0.7):
                    a["sdata"].append(dict(a["sdata"][0]))
            skip = (not a["media"]) and g.chance(0.6)
            out.append(mk("t", n, "master", hx(gen.render_master(a, None)), role="text"))
            out.append(mk("b", n, "bmaster", hx(master_builder_script(a, g, skip, g.chance(0.7))), role="mbuilder", partner="t%d" % n, ntags=len(a["media"]) + len(a["variants"]), model=False))
            n += 1
        for k in range(count_tier(tier, 60, 600)):
            name = g.pick(["X-A", "X-COM-EXAMPLE-AD", "X-Z9"])
            vals_ = [g.pick(["one", "two", "three", "a,b"]) for _ in range(g.r.randint(2, 3))]
            script = ["id d"] + ["client %s s %s" % (name, v_) for v_ in vals_]
            if g.chance(0.5):
                script.insert(1, "client X-OTHER s keep")
            text = '#EXT-X-DATERANGE:ID="d"' + "".join(',%s="%s"' % (name, v_) for v_ in vals_) + (',X-OTHER="keep"' if "client X-OTHER s keep" in script else "")
            out.append(mk("t", n, "tag", "ExtXDateRange", hx(text), role="text"))
            out.append(mk("b", n, "btag", "ExtXDateRange", hx("\n".join(script)), role="tagbuilder", partner="t%d" % n, model=False))
            n += 1
        for k in range(count_tier(tier, 500, 10000)):
            cnt = g.r.randint(1, 6)
            nums = list(range(cnt))
            kind = g.r.randrange(5)
            if kind == 0:
                g.r.shuffle(nums)
            elif kind == 1:
                nums[g.r.randrange(cnt)] = g.r.randint(cnt, 64)      # a gap
            elif kind == 2 and cnt > 1:
                nums[0] = nums[1]                                      # a duplicate
            elif kind == 3:
                nums = [x + 3 for x in nums]
            mseq = g.pick([None, 0, 3, 5])
            use_list = g.chance(0.5)
            script = ["Tn 10000000000"] + (["M %d" % mseq] if mseq is not None else [])
            effs = []
            mixed = use_list and cnt >= 2 and g.chance(0.3)
            npush = g.r.randint(1, cnt - 1) if mixed else 0
            for j, x in enumerate(nums):
                implicit = g.chance(0.25)
                seg_lines = ["seg -" if implicit else "seg %d" % x, "dur 5000000000"]
                eff = None if implicit else x
                if g.chance(0.2):
                    # number(..) called again on the same segment builder: the last call wins, number(None) clears the number
                    for _ in range(g.r.randint(1, 2)):
                        eff = g.pick([None, x, g.r.randint(0, cnt + 2)])
                        seg_lines.insert(g.r.randint(1, len(seg_lines)), "num none" if eff is None else "num %d" % eff)
                    # (the inserted lines are in call order only if inserted behind each other: recompute from the final text)
                    eff = None if implicit else x
                    for ln in seg_lines:
                        if ln.startswith("num "):
                            eff = None if ln == "num none" else int(ln.split()[1])
                # mixed: the first segments are pushed, the others handed over as a list — segments(..) REPLACES what the builder holds
                pushed_first = mixed and j < npush
                if not pushed_first:
                    effs.append(eff)
                script += seg_lines + ["uri s%d.ts" % j, "end push" if (pushed_first or not use_list) else "end list"]
            script += (["segments"] if use_list else []) + ["build"]
            # independent expectation: the slot vector (index = position); explicit numbers select their slot, implicit segments go
            # behind the last slot (push_segment: in call order; segments(): explicit ones first, then the implicit ones)
            calls = effs
            order = calls if not use_list else [x for x in calls if x is not None] + [x for x in calls if x is None]
            slots = []
            for x in order:
                if x is None:
                    slots.append("i")
                else:
                    while len(slots) <= x:
                        slots.append(None)
                    slots[x] = "e"
            exp_ok = all(v is not None for v in slots) and not (slots and slots[0] == "e" and (mseq or 0) > 0)
            exp_nums = [(j if v == "e" else (mseq or 0) + j) for j, v in enumerate(slots)] if exp_ok else None
            out.append(mk("x", n, "bmedia", hx("\n".join(script)), role="explicit", mseq=mseq or 0, exp_ok=exp_ok, exp_nums=exp_nums))
            n += 1
        return out

    def judge(self, run, c, m, i):
        agree = (m == i) if m is not None else None
        role = c["meta"]["role"]
        if role == "text":
            return {"agree": agree, "ok": None, "nontrivial": False}
        if res_kind(i) not in ("ok", "err"):
            return {"agree": agree, "ok": False, "nontrivial": True, "detail": "builder call sequence did not return normally: " + res_kind(i)}
        node = mres(i)
        if role == "tagbuilder":
            t = run.impl.get(c["meta"]["partner"]) or ""
            mt = re.search(r"\(dr .*?\)\)\)", t)          # the (dr …(client …)) dump inside the tag op's result
            mb = re.search(r"\(dr .*?\)\)\)", i or "")
            ok = mt is not None and mb is not None and mt.group(0) == mb.group(0)
            return {"agree": None, "ok": ok, "nontrivial": True, "stats": {"tag_builder": 1},
                    "detail": "" if ok else "date range built with repeated setter calls differs from the parse of the same attributes: %s vs %s" % ((i or "")[:200], t[:200])}
        if role == "mbuilder":
            t = run.impl.get(c["meta"]["partner"])
            tn = mres(t)
            if (node is None) != (tn is None):
                return {"agree": None, "ok": False, "nontrivial": True, "detail": "MasterPlaylistBuilder says %s, the parser says %s for the same content" % (res_kind(i), res_kind(t))}
            if node is None:
                return {"agree": None, "ok": True, "nontrivial": True, "stats": {"master_both_reject": 1}}
            same = unparse(first_dump(node)) == unparse(first_dump(tn))
            re_ = field(node, "re")
            rt = re_ is not None and re_[1] == "ok" and unparse(re_[2]) == unparse(first_dump(node))
            ok = same and rt
            return {"agree": None, "ok": ok, "nontrivial": c["meta"]["ntags"] > 0, "stats": {"master_both_accept": 1},
                    "detail": "" if ok else "built master playlist differs from the parsed one (same=%s) or does not round-trip (rt=%s)" % (same, rt)}
        if role == "builder":
            t = run.impl.get(c["meta"]["partner"])
            tn = mres(t)
            if (node is None) != (tn is None):
                return {"agree": agree, "ok": False, "nontrivial": True, "detail": "builder says %s, parser says %s for the same content" % (res_kind(i), res_kind(t))}
            if node is None:
                return {"agree": agree, "ok": True, "nontrivial": True, "stats": {"both_reject": 1}}
            same = unparse(first_dump(node)) == unparse(first_dump(tn))
            re_ = field(node, "re")
            rt = re_ is not None and re_[1] == "ok" and unparse(re_[2]) == unparse(first_dump(node))
            ok = same and rt
            return {"agree": agree, "ok": ok, "known": classify_roundtrip_known(node) if not ok else None, "nontrivial": c["meta"]["nseg"] > 0,
                    "detail": "" if ok else "built value differs from parsed value (same=%s) or does not round-trip (rt=%s)" % (same, rt), "stats": {"both_accept": 1}}
        # explicit numbers: build succeeds iff the slots are gap-free (and no explicit number lies before the media sequence);
        # implicit numbers = media_sequence + position, explicit numbers preserved
        exp_ok, exp_nums = c["meta"]["exp_ok"], c["meta"]["exp_nums"]
        if node is None:
            ok = not exp_ok
            return {"agree": agree, "ok": ok, "nontrivial": True, "stats": {"explicit_err": 1},
                    "detail": "" if ok else "build() rejects a gap-free call sequence (expected numbers %s)" % exp_nums}
        nums = [int(field(s, "num")[1]) for s in media_segs(first_dump(node))]
        ok = exp_ok and nums == exp_nums
        return {"agree": agree, "ok": ok, "nontrivial": True, "stats": {"explicit_ok": 1},
                "detail": "" if ok else "numbering rule violated: built numbers %s, expected %s (media_sequence + position for implicit, preserved for explicit)" % (nums, exp_nums)}
