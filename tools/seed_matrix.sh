#!/bin/bash
export VERIF_SCRATCH_EVIDENCE=${VERIF_SCRATCH_EVIDENCE:-/tmp/verif_seed_evidence}   # evidence of runs against a seeded tree is not evidence about /repo
# seed_matrix.sh: run every check against every seeded change (applied to /repo, undone afterwards);
# writes /verif/seeded/matrix.tsv: seed <TAB> check <TAB> exit <TAB> violations <TAB> nofailing <TAB> known
# usage: seed_matrix.sh            all seeds, matrix.tsv rewritten
#        seed_matrix.sh C03 C17    only these rows are replaced
out=/verif/seeded/matrix.tsv
if [ $# -eq 0 ]; then : > $out; seeds=$(ls -d /verif/seeded/C*/ | xargs -n1 basename); else
  seeds="$@"; for s in $seeds; do grep -v "^$s[[:space:]]" $out | grep -v "^done$" > $out.tmp; mv $out.tmp $out; done; fi
for sid in $seeds; do
  sdir=/verif/seeded/$sid
  git -C /repo checkout -- . 
  git -C /repo apply $sdir/patch.diff || { echo "$sid apply-failed" >> $out; continue; }
  for c in C01 C02 C03 C04 C05 C06 C07 C08 C09 C10 C11 C12 C13 C14 C15 C16 C17 C18 C19 C20; do
    timeout 1800 /verif/check $c --tier quick > /tmp/matrix_$c.log 2>&1
    ec=$?
    v=$(grep -c "^VIOLATION" /tmp/matrix_$c.log)
    nf=$(grep -c "no-failing-input-found" /tmp/matrix_$c.log)
    k=$(grep -c "^KNOWN-FINDING" /tmp/matrix_$c.log)
    printf "%s\t%s\t%s\t%s\t%s\t%s\n" $sid $c $ec $v $nf $k >> $out
  done
  git -C /repo checkout -- .
done
git -C /repo checkout -- .
sort -o $out $out
echo done >> $out
