#!/bin/bash
export VERIF_SCRATCH_EVIDENCE=${VERIF_SCRATCH_EVIDENCE:-/tmp/verif_seed_evidence}   # evidence of runs against a seeded tree is not evidence about /repo
# seed_diagonal.sh: every seeded change against the check of the property it was written for (applied to the repository
# the checks read — /repo, or $HLS_REPO for a background run on a snapshot — and undone afterwards);
# writes seeded/diagonal.tsv: seed, check, exit, #VIOLATION, #no-failing-input-found
V=$(cd "$(dirname "$0")/.." && pwd); R=${HLS_REPO:-/repo}
out=${DIAG_OUT:-$V/seeded/diagonal.tsv}; log=${DIAG_LOG:-/tmp/diag_logs}; mkdir -p $log
: > $out
for sdir in ${SEED_DIRS:-$V/seeded/C*/}; do   # SEED_DIRS="seeded/C01g/ seeded/C02g/" restricts the run
  sid=$(basename $sdir); c=${sid:0:3}
  git -C $R apply $sdir/patch.diff || { echo "$sid apply-failed" >> $out; continue; }
  timeout 1800 $V/check $c --tier quick > $log/diag_$sid.log 2>&1
  ec=$?
  printf "%s\t%s\t%s\t%s\t%s\n" $sid $c $ec $(grep -c "^VIOLATION" $log/diag_$sid.log) $(grep -c "no-failing-input-found" $log/diag_$sid.log) >> $out
  git -C $R apply -R $sdir/patch.diff
done
echo done >> $out
