#!/bin/bash
# seed_diagonal.sh: every seeded change against the check of the property it was written for
# (applied to /repo, undone afterwards); writes /verif/seeded/diagonal.tsv: seed, check, exit, #VIOLATION, #no-failing-input-found
out=/verif/seeded/diagonal.tsv
: > $out
for sdir in /verif/seeded/C*/; do
  sid=$(basename $sdir); c=${sid:0:3}
  git -C /repo checkout -- .
  git -C /repo apply $sdir/patch.diff || { echo "$sid apply-failed" >> $out; continue; }
  timeout 1800 /verif/check $c --tier quick > /tmp/r3/diagall_$sid.log 2>&1
  ec=$?
  printf "%s\t%s\t%s\t%s\t%s\n" $sid $c $ec $(grep -c "^VIOLATION" /tmp/r3/diagall_$sid.log) $(grep -c "no-failing-input-found" /tmp/r3/diagall_$sid.log) >> $out
  git -C /repo checkout -- .
done
git -C /repo checkout -- .
echo done >> $out
