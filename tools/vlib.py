"""Shared helpers of the checks: build steps, running the extracted model and the Rust
harness on a case file, S-expression dumps, evidence files."""
import fcntl
import hashlib
import json
import os
import re
import subprocess
import sys
import time

VERIF = os.path.dirname(os.path.dirname(os.path.abspath(__file__)))
REPO = os.environ.get("HLS_REPO", "/repo")
CACHE = os.path.join(VERIF, ".cache")
COQ = os.path.join(VERIF, "coq")
OCAML = os.path.join(VERIF, "ocaml")
HARNESS = os.path.join(VERIF, "harness")
TARGET = os.path.join(CACHE, "harness-target")
HARNESS_BIN = os.environ.get("VERIF_HARNESS_BIN") or os.path.join(TARGET, "release", "hls_harness")
HARNESS_BIN_DEBUG = os.path.join(TARGET, "debug", "hls_harness")
DRIVER_BIN = os.path.join(OCAML, "driver")
NPROC = 16

ENV = dict(os.environ, CARGO_NET_OFFLINE="true", CARGO_TARGET_DIR=TARGET)
ENV.pop("RUSTFLAGS", None)


def sh(cmd, cwd=None, timeout=1800, env=None):
    p = subprocess.run(cmd, cwd=cwd, shell=isinstance(cmd, str), stdout=subprocess.PIPE,
                       stderr=subprocess.STDOUT, timeout=timeout, env=env or ENV)
    return p.returncode, p.stdout.decode("utf-8", "replace")


class Lock:
    def __enter__(self):
        os.makedirs(CACHE, exist_ok=True)
        self.f = open(os.path.join(CACHE, "build.lock"), "w")
        fcntl.flock(self.f, fcntl.LOCK_EX)
        return self

    def __exit__(self, *a):
        fcntl.flock(self.f, fcntl.LOCK_UN)
        self.f.close()


# ------------------------------------------------------------------ build steps
class BuildError(Exception):
    def __init__(self, obligation, log):
        super().__init__(obligation)
        self.obligation = obligation
        self.log = log


def regen_tables():
    rc, out = sh([sys.executable, os.path.join(VERIF, "tools", "extract_tables.py"), os.path.join(COQ, "Generated", "Tables.v")])
    if rc != 0:
        raise BuildError("tables:translator", out)
    return out.strip()


def coq_makefile():
    mk = os.path.join(COQ, "Makefile")
    proj = os.path.join(COQ, "_CoqProject")
    if not os.path.exists(mk) or os.path.getmtime(mk) < os.path.getmtime(proj):
        rc, out = sh("coq_makefile -f _CoqProject -o Makefile", cwd=COQ)
        if rc != 0:
            raise BuildError("coq:makefile", out)


def coq_make(targets, obligation, timeout=2400):
    coq_makefile()
    rc, out = sh(["make", "-j%d" % NPROC] + targets, cwd=COQ, timeout=timeout)
    if rc != 0:
        m = re.search(r'File "\./([^"]+)", line (\d+)', out)
        where = "%s:%s" % (m.group(1), m.group(2)) if m else "?"
        raise BuildError("%s (%s)" % (obligation, where), out[-4000:])
    return out


def coq_eval(name, imports, body, timeout=1800):
    """compile a scratch .v file (imports + body with Eval commands) against the built development and
    return coqc's output; used for evaluating decidable hypotheses of theorems on generated values"""
    d = os.path.join(CACHE, "hyp")
    os.makedirs(d, exist_ok=True)
    path = os.path.join(d, name + ".v")
    with open(path, "w", encoding="utf-8") as f:
        f.write(imports + "\n" + body + "\n")
    rc, out = sh(["coqc", "-Q", COQ, "hls", "-w", "-notation-overridden,-deprecated-hint-without-locality,-deprecated-syntactic-definition",
                  "-o", os.path.join(d, name + ".vo"), path], cwd=d, timeout=timeout)
    if rc != 0:
        raise BuildError("hyp:%s" % name, out[-3000:])
    return out


def coq_str_of(text):
    """a Coq term of type str (list of code points) for a Python string"""
    return "[" + "; ".join(str(ord(ch)) for ch in text) + "]%N"


def build_driver():
    ml = os.path.join(OCAML, "model.ml")
    if (not os.path.exists(DRIVER_BIN) or os.path.getmtime(DRIVER_BIN) < os.path.getmtime(ml)
            or os.path.getmtime(DRIVER_BIN) < os.path.getmtime(os.path.join(OCAML, "driver.ml"))):
        rc, out = sh("ocamlfind ocamlopt -O3 -w -a model.mli model.ml driver.ml -o driver", cwd=OCAML)
        if rc != 0:
            raise BuildError("extraction:ocamlopt", out[-4000:])


def point_harness_at_repo():
    """the harness depends on the crate by path: /repo, or $HLS_REPO for background runs against a snapshot"""
    toml = os.path.join(HARNESS, "Cargo.toml")
    text = open(toml).read()
    new = re.sub(r'hls_m3u8 = \{ path = "[^"]*" \}', 'hls_m3u8 = { path = "%s" }' % REPO, text)
    if new != text:
        open(toml, "w").write(new)


def build_harness():
    point_harness_at_repo()
    lock = os.path.join(HARNESS, "Cargo.lock")
    if not os.path.exists(lock):
        import shutil
        src = os.path.join(REPO, "Cargo.lock")
        shutil.copy(src if os.path.exists(src) else "/repo/Cargo.lock", lock)   # (a snapshot of HEAD has no untracked lock file)
    rc, out = sh("cargo build --release --offline", cwd=HARNESS, timeout=1800)
    if rc != 0:
        raise BuildError("harness:cargo-build", out[-4000:])


def build_harness_debug():
    """unoptimised build (no tail-call elimination, no inlining): recursion depth and debug assertions as `cargo test` sees them"""
    rc, out = sh("cargo build --offline", cwd=HARNESS, timeout=1800)
    if rc != 0:
        raise BuildError("harness:cargo-build-debug", out[-4000:])


def run_solo(binary, case, timeout=120):
    """one case in its own process: an abort (stack overflow, SIGABRT) or a hang is attributed to exactly this input"""
    os.makedirs(os.path.join(CACHE, "run"), exist_ok=True)
    path = os.path.join(CACHE, "run", "solo_%d_%s.tsv" % (os.getpid(), case["id"]))
    write_cases(path, [case])
    try:
        p = subprocess.run([binary, path], stdout=subprocess.PIPE, stderr=subprocess.DEVNULL, timeout=timeout)
        out = p.stdout.decode("utf-8", "replace")
        for line in out.splitlines():
            if "\t" in line:
                return line.split("\t", 1)[1]
        return "abort (signal %d)" % (-p.returncode) if p.returncode < 0 else "abort (exit %d, no result)" % p.returncode
    except subprocess.TimeoutExpired:
        return "hang (no result within %d s)" % timeout
    finally:
        if os.path.exists(path):
            os.unlink(path)


FORBIDDEN = re.compile(r"\b(Admitted|admit|give_up|Axioms?|Parameters?|Conjectures?|Hypothes[ie]s|Variables?)\b|Unset Guard|bypass_check|type-in-type|impredicative-set|Admit Obligations|Unset Positivity|Unset Universe")


def scan_forbidden():
    """no Admitted / Axiom / … anywhere in the development (Variables inside Sections are
    allowed: the scan looks for them only outside `Section … End`)"""
    bad = []
    for root, _, files in os.walk(COQ):
        for fn in files:
            if not fn.endswith(".v"):
                continue
            path = os.path.join(root, fn)
            depth = 0
            in_comment = 0
            for i, line in enumerate(open(path, encoding="utf-8"), 1):
                code = re.sub(r"\(\*.*?\*\)", "", line)
                if in_comment:
                    if "*)" in code:
                        code = code.split("*)", 1)[1]
                        in_comment = 0
                    else:
                        continue
                if "(*" in code:
                    code = code.split("(*", 1)[0]
                    in_comment = 1
                code = re.sub(r'"[^"]*"', '""', code)
                if re.match(r"\s*Section\b", code):
                    depth += 1
                elif re.match(r"\s*End\b", code) and depth > 0:
                    depth -= 1
                m = FORBIDDEN.search(code)
                if m:
                    if m.group(1) in ("Hypothesis", "Hypotheses", "Variable", "Variables") and depth > 0:
                        continue
                    bad.append("%s:%d: %s" % (os.path.relpath(path, COQ), i, line.strip()))
    return bad


def coqchk_property(pid):
    """independent re-check (coqchk) of the compiled property file and everything it depends on;
    returns the axiom report; raises BuildError if coqchk fails or reports anything but <none>"""
    rc, out = sh(["coqchk", "-o", "-silent", "-Q", ".", "hls", "hls.Properties.%s" % pid], cwd=COQ, timeout=3000)
    tail = out[-1500:]
    if rc != 0:
        raise BuildError("coqchk:%s" % pid, tail)
    report = {}
    for key in ("Axioms", "Constants/Inductives relying on type-in-type", "Constants/Inductives relying on unsafe (co)fixpoints",
                "Inductives whose positivity is assumed"):
        m = re.search(r"\* " + re.escape(key) + r":\s*(.*)", out)
        report[key] = m.group(1).strip() if m else "?"
    if any(v != "<none>" for v in report.values()):
        raise BuildError("coqchk:%s" % pid, json.dumps(report))
    return report


ALLOWED_AXIOMS = set()   # none: every theorem must be closed under the global context


# further property files of a property (same rules: pinned statements, Print Assumptions, closed); not re-checked by coqchk
EXTRA_PROPERTY_FILES = {"C18": ["C18Sweep"]}


def check_property_file(pid):
    """compile Properties/<pid>.v (and its further files) afresh, return (theorems, assumptions, pinned) or raise"""
    info = check_one_property_file(pid)
    for extra in EXTRA_PROPERTY_FILES.get(pid, []):
        more = check_one_property_file(extra)
        info["theorems"] += more["theorems"]
        info["examples"] += more["examples"]
        info["closed"] += more["closed"]
        info["statement_sha"] = hashlib.sha256((info["statement_sha"] + more["statement_sha"]).encode()).hexdigest()[:16]
    return info


def check_one_property_file(pid):
    src = os.path.join(COQ, "Properties", pid + ".v")
    text = open(src, encoding="utf-8").read()
    theorems = re.findall(r"^(?:Theorem|Corollary)\s+(\w+)", text, re.M)
    examples = re.findall(r"^Example\s+(\w+)", text, re.M)
    pins = re.findall(r"^Check\s+(\w+)\s*:", text, re.M)
    prints = re.findall(r"^Print Assumptions\s+(\w+)\.", text, re.M)
    missing = [t for t in theorems if t not in prints]
    if missing:
        raise BuildError("thm:%s:print-assumptions-missing:%s" % (pid, ",".join(missing)), "")
    unpinned = [t for t in theorems if t not in pins]
    if unpinned:
        raise BuildError("thm:%s:statement-not-pinned:%s" % (pid, ",".join(unpinned)), "")
    # force recompilation so that Print Assumptions output is produced by this run
    os.makedirs(os.path.join(CACHE, "props"), exist_ok=True)
    rc, out = sh(["coqc", "-Q", ".", "hls", "-w", "-notation-overridden,-deprecated-hint-without-locality,-deprecated-syntactic-definition",
                  "-o", os.path.join(CACHE, "props", "%s.vo" % pid), "Properties/%s.v" % pid], cwd=COQ, timeout=900)
    if rc != 0:
        m = re.search(r"line (\d+)", out)
        raise BuildError("thm:%s (Properties/%s.v:%s)" % (pid, pid, m.group(1) if m else "?"), out[-3000:])
    closed = out.count("Closed under the global context")
    axioms = []
    for m in re.finditer(r"^Axioms:\n((?:.+\n)+?)(?=\S|\Z)", out, re.M):
        axioms += [l.strip() for l in m.group(1).splitlines() if l.strip()]
    bad_axioms = [a for a in axioms if a.split(":")[0].strip() not in ALLOWED_AXIOMS]
    if bad_axioms or closed < len(prints):
        raise BuildError("thm:%s:assumptions" % pid, out[-3000:])
    return {"theorems": theorems, "examples": examples, "closed": closed,
            "statement_sha": hashlib.sha256(text.encode()).hexdigest()[:16]}


# ------------------------------------------------------------------ running both sides
def hx(s):
    return s.encode("utf-8").hex()


def write_cases(path, cases):
    with open(path, "w") as f:
        for c in cases:
            f.write("\t".join([c["id"], c["op"]] + [str(a) for a in c["args"]]) + "\n")


def run_sharded(binary, cases, tag, shards=None, timeout=3600):
    """run `binary <file>` over the cases split into shards, return {id: result}"""
    os.makedirs(os.path.join(CACHE, "run"), exist_ok=True)
    n = len(cases)
    if shards is None:
        shards = 1 if n < 400 else NPROC
    procs = []
    for k in range(shards):
        part = cases[k::shards]
        if not part:
            continue
        path = os.path.join(CACHE, "run", "%s_%d_%d.tsv" % (tag, os.getpid(), k))
        write_cases(path, part)
        outf = open(path + ".out", "wb")
        procs.append((path, outf, subprocess.Popen([binary, path], stdout=outf, stderr=subprocess.DEVNULL)))
    res = {}
    t0 = time.time()
    for path, outf, p in procs:
        try:
            p.wait(timeout=max(1, timeout - (time.time() - t0)))
        except subprocess.TimeoutExpired:
            p.kill()
            p.wait()
        outf.close()
        with open(path + ".out", "rb") as f:
            for line in f.read().decode("utf-8", "replace").splitlines():
                if "\t" in line:
                    i, r = line.split("\t", 1)
                    res[i] = r
        os.unlink(path)
        os.unlink(path + ".out")
    for c in cases:
        res.setdefault(c["id"], "noresult")
    return res


def run_model(cases, **kw):
    return run_sharded(DRIVER_BIN, cases, "model", **kw)


def run_impl(cases, **kw):
    return run_sharded(HARNESS_BIN, cases, "impl", **kw)


# ------------------------------------------------------------------ S-expressions
TOKEN = re.compile(r"[()]|[^\s()]+")


def parse_sexp(text):
    """'ok (a (b c))' -> ['ok', ['a', ['b', 'c']]] ; atoms are strings"""
    stack = [[]]
    for tok in TOKEN.findall(text):
        if tok == "(":
            stack.append([])
        elif tok == ")":
            x = stack.pop()
            stack[-1].append(x)
        else:
            stack[-1].append(tok)
    return stack[0]


def unparse(x):
    if isinstance(x, list):
        return "(" + " ".join(unparse(y) for y in x) + ")"
    return x


def field(node, name):
    """first child list of `node` whose head is `name`"""
    for ch in node[1:]:
        if isinstance(ch, list) and ch and ch[0] == name:
            return ch
    return None


def fields(node, name):
    return [ch for ch in node[1:] if isinstance(ch, list) and ch and ch[0] == name]


def decode_s(atom):
    """s104.105 -> 'hi'"""
    if not isinstance(atom, str) or not atom.startswith("s"):
        return None
    body = atom[1:]
    if body == "":
        return ""
    return "".join(chr(int(x)) for x in body.split("."))


def sha(x):
    return hashlib.sha256(x.encode("utf-8", "replace")).hexdigest()[:16]


# ------------------------------------------------------------------ evidence
def write_evidence(pid, data):
    # (runs against a seeded change write their evidence elsewhere: VERIF_SCRATCH_EVIDENCE, set by the seed scripts only)
    d = os.environ.get("VERIF_SCRATCH_EVIDENCE") or os.path.join(VERIF, "evidence")
    os.makedirs(d, exist_ok=True)
    path = os.path.join(d, pid + ".json")
    with open(path, "w") as f:
        json.dump(data, f, indent=1, sort_keys=True)
    return path


def write_replay(pid, n, data):
    d = os.path.join(VERIF, "evidence", "replay")
    os.makedirs(d, exist_ok=True)
    path = os.path.join(d, "%s-%d.json" % (pid, n))
    with open(path, "w") as f:
        json.dump(data, f, indent=1, sort_keys=True)
    return path


def load_known():
    p = os.path.join(VERIF, "known_findings.json")
    if os.path.exists(p):
        return json.load(open(p))
    return []


TRUSTED_BASE = [
    "Coq 8.16.1 kernel as run by coqc (vm_compute used; no native_compute)",
    "Print Assumptions of every property theorem: Closed under the global context (allow-list empty)",
    "extraction: Require Extraction + ExtrOcamlBasic only (bool/option/unit/list/prod/sumbool/sumor to OCaml natives, fst/snd/andb/orb/negb inlined); no Extract Constant of ours; nat/positive/N/Z stay inductive",
    "ocaml/driver.ml glue (int<->N, UTF-8<->code points, line protocol), harness/src/*.rs dump printers, tools/*.py orchestration",
    "translator tools/extract_tables.py (regex-level reader of fixed source shapes, fails closed)",
    "modelled, not verified: Rust std (str::lines/trim/parse, f32/f64 text conversions, Duration), hex, strum, derive_builder, stable-vec semantics as written in coq/Model; default cargo features only",
    "the correspondence check is differential testing: agreement outside the explored inputs is not proved",
]
