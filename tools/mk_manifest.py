#!/usr/bin/env python3
"""Writes /verif/MANIFEST.json from the registry of checks (tools/props.py) and the level
texts below.  A property is claimed iff coq/Properties/<id>.v exists and the plug-in is
registered; every other property is listed under not_applicable with the reason."""
import json
import os
import sys

sys.path.insert(0, os.path.dirname(os.path.abspath(__file__)))
import props  # noqa: E402

VERIF = os.path.dirname(os.path.dirname(os.path.abspath(__file__)))

LEVEL = {
 "C01": ("theorems: tokenizer inverts any padded rendering, unquote/quote, dispatch by prefix, assembly of segments for all item lists, every well-formed value is the parse of its canonical text (C01_canonical_text) and of every other presentation reachable by the closure of the presentation changes (C01_styled_text); a decimal duration with at most nine fractional digits below 2^20 s is read to exactly its nanosecond count (C01_duration_exact); near-miss tag names are unknown tags (C01_near_miss_names); correspondence: impl = extracted model = generator's RFC-level expectation on structured playlists", "3 (C01)"),
 "C02": ('theorems: source order, shared lexical layer, enum tables regenerated from source, canonical text and every other presentation of a well-formed master value parse to it (C02_canonical_text, C02_styled_text); correspondence against an independent expectation over structured master playlists', "3 (C02)"),
 "C03": ("theorems on the writer/reader key-state duality at item level, the text-level round trip for every parse result with durations below 2^20 s and plain SCTE35 values, with no hypothesis on floats (C03_roundtrip_parsed); correspondence + direct oracle (dump and text fixed point) over exhaustive key histories and random playlists", "3 (C03)"),
 "C04": ("theorems: master writer has no state; value round trips (integers, enums); correspondence + direct oracle over structured master playlists", "3 (C04)"),
 "C05": ('theorems: no entry point of the model yields Panic for any string; the index-level model of the tokenizer / unquote / tag (byte offsets, panicking slices, checked subtraction) refines the structural model for every string (C05_tokenizer_indices, C05_unquote_slice, C05_tag_split); tokenizer progress; key work linear in the number of key events for bounded key formats, quadratic otherwise (C05_key_work_linear, C05_key_work_quadratic); correspondence on returned/panicked over near-valid, boundary and random inputs; stress inputs each in its own process of an unoptimised build; time scaling measured in the thorough tier (partial)', "3 (C05)"),
 "C06": ("theorem: the parser's key list after any history is exactly the RFC 8216 4.3.2.4 keys in effect, one per format, in tag order; segment/map snapshots; correspondence + independent oracle, exhaustive to a bound", "3 (C06)"),
 "C07": ('theorems: numbers = media sequence + position for every accepted item list, IV rule, explicit IV verbatim, 128-bit big-endian round trip, writer strips derived IVs; correspondence + oracle incl. the re-parse of the written text and builders that were used before / carry preset values', "3 (C07)"),
 "C08": ("theorems: validation accepts iff the chain resolves; completed ranges equal the resolved ones; set_start never panics; correspondence + oracle incl. exhaustive chains", "3 (C08)"),
 "C09": ('theorems: rounding is nearest-second-halves-up; validation iff rule; no accepted value holds a longer segment; the x.5 boundary on the decimal text is not moved by the f64 conversion (C09_text_boundary); correspondence on text and builder paths at every boundary, inside otherwise valid playlists of the full domain, with sub-second allowances, preset builders and durations set through setters', "3 (C09)"),
 "C10": ('theorems: version line written iff required version != 1 and carries it; required version is the maximum of the per-feature versions read from the regenerated constants, hence >= every section-7 feature minimum; correspondence + independent text scan, also of values mutated through the public segment vector', "3 (C10)"),
 "C11": ("theorems: the parser's key container is order-free of any hash seed (ordered list), and the writer's output does not depend on the iteration order of its key set; runtime repetition across threads and processes in the harness (partial: schedules cannot be exhibited by the model)", "3 (C11)"),
 "C12": ("theorems on arbitrary text and as ONE theorem over whole playlists: the closure of the presentation changes on the cleaned lines (comments, redundant version tags, any spelling of a tag's attribute list for every attribute-list tag incl. METHOD=NONE keys and both variant tags, permuted free tags; CRLF / blank lines / padding do not change the cleaned lines) leaves the parse result unchanged (C12_restyle_media/master, C12_restyle_rules, C12_restyle_attribute_lines, C12_restyle_variant_lines); correspondence + oracle over re-rendered and transformed texts, foreign attribute names, and == of the parsed values", "3 (C12)"),
 "C13": ('theorem: validation accepts iff the playlist is consistent (groups defined, CLOSED-CAPTIONS=NONE exclusive in either order, session data unique); rendition lookup = referenced renditions except the stated known class; correspondence exhaustive over small configurations, size sweeps, and MasterPlaylistBuilder call sequences', "3 (C13)"),
 "C14": ("theorems: per-tag acceptance equals the attribute rules over all attribute lists (keys, EXT-X-MEDIA, date ranges, session data, start, map and both stream tags as an iff over the attribute text: C14_key_iff, C14_media_iff, C14_daterange_iff, C14_session_data_iff, C14_start_iff, C14_map_iff, C14_streaminf_iff, C14_iframe_iff); correspondence exhaustive over presence subsets for text and builders", "3 (C14)"),
 "C15": ("theorem: for every string, not both parsers accept; accepted master texts contain no media item or bare URI, accepted media texts no master item and a TARGETDURATION item; foreign-tag tables regenerated from source; correspondence exhaustive over short line sequences", "3 (C15)"),
 "C16": ("theorems: accepted extension keeps the common segments (numbers and content); appending lines appends items; a text cut after a segment tag (also with non-URI lines behind it: C16_cut_pending) or after EXT-X-STREAM-INF is rejected; the slid window of every parse result with durations below 2^20 s re-parses to the same remaining segments (C16_slide_parsed); correspondence + oracle over every prefix and slide, incl. deterministic rotations of three / four key formats", "3 (C16)"),
 "C17": ('theorem over the regenerated table: every hand-written into_owned rebuilds each declared field from the field of the same name and variant; the three entry points are one function in the model; correspondence: ==, dump and text of x, clone, into_owned for parsed values, for playlists built by builder call sequences and for values built through the public constructors', "3 (C17)"),
 "C18": ('theorems: integer / hex / byte range / resolution / channels round trips, enum tables injective (regenerated), quote/unquote, every tag type written and read back through its own parser; parse (print x) = x for EVERY finite f32 of either sign and for every Duration below 2^20 s with nanosecond precision (C18_f32_text, C18_uf32_text, C18_parsed_float, C18_duration_text: rounding near a canonical value, the digit search always returns digits, the written text is read as those digits), bounded decimal grids kept as sweeps; the three-decimal FRAME-RATE writer for every rate with at most three decimals below 8192 (C18_frame_rate_3dec); the std float conversions themselves are modelled (validated against rustc), not verified; correspondence with per-type expectations and API-built values', "3 (C18)"),
 "C19": ("theorems: the modelled equality/ordering/hash of KeyFormatVersions (buffer + length) and of the float wrappers are coherent; derived impls are structural; every public type's derive list regenerated and checked; correspondence: laws on triples of the implementation incl. API-built values (Number IVs, KeyFormat::Other, stale buffers, built segments)", "3 (C19)"),
 "C20": ("theorems: setters commute / last wins, built playlists gap-free with documented numbering, no builder call sequence panics (also with the vector's capacity in the model: C20_slots_never_panic, reserve-before-insert regenerated from the source), parser and builder share build(), rebuild / paths agree; correspondence: media and master builder scripts vs rendered text", "3 (C20)"),
}

NOTE = ("trusted: Coq 8.16.1 kernel (vm_compute, no native_compute); no axioms (Print Assumptions: closed under the global "
        "context); extraction with ExtrOcamlBasic only; OCaml driver and Rust harness glue; translator for tables; Rust std / "
        "dependency behaviour as modelled in coq/Model and validated only by the correspondence check; default cargo features")


def main():
    claimed = []
    na = []
    ids = [json.loads(l)["id"] for l in open(os.path.join(VERIF, "properties.jsonl"))]
    for pid in ids:
        have_thm = os.path.exists(os.path.join(VERIF, "coq", "Properties", pid + ".v"))
        if pid in props.REGISTRY and have_thm:
            text, ref = LEVEL[pid]
            claimed.append({
                "property_id": pid,
                "quick_cmd": "./check %s --tier quick" % pid,
                "thorough_cmd": "./check %s --tier thorough" % pid,
                "evidence_file": "/verif/evidence/%s.json" % pid,
                "replay_cmd_template": "./check %s --replay {path}" % pid,
                "engine": "coq-model+correspondence",
                "level_claimed": {"category": "proof", "text": text, "design_ref": "DESIGN.md " + ref},
                "level_note": NOTE,
                "technique": "machine-checked proof in Coq 8.16 about a hand-written Gallina model, tied to the code by regenerated tables and a model-vs-implementation correspondence check",
            })
        else:
            na.append({"property_id": pid, "reason": "not claimed yet: the Coq property file for it is not finished (work in progress, not a limit of the technique)"})
    m = {
        "version": 1,
        "setup_cmd": "./check --setup",
        "hooks": {"guard": "none (no source hooks are needed: the harness uses the public API only)",
                  "enable": "no flag; the harness crate depends on hls_m3u8 = { path = \"/repo\" } (the path follows HLS_REPO for background runs on a snapshot) and is rebuilt by every check",
                  "baseline_off_cmd": "cd /repo && cargo test --workspace --no-fail-fast --offline",
                  "source_commits": [], "add_only": True},
        "engines": [{"name": "coq-model+correspondence", "path": "/verif/check",
                     "serves_properties": [c["property_id"] for c in claimed],
                     "kind_free_text": "Coq 8.16 development (coq/Model, coq/Spec, coq/Proofs, coq/Properties), translator tools/extract_tables.py, extracted OCaml model ocaml/driver, Rust harness harness/, orchestrator tools/*.py"}],
        "checks": claimed,
        "not_applicable": na,
        "notes": "Genuine defects of the pinned tree were repaired by `fix:` commits in /repo and are listed in known_findings.json (status fixed, with a `fixed: property=<id> <commit> <what failed>` line each); the remaining known findings print KNOWN-FINDING lines.",
    }
    with open(os.path.join(VERIF, "MANIFEST.json"), "w") as f:
        json.dump(m, f, indent=1)
    print("claimed:", [c["property_id"] for c in claimed])
    print("not claimed:", [n["property_id"] for n in na])


if __name__ == "__main__":
    main()
