#!/usr/bin/env python3
"""Writes /verif/MANIFEST.json from the registry of checks (tools/props.py) and the level
texts below.  A property is claimed iff coq/Properties/<id>.v exists and the plug-in is
registered; every other property is listed under not_applicable with the reason."""
import json
import os
import sys

sys.path.insert(0, os.path.dirname(os.path.abspath(__file__)))
import props  # noqa: E402

VERIF = os.path.dirname(os.path.dirname(os.path.abspath(__file__)))

LEVEL = {
 "C01": ("theorems: the attribute tokenizer inverts the rendering of any clean attribute list under arbitrary padding, unquote inverts quote, the regenerated dispatch chain classifies every tag line by its own prefix, line splitting is insensitive to CRLF/padding; correspondence: impl = extracted model = generator's RFC-level expectation on structured playlists; the end-to-end statement parse(render a) = sem a is kept as an open statement", "6.1"),
 "C02": ("theorems of C01's lexical layers apply to master tags (shared tokenizer/dispatch); enum tables regenerated from source and proved injective; correspondence against an independent expectation over structured master playlists", "6.2"),
 "C03": ("theorems on the writer/reader key-state duality at item level and value round trips; correspondence + direct oracle (dump and text fixed point) over exhaustive key histories and random playlists", "6.3"),
 "C04": ("theorems: master writer has no state; value round trips (integers, enums); correspondence + direct oracle over structured master playlists", "6.4"),
 "C05": ("theorem: no entry point of the model (media parser with any builder, master parser, every tag parser) yields Panic for any string; set_start reached only with start<=end; tokenizer progress; correspondence on returned/panicked over near-valid and random inputs", "6.5"),
 "C06": ("theorem: the parser's key list after any history is exactly the RFC 8216 4.3.2.4 keys in effect, one per format, in tag order; segment/map snapshots; correspondence + independent oracle, exhaustive to a bound", "6.6"),
 "C07": ("theorems: numbers = media sequence + position for every accepted item list, IV rule, explicit IV verbatim, 128-bit big-endian round trip, writer strips derived IVs; correspondence + oracle", "6.7"),
 "C08": ("theorems: validation accepts iff the chain resolves; completed ranges equal the resolved ones; set_start never panics; correspondence + oracle incl. exhaustive chains", "6.8"),
 "C09": ("theorems: rounding is nearest-second-halves-up; validation iff rule; no accepted value holds a longer segment; correspondence on text and builder paths at every boundary", "6.9"),
 "C10": ("theorems: version line written iff required version != 1 and carries it; required version is the maximum of the per-feature versions read from the regenerated constants, hence >= every section-7 feature minimum; correspondence + independent text scanner", "6.10"),
 "C11": ("theorems: the parser's key container is order-free of any hash seed (ordered list), and the writer's output does not depend on the iteration order of its key set; runtime repetition across threads and processes in the harness (partial: schedules cannot be exhibited by the model)", "6.11"),
 "C12": ("theorems on arbitrary text: CRLF, line padding, blank lines, comment items, redundant version tags and unknown tags do not change the parse result (beyond the unknown list); correspondence + oracle over re-rendered and transformed texts", "6.12"),
 "C13": ("theorem: validation accepts iff the playlist is consistent (groups defined, CLOSED-CAPTIONS=NONE exclusive in either order, session data unique); rendition lookup = referenced renditions except the stated known class; correspondence exhaustive over small configurations", "6.13"),
 "C14": ("theorems: per-tag acceptance equals the attribute rules over all attribute lists for the tags modelled; correspondence exhaustive over presence subsets for text and builders", "6.14"),
 "C15": ("theorem: for every string, not both parsers accept; accepted master texts contain no media item or bare URI, accepted media texts no master item and a TARGETDURATION item; foreign-tag tables regenerated from source; correspondence exhaustive over short line sequences", "6.15"),
 "C16": ("theorems: accepted extension keeps the common segments (numbers and content); appending lines appends items; a text cut after a segment tag or after EXT-X-STREAM-INF is rejected; correspondence + oracle over every prefix and slide", "6.16"),
 "C17": ("theorem over the regenerated table: every hand-written into_owned rebuilds each declared field from the field of the same name and variant; the three entry points are one function in the model; correspondence: ==, dump and text of x, clone, into_owned", "6.17"),
 "C18": ("theorems: integer text round trip for all N below 2^w, hex round trip, byte range / resolution / channels round trips, all enum tables injective (regenerated), quote/unquote; float round trips validated by correspondence and sweep (partial)", "6.18"),
 "C19": ("theorems: the modelled equality/ordering/hash of KeyFormatVersions (buffer + length) and of the float wrappers are coherent; derived impls are structural; every public type's derive list regenerated and checked; correspondence: laws on pairs/triples of the implementation", "6.19"),
 "C20": ("theorems: setters commute / last wins, built playlists gap-free with documented numbering, no builder call sequence panics, parser and builder share build(); correspondence: builder scripts vs rendered text", "6.20"),
}

NOTE = ("trusted: Coq 8.16.1 kernel (vm_compute, no native_compute); no axioms (Print Assumptions: closed under the global "
        "context); extraction with ExtrOcamlBasic only; OCaml driver and Rust harness glue; translator for tables; Rust std / "
        "dependency behaviour as modelled in coq/Model and validated only by the correspondence check; default cargo features")


def main():
    claimed = []
    na = []
    ids = [json.loads(l)["id"] for l in open(os.path.join(VERIF, "properties.jsonl"))]
    for pid in ids:
        have_thm = os.path.exists(os.path.join(VERIF, "coq", "Properties", pid + ".v"))
        if pid in props.REGISTRY and have_thm:
            text, ref = LEVEL[pid]
            claimed.append({
                "property_id": pid,
                "quick_cmd": "./check %s --tier quick" % pid,
                "thorough_cmd": "./check %s --tier thorough" % pid,
                "evidence_file": "/verif/evidence/%s.json" % pid,
                "replay_cmd_template": "./check %s --replay {path}" % pid,
                "engine": "coq-model+correspondence",
                "level_claimed": {"category": "proof", "text": text, "design_ref": "DESIGN.md " + ref},
                "level_note": NOTE,
                "technique": "machine-checked proof in Coq 8.16 about a hand-written Gallina model, tied to the code by regenerated tables and a model-vs-implementation correspondence check",
            })
        else:
            na.append({"property_id": pid, "reason": "not claimed yet: the Coq property file for it is not finished (work in progress, not a limit of the technique)"})
    m = {
        "version": 1,
        "setup_cmd": "./check --setup",
        "hooks": {"guard": "none (no source hooks are needed: the harness uses the public API only)",
                  "enable": "no flag; the harness crate depends on hls_m3u8 = { path = \"/repo\" } and is rebuilt by every check",
                  "baseline_off_cmd": "cd /repo && cargo test --workspace --no-fail-fast --offline",
                  "source_commits": [], "add_only": True},
        "engines": [{"name": "coq-model+correspondence", "path": "/verif/check",
                     "serves_properties": [c["property_id"] for c in claimed],
                     "kind_free_text": "Coq 8.16 development (coq/Model, coq/Spec, coq/Proofs, coq/Properties), translator tools/extract_tables.py, extracted OCaml model ocaml/driver, Rust harness harness/, orchestrator tools/*.py"}],
        "checks": claimed,
        "not_applicable": na,
        "notes": "Genuine defects of the pinned tree were repaired by `fix:` commits in /repo and are listed in known_findings.json (status fixed); the remaining known findings print KNOWN-FINDING lines.",
    }
    with open(os.path.join(VERIF, "MANIFEST.json"), "w") as f:
        json.dump(m, f, indent=1)
    print("claimed:", [c["property_id"] for c in claimed])
    print("not claimed:", [n["property_id"] for n in na])


if __name__ == "__main__":
    main()
