#!/bin/bash
# verify_seed.sh <id> [srcdir]: confirm a seeded change in its scratch worktree /tmp/wt_<id>:
#  - the patch is what `git diff` shows, the crate builds, the existing suite passes with it,
#  - the demonstration fails with the patch and passes without it.
# Then copy patch.diff / demo.rs / meta.json to /verif/seeded/<id>/.
set -u
id=$1; src=${2:-/tmp/seed_$id}; wt=${3:-/tmp/wt_$id}
export CARGO_TARGET_DIR=$wt/target CARGO_NET_OFFLINE=true
cd $wt || exit 2
git diff > /tmp/verify_$id.diff
if ! diff -q /tmp/verify_$id.diff $src/patch.diff >/dev/null; then echo "NOTE: patch.diff differs from worktree diff (using worktree diff)"; fi
rm -f tests/seed_demo.rs
echo "== suite with patch"; cargo test --offline 2>&1 | grep -E "^test result|FAILED|error(\[|:)" | sort | uniq -c | head
cp $src/demo.rs tests/seed_demo.rs
echo "== demo with patch (must fail)"; cargo test --offline --test seed_demo 2>&1 | grep -E "^test result|^test .* (ok|FAILED)|error(\[|:)" | head
git apply -R /tmp/verify_$id.diff
echo "== demo without patch (must pass)"; cargo test --offline --test seed_demo 2>&1 | grep -E "^test result|^test .* (ok|FAILED)|error(\[|:)" | head
git apply /tmp/verify_$id.diff
rm -f tests/seed_demo.rs
mkdir -p /verif/seeded/$id && cp /tmp/verify_$id.diff /verif/seeded/$id/patch.diff && cp $src/demo.rs /verif/seeded/$id/demo.rs && cp $src/meta.json /verif/seeded/$id/meta.json
echo "== saved to /verif/seeded/$id"
