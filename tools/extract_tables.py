#!/usr/bin/env python3
"""Translator: re-reads /repo/src and regenerates coq/Generated/Tables.v.

What is read (literal tables and field-copy code only; see DESIGN.md section 7):
  * every `const PREFIX…: &'static str = "…"` of the tag types,
  * the ordered prefix dispatch chain of `impl TryFrom<&str> for Tag` in src/line.rs
    (each test is `input.starts_with(P)` or `input == P`),
  * the foreign-tag arms (`=> return Err(Error::unexpected_tag(tag))`) of both playlist parsers,
  * the strum `Display`/`EnumString` string tables,
  * constant `RequiredVersion` impls,
  * the field mapping of every hand-written `into_owned()`,
  * derive lists of public types.
It fails closed: a source shape it does not recognise raises TranslatorError, which the
check reports as a broken obligation `tables:<what>`.
"""
import json
import os
import re
import sys

SRC = os.environ.get("HLS_REPO", "/repo") + "/src"


class TranslatorError(Exception):
    pass


def read(rel):
    with open(os.path.join(SRC, rel), encoding="utf-8") as f:
        return f.read()


def strip_tests(text):
    i = text.find("#[cfg(test)]")
    return text if i < 0 else text[:i]


def all_rs():
    out = []
    for root, _, files in os.walk(SRC):
        for fn in sorted(files):
            if fn.endswith(".rs"):
                out.append(os.path.relpath(os.path.join(root, fn), SRC))
    return sorted(out)


def coq_str(s):
    return '"' + s.replace('"', '""') + '"'


# ---------------------------------------------------------------- prefixes
def prefixes():
    """type name -> {const name -> literal}"""
    res = {}
    for rel in all_rs():
        text = strip_tests(read(rel))
        # find impl blocks: remember the most recent `impl … Type` header before each const
        for m in re.finditer(r"const (PREFIX\w*): &'static str = \"([^\"]*)\";", text):
            head = text[: m.start()]
            impls = re.findall(r"impl(?:<[^>]*>)?\s+(\w+)(?:<[^>]*>)?\s*\{", head)
            if not impls:
                raise TranslatorError("prefix const outside impl in " + rel)
            res.setdefault(impls[-1], {})[m.group(1)] = m.group(2)
    return res


def pfx_name(ty, const):
    return "pfx_%s" % ty if const == "PREFIX" else "pfx_%s_%s" % (ty, const[len("PREFIX_"):])


# ---------------------------------------------------------------- dispatch
def dispatch():
    text = strip_tests(read("line.rs"))
    m = re.search(r"impl<'a> TryFrom<&'a str> for Tag<'a> \{(.*)\n\}\n", text, re.S)
    if not m:
        raise TranslatorError("Tag::try_from not found")
    body = m.group(1)
    # split into `if COND {` … `map(Self::Variant)` arms, in order
    arms = re.findall(r"if\s+(.*?)\s*\{\s*TryFrom::try_from\(input\)\.map\(Self::(\w+)\)", body, re.S)
    if not arms:
        raise TranslatorError("dispatch arms not found")
    out = []
    for cond, variant in arms:
        tests = []
        for part in re.split(r"\|\|", cond):
            part = part.strip()
            m1 = re.fullmatch(r"input\s*\.\s*starts_with\(\s*(?:tags::)?(\w+)::(PREFIX\w*)\s*\)", part, re.S)
            m2 = re.fullmatch(r"input\s*==\s*(?:tags::)?(\w+)::(PREFIX\w*)", part, re.S)
            if m1:
                tests.append(("prefix", m1.group(1), m1.group(2)))
            elif m2:
                tests.append(("exact", m2.group(1), m2.group(2)))
            else:
                raise TranslatorError("unrecognised dispatch condition: " + part)
        out.append((tests, variant))
    if not re.search(r"else\s*\{\s*Ok\(Self::Unknown\(input\)\)", body):
        raise TranslatorError("dispatch fallback is not Unknown")
    return out


def lines_next():
    """shape of Lines::next: which prefix triggers the URI pairing, and what a missing URI does"""
    text = strip_tests(read("line.rs"))
    m = re.search(r"fn next\(&mut self\) -> Option<Self::Item> \{(.*?)\n    \}\n", text, re.S)
    if not m:
        raise TranslatorError("Lines::next not found")
    body = m.group(1)
    m1 = re.search(r"if line\.starts_with\(tags::(\w+)::(PREFIX\w*)\)", body)
    if not m1:
        raise TranslatorError("stream-inf pairing test not found")
    if re.search(r"let uri = self\.lines\.next\(\)\?;", body):
        missing = "silent_end"
    elif re.search(r"self\.lines\.next\(\)", body):
        missing = "error"
    else:
        raise TranslatorError("stream-inf uri fetch not found")
    order = re.findall(r"starts_with\((\"#EXT\"|'#')\)", body)
    if order != ['"#EXT"', "'#'"]:
        raise TranslatorError("tag/comment classification order changed: %r" % order)
    return (m1.group(1), m1.group(2)), missing


# ---------------------------------------------------------------- foreign-tag arms
def reject_arms(rel):
    text = strip_tests(read(rel))
    out = []
    for m in re.finditer(r"((?:\s*\|?\s*Tag::\w+\(_\))+)\s*=>\s*\{\s*return Err\(Error::unexpected_tag\(tag\)\);", text):
        out += re.findall(r"Tag::(\w+)\(_\)", m.group(1))
    if not out:
        raise TranslatorError("no unexpected_tag arm in " + rel)
    return out


# ---------------------------------------------------------------- strum enums
def screaming_kebab(name):
    parts = re.findall(r"[A-Z][a-z]*|[0-9]+", name)
    return "-".join(p.upper() for p in parts)


def strum_enums():
    res = {}
    for rel in all_rs():
        text = strip_tests(read(rel))
        for m in re.finditer(r"#\[derive\(([^)]*)\)\]\s*#\[strum\(serialize_all = \"([^\"]+)\"\)\]\s*pub enum (\w+) \{(.*?)\n\}", text, re.S):
            derives, style, name, body = m.groups()
            if "EnumString" not in derives or "Display" not in derives:
                raise TranslatorError("strum enum %s lacks Display/EnumString" % name)
            variants = []
            pending = None
            for line in body.splitlines():
                line = line.strip()
                ms = re.fullmatch(r"#\[strum\(serialize = \"([^\"]+)\"\)\]", line)
                if ms:
                    pending = ms.group(1)
                    continue
                mv = re.fullmatch(r"(\w+),", line)
                if mv:
                    v = mv.group(1)
                    if pending is not None:
                        s = pending
                    elif style == "UPPERCASE":
                        s = v.upper()
                    elif style == "SCREAMING-KEBAB-CASE":
                        s = screaming_kebab(v)
                    else:
                        raise TranslatorError("unknown strum style " + style)
                    variants.append((v, s))
                    pending = None
                elif line and not line.startswith("//") and not line.startswith("#["):
                    raise TranslatorError("unrecognised enum line in %s: %s" % (name, line))
            res[name] = variants
    return res


# ---------------------------------------------------------------- RequiredVersion constants
def rv_consts():
    res = {}
    for rel in all_rs():
        text = strip_tests(read(rel))
        for m in re.finditer(r"impl(?:<[^>]*>)?\s+RequiredVersion for (\w+)(?:<[^>]*>)?\s*\{(.*?)\n\}\n", text, re.S):
            ty, body = m.groups()
            for fn in ("required_version", "introduced_version"):
                mf = re.search(r"fn %s\(&self\) -> ProtocolVersion \{\s*ProtocolVersion::V(\d)\s*\}" % fn, body)
                if mf:
                    res[(ty, fn)] = int(mf.group(1))
    return res


# ---------------------------------------------------------------- into_owned mappings
def split_top(s, sep=","):
    out, depth, cur = [], 0, ""
    for ch in s:
        if ch in "([{<":
            depth += 1
        elif ch in ")]}>":
            depth -= 1
        if ch == sep and depth == 0:
            out.append(cur)
            cur = ""
        else:
            cur += ch
    if cur.strip():
        out.append(cur)
    return out


def matching_brace(text, i):
    assert text[i] == "{"
    depth = 0
    for j in range(i, len(text)):
        if text[j] == "{":
            depth += 1
        elif text[j] == "}":
            depth -= 1
            if depth == 0:
                return j
    raise TranslatorError("unbalanced braces")


def strip_comments(s):
    return re.sub(r"//[^\n]*", "", s)


def field_sources(expr, bound):
    """identifiers of source fields (`self.f` or pattern variables) mentioned in expr"""
    srcs = []
    for f in re.findall(r"self\s*\.\s*(\w+)", expr):
        if f not in srcs:           # a field may be read more than once (e.g. its capacity and its elements)
            srcs.append(f)
    for b in bound:
        if re.search(r"(?<![\w.])%s(?![\w(])" % re.escape(b), expr) and b not in srcs:
            srcs.append(b)
    return srcs


def parse_struct_literal(body, bound):
    """`T { f: expr, g, … }` -> list of (target, [sources])"""
    body = strip_comments(body)
    # drop cfg(feature = "chrono") alternatives, keep not(chrono)
    body = re.sub(r"#\[cfg\(feature = \"chrono\"\)\]\s*\w+\s*:\s*[^,]*,", "", body)
    body = re.sub(r"#\[cfg\(not\(feature = \"chrono\"\)\)\]", "", body)
    out = []
    for item in split_top(body):
        item = item.strip()
        if not item:
            continue
        m = re.match(r"(\w+)\s*:\s*(.*)$", item, re.S)
        if m:
            out.append((m.group(1), field_sources(m.group(2), bound)))
        elif re.fullmatch(r"\w+", item):
            out.append((item, [item]))
        else:
            raise TranslatorError("unrecognised struct literal item: " + item)
    return out


def into_owned_maps():
    """list of (type, variant-or-'', target_field, sources)"""
    rows = []
    for rel in all_rs():
        text = strip_tests(read(rel))
        for m in re.finditer(r"pub fn into_owned\(self\) -> (\w+)<'static> \{", text):
            ty = m.group(1)
            end = matching_brace(text, m.end() - 1)
            body = text[m.end(): end]
            mm = re.search(r"match self \{", body)
            if mm:
                mend = matching_brace(body, mm.end() - 1)
                arms = body[mm.end(): mend]
                k = 0
                found = False
                while True:
                    ma = re.compile(r"\s*(?:\w+::)?(\w+)(?:\s*(\{[^}]*\}|\([^)]*\)))?\s*=>\s*").match(arms, k)
                    if not ma:
                        break
                    found = True
                    variant, pat = ma.group(1), ma.group(2) or ""
                    bound = re.findall(r"\w+", pat)
                    positional = pat.startswith("(")
                    def posmap(srcs, bound=bound, positional=positional):
                        return [str(bound.index(x)) if positional and x in bound else x for x in srcs]
                    rest = arms[ma.end():]
                    mt = re.match(r"(?:\w+::)?(\w+)\s*(\{|\()", rest)
                    if mt and mt.group(2) == "{":
                        e = matching_brace(rest, mt.end() - 1)
                        for tgt, srcs in parse_struct_literal(rest[mt.end(): e], bound):
                            rows.append((ty, variant, mt.group(1), tgt, posmap(srcs)))
                        k = ma.end() + e + 1
                    elif mt and mt.group(2) == "(":
                        depth, e = 0, None
                        for j in range(mt.end() - 1, len(rest)):
                            if rest[j] == "(":
                                depth += 1
                            elif rest[j] == ")":
                                depth -= 1
                                if depth == 0:
                                    e = j
                                    break
                        args = split_top(rest[mt.end(): e])
                        for i, a in enumerate(args):
                            rows.append((ty, variant, mt.group(1), str(i), posmap(field_sources(a, bound))))
                        k = ma.end() + e + 1
                    else:
                        mu = re.match(r"(?:\w+::)?(\w+)\s*,", rest)
                        if not mu:
                            raise TranslatorError("unrecognised into_owned arm in %s: %s" % (ty, rest[:60]))
                        rows.append((ty, variant, mu.group(1), "", []))
                        k = ma.end() + mu.end()
                    mc = re.compile(r"\s*,?\s*").match(arms, k)
                    k = mc.end()
                if not found:
                    raise TranslatorError("no arms in into_owned of " + ty)
                continue
            ms = re.search(r"(\w+)\s*\{", body)
            mt = re.search(r"(\w+)\(", body)
            if ms and (not mt or ms.start() <= mt.start()):
                e = matching_brace(body, ms.end() - 1)
                if ms.group(1) != ty:
                    raise TranslatorError("into_owned of %s builds a %s" % (ty, ms.group(1)))
                for tgt, srcs in parse_struct_literal(body[ms.end(): e], []):
                    rows.append((ty, "", "", tgt, srcs))
            elif mt:
                inner = body[mt.end(): body.rfind(")")]
                if mt.group(1) != ty:
                    raise TranslatorError("into_owned of %s builds a %s" % (ty, mt.group(1)))
                for i, a in enumerate(split_top(inner)):
                    srcs = re.findall(r"self\s*\.\s*(\w+)", a)
                    rows.append((ty, "", "", str(i), srcs))
            else:
                raise TranslatorError("unrecognised into_owned body for " + ty)
    return rows


def struct_fields():
    """public struct name -> list of field names (non-chrono configuration)"""
    res = {}
    for rel in all_rs():
        text = strip_tests(read(rel))
        for m in re.finditer(r"\npub struct (\w+)(?:<[^>]*>)?\s*\{", text):
            end = matching_brace(text, m.end() - 1)
            body = strip_comments(text[m.end(): end])
            body = re.sub(r"#\[cfg\(feature = \"chrono\"\)\]\s*(?:#\[[^\]]*\]\s*)*(?:pub(?:\([^)]*\))?\s+)?\w+\s*:\s*[^,]*,", "", body)
            fields = re.findall(r"(?:^|\n)\s*(?:pub(?:\([^)]*\))?\s+)?(\w+)\s*:\s*[^,\n]+,", body)
            res[m.group(1)] = fields
        for m in re.finditer(r"\npub struct (\w+)(?:<[^>]*>)?\s*\(([^;]*)\);", text):
            res[m.group(1)] = [str(i) for i, _ in enumerate(split_top(m.group(2)))]
    return res


def enum_variants():
    res = {}
    for rel in all_rs():
        text = strip_tests(read(rel))
        for m in re.finditer(r"\npub enum (\w+)(?:<[^>]*>)?\s*\{", text):
            end = matching_brace(text, m.end() - 1)
            body = strip_comments(text[m.end(): end])
            variants = {}
            k = 0
            while True:
                mv = re.compile(r"\s*(?:#\[[^\]]*\]\s*)*(\w+)\s*(\{|\(|,|$)").match(body, k)
                if not mv or not mv.group(1):
                    break
                name, opener = mv.group(1), mv.group(2)
                if opener == "{":
                    e = matching_brace(body, mv.end() - 1)
                    fields = re.findall(r"(\w+)\s*:", body[mv.end(): e])
                    variants[name] = fields
                    k = e + 1
                elif opener == "(":
                    e = body.index(")", mv.end())
                    variants[name] = [str(i) for i, _ in enumerate(split_top(body[mv.end(): e]))]
                    k = e + 1
                else:
                    variants[name] = []
                    k = mv.end() - (1 if opener == "," else 0)
                mc = re.compile(r"\s*,?").match(body, k)
                k = mc.end()
                if k >= len(body):
                    break
            res[m.group(1)] = variants
    return res


def derive_lists():
    res = {}
    for rel in all_rs():
        text = strip_tests(read(rel))
        for m in re.finditer(r"((?:#\[[^\]]*\]\s*)+)pub(?:\(crate\))? (?:struct|enum) (\w+)", text, re.S):
            attrs, name = m.groups()
            ds = []
            for d in re.findall(r"#\[derive\(([^)]*)\)\]", attrs, re.S):
                ds += [x.strip() for x in d.split(",") if x.strip()]
            res[name] = ds
    return res


def manual_impls():
    """(trait, type) pairs of hand-written PartialEq/Eq/Ord/PartialOrd/Hash impls"""
    out = []
    for rel in all_rs():
        text = strip_tests(read(rel))
        for m in re.finditer(r"impl(?:<[^>]*>)?\s+(?:::core::hash::|core::hash::|std::hash::)?(PartialEq|Eq|PartialOrd|Ord|Hash)(?:<[^>]*>)? for (\w+)", text):
            out.append((m.group(1), m.group(2)))
    return sorted(set(out))


# ---------------------------------------------------------------- emit
# ---- attribute tables: which attribute names each attribute-list parser matches and how it treats the value;
# which attribute names each Display impl writes and whether the value is quoted
ATTR_SITES = [
    ("ExtXMedia", "tags/master_playlist/media.rs"),
    ("ExtXSessionData", "tags/master_playlist/session_data.rs"),
    ("DecryptionKey", "types/decryption_key.rs"),
    ("StreamData", "types/stream_data.rs"),
    ("VariantStream", "tags/master_playlist/variant_stream.rs"),
    ("ExtXStart", "tags/shared/start.rs"),
    ("ExtXMap", "tags/media_segment/map.rs"),
    ("ExtXDateRange", "tags/media_segment/date_range.rs"),
]
VOCAB = ["unquote", "parse_yes_or_no", "parse", "try_from", "try_into", "trim", "from_secs_f64", "try_from_secs_f64"]

def matching_any(text, i, o="{", c="}"):
    d = 0
    for j in range(i, len(text)):
        if text[j] == o: d += 1
        elif text[j] == c:
            d -= 1
            if d == 0: return j
    raise TranslatorError("unbalanced")

def parser_arms(text):
    """arms of the LAST `for (key, value) in AttributePairs::new(..) { match key {` block (VariantStream has its
    loop in the stream-inf branch)"""
    out = []
    for m in re.finditer(r"for \(key, value\) in AttributePairs::new\([^)]*\)\s*\{", text):
        b = m.end() - 1
        e = matching_any(text, b)
        body = text[b + 1:e]
        mm = re.search(r"match key\s*\{", body)
        if not mm:
            raise TranslatorError("no match key")
        mb = mm.end() - 1
        me = matching_any(body, mb)
        arms_text = body[mb + 1:me]
        arms = list(re.finditer(r'(?m)^\s*("(?:[^"\\]|\\.)*"(?:\s*\|\s*"(?:[^"\\]|\\.)*")*|_(?:\s+if\s+[^=]+?)?)\s*=>\s*', arms_text))
        res = []
        for k, am in enumerate(arms):
            nxt = arms[k + 1].start() if k + 1 < len(arms) else len(arms_text)
            abody = re.sub(r"//[^\n]*", "", arms_text[am.end():nxt])
            toks = [v for v in VOCAB if re.search(r"\b" + v + r"\b", abody)]
            tys = re.findall(r"parse::<\s*([A-Za-z0-9_]+)", abody) + re.findall(r"\b([A-Z][A-Za-z0-9]+)::try_from\(", abody)
            res.append((am.group(1).strip(), "+".join(toks + tys) or "store", "?" in abody))
        out.append(res)
    return out

def display_attrs(text, ty):
    m = re.search(r"impl(?:<[^>]*>)?\s+fmt::Display\s+for\s+" + ty + r"\b[^{]*\{", text)
    if not m:
        return None
    b = m.end() - 1
    e = matching_any(text, b)
    body = text[b:e]
    res = []
    for wm in re.finditer(r'write!\(\s*f\s*,\s*"((?:[^"\\]|\\.)*)"\s*(?:,\s*([^;]*?))?\)\?', body, re.S):
        fmt, args = wm.group(1), wm.group(2) or ""
        # split args at top-level commas
        parts, d, cur = [], 0, ""
        for ch in args:
            if ch in "([{": d += 1
            elif ch in ")]}": d -= 1
            if ch == "," and d == 0:
                parts.append(cur.strip()); cur = ""
            else:
                cur += ch
        if cur.strip(): parts.append(cur.strip())
        ph = 0
        for tm in re.finditer(r"\{[^}]*\}|([A-Z][A-Z0-9-]*)=(\{[^}]*\}|[A-Z]+)", fmt):
            if tm.group(1) is None:
                ph += 1; continue
            name, val = tm.group(1), tm.group(2)
            if val.startswith("{"):
                arg = parts[ph] if ph < len(parts) else ""
                ph += 1
                kind = "quote" if "quote(" in arg else "plain"
            else:
                kind = "lit:" + val
            if not res or res[-1] != (name, kind):
                res.append((name, kind))
    return res


def attr_tables():
    P, D = [], []
    for ty, rel in ATTR_SITES:
        t = strip_tests(read(rel))
        arms = parser_arms(t)
        if not arms:
            raise TranslatorError("no attribute loop in " + rel)
        rows = [(a.strip('"') if a.startswith('"') else a, b, c) for a, b, c in arms[-1]]
        # the arms match distinct literals, so their order is irrelevant: sorted, catch-all last
        rows.sort(key=lambda r: (r[0].startswith('_'), r[0]))
        P.append((ty, rows))
        d = display_attrs(t, ty)
        if d is None:
            raise TranslatorError("no Display impl for " + ty)
        D.append((ty, d))
    return P, D


def reserve_before_insert():
    """in MediaPlaylistBuilder::push_segment and ::segments every `X.insert(i, ..)` on the segment vector directly follows
    `X.reserve_for(i)` on the same receiver with the same index expression (StableVec::insert panics beyond the capacity)"""
    text = strip_comments(strip_tests(read("media_playlist.rs")))
    ok = True
    found = 0
    for fn in ("push_segment", "segments"):
        m = re.search(r"pub fn %s\(&mut self[^{]*\{" % fn, text)
        if not m:
            return False
        body = text[m.end() - 1: matching_brace(text, m.end() - 1)]
        for ins in re.finditer(r"(\w+)\.insert\(([^,]+),", body):
            found += 1
            before = body[: ins.start()].rstrip()
            want = "%s.reserve_for(%s);" % (ins.group(1), ins.group(2).strip())
            if not before.endswith(want):
                ok = False
    return ok and found >= 2


def generate():
    pf = prefixes()
    disp = dispatch()
    (pair_ty, pair_const), missing = lines_next()
    rej_master = reject_arms("master_playlist.rs")
    rej_media = reject_arms("media_playlist.rs")
    enums = strum_enums()
    rvs = rv_consts()
    # sections only particular properties depend on are read fail-soft: a source shape the reader
    # does not recognise empties the section and clears its flag, so that exactly the theorems
    # about that section stop checking (C17: into_owned; C19: derive lists / manual impls)
    failed = {}
    try:
        owned = into_owned_maps()
        sfields = struct_fields()
        evars = enum_variants()
        for ty in sorted(set(o[0] for o in owned)):
            if ty not in sfields and ty not in evars:
                raise TranslatorError("into_owned type %s has no readable declaration" % ty)
    except TranslatorError as e:
        failed["into_owned"] = str(e)
        owned, sfields, evars = [], {}, {}
    try:
        derives = derive_lists()
        manual = manual_impls()
    except TranslatorError as e:
        failed["derives"] = str(e)
        derives, manual = {}, []

    try:
        attrP, attrD = attr_tables()
    except (TranslatorError, ValueError, IndexError) as e:
        failed["attrs"] = str(e)
        attrP, attrD = [], []

    L = []
    L.append("(* GENERATED by tools/extract_tables.py from %s — do not edit. *)" % SRC)
    L.append("From hls Require Import Base Kinds.")
    L.append("Local Open Scope string_scope.")
    L.append("Local Open Scope N_scope.")
    L.append("")
    for ty in sorted(pf):
        for const in sorted(pf[ty]):
            L.append("Definition %s : str := Eval vm_compute in lit %s." % (pfx_name(ty, const), coq_str(pf[ty][const])))
    L.append("")
    L.append("(* ordered dispatch chain of Tag::try_from: (exact?, prefix, variant) *)")
    rows = []
    for tests, variant in disp:
        for kind, ty, const in tests:
            if ty not in pf or const not in pf[ty]:
                raise TranslatorError("dispatch refers to unknown prefix %s::%s" % (ty, const))
            rows.append("(%s, %s, K_%s)" % ("true" if kind == "exact" else "false", pfx_name(ty, const), variant))
    L.append("Definition dispatch_table : list (bool * str * kind) :=\n  [ " + ";\n    ".join(rows) + " ].")
    L.append("")
    L.append("Definition pairing_prefix : str := %s." % pfx_name(pair_ty, pair_const))
    L.append("Definition missing_uri_is_error : bool := %s." % ("true" if missing == "error" else "false"))
    try:
        rbi = reserve_before_insert()
    except Exception:
        rbi = False
    L.append("(* MediaPlaylistBuilder::push_segment / ::segments: every insert into the segment vector directly follows reserve_for *)")
    L.append("Definition reserve_before_insert : bool := %s." % ("true" if rbi else "false"))
    L.append("")
    L.append("Definition master_rejects : list kind := [ " + "; ".join("K_" + v for v in rej_master) + " ].")
    L.append("Definition media_rejects : list kind := [ " + "; ".join("K_" + v for v in rej_media) + " ].")
    L.append("")
    for name in sorted(enums):
        L.append("Definition enum_%s : list str := Eval vm_compute in\n  [ %s ]." % (
            name, ";\n    ".join("lit %s" % coq_str(s) for _, s in enums[name])))
    L.append("")
    for (ty, fn) in sorted(rvs):
        L.append("Definition rv_%s_%s : N := %d." % (ty, "req" if fn == "required_version" else "intro", rvs[(ty, fn)]))
    L.append("")
    L.append("Definition into_owned_section_ok : bool := %s." % ("false" if "into_owned" in failed else "true"))
    L.append("Definition derive_section_ok : bool := %s." % ("false" if "derives" in failed else "true"))
    L.append("(* into_owned field mappings: (type, source variant, built variant, target field, source fields) *)")
    rows = []
    for ty, variant, dvariant, tgt, srcs in owned:
        rows.append("(%s, %s, %s, %s, [%s])" % (coq_str(ty), coq_str(variant), coq_str(dvariant), coq_str(tgt), "; ".join(coq_str(s) for s in srcs)))
    L.append("Definition into_owned_table : list (string * string * string * string * list string) :=\n  [ " + ";\n    ".join(rows) + " ].")
    L.append("")
    L.append("(* declared fields of the types that have an into_owned: (type, variant, field) *)")
    rows = []
    owned_types = sorted(set(o[0] for o in owned))
    for ty in owned_types:
        if ty in sfields:
            for f in sfields[ty]:
                rows.append("(%s, %s, %s)" % (coq_str(ty), coq_str(""), coq_str(f)))
        elif ty in evars:
            for v in evars[ty]:
                if evars[ty][v]:
                    for f in evars[ty][v]:
                        rows.append("(%s, %s, %s)" % (coq_str(ty), coq_str(v), coq_str(f)))
                else:
                    rows.append("(%s, %s, %s)" % (coq_str(ty), coq_str(v), coq_str("")))
        else:
            raise TranslatorError("into_owned type %s has no readable declaration" % ty)
    L.append("Definition declared_fields : list (string * string * string) :=\n  [ " + ";\n    ".join(rows) + " ].")
    L.append("")
    L.append("(* derive lists of the public types and hand-written comparison impls *)")
    rows = []
    for name in sorted(derives):
        rows.append("(%s, [%s])" % (coq_str(name), "; ".join(coq_str(d) for d in derives[name])))
    L.append("Definition derive_table : list (string * list string) :=\n  [ " + ";\n    ".join(rows) + " ].")
    rows = ["(%s, %s)" % (coq_str(t), coq_str(ty)) for t, ty in manual]
    L.append("Definition manual_impl_table : list (string * string) :=\n  [ " + ";\n    ".join(rows) + " ].")
    L.append("")
    L.append("(* attribute names matched by each attribute-list parser: (name, treatment of the value, fallible) *)")
    L.append("Definition attr_section_ok : bool := %s." % ("false" if "attrs" in failed else "true"))
    rows = ["(%s, [%s])" % (coq_str(ty), "; ".join("(%s, %s, %s)" % (coq_str(a), coq_str(b), "true" if c else "false") for a, b, c in arms)) for ty, arms in attrP]
    L.append("Definition parser_attr_table : list (string * list (string * string * bool)) :=\n  [ " + ";\n    ".join(rows) + " ].")
    rows = ["(%s, [%s])" % (coq_str(ty), "; ".join("(%s, %s)" % (coq_str(a), coq_str(b)) for a, b in d)) for ty, d in attrD]
    L.append("Definition display_attr_table : list (string * list (string * string)) :=\n  [ " + ";\n    ".join(rows) + " ].")
    L.append("")
    info = {
        "prefixes": pf, "dispatch": [[t, v] for t, v in disp], "missing_uri": missing,
        "master_rejects": rej_master, "media_rejects": rej_media,
        "enums": {k: v for k, v in enums.items()},
        "rv": {"%s.%s" % k: v for k, v in rvs.items()},
        "into_owned_rows": len(owned), "manual_impls": manual, "failed_sections": failed,
    }
    return "\n".join(L) + "\n", info


def main():
    out = sys.argv[1] if len(sys.argv) > 1 else "/verif/coq/Generated/Tables.v"
    try:
        text, info = generate()
    except TranslatorError as e:
        print("TRANSLATOR-ERROR: %s" % e)
        sys.exit(3)
    old = None
    if os.path.exists(out):
        with open(out, encoding="utf-8") as f:
            old = f.read()
    if old != text:
        with open(out, "w", encoding="utf-8") as f:
            f.write(text)
    with open(out + ".json", "w", encoding="utf-8") as f:
        json.dump(info, f, indent=1, sort_keys=True)
    print("tables: %s (%s)" % (out, "unchanged" if old == text else "rewritten"))
    for k, v in sorted(info["failed_sections"].items()):
        print("TRANSLATOR-SECTION-FAILED: %s: %s" % (k, v))


if __name__ == "__main__":
    main()
