#!/bin/bash
# coverage.sh [tier]: which lines of /repo/src do the inputs of ALL checks reach?
# Builds the harness with -C instrument-coverage (nightly llvm-tools), runs every check with that
# binary, merges the profiles and prints the uncovered regions of /repo/src (tests excluded).
# A diagnostic for generator blind spots, not a check; scratch under /tmp is removed at the end.
set -u
tier=${1:-quick}
T=/tmp/verif_cov; rm -rf $T; mkdir -p $T/prof
LLVM=$(dirname $(find ~/.rustup/toolchains/nightly-x86_64-unknown-linux-gnu -name llvm-cov | head -1))
cd /verif/harness
LLVM_PROFILE_FILE=$T/prof/build-%p.profraw CARGO_NET_OFFLINE=true CARGO_TARGET_DIR=$T/target RUSTFLAGS="-C instrument-coverage" cargo +nightly build --release --offline 2>&1 | tail -2
export VERIF_HARNESS_BIN=$T/target/release/hls_harness LLVM_PROFILE_FILE=$T/prof/%p-%m.profraw
cd /verif
for i in $(seq -w 1 20); do ./check C$i --tier $tier 2>&1 | tail -1; done
$LLVM/llvm-profdata merge -sparse $T/prof/*.profraw -o $T/all.profdata
$LLVM/llvm-cov report $VERIF_HARNESS_BIN -instr-profile=$T/all.profdata --ignore-filename-regex='(registry|rustc|harness/src)' 2>/dev/null > /verif/.cache/coverage_report.txt
$LLVM/llvm-cov show $VERIF_HARNESS_BIN -instr-profile=$T/all.profdata --ignore-filename-regex='(registry|rustc|harness/src)' --show-line-counts-or-regions 2>/dev/null > /verif/.cache/coverage_show.txt
tail -3 /verif/.cache/coverage_report.txt
rm -rf $T
