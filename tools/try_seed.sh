#!/bin/bash
export VERIF_SCRATCH_EVIDENCE=${VERIF_SCRATCH_EVIDENCE:-/tmp/verif_seed_evidence}   # evidence of runs against a seeded tree is not evidence about /repo
# try_seed.sh <seed-id> <check-id>...: apply seeded/<seed-id>/patch.diff to /repo, run the checks, undo.
sid=$1; shift
git -C /repo apply /verif/seeded/$sid/patch.diff || exit 2
for c in "$@"; do
  echo "--- check $c against seed $sid"
  timeout 1800 /verif/check $c --tier quick 2>&1 | tail -4
  echo "exit=$?"
done
git -C /repo checkout -- .
