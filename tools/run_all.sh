#!/bin/bash
# run_all.sh [tier]: every check once on the current tree; one summary line per check
tier=${1:-quick}
for i in $(seq -w 1 20); do
  s=$(date +%s); out=$("$(cd "$(dirname "$0")/.." && pwd)"/check C$i --tier $tier 2>&1); ec=$?; e=$(date +%s)
  echo "C$i exit=$ec t=$((e-s))s viol=$(echo "$out" | grep -c '^VIOLATION') known=$(echo "$out" | grep -c '^KNOWN-FINDING')"
  echo "$out" | grep '^VIOLATION' | head -3
done
