(* C18 (continued) — the float / duration hypotheses decided on bounded decimal grids.  Kept in a file of its own: these
   theorems are checked by coqc's kernel with vm_compute (thousands of evaluations); the independent re-check with coqchk, which
   has no VM, covers Properties/C18.v but not this file. *)
From hls Require Import Base Float Lex Kinds Types Tags.
From hls.Proofs Require Import TagText TagTextSegment Sweep SweepFloat SweepAll.
Open Scope N_scope.

(* the float / duration hypotheses DECIDED on bounded decimal grids (every value evaluated by the kernel's VM, lifted with
   forallb_forall; the bound is part of the statement): every duration below 12 s with millisecond precision, every frame rate
   that is a multiple of 0.01 up to 61.00 plus the standard rates with three decimals (23.976 ... 240), every time offset
   that is a multiple of 0.1 with |x| <= 300.  The unbounded statements (every finite f32, every duration below 10^6 s with
   nanosecond precision) stay hypotheses of the tag theorems. *)
Theorem C18_duration_ms_sweep : forall ms, ms < 12000 -> dur_rt (ms * 1000000) = true.
Proof. exact duration_ms_sweep. Qed.
Check C18_duration_ms_sweep : forall ms, ms < 12000 -> dur_rt (ms * 1000000) = true.
Print Assumptions C18_duration_ms_sweep.

Theorem C18_frame_rate_sweep :
  (forall n, n <= 6100 -> ufloat_rt (f32_of_dec false n (-2)) = true)
  /\ (forall n, In n standard_rates -> ufloat_rt (f32_of_dec false n (-3)) = true).
Proof. exact frame_rate_sweep. Qed.
Check C18_frame_rate_sweep :
  (forall n, n <= 6100 -> ufloat_rt (f32_of_dec false n (-2)) = true)
  /\ (forall n, In n standard_rates -> ufloat_rt (f32_of_dec false n (-3)) = true).
Print Assumptions C18_frame_rate_sweep.

Theorem C18_time_offset_sweep : forall n, n <= 3000 ->
  float_rt (f32_of_dec false n (-1)) = true /\ float_rt (f32_of_dec true n (-1)) = true.
Proof. exact time_offset_sweep. Qed.
Check C18_time_offset_sweep : forall n, n <= 3000 ->
  float_rt (f32_of_dec false n (-1)) = true /\ float_rt (f32_of_dec true n (-1)) = true.
Print Assumptions C18_time_offset_sweep.

