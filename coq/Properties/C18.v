(* C18 — every attribute/tag value type round-trips through its own text form.  Proved for the
   integer-, hex- and table-based types and for EVERY TAG (C18_tags_*: the printed line goes through
   `tag`, the attribute tokenizer and the tag's own parser and gives the value back, for every
   well-formed value).  The float types (Float, UFloat, durations) enter the tag theorems through
   decidable hypotheses on the modelled std conversions (float_rt, ufloat_rt, dur_rt), which are
   validated by the correspondence check and a sweep, not proved (open, see evidence). *)
From hls Require Import Base Float Lex Kinds Types Tags Line Keys Media.
From hls.Generated Require Import Tables.
From hls Require Import Master.
From hls.Proofs Require Import Build Lexical Values TextLines AttrText TagText TagTextMedia TagTextVariant TagTextSegment TagTextDateRange FloatRound FloatGuard FloatAll MediaParsedWf MediaParsedFloats FloatFixed3.
Open Scope N_scope.

Theorem C18_uint : forall w n, n < 2 ^ w -> parse_uint w (print_uint n) = Some n.
Proof. exact parse_print_uint. Qed.
Check C18_uint : forall w n, n < 2 ^ w -> parse_uint w (print_uint n) = Some n.
Print Assumptions C18_uint.

Theorem C18_byte_range : forall r,
  br_end r < two64 -> (match br_start r with Some s => s <= br_end r | None => True end) ->
  parse_byte_range (print_byte_range r) = Ok r.
Proof. exact byte_range_roundtrip. Qed.
Check C18_byte_range : forall r,
  br_end r < two64 -> (match br_start r with Some s => s <= br_end r | None => True end) ->
  parse_byte_range (print_byte_range r) = Ok r.
Print Assumptions C18_byte_range.

Theorem C18_resolution : forall w h, w < two64 -> h < two64 ->
  parse_resolution (print_resolution (w, h)) = Ok (w, h).
Proof. exact resolution_roundtrip. Qed.
Check C18_resolution : forall w h, w < two64 -> h < two64 ->
  parse_resolution (print_resolution (w, h)) = Ok (w, h).
Print Assumptions C18_resolution.

Theorem C18_channels : forall c, ch_number c < two64 -> parse_channels (print_channels c) = Ok c.
Proof. exact channels_roundtrip. Qed.
Check C18_channels : forall c, ch_number c < two64 -> parse_channels (print_channels c) = Ok c.
Print Assumptions C18_channels.

Theorem C18_hex : forall u bs, forallb (fun b => b <? 256) bs = true -> hex_decode (hex_encode u bs) = Some bs.
Proof. exact hex_roundtrip. Qed.
Check C18_hex : forall u bs, forallb (fun b => b <? 256) bs = true -> hex_decode (hex_encode u bs) = Some bs.
Print Assumptions C18_hex.

Theorem C18_iv : forall bs, List.length bs = 16%nat -> forallb (fun b => b <? 256) bs = true ->
  parse_iv (s_0x ++ hex_encode false bs) = Ok (IvAes bs).
Proof. exact iv_roundtrip. Qed.
Check C18_iv : forall bs, List.length bs = 16%nat -> forallb (fun b => b <? 256) bs = true ->
  parse_iv (s_0x ++ hex_encode false bs) = Ok (IvAes bs).
Print Assumptions C18_iv.

(* every variant of every strum enum (tables regenerated from the source) *)
Theorem C18_enums : forall tbl i, enum_table_ok tbl = true -> (i < List.length tbl)%nat ->
  enum_parse tbl (enum_print tbl (N.of_nat i)) = Ok (N.of_nat i).
Proof. exact enum_roundtrip. Qed.
Check C18_enums : forall tbl i, enum_table_ok tbl = true -> (i < List.length tbl)%nat ->
  enum_parse tbl (enum_print tbl (N.of_nat i)) = Ok (N.of_nat i).
Print Assumptions C18_enums.

Theorem C18_enum_tables :
  enum_table_ok enum_EncryptionMethod = true /\ enum_table_ok enum_MediaType = true
  /\ enum_table_ok enum_HdcpLevel = true /\ enum_table_ok enum_InStreamId = true.
Proof. exact enum_tables_ok. Qed.
Check C18_enum_tables :
  enum_table_ok enum_EncryptionMethod = true /\ enum_table_ok enum_MediaType = true
  /\ enum_table_ok enum_HdcpLevel = true /\ enum_table_ok enum_InStreamId = true.
Print Assumptions C18_enum_tables.

Theorem C18_protocol_version : forall v, 1 <= v <= 7 ->
  parse_protocol_version (print_protocol_version v) = Ok v.
Proof. exact protocol_version_roundtrip. Qed.
Check C18_protocol_version : forall v, 1 <= v <= 7 ->
  parse_protocol_version (print_protocol_version v) = Ok v.
Print Assumptions C18_protocol_version.

Theorem C18_quoted_strings : forall s, clean_quoted s = true -> unquote (quote s) = s.
Proof. exact unquote_quote. Qed.
Check C18_quoted_strings : forall s, clean_quoted s = true -> unquote (quote s) = s.
Print Assumptions C18_quoted_strings.

(* the float types accept exactly the finite (UFloat: non-negative-sign) numbers — by definition
   of the model's parser in terms of the modelled f32 conversion *)
Theorem C18_float_accepts : forall s x, parse_float s = Ok x -> f_is_finite x = true.
Proof.
  intros s x H. unfold parse_float in H. destruct (parse_f32 s) as [y| |]; simpl in H; try discriminate.
  destruct (f_is_finite y) eqn:E; inversion H; subst; assumption.
Qed.
Check C18_float_accepts : forall s x, parse_float s = Ok x -> f_is_finite x = true.
Print Assumptions C18_float_accepts.

Theorem C18_ufloat_accepts : forall s x, parse_ufloat s = Ok x -> f_is_finite x = true /\ f_is_neg x = false.
Proof.
  intros s x H. unfold parse_ufloat in H. destruct (parse_f32 s) as [y| |]; simpl in H; try discriminate.
  destruct (f_is_finite y && negb (f_is_neg y)) eqn:E; inversion H; subst.
  apply andb_true_iff in E. destruct E as [E1 E2]. apply negb_true_iff in E2. tauto.
Qed.
Check C18_ufloat_accepts : forall s x, parse_ufloat s = Ok x -> f_is_finite x = true /\ f_is_neg x = false.
Print Assumptions C18_ufloat_accepts.

(* ---------- composite values ---------- *)
Theorem C18_composites :
  (forall f, kf_wf f = true -> parse_key_format (quote (print_key_format f)) = f)
  /\ (forall v, kfv_wf v = true -> parse_kfv (print_kfv v) = Ok v)
  /\ (forall c, cc_wf c = true -> parse_cc (print_cc c) = c)
  /\ (forall c, wf_codecs c = true -> parse_codecs (unquote (quote (print_codecs c))) = c)
  /\ (forall v, wf_value v = true -> parse_value (print_value v) = Ok v)
  /\ (forall k, wf_key k = true -> parse_decryption_key (print_decryption_key k) = Ok k).
Proof.
  repeat split.
  - exact key_format_text. - exact kfv_text. - exact cc_text. - exact codecs_text. - exact value_text.
  - exact decryption_key_text.
Qed.
Check C18_composites :
  (forall f, kf_wf f = true -> parse_key_format (quote (print_key_format f)) = f)
  /\ (forall v, kfv_wf v = true -> parse_kfv (print_kfv v) = Ok v)
  /\ (forall c, cc_wf c = true -> parse_cc (print_cc c) = c)
  /\ (forall c, wf_codecs c = true -> parse_codecs (unquote (quote (print_codecs c))) = c)
  /\ (forall v, wf_value v = true -> parse_value (print_value v) = Ok v)
  /\ (forall k, wf_key k = true -> parse_decryption_key (print_decryption_key k) = Ok k).
Print Assumptions C18_composites.

(* ---------- every tag of a master playlist ---------- *)
Theorem C18_tags_master :
  (forall m, wf_xmedia m = true -> parse_xmedia (print_xmedia m) = Ok m)
  /\ (forall u fr au su cc sd, wf_variant (VStreamInf u fr au su cc sd) = true ->
        parse_streaminf (streaminf_line fr au su cc sd) u = Ok (VStreamInf u fr au su cc sd))
  /\ (forall u sd, wf_variant (VIFrame u sd) = true -> parse_iframe (print_variant (VIFrame u sd)) = Ok (VIFrame u sd))
  /\ (forall d, wf_sdata d = true -> parse_session_data (print_session_data d) = Ok d)
  /\ (forall k, wf_key k = true -> parse_session_key (print_session_key k) = Ok k)
  /\ (forall s, wf_start s = true -> parse_start (print_start s) = Ok s).
Proof.
  repeat split.
  - intros m H. apply (xmedia_text m H).
  - intros. apply (streaminf_text u fr au su cc sd H).
  - intros u sd H. apply (iframe_text u sd H).
  - intros d H. apply (session_data_text d H).
  - intros k H. apply (session_key_text k H).
  - intros s H. apply (start_text s H).
Qed.
Check C18_tags_master :
  (forall m, wf_xmedia m = true -> parse_xmedia (print_xmedia m) = Ok m)
  /\ (forall u fr au su cc sd, wf_variant (VStreamInf u fr au su cc sd) = true ->
        parse_streaminf (streaminf_line fr au su cc sd) u = Ok (VStreamInf u fr au su cc sd))
  /\ (forall u sd, wf_variant (VIFrame u sd) = true -> parse_iframe (print_variant (VIFrame u sd)) = Ok (VIFrame u sd))
  /\ (forall d, wf_sdata d = true -> parse_session_data (print_session_data d) = Ok d)
  /\ (forall k, wf_key k = true -> parse_session_key (print_session_key k) = Ok k)
  /\ (forall s, wf_start s = true -> parse_start (print_start s) = Ok s).
Print Assumptions C18_tags_master.

(* ---------- every tag of a media playlist ---------- *)
Theorem C18_tags_media :
  (forall k, match k with Some d => wf_key d = true | None => True end -> parse_xkey (print_xkey k) = Ok k)
  /\ (forall m, wf_xmap m = true ->
        parse_xmap (print_xmap m) = Ok {| map_uri := map_uri m; map_range := map_range m; map_keys := [] |})
  /\ (forall r, wf_range r = true -> parse_xbyterange (print_xbyterange r) = Ok r)
  /\ (forall i, wf_extinf i = true -> parse_extinf (print_extinf i) = Ok i)
  /\ (forall d, wf_daterange d = true -> parse_daterange (print_daterange d) = Ok d)
  /\ (forall s, good_line (print_pdt s) = true -> parse_pdt (print_pdt s) = Ok s)
  /\ (forall n, n < two64 -> parse_target_duration (pfx_ExtXTargetDuration ++ print_uint n) = Ok n)
  /\ (forall n, n < two64 -> parse_media_sequence (pfx_ExtXMediaSequence ++ print_uint n) = Ok n)
  /\ (forall n, n < two64 -> parse_disc_sequence (pfx_ExtXDiscontinuitySequence ++ print_uint n) = Ok n)
  /\ (forall t, t < 2 -> parse_playlist_type (print_playlist_type t) = Ok t)
  /\ (forall v, 1 <= v <= 7 -> parse_version (pfx_ExtXVersion ++ print_protocol_version v) = Ok v).
Proof.
  repeat split.
  - intros k H. apply (xkey_text k H).
  - intros m H. apply (xmap_text m H).
  - intros r H. apply (xbyterange_text r H).
  - intros i H. apply (extinf_text i H).
  - intros d H. apply (daterange_text d H).
  - exact pdt_text.
  - intros n H. apply (target_duration_text n H).
  - intros n H. apply (media_sequence_text n H).
  - intros n H. apply (disc_sequence_text n H).
  - intros t H. apply (playlist_type_text t H).
  - exact version_text.
Qed.
Check C18_tags_media :
  (forall k, match k with Some d => wf_key d = true | None => True end -> parse_xkey (print_xkey k) = Ok k)
  /\ (forall m, wf_xmap m = true ->
        parse_xmap (print_xmap m) = Ok {| map_uri := map_uri m; map_range := map_range m; map_keys := [] |})
  /\ (forall r, wf_range r = true -> parse_xbyterange (print_xbyterange r) = Ok r)
  /\ (forall i, wf_extinf i = true -> parse_extinf (print_extinf i) = Ok i)
  /\ (forall d, wf_daterange d = true -> parse_daterange (print_daterange d) = Ok d)
  /\ (forall s, good_line (print_pdt s) = true -> parse_pdt (print_pdt s) = Ok s)
  /\ (forall n, n < two64 -> parse_target_duration (pfx_ExtXTargetDuration ++ print_uint n) = Ok n)
  /\ (forall n, n < two64 -> parse_media_sequence (pfx_ExtXMediaSequence ++ print_uint n) = Ok n)
  /\ (forall n, n < two64 -> parse_disc_sequence (pfx_ExtXDiscontinuitySequence ++ print_uint n) = Ok n)
  /\ (forall t, t < 2 -> parse_playlist_type (print_playlist_type t) = Ok t)
  /\ (forall v, 1 <= v <= 7 -> parse_version (pfx_ExtXVersion ++ print_protocol_version v) = Ok v).
Print Assumptions C18_tags_media.

(* the float hypotheses hold for sample values (decidable, evaluated) *)
(* two steps towards the unbounded float statements, proved for every format and every rational: the rounding the modelled
   parser applies (Model/Float.v rnd_pos: exponent from a log2 estimate, floor, round-half-even, renormalisation) depends on
   the VALUE n/d only, not on how numerator and denominator are written (so "1.50", "1.5" and "15e-1" cannot round
   differently), and every representable value — normal or subnormal — is a fixed point (so an exactly printed value reads
   back as itself).  Still open for the unbounded statements: that the shortest-digits search always ends within 17 (9)
   digits, and the text layer of the number grammar. *)
Theorem C18_rounding_by_value : forall f neg n d n' d', (0 < prec f)%Z -> (0 < n)%Z -> (0 < d)%Z -> (0 < n')%Z -> (0 < d')%Z -> (n * d' = n' * d)%Z ->
  rnd_pos f neg n d = rnd_pos f neg n' d'.
Proof. exact rnd_pos_ratio. Qed.
Check C18_rounding_by_value : forall f neg n d n' d', (0 < prec f)%Z -> (0 < n)%Z -> (0 < d)%Z -> (0 < n')%Z -> (0 < d')%Z -> (n * d' = n' * d)%Z ->
  rnd_pos f neg n d = rnd_pos f neg n' d'.
Print Assumptions C18_rounding_by_value.

Theorem C18_representable_exact : forall f neg m e, (0 < prec f)%Z -> canonical f m e ->
  rnd_pos f neg (fst (rat_of m e)) (snd (rat_of m e)) = FFin neg m e.
Proof. exact rnd_pos_fixpoint. Qed.
Check C18_representable_exact : forall f neg m e, (0 < prec f)%Z -> canonical f m e ->
  rnd_pos f neg (fst (rat_of m e)) (snd (rat_of m e)) = FFin neg m e.
Print Assumptions C18_representable_exact.

(* hence: a decimal text that denotes a representable value (an integer below 2^24 / 2^53, a dyadic fraction such as 29.5 or
   0.125, in any spelling) parses to exactly that value *)
Theorem C18_decimal_exact : forall f neg m e M E, (0 < prec f)%Z -> (0 < m)%Z -> canonical f M E ->
  (400 <? ndigits m + e)%Z = false -> (ndigits m + e <? -400)%Z = false ->
  (if (0 <=? e)%Z then (m * 10 ^ e * snd (rat_of M E) = fst (rat_of M E))%Z
   else (m * snd (rat_of M E) = fst (rat_of M E) * 10 ^ (- e))%Z) ->
  dec_to_f f (DNum neg m e) = FFin neg M E.
Proof. exact dec_exact. Qed.
Check C18_decimal_exact : forall f neg m e M E, (0 < prec f)%Z -> (0 < m)%Z -> canonical f M E ->
  (400 <? ndigits m + e)%Z = false -> (ndigits m + e <? -400)%Z = false ->
  (if (0 <=? e)%Z then (m * 10 ^ e * snd (rat_of M E) = fst (rat_of M E))%Z
   else (m * snd (rat_of M E) = fst (rat_of M E) * 10 ^ (- e))%Z) ->
  dec_to_f f (DNum neg m e) = FFin neg M E.
Print Assumptions C18_decimal_exact.

(* the shortest-digits writer (f32 and f64 alike, every canonical value): whatever digits D*10^t the search returns read back,
   by the decimal reader's rounding, as exactly the value that was written; (0,0) is returned only when the fuel of digit
   counts runs out, which the sweeps and the correspondence check never observe *)
Theorem C18_digits_read_back : forall fuel f m e lg k D t, (0 < prec f)%Z -> canonical f m e ->
  shortest fuel f (FFin false m e) (fst (rat_of m e)) (snd (rat_of m e)) lg k = (D, t) -> D <> 0%Z ->
  cand_round f D t = FFin false m e.
Proof. exact shortest_rounds_back. Qed.
Check C18_digits_read_back : forall fuel f m e lg k D t, (0 < prec f)%Z -> canonical f m e ->
  shortest fuel f (FFin false m e) (fst (rat_of m e)) (snd (rat_of m e)) lg k = (D, t) -> D <> 0%Z ->
  cand_round f D t = FFin false m e.
Print Assumptions C18_digits_read_back.

(* durations below 2^20 s (12 days; the property asks for 10^6 s): Duration -> as_secs_f64 -> from_secs_f64 is the identity
   on every nanosecond count (two roundings and one f64 addition stay within 2^-33 s of the exact value) *)
Theorem C18_duration_f64 : forall ns, (0 <= ns < 1048576 * 1000000000)%Z -> dur_of_f (secs_f64_of_dur ns) = Some ns.
Proof. exact dur_f64_dur. Qed.
Check C18_duration_f64 : forall ns, (0 <= ns < 1048576 * 1000000000)%Z -> dur_of_f (secs_f64_of_dur ns) = Some ns.
Print Assumptions C18_duration_f64.

(* ... and with the writer's digits in between: Duration -> f64 -> digits -> f64 -> Duration is the identity *)
Theorem C18_duration_digits : forall ns, (0 < ns < 1048576 * 1000000000)%Z ->
  exists m e, secs_f64_of_dur ns = FFin false m e /\ canonical b64 m e /\
    forall lg D t, shortest 20 b64 (FFin false m e) (fst (rat_of m e)) (snd (rat_of m e)) lg 1 = (D, t) -> D <> 0%Z ->
      dur_of_f (cand_round b64 D t) = Some ns.
Proof. exact duration_digits_roundtrip. Qed.
Check C18_duration_digits : forall ns, (0 < ns < 1048576 * 1000000000)%Z ->
  exists m e, secs_f64_of_dur ns = FFin false m e /\ canonical b64 m e /\
    forall lg D t, shortest 20 b64 (FFin false m e) (fst (rat_of m e)) (snd (rat_of m e)) lg 1 = (D, t) -> D <> 0%Z ->
      dur_of_f (cand_round b64 D t) = Some ns.
Print Assumptions C18_duration_digits.

(* every finite 32-bit float (every canonical significand/exponent pair, either sign, both zeros): the text written for it
   (shortest digits that round back, plain decimal) parses back to exactly that value — no bound, no sample: the digit search
   always ends within its fuel (FloatDigits), its digits round back (FloatRound, FloatNear), and the text is read as those
   digits (FloatText, FloatGuard) *)
Theorem C18_f32_text : forall x, valid32 x -> parse_float (print_f32 x) = Ok x.
Proof. exact f32_text_roundtrip. Qed.
Check C18_f32_text : forall x, valid32 x -> parse_float (print_f32 x) = Ok x.
Print Assumptions C18_f32_text.

(* the unsigned float type: the same for every non-negative value *)
Theorem C18_uf32_text : forall x, valid32 x -> f_is_neg x = false -> parse_ufloat (print_f32 x) = Ok x.
Proof. exact uf32_text_roundtrip. Qed.
Check C18_uf32_text : forall x, valid32 x -> f_is_neg x = false -> parse_ufloat (print_f32 x) = Ok x.
Print Assumptions C18_uf32_text.

(* every float the reader accepts is such a value: it survives the writer and the reader, and its text is attribute-safe
   (the hypotheses float_rt / value_domain of the text-level theorems hold for everything parsing can produce) *)
Theorem C18_parsed_float : forall s x, parse_float s = Ok x ->
  parse_float (print_f32 x) = Ok x /\ float_rt x = true /\ value_domain (VFloat x) = true.
Proof. exact parsed_float_domain. Qed.
Check C18_parsed_float : forall s x, parse_float s = Ok x ->
  parse_float (print_f32 x) = Ok x /\ float_rt x = true /\ value_domain (VFloat x) = true.
Print Assumptions C18_parsed_float.

(* every Duration below 2^20 s (12 days; the property asks for 10^6 s) with nanosecond precision: the text written for it
   (as_secs_f64, shortest digits) parses back (f64, try_from_secs_f64) to the same nanosecond count *)
Theorem C18_duration_text : forall ns : N, ns < 1048576 * 1000000000 -> parse_duration (print_duration ns) = Ok ns.
Proof. exact duration_text_roundtrip. Qed.
Check C18_duration_text : forall ns : N, ns < 1048576 * 1000000000 -> parse_duration (print_duration ns) = Ok ns.
Print Assumptions C18_duration_text.

(* ... so the hypothesis dur_rt of the tag-level theorems holds for every such duration *)
Theorem C18_duration_hypothesis : forall ns : N, ns < 1048576 * 1000000000 -> dur_rt ns = true.
Proof. exact dur_rt_small. Qed.
Check C18_duration_hypothesis : forall ns : N, ns < 1048576 * 1000000000 -> dur_rt ns = true.
Print Assumptions C18_duration_hypothesis.

(* FRAME-RATE: the three-decimal writer ({:.3}) and the float reader give the value back for EVERY f32 that is the nearest to
   a number with at most three decimals below 8192 (V/1000) — the values a FRAME-RATE written per RFC 8216 parses to; for other
   f32 values the {:.3} text is a different number and `ufloat_rt` is false by design *)
Theorem C18_frame_rate_3dec : forall V : N, V < 8192000 -> ufloat_rt (dec_to_f b32 (DNum false (Z.of_N V) (-3))) = true.
Proof. exact ufloat_rt_3dec. Qed.
Check C18_frame_rate_3dec : forall V : N, V < 8192000 -> ufloat_rt (dec_to_f b32 (DNum false (Z.of_N V) (-3))) = true.
Print Assumptions C18_frame_rate_3dec.

Example C18_float_text_example :
  valid32 (FFin true 12582912 (-22)) /\ print_f32 (FFin true 12582912 (-22)) = lit "-3" /\ valid32 (FFin false 1 (-149))
  /\ parse_float (print_f32 (FFin false 1 (-149))) = Ok (FFin false 1 (-149))
  /\ print_duration 9009000000 = lit "9.009" /\ print_duration 1048575999999999 = lit "1048575.999999999".
Proof. vm_compute. repeat split; try reflexivity; try discriminate; intros H; try discriminate H; reflexivity. Qed.

Example C18_float_hypotheses :
  forallb (fun s => match parse_float s with Ok x => float_rt x | _ => false end)
          [lit "0"; lit "-3.5"; lit "1.5"; lit "29.97"; lit "100000.125"; lit "-0.001"] = true
  /\ forallb (fun s => match parse_ufloat s with Ok x => ufloat_rt x | _ => false end)
          [lit "0"; lit "29.97"; lit "59.94"; lit "60"; lit "23.976"; lit "120.5"] = true
  /\ forallb dur_rt [0; 1; 999999999; 1000000000; 9500000000; 2002000000; 10010000000; 999999999999999] = true.
Proof. vm_compute. repeat split. Qed.

Example C18_example :
  parse_byte_range (print_byte_range {| br_start := Some 5; br_end := 18446744073709551615 |})
  = Ok {| br_start := Some 5; br_end := 18446744073709551615 |}
  /\ is_err (parse_float (lit "inf")) = true /\ is_err (parse_ufloat (lit "-0")) = true
  /\ is_ok (parse_float (lit "-0")) = true.
Proof. vm_compute. repeat split. Qed.
