(* C18 — every attribute/tag value type round-trips through its own text form.  Proved for the
   integer-, hex- and table-based types; the float types (Float, UFloat, durations) and the
   composite tags rest on the float text conversions of Rust's std, which are modelled and
   validated by the correspondence check and a sweep, not proved (open, see evidence). *)
From hls Require Import Base Float Lex Kinds Types Tags Line Keys Media.
From hls.Generated Require Import Tables.
From hls.Proofs Require Import Build Lexical Values.
Open Scope N_scope.

Theorem C18_uint : forall w n, n < 2 ^ w -> parse_uint w (print_uint n) = Some n.
Proof. exact parse_print_uint. Qed.
Check C18_uint : forall w n, n < 2 ^ w -> parse_uint w (print_uint n) = Some n.
Print Assumptions C18_uint.

Theorem C18_byte_range : forall r,
  br_end r < two64 -> (match br_start r with Some s => s <= br_end r | None => True end) ->
  parse_byte_range (print_byte_range r) = Ok r.
Proof. exact byte_range_roundtrip. Qed.
Check C18_byte_range : forall r,
  br_end r < two64 -> (match br_start r with Some s => s <= br_end r | None => True end) ->
  parse_byte_range (print_byte_range r) = Ok r.
Print Assumptions C18_byte_range.

Theorem C18_resolution : forall w h, w < two64 -> h < two64 ->
  parse_resolution (print_resolution (w, h)) = Ok (w, h).
Proof. exact resolution_roundtrip. Qed.
Check C18_resolution : forall w h, w < two64 -> h < two64 ->
  parse_resolution (print_resolution (w, h)) = Ok (w, h).
Print Assumptions C18_resolution.

Theorem C18_channels : forall c, ch_number c < two64 -> parse_channels (print_channels c) = Ok c.
Proof. exact channels_roundtrip. Qed.
Check C18_channels : forall c, ch_number c < two64 -> parse_channels (print_channels c) = Ok c.
Print Assumptions C18_channels.

Theorem C18_hex : forall u bs, forallb (fun b => b <? 256) bs = true -> hex_decode (hex_encode u bs) = Some bs.
Proof. exact hex_roundtrip. Qed.
Check C18_hex : forall u bs, forallb (fun b => b <? 256) bs = true -> hex_decode (hex_encode u bs) = Some bs.
Print Assumptions C18_hex.

Theorem C18_iv : forall bs, List.length bs = 16%nat -> forallb (fun b => b <? 256) bs = true ->
  parse_iv (s_0x ++ hex_encode false bs) = Ok (IvAes bs).
Proof. exact iv_roundtrip. Qed.
Check C18_iv : forall bs, List.length bs = 16%nat -> forallb (fun b => b <? 256) bs = true ->
  parse_iv (s_0x ++ hex_encode false bs) = Ok (IvAes bs).
Print Assumptions C18_iv.

(* every variant of every strum enum (tables regenerated from the source) *)
Theorem C18_enums : forall tbl i, enum_table_ok tbl = true -> (i < List.length tbl)%nat ->
  enum_parse tbl (enum_print tbl (N.of_nat i)) = Ok (N.of_nat i).
Proof. exact enum_roundtrip. Qed.
Check C18_enums : forall tbl i, enum_table_ok tbl = true -> (i < List.length tbl)%nat ->
  enum_parse tbl (enum_print tbl (N.of_nat i)) = Ok (N.of_nat i).
Print Assumptions C18_enums.

Theorem C18_enum_tables :
  enum_table_ok enum_EncryptionMethod = true /\ enum_table_ok enum_MediaType = true
  /\ enum_table_ok enum_HdcpLevel = true /\ enum_table_ok enum_InStreamId = true.
Proof. exact enum_tables_ok. Qed.
Check C18_enum_tables :
  enum_table_ok enum_EncryptionMethod = true /\ enum_table_ok enum_MediaType = true
  /\ enum_table_ok enum_HdcpLevel = true /\ enum_table_ok enum_InStreamId = true.
Print Assumptions C18_enum_tables.

Theorem C18_protocol_version : forall v, 1 <= v <= 7 ->
  parse_protocol_version (print_protocol_version v) = Ok v.
Proof. exact protocol_version_roundtrip. Qed.
Check C18_protocol_version : forall v, 1 <= v <= 7 ->
  parse_protocol_version (print_protocol_version v) = Ok v.
Print Assumptions C18_protocol_version.

Theorem C18_quoted_strings : forall s, clean_quoted s = true -> unquote (quote s) = s.
Proof. exact unquote_quote. Qed.
Check C18_quoted_strings : forall s, clean_quoted s = true -> unquote (quote s) = s.
Print Assumptions C18_quoted_strings.

(* the float types accept exactly the finite (UFloat: non-negative-sign) numbers — by definition
   of the model's parser in terms of the modelled f32 conversion *)
Theorem C18_float_accepts : forall s x, parse_float s = Ok x -> f_is_finite x = true.
Proof.
  intros s x H. unfold parse_float in H. destruct (parse_f32 s) as [y| |]; simpl in H; try discriminate.
  destruct (f_is_finite y) eqn:E; inversion H; subst; assumption.
Qed.
Check C18_float_accepts : forall s x, parse_float s = Ok x -> f_is_finite x = true.
Print Assumptions C18_float_accepts.

Theorem C18_ufloat_accepts : forall s x, parse_ufloat s = Ok x -> f_is_finite x = true /\ f_is_neg x = false.
Proof.
  intros s x H. unfold parse_ufloat in H. destruct (parse_f32 s) as [y| |]; simpl in H; try discriminate.
  destruct (f_is_finite y && negb (f_is_neg y)) eqn:E; inversion H; subst.
  apply andb_true_iff in E. destruct E as [E1 E2]. apply negb_true_iff in E2. tauto.
Qed.
Check C18_ufloat_accepts : forall s x, parse_ufloat s = Ok x -> f_is_finite x = true /\ f_is_neg x = false.
Print Assumptions C18_ufloat_accepts.

Example C18_example :
  parse_byte_range (print_byte_range {| br_start := Some 5; br_end := 18446744073709551615 |})
  = Ok {| br_start := Some 5; br_end := 18446744073709551615 |}
  /\ is_err (parse_float (lit "inf")) = true /\ is_err (parse_ufloat (lit "-0")) = true
  /\ is_ok (parse_float (lit "-0")) = true.
Proof. vm_compute. repeat split. Qed.
