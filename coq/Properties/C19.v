(* C19 — equality, ordering and hashing of the public value types are coherent. *)
From hls Require Import Base Float Types EqOrd.
From hls.Generated Require Import Tables.
From hls.Proofs Require Import C19.
Open Scope N_scope.

(* KeyFormatVersions (fixed buffer + length): equality is equality of the used part — no false
   equality, stale data behind the length is never observed; == iff cmp == Equal; equal values
   hash identically; the order is antisymmetric and transitive *)
Theorem C19_kfv_eq : forall a b, kfv_wf a -> kfv_wf b -> (kfv_eqb a b = true <-> kfv_obs a = kfv_obs b).
Proof. exact kfv_eq_obs. Qed.
Check C19_kfv_eq : forall a b, kfv_wf a -> kfv_wf b -> (kfv_eqb a b = true <-> kfv_obs a = kfv_obs b).
Print Assumptions C19_kfv_eq.

Theorem C19_kfv_eq_cmp : forall a b, kfv_wf a -> kfv_wf b -> (kfv_eqb a b = true <-> kfv_cmp a b = Eq).
Proof. exact kfv_eq_cmp. Qed.
Check C19_kfv_eq_cmp : forall a b, kfv_wf a -> kfv_wf b -> (kfv_eqb a b = true <-> kfv_cmp a b = Eq).
Print Assumptions C19_kfv_eq_cmp.

Theorem C19_kfv_eq_hash : forall a b, kfv_wf a -> kfv_wf b -> kfv_eqb a b = true -> kfv_hash a = kfv_hash b.
Proof. exact kfv_eq_hash. Qed.
Check C19_kfv_eq_hash : forall a b, kfv_wf a -> kfv_wf b -> kfv_eqb a b = true -> kfv_hash a = kfv_hash b.
Print Assumptions C19_kfv_eq_hash.

Theorem C19_kfv_order : forall a b c,
  kfv_eqb a a = true /\ kfv_cmp b a = CompOpp (kfv_cmp a b)
  /\ (kfv_cmp a b = Lt -> kfv_cmp b c = Lt -> kfv_cmp a c = Lt).
Proof. intros. split; [apply kfv_eq_refl|]. split; [apply kfv_cmp_antisym | apply kfv_cmp_trans]. Qed.
Check C19_kfv_order : forall a b c,
  kfv_eqb a a = true /\ kfv_cmp b a = CompOpp (kfv_cmp a b)
  /\ (kfv_cmp a b = Lt -> kfv_cmp b c = Lt -> kfv_cmp a c = Lt).
Print Assumptions C19_kfv_order.

Theorem C19_kfv_truncate : forall k n, (n <= kf_len k)%nat -> kfv_wf k -> kfv_obs (kfv_truncate k n) = firstn n (kf_buf k).
Proof. exact kfv_truncate_obs. Qed.
Check C19_kfv_truncate : forall k n, (n <= kf_len k)%nat -> kfv_wf k -> kfv_obs (kfv_truncate k n) = firstn n (kf_buf k).
Print Assumptions C19_kfv_truncate.

(* float wrappers: == iff Equal, total order, and equal values (incl. +0 / -0) hash identically *)
Theorem C19_float_order : forall x y z,
  float_eqb x x = true /\ (float_eqb x y = true <-> float_cmp x y = Eq)
  /\ float_cmp y x = CompOpp (float_cmp x y)
  /\ (float_cmp x y = Lt -> float_cmp y z = Lt -> float_cmp x z = Lt).
Proof.
  intros. split; [apply float_eq_refl|]. split; [apply float_eq_cmp|].
  split; [apply float_cmp_antisym | apply float_cmp_trans].
Qed.
Check C19_float_order : forall x y z,
  float_eqb x x = true /\ (float_eqb x y = true <-> float_cmp x y = Eq)
  /\ float_cmp y x = CompOpp (float_cmp x y)
  /\ (float_cmp x y = Lt -> float_cmp y z = Lt -> float_cmp x z = Lt).
Print Assumptions C19_float_order.

Theorem C19_float_hash : forall x y, finite_canonical x -> finite_canonical y ->
  float_eqb x y = true -> float_hash x = float_hash y.
Proof. exact float_eq_hash. Qed.
Check C19_float_hash : forall x y, finite_canonical x -> finite_canonical y ->
  float_eqb x y = true -> float_hash x = float_hash y.
Print Assumptions C19_float_hash.

(* the hand-written comparison impls in the source are exactly the ones modelled above, and every
   other public type derives PartialEq, Eq, Hash, PartialOrd and Ord together (structural impls,
   which inherit coherence from their fields) — both tables regenerated from the source *)
Theorem C19_manual_impls : same_pairs manual_impl_table expected_manual = true.
Proof. exact manual_impls_as_modelled. Qed.
Check C19_manual_impls : same_pairs manual_impl_table expected_manual = true.
Print Assumptions C19_manual_impls.

Theorem C19_derives : derive_section_ok && forallb derive_consistent derive_table = true.
Proof. exact derives_consistent. Qed.
Check C19_derives : derive_section_ok && forallb derive_consistent derive_table = true.
Print Assumptions C19_derives.

Example C19_example :
  let a := {| kf_buf := [1; 2; 3; 0; 0; 0; 0; 0; 0]; kf_len := 2 |} in
  let b := {| kf_buf := [1; 2; 0; 0; 0; 0; 0; 0; 0]; kf_len := 2 |} in
  let c := {| kf_buf := [3; 4; 0; 0; 0; 0; 0; 0; 0]; kf_len := 2 |} in
  kfv_eqb a b = true /\ kfv_hash a = kfv_hash b /\ kfv_eqb a c = false
  /\ float_eqb (FZero true) (FZero false) = true /\ float_hash (FZero true) = float_hash (FZero false).
Proof. vm_compute. repeat split. Qed.
