(* C11 — parsing is deterministic: same text, equal value, identical re-serialisation.
   In the model both the parser and the writer are functions of their input; what a theorem can
   add is that no hash-container iteration order can leak into the result.  Threads and
   per-process hash seeds are exercised by the harness (repeat_* ops, separate processes): the
   model cannot exhibit schedules, so that clause is validated, not proved. *)
From hls Require Import Base Float Lex Kinds Types Tags Line Keys Media.
From hls.Proofs Require Import KeysProof C06 C11.
From Coq Require Import Permutation.

(* the parser holds the keys in effect in a list whose order is the order of their tags in the
   text (no hash container): the reported key order is a function of the text alone *)
Theorem C11_parser_key_order : forall h, subseq (keys_after h) h.
Proof. exact keys_in_tag_order. Qed.
Check C11_parser_key_order : forall h, subseq (keys_after h) h.
Print Assumptions C11_parser_key_order.

(* the writer iterates its HashSet of announced keys only to find the key a new key replaces;
   for EVERY iteration order `ord` of that set the text written is the same *)
Theorem C11_writer_order_free : forall ord, (forall l, Permutation (ord l) l) ->
  forall p, print_media_ord ord p = print_media p.
Proof. exact writer_order_free. Qed.
Check C11_writer_order_free : forall ord, (forall l, Permutation (ord l) l) ->
  forall p, print_media_ord ord p = print_media p.
Print Assumptions C11_writer_order_free.

(* the invariant behind it: the writer's set never holds two keys of one format, so the search
   has at most one answer *)
Theorem C11_writer_set_invariant : forall ord, (forall l, Permutation (ord l) l) ->
  forall ks avail, wdistinct avail ->
    write_keys_ord ord avail ks = write_keys avail ks /\ wdistinct (fst (write_keys avail ks)).
Proof. exact write_keys_ord_eq. Qed.
Check C11_writer_set_invariant : forall ord, (forall l, Permutation (ord l) l) ->
  forall ks avail, wdistinct avail ->
    write_keys_ord ord avail ks = write_keys avail ks /\ wdistinct (fst (write_keys avail ks)).
Print Assumptions C11_writer_set_invariant.

(* non-vacuity: reversing the iteration order is a permutation, and the text does not change *)
Example C11_example :
  match parse_media (lit "#EXTM3U
#EXT-X-TARGETDURATION:5
#EXT-X-KEY:METHOD=AES-128,URI=""a""
#EXT-X-KEY:METHOD=SAMPLE-AES,URI=""b"",KEYFORMAT=""com.apple.streamingkeydelivery""
#EXTINF:5,
s.ts
#EXT-X-KEY:METHOD=AES-128,URI=""c""
#EXTINF:5,
t.ts
") with
  | Ok p => print_media_ord (@rev xkey) p = print_media p /\ List.length (mp_segs p) = 2%nat
  | _ => False
  end.
Proof. vm_compute. split; reflexivity. Qed.
