(* C13 — a master playlist is accepted iff group references and session data are consistent. *)
From hls Require Import Base Float Lex Kinds Types Tags Line Keys Media Master.
From hls.Spec Require Import GroupSpec.
From hls.Proofs Require Import C13.

(* validation (shared by the parser and MasterPlaylistBuilder::build) accepts exactly the
   consistent values: every referenced group is defined by a rendition of the matching type,
   CLOSED-CAPTIONS=NONE is not combined with a caption group on another variant (in either
   order), and no two session-data tags share (DATA-ID, LANGUAGE) *)
Theorem C13_iff : forall p, validate_master p = true <-> consistent p.
Proof. exact validate_iff_consistent. Qed.
Check C13_iff : forall p, validate_master p = true <-> consistent p.
Print Assumptions C13_iff.

(* every master playlist handed to the user by the parser satisfies the constraints *)
Theorem C13_parsed_consistent : forall input p, parse_master input = Ok p -> consistent p.
Proof. exact parse_master_consistent. Qed.
Check C13_parsed_consistent : forall input p, parse_master input = Ok p -> consistent p.
Print Assumptions C13_parsed_consistent.

(* the rendition lookup returns exactly the renditions whose type and group id the variant
   references — except for the known finding D19 (CLOSED-CAPTIONS=NONE matches a caption
   group literally named NONE), which is stated, not hidden *)
Theorem C13_lookup_except_known : forall v m, (xm_type m <= 3)%N ->
  (is_associated v m = true <-> references v m \/ known_none_group v m).
Proof. exact is_associated_spec. Qed.
Check C13_lookup_except_known : forall v m, (xm_type m <= 3)%N ->
  (is_associated v m = true <-> references v m \/ known_none_group v m).
Print Assumptions C13_lookup_except_known.

(* D19 witness: the full statement `is_associated v m = true <-> references v m` is false *)
Definition d19_media : Media :=
  {| xm_type := mt_cc; xm_uri := None; xm_group := s_NONE; xm_lang := None; xm_assoc := None; xm_name := [110];
     xm_default := false; xm_autoselect := false; xm_forced := false; xm_instream := Some 0%N; xm_chars := None;
     xm_channels := None |}.
Definition d19_variant : Variant :=
  VStreamInf [97] None None None (Some CcNone)
    {| sd_bandwidth := 1; sd_avg := None; sd_codecs := None; sd_resolution := None; sd_hdcp := None; sd_video := None |}.
Theorem C13_lookup_refuted : is_associated d19_variant d19_media = true /\ ~ references d19_variant d19_media.
Proof. split; [vm_compute; reflexivity | unfold references; simpl; tauto]. Qed.
Check C13_lookup_refuted : is_associated d19_variant d19_media = true /\ ~ references d19_variant d19_media.
Print Assumptions C13_lookup_refuted.

(* non-vacuity: a consistent and an inconsistent playlist *)
Example C13_example :
  is_ok (parse_master (lit "#EXTM3U
#EXT-X-MEDIA:TYPE=AUDIO,GROUP-ID=""a"",NAME=""n""
#EXT-X-STREAM-INF:BANDWIDTH=1,AUDIO=""a""
u
")) = true /\ is_err (parse_master (lit "#EXTM3U
#EXT-X-STREAM-INF:BANDWIDTH=1,AUDIO=""a""
u
")) = true.
Proof. vm_compute. split; reflexivity. Qed.
