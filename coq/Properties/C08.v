(* C08 — offset-less byte ranges continue the previous sub-range; others are verbatim. *)
From hls Require Import Base Float Lex Kinds Types Tags Line Keys Media.
From hls.Proofs Require Import Build Parse MediaProps.
Open Scope N_scope.

(* validation accepts exactly the chains that resolve under the RFC rule: an omitted offset
   needs the immediately preceding segment to be a sub-range of the same URI *)
Theorem C08_accept_iff : forall segs, ranges_ok segs None = true <-> resolve segs None <> None.
Proof. intros. apply ranges_ok_resolve. reflexivity. Qed.
Check C08_accept_iff : forall segs, ranges_ok segs None = true <-> resolve segs None <> None.
Print Assumptions C08_accept_iff.

(* the ranges of the built segments are the resolved ones: explicit offsets verbatim, omitted
   offsets = end of the previous sub-range, length as written (inside the integer domain) *)
Theorem C08_ranges : forall segs i seq segs' rs,
  ranges_ok segs None = true -> resolve segs None = Some rs ->
  (forall r, In (Some r) rs -> br_end r <= usize_max) ->
  build_loop (map Some segs) i seq None = Ok (map Some segs') ->
  map sg_range segs' = rs.
Proof.
  intros segs i seq segs' rs Hok Hres Hb H.
  eapply (build_loop_ranges segs i seq None None None); eauto.
Qed.
Check C08_ranges : forall segs i seq segs' rs,
  ranges_ok segs None = true -> resolve segs None = Some rs ->
  (forall r, In (Some r) rs -> br_end r <= usize_max) ->
  build_loop (map Some segs) i seq None = Ok (map Some segs') ->
  map sg_range segs' = rs.
Print Assumptions C08_ranges.

(* the `set_start` panic of the completion step is unreachable for ranges that fit usize *)
Theorem C08_no_panic : forall slots i seq,
  (forall s, In (Some s) slots -> seg_bounded s) -> build_loop slots i seq None <> Panic.
Proof. intros. apply build_loop_no_panic; [assumption | exact I]. Qed.
Check C08_no_panic : forall slots i seq,
  (forall s, In (Some s) slots -> seg_bounded s) -> build_loop slots i seq None <> Panic.
Print Assumptions C08_no_panic.

(* text form: a range is written with its offset whenever it has one (after build: always) *)
Theorem C08_explicit_text : forall r st, br_start r = Some st ->
  print_byte_range r = print_uint (br_len r) ++ 64 :: print_uint st.
Proof. intros r st H. unfold print_byte_range. rewrite H. reflexivity. Qed.
Check C08_explicit_text : forall r st, br_start r = Some st ->
  print_byte_range r = print_uint (br_len r) ++ 64 :: print_uint st.
Print Assumptions C08_explicit_text.

Example C08_example :
  match parse_media (lit "#EXTM3U
#EXT-X-TARGETDURATION:5
#EXT-X-BYTERANGE:10@5
#EXTINF:5,
a.ts
#EXT-X-BYTERANGE:7
#EXTINF:5,
a.ts
#EXT-X-BYTERANGE:3
#EXTINF:5,
a.ts
") with
  | Ok p => map sg_range (mp_segs p) =
            [Some {| br_start := Some 5; br_end := 15 |}; Some {| br_start := Some 15; br_end := 22 |};
             Some {| br_start := Some 22; br_end := 25 |}]
  | _ => False
  end
  /\ is_err (parse_media (lit "#EXTM3U
#EXT-X-TARGETDURATION:5
#EXT-X-BYTERANGE:10@5
#EXTINF:5,
a.ts
#EXT-X-BYTERANGE:7
#EXTINF:5,
b.ts
")) = true.
Proof. vm_compute. split; reflexivity. Qed.
