(* C12 — parsing is invariant under presentation changes the RFC declares irrelevant.
   Every theorem here is about arbitrary text / arbitrary item lists: no validity assumption. *)
From hls Require Import Base Float Lex Kinds Types Tags Line Keys Media Master.
From hls.Generated Require Import Tables.
From hls.Proofs Require Import Build Parse C12 AttrOrder Lexical TagTextDateRange AttrTables AttrOrder2 StepOrder.
From Coq Require Import Permutation.
Open Scope N_scope.

(* CRLF versus LF: the line items are the same *)
Theorem C12_crlf : forall s, clean_lines (crlfify s) = clean_lines s.
Proof. exact crlf_invariant. Qed.
Check C12_crlf : forall s, clean_lines (crlfify s) = clean_lines s.
Print Assumptions C12_crlf.

(* blank (white-space only) lines anywhere *)
Theorem C12_blank_lines : forall a w b, forallb is_ws w = true ->
  clean_lines (a ++ 10 :: w ++ 10 :: b) = clean_lines (a ++ 10 :: b).
Proof. exact blank_line_invariant. Qed.
Check C12_blank_lines : forall a w b, forallb is_ws w = true ->
  clean_lines (a ++ 10 :: w ++ 10 :: b) = clean_lines (a ++ 10 :: b).
Print Assumptions C12_blank_lines.

(* leading / trailing white space on a line *)
Theorem C12_line_padding : forall a w1 l w2 b,
  forallb is_ws w1 = true -> forallb is_ws w2 = true ->
  forallb (fun c => negb (c =? 10)) (w1 ++ l ++ w2) = true ->
  clean_lines (a ++ 10 :: (w1 ++ l ++ w2) ++ 10 :: b) = clean_lines (a ++ 10 :: l ++ 10 :: b).
Proof. exact line_padding_invariant. Qed.
Check C12_line_padding : forall a w1 l w2 b,
  forallb is_ws w1 = true -> forallb is_ws w2 = true ->
  forallb (fun c => negb (c =? 10)) (w1 ++ l ++ w2) = true ->
  clean_lines (a ++ 10 :: (w1 ++ l ++ w2) ++ 10 :: b) = clean_lines (a ++ 10 :: l ++ 10 :: b).
Print Assumptions C12_line_padding.

(* comment items and redundant EXT-X-VERSION tags, for both parsers *)
Theorem C12_comments : forall l1 l2 s ms,
  run_lines s (l1 ++ Ok LComment :: l2) = run_lines s (l1 ++ l2)
  /\ mrun_lines ms (l1 ++ Ok LComment :: l2) = mrun_lines ms (l1 ++ l2).
Proof. intros. split; [apply comment_invariant_media | apply comment_invariant_master]. Qed.
Check C12_comments : forall l1 l2 s ms,
  run_lines s (l1 ++ Ok LComment :: l2) = run_lines s (l1 ++ l2)
  /\ mrun_lines ms (l1 ++ Ok LComment :: l2) = mrun_lines ms (l1 ++ l2).
Print Assumptions C12_comments.

Theorem C12_version_tag : forall l1 l2 s ms v,
  run_lines s (l1 ++ Ok (LTag (TVersion v)) :: l2) = run_lines s (l1 ++ l2)
  /\ mrun_lines ms (l1 ++ Ok (LTag (TVersion v)) :: l2) = mrun_lines ms (l1 ++ l2).
Proof. intros. split; [apply version_tag_invariant_media | apply version_tag_invariant_master]. Qed.
Check C12_version_tag : forall l1 l2 s ms v,
  run_lines s (l1 ++ Ok (LTag (TVersion v)) :: l2) = run_lines s (l1 ++ l2)
  /\ mrun_lines ms (l1 ++ Ok (LTag (TVersion v)) :: l2) = mrun_lines ms (l1 ++ l2).
Print Assumptions C12_version_tag.

(* an inserted unknown tag changes nothing but the list of unknown tags *)
Theorem C12_unknown_tag : forall l1 l2 s u,
  rmap forget_unknown (run_lines s (l1 ++ Ok (LTag (TUnknown u)) :: l2)) =
  rmap forget_unknown (run_lines s (l1 ++ l2)).
Proof. exact unknown_tag_invariant_media. Qed.
Check C12_unknown_tag : forall l1 l2 s u,
  rmap forget_unknown (run_lines s (l1 ++ Ok (LTag (TUnknown u)) :: l2)) =
  rmap forget_unknown (run_lines s (l1 ++ l2)).
Print Assumptions C12_unknown_tag.

Theorem C12_unknown_tag_result : forall s p, finish_media s = Ok p ->
  exists p', finish_media (forget_unknown s) = Ok p' /\
    mp_segs p' = mp_segs p /\ mp_target p' = mp_target p /\ mp_mseq p' = mp_mseq p /\ mp_dseq p' = mp_dseq p
    /\ mp_ptype p' = mp_ptype p /\ mp_iframes p' = mp_iframes p /\ mp_indep p' = mp_indep p
    /\ mp_start p' = mp_start p /\ mp_endlist p' = mp_endlist p /\ mp_excess p' = mp_excess p.
Proof. exact finish_forget. Qed.
Check C12_unknown_tag_result : forall s p, finish_media s = Ok p ->
  exists p', finish_media (forget_unknown s) = Ok p' /\
    mp_segs p' = mp_segs p /\ mp_target p' = mp_target p /\ mp_mseq p' = mp_mseq p /\ mp_dseq p' = mp_dseq p
    /\ mp_ptype p' = mp_ptype p /\ mp_iframes p' = mp_iframes p /\ mp_indep p' = mp_indep p
    /\ mp_start p' = mp_start p /\ mp_endlist p' = mp_endlist p /\ mp_excess p' = mp_excess p.
Print Assumptions C12_unknown_tag_result.

(* the order of attributes with distinct names inside a tag (three tags proved; the generic
   theorem AttrOrder.attr_order_irrelevant covers any attribute fold of that shape) *)
Theorem C12_attr_order : forall l1 l2, Permutation l1 l2 -> NoDup (map fst l1) ->
  (forall a, fold_res xs_attr l1 a = fold_res xs_attr l2 a)
  /\ (forall a, fold_res start_attr l1 a = fold_res start_attr l2 a)
  /\ (forall a, fold_res map_attr l1 a = fold_res map_attr l2 a).
Proof.
  intros l1 l2 HP Hnd. split; [|split]; intros a;
    [apply session_data_attr_order | apply start_attr_order | apply map_attr_order]; assumption.
Qed.
Check C12_attr_order : forall l1 l2, Permutation l1 l2 -> NoDup (map fst l1) ->
  (forall a, fold_res xs_attr l1 a = fold_res xs_attr l2 a)
  /\ (forall a, fold_res start_attr l1 a = fold_res start_attr l2 a)
  /\ (forall a, fold_res map_attr l1 a = fold_res map_attr l2 a).
Print Assumptions C12_attr_order.

(* ... for every one of the eight attribute-list parsers *)
Theorem C12_attr_order_all : forall l1 l2, Permutation l1 l2 -> NoDup (map fst l1) ->
  (forall a, fold_res xm_attr l1 a = fold_res xm_attr l2 a)
  /\ (forall a, fold_res key_attr l1 a = fold_res key_attr l2 a)
  /\ (forall a, fold_res sd_attr l1 a = fold_res sd_attr l2 a)
  /\ (forall a, fold_res si_attr l1 a = fold_res si_attr l2 a)
  /\ (forall a, fold_res dr_attr l1 a = fold_res dr_attr l2 a).
Proof.
  intros l1 l2 HP Hnd. repeat split; intros a;
    [apply media_attr_order | apply key_attr_order | apply stream_data_attr_order | apply variant_attr_order
     | apply daterange_attr_order]; assumption.
Qed.
Check C12_attr_order_all : forall l1 l2, Permutation l1 l2 -> NoDup (map fst l1) ->
  (forall a, fold_res xm_attr l1 a = fold_res xm_attr l2 a)
  /\ (forall a, fold_res key_attr l1 a = fold_res key_attr l2 a)
  /\ (forall a, fold_res sd_attr l1 a = fold_res sd_attr l2 a)
  /\ (forall a, fold_res si_attr l1 a = fold_res si_attr l2 a)
  /\ (forall a, fold_res dr_attr l1 a = fold_res dr_attr l2 a).
Print Assumptions C12_attr_order_all.

(* any surface syntax of an attribute list: the attributes in any order, any white space around names, `=`,
   values and commas (`entry_ok`: the rendered entries of C01_tokenizer), additional attributes whose names the
   parser does not match (names from the regenerated attribute tables) — the accumulator after the fold is the
   one the canonical list gives, for each of the eight parsers *)
Theorem C12_any_attribute_syntax :

  (forall entries canon extra a, Forall entry_ok entries ->
     Permutation (map (fun e => (e_k e, e_v e)) entries) (canon ++ extra) -> NoDup (map fst (canon ++ extra)) ->
     (forall p, In p extra -> unknown_to "ExtXMedia" (fst p)) ->
     fold_res xm_attr (attr_pairs (render_attrs entries)) a = bind (fold_res xm_attr canon a) (fun a' => Ok a'))
  /\ (forall entries canon extra a, Forall entry_ok entries ->
     Permutation (map (fun e => (e_k e, e_v e)) entries) (canon ++ extra) -> NoDup (map fst (canon ++ extra)) ->
     (forall p, In p extra -> unknown_to "ExtXSessionData" (fst p)) ->
     fold_res xs_attr (attr_pairs (render_attrs entries)) a = bind (fold_res xs_attr canon a) (fun a' => Ok a'))
  /\ (forall entries canon extra a, Forall entry_ok entries ->
     Permutation (map (fun e => (e_k e, e_v e)) entries) (canon ++ extra) -> NoDup (map fst (canon ++ extra)) ->
     (forall p, In p extra -> unknown_to "DecryptionKey" (fst p)) ->
     fold_res key_attr (attr_pairs (render_attrs entries)) a = bind (fold_res key_attr canon a) (fun a' => Ok a'))
  /\ (forall entries canon extra a, Forall entry_ok entries ->
     Permutation (map (fun e => (e_k e, e_v e)) entries) (canon ++ extra) -> NoDup (map fst (canon ++ extra)) ->
     (forall p, In p extra -> unknown_to "StreamData" (fst p)) ->
     fold_res sd_attr (attr_pairs (render_attrs entries)) a = bind (fold_res sd_attr canon a) (fun a' => Ok a'))
  /\ (forall entries canon extra a, Forall entry_ok entries ->
     Permutation (map (fun e => (e_k e, e_v e)) entries) (canon ++ extra) -> NoDup (map fst (canon ++ extra)) ->
     (forall p, In p extra -> unknown_to "VariantStream" (fst p)) ->
     fold_res si_attr (attr_pairs (render_attrs entries)) a = bind (fold_res si_attr canon a) (fun a' => Ok a'))
  /\ (forall entries canon extra a, Forall entry_ok entries ->
     Permutation (map (fun e => (e_k e, e_v e)) entries) (canon ++ extra) -> NoDup (map fst (canon ++ extra)) ->
     (forall p, In p extra -> unknown_to "ExtXStart" (fst p)) ->
     fold_res start_attr (attr_pairs (render_attrs entries)) a = bind (fold_res start_attr canon a) (fun a' => Ok a'))
  /\ (forall entries canon extra a, Forall entry_ok entries ->
     Permutation (map (fun e => (e_k e, e_v e)) entries) (canon ++ extra) -> NoDup (map fst (canon ++ extra)) ->
     (forall p, In p extra -> unknown_to "ExtXMap" (fst p)) ->
     fold_res map_attr (attr_pairs (render_attrs entries)) a = bind (fold_res map_attr canon a) (fun a' => Ok a'))
  /\ (forall entries canon extra a, Forall entry_ok entries ->
     Permutation (map (fun e => (e_k e, e_v e)) entries) (canon ++ extra) -> NoDup (map fst (canon ++ extra)) ->
     (forall p, In p extra -> unknown_to "ExtXDateRange" (fst p) /\ starts_with s_Xdash (fst p) = false) ->
     fold_res dr_attr (attr_pairs (render_attrs entries)) a = bind (fold_res dr_attr canon a) (fun a' => Ok a')).
Proof. exact styled_all. Qed.
Check C12_any_attribute_syntax :

  (forall entries canon extra a, Forall entry_ok entries ->
     Permutation (map (fun e => (e_k e, e_v e)) entries) (canon ++ extra) -> NoDup (map fst (canon ++ extra)) ->
     (forall p, In p extra -> unknown_to "ExtXMedia" (fst p)) ->
     fold_res xm_attr (attr_pairs (render_attrs entries)) a = bind (fold_res xm_attr canon a) (fun a' => Ok a'))
  /\ (forall entries canon extra a, Forall entry_ok entries ->
     Permutation (map (fun e => (e_k e, e_v e)) entries) (canon ++ extra) -> NoDup (map fst (canon ++ extra)) ->
     (forall p, In p extra -> unknown_to "ExtXSessionData" (fst p)) ->
     fold_res xs_attr (attr_pairs (render_attrs entries)) a = bind (fold_res xs_attr canon a) (fun a' => Ok a'))
  /\ (forall entries canon extra a, Forall entry_ok entries ->
     Permutation (map (fun e => (e_k e, e_v e)) entries) (canon ++ extra) -> NoDup (map fst (canon ++ extra)) ->
     (forall p, In p extra -> unknown_to "DecryptionKey" (fst p)) ->
     fold_res key_attr (attr_pairs (render_attrs entries)) a = bind (fold_res key_attr canon a) (fun a' => Ok a'))
  /\ (forall entries canon extra a, Forall entry_ok entries ->
     Permutation (map (fun e => (e_k e, e_v e)) entries) (canon ++ extra) -> NoDup (map fst (canon ++ extra)) ->
     (forall p, In p extra -> unknown_to "StreamData" (fst p)) ->
     fold_res sd_attr (attr_pairs (render_attrs entries)) a = bind (fold_res sd_attr canon a) (fun a' => Ok a'))
  /\ (forall entries canon extra a, Forall entry_ok entries ->
     Permutation (map (fun e => (e_k e, e_v e)) entries) (canon ++ extra) -> NoDup (map fst (canon ++ extra)) ->
     (forall p, In p extra -> unknown_to "VariantStream" (fst p)) ->
     fold_res si_attr (attr_pairs (render_attrs entries)) a = bind (fold_res si_attr canon a) (fun a' => Ok a'))
  /\ (forall entries canon extra a, Forall entry_ok entries ->
     Permutation (map (fun e => (e_k e, e_v e)) entries) (canon ++ extra) -> NoDup (map fst (canon ++ extra)) ->
     (forall p, In p extra -> unknown_to "ExtXStart" (fst p)) ->
     fold_res start_attr (attr_pairs (render_attrs entries)) a = bind (fold_res start_attr canon a) (fun a' => Ok a'))
  /\ (forall entries canon extra a, Forall entry_ok entries ->
     Permutation (map (fun e => (e_k e, e_v e)) entries) (canon ++ extra) -> NoDup (map fst (canon ++ extra)) ->
     (forall p, In p extra -> unknown_to "ExtXMap" (fst p)) ->
     fold_res map_attr (attr_pairs (render_attrs entries)) a = bind (fold_res map_attr canon a) (fun a' => Ok a'))
  /\ (forall entries canon extra a, Forall entry_ok entries ->
     Permutation (map (fun e => (e_k e, e_v e)) entries) (canon ++ extra) -> NoDup (map fst (canon ++ extra)) ->
     (forall p, In p extra -> unknown_to "ExtXDateRange" (fst p) /\ starts_with s_Xdash (fst p) = false) ->
     fold_res dr_attr (attr_pairs (render_attrs entries)) a = bind (fold_res dr_attr canon a) (fun a' => Ok a')).
Print Assumptions C12_any_attribute_syntax.

(* the relative order of playlist-level tags, and of the non-key tags preceding a segment's URI: a block of tags of
   pairwise different kinds among EXTINF, BYTERANGE, PROGRAM-DATE-TIME, DATERANGE, DISCONTINUITY, MAP and
   TARGETDURATION, MEDIA-SEQUENCE, PLAYLIST-TYPE, I-FRAMES-ONLY, INDEPENDENT-SEGMENTS, START, ENDLIST, VERSION may be
   written in any order, whatever follows (EXT-X-KEY and EXT-X-DISCONTINUITY-SEQUENCE are position dependent) *)
Theorem C12_tag_order : forall l1 l2, Permutation l1 l2 -> NoDup (map kind_of l1) -> forallb free_tag l1 = true ->
  forall s rest, run_lines s (map tline l1 ++ rest) = run_lines s (map tline l2 ++ rest).
Proof. exact free_block_order. Qed.
Check C12_tag_order : forall l1 l2, Permutation l1 l2 -> NoDup (map kind_of l1) -> forallb free_tag l1 = true ->
  forall s rest, run_lines s (map tline l1 ++ rest) = run_lines s (map tline l2 ++ rest).
Print Assumptions C12_tag_order.

(* white space around attribute names and values is trimmed by the tokenizer (C01_tokenizer) *)

Example C12_example :
  parse_media (lit "#EXTM3U
#EXT-X-TARGETDURATION:5
#EXTINF:5,
a.ts
") = parse_media (crlfify (lit "#EXTM3U
# comment

   #EXT-X-TARGETDURATION:5  
#EXT-X-VERSION:3
#EXTINF:5,
a.ts
")).
Proof. vm_compute. reflexivity. Qed.
