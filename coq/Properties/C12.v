(* C12 — parsing is invariant under presentation changes the RFC declares irrelevant.
   Every theorem here is about arbitrary text / arbitrary item lists: no validity assumption. *)
From hls Require Import Base Float Lex Kinds Types Tags Line Keys Media Master.
From hls.Generated Require Import Tables.
From hls.Proofs Require Import Build Parse C12 AttrOrder Lexical TagTextDateRange AttrTables AttrOrder2 StepOrder Restyle Restyle2.
From Coq Require Import Permutation.
Open Scope N_scope.

(* CRLF versus LF: the line items are the same *)
Theorem C12_crlf : forall s, clean_lines (crlfify s) = clean_lines s.
Proof. exact crlf_invariant. Qed.
Check C12_crlf : forall s, clean_lines (crlfify s) = clean_lines s.
Print Assumptions C12_crlf.

(* blank (white-space only) lines anywhere *)
Theorem C12_blank_lines : forall a w b, forallb is_ws w = true ->
  clean_lines (a ++ 10 :: w ++ 10 :: b) = clean_lines (a ++ 10 :: b).
Proof. exact blank_line_invariant. Qed.
Check C12_blank_lines : forall a w b, forallb is_ws w = true ->
  clean_lines (a ++ 10 :: w ++ 10 :: b) = clean_lines (a ++ 10 :: b).
Print Assumptions C12_blank_lines.

(* leading / trailing white space on a line *)
Theorem C12_line_padding : forall a w1 l w2 b,
  forallb is_ws w1 = true -> forallb is_ws w2 = true ->
  forallb (fun c => negb (c =? 10)) (w1 ++ l ++ w2) = true ->
  clean_lines (a ++ 10 :: (w1 ++ l ++ w2) ++ 10 :: b) = clean_lines (a ++ 10 :: l ++ 10 :: b).
Proof. exact line_padding_invariant. Qed.
Check C12_line_padding : forall a w1 l w2 b,
  forallb is_ws w1 = true -> forallb is_ws w2 = true ->
  forallb (fun c => negb (c =? 10)) (w1 ++ l ++ w2) = true ->
  clean_lines (a ++ 10 :: (w1 ++ l ++ w2) ++ 10 :: b) = clean_lines (a ++ 10 :: l ++ 10 :: b).
Print Assumptions C12_line_padding.

(* comment items and redundant EXT-X-VERSION tags, for both parsers *)
Theorem C12_comments : forall l1 l2 s ms,
  run_lines s (l1 ++ Ok LComment :: l2) = run_lines s (l1 ++ l2)
  /\ mrun_lines ms (l1 ++ Ok LComment :: l2) = mrun_lines ms (l1 ++ l2).
Proof. intros. split; [apply comment_invariant_media | apply comment_invariant_master]. Qed.
Check C12_comments : forall l1 l2 s ms,
  run_lines s (l1 ++ Ok LComment :: l2) = run_lines s (l1 ++ l2)
  /\ mrun_lines ms (l1 ++ Ok LComment :: l2) = mrun_lines ms (l1 ++ l2).
Print Assumptions C12_comments.

Theorem C12_version_tag : forall l1 l2 s ms v,
  run_lines s (l1 ++ Ok (LTag (TVersion v)) :: l2) = run_lines s (l1 ++ l2)
  /\ mrun_lines ms (l1 ++ Ok (LTag (TVersion v)) :: l2) = mrun_lines ms (l1 ++ l2).
Proof. intros. split; [apply version_tag_invariant_media | apply version_tag_invariant_master]. Qed.
Check C12_version_tag : forall l1 l2 s ms v,
  run_lines s (l1 ++ Ok (LTag (TVersion v)) :: l2) = run_lines s (l1 ++ l2)
  /\ mrun_lines ms (l1 ++ Ok (LTag (TVersion v)) :: l2) = mrun_lines ms (l1 ++ l2).
Print Assumptions C12_version_tag.

(* an inserted unknown tag changes nothing but the list of unknown tags *)
Theorem C12_unknown_tag : forall l1 l2 s u,
  rmap forget_unknown (run_lines s (l1 ++ Ok (LTag (TUnknown u)) :: l2)) =
  rmap forget_unknown (run_lines s (l1 ++ l2)).
Proof. exact unknown_tag_invariant_media. Qed.
Check C12_unknown_tag : forall l1 l2 s u,
  rmap forget_unknown (run_lines s (l1 ++ Ok (LTag (TUnknown u)) :: l2)) =
  rmap forget_unknown (run_lines s (l1 ++ l2)).
Print Assumptions C12_unknown_tag.

Theorem C12_unknown_tag_result : forall s p, finish_media s = Ok p ->
  exists p', finish_media (forget_unknown s) = Ok p' /\
    mp_segs p' = mp_segs p /\ mp_target p' = mp_target p /\ mp_mseq p' = mp_mseq p /\ mp_dseq p' = mp_dseq p
    /\ mp_ptype p' = mp_ptype p /\ mp_iframes p' = mp_iframes p /\ mp_indep p' = mp_indep p
    /\ mp_start p' = mp_start p /\ mp_endlist p' = mp_endlist p /\ mp_excess p' = mp_excess p.
Proof. exact finish_forget. Qed.
Check C12_unknown_tag_result : forall s p, finish_media s = Ok p ->
  exists p', finish_media (forget_unknown s) = Ok p' /\
    mp_segs p' = mp_segs p /\ mp_target p' = mp_target p /\ mp_mseq p' = mp_mseq p /\ mp_dseq p' = mp_dseq p
    /\ mp_ptype p' = mp_ptype p /\ mp_iframes p' = mp_iframes p /\ mp_indep p' = mp_indep p
    /\ mp_start p' = mp_start p /\ mp_endlist p' = mp_endlist p /\ mp_excess p' = mp_excess p.
Print Assumptions C12_unknown_tag_result.

(* the order of attributes with distinct names inside a tag (three tags proved; the generic
   theorem AttrOrder.attr_order_irrelevant covers any attribute fold of that shape) *)
Theorem C12_attr_order : forall l1 l2, Permutation l1 l2 -> NoDup (map fst l1) ->
  (forall a, fold_res xs_attr l1 a = fold_res xs_attr l2 a)
  /\ (forall a, fold_res start_attr l1 a = fold_res start_attr l2 a)
  /\ (forall a, fold_res map_attr l1 a = fold_res map_attr l2 a).
Proof.
  intros l1 l2 HP Hnd. split; [|split]; intros a;
    [apply session_data_attr_order | apply start_attr_order | apply map_attr_order]; assumption.
Qed.
Check C12_attr_order : forall l1 l2, Permutation l1 l2 -> NoDup (map fst l1) ->
  (forall a, fold_res xs_attr l1 a = fold_res xs_attr l2 a)
  /\ (forall a, fold_res start_attr l1 a = fold_res start_attr l2 a)
  /\ (forall a, fold_res map_attr l1 a = fold_res map_attr l2 a).
Print Assumptions C12_attr_order.

(* ... for every one of the eight attribute-list parsers *)
Theorem C12_attr_order_all : forall l1 l2, Permutation l1 l2 -> NoDup (map fst l1) ->
  (forall a, fold_res xm_attr l1 a = fold_res xm_attr l2 a)
  /\ (forall a, fold_res key_attr l1 a = fold_res key_attr l2 a)
  /\ (forall a, fold_res sd_attr l1 a = fold_res sd_attr l2 a)
  /\ (forall a, fold_res si_attr l1 a = fold_res si_attr l2 a)
  /\ (forall a, fold_res dr_attr l1 a = fold_res dr_attr l2 a).
Proof.
  intros l1 l2 HP Hnd. repeat split; intros a;
    [apply media_attr_order | apply key_attr_order | apply stream_data_attr_order | apply variant_attr_order
     | apply daterange_attr_order]; assumption.
Qed.
Check C12_attr_order_all : forall l1 l2, Permutation l1 l2 -> NoDup (map fst l1) ->
  (forall a, fold_res xm_attr l1 a = fold_res xm_attr l2 a)
  /\ (forall a, fold_res key_attr l1 a = fold_res key_attr l2 a)
  /\ (forall a, fold_res sd_attr l1 a = fold_res sd_attr l2 a)
  /\ (forall a, fold_res si_attr l1 a = fold_res si_attr l2 a)
  /\ (forall a, fold_res dr_attr l1 a = fold_res dr_attr l2 a).
Print Assumptions C12_attr_order_all.

(* any surface syntax of an attribute list: the attributes in any order, any white space around names, `=`,
   values and commas (`entry_ok`: the rendered entries of C01_tokenizer), additional attributes whose names the
   parser does not match (names from the regenerated attribute tables) — the accumulator after the fold is the
   one the canonical list gives, for each of the eight parsers *)
Theorem C12_any_attribute_syntax :

  (forall entries canon extra a, Forall entry_ok entries ->
     Permutation (map (fun e => (e_k e, e_v e)) entries) (canon ++ extra) -> NoDup (map fst (canon ++ extra)) ->
     (forall p, In p extra -> unknown_to "ExtXMedia" (fst p)) ->
     fold_res xm_attr (attr_pairs (render_attrs entries)) a = bind (fold_res xm_attr canon a) (fun a' => Ok a'))
  /\ (forall entries canon extra a, Forall entry_ok entries ->
     Permutation (map (fun e => (e_k e, e_v e)) entries) (canon ++ extra) -> NoDup (map fst (canon ++ extra)) ->
     (forall p, In p extra -> unknown_to "ExtXSessionData" (fst p)) ->
     fold_res xs_attr (attr_pairs (render_attrs entries)) a = bind (fold_res xs_attr canon a) (fun a' => Ok a'))
  /\ (forall entries canon extra a, Forall entry_ok entries ->
     Permutation (map (fun e => (e_k e, e_v e)) entries) (canon ++ extra) -> NoDup (map fst (canon ++ extra)) ->
     (forall p, In p extra -> unknown_to "DecryptionKey" (fst p)) ->
     fold_res key_attr (attr_pairs (render_attrs entries)) a = bind (fold_res key_attr canon a) (fun a' => Ok a'))
  /\ (forall entries canon extra a, Forall entry_ok entries ->
     Permutation (map (fun e => (e_k e, e_v e)) entries) (canon ++ extra) -> NoDup (map fst (canon ++ extra)) ->
     (forall p, In p extra -> unknown_to "StreamData" (fst p)) ->
     fold_res sd_attr (attr_pairs (render_attrs entries)) a = bind (fold_res sd_attr canon a) (fun a' => Ok a'))
  /\ (forall entries canon extra a, Forall entry_ok entries ->
     Permutation (map (fun e => (e_k e, e_v e)) entries) (canon ++ extra) -> NoDup (map fst (canon ++ extra)) ->
     (forall p, In p extra -> unknown_to "VariantStream" (fst p)) ->
     fold_res si_attr (attr_pairs (render_attrs entries)) a = bind (fold_res si_attr canon a) (fun a' => Ok a'))
  /\ (forall entries canon extra a, Forall entry_ok entries ->
     Permutation (map (fun e => (e_k e, e_v e)) entries) (canon ++ extra) -> NoDup (map fst (canon ++ extra)) ->
     (forall p, In p extra -> unknown_to "ExtXStart" (fst p)) ->
     fold_res start_attr (attr_pairs (render_attrs entries)) a = bind (fold_res start_attr canon a) (fun a' => Ok a'))
  /\ (forall entries canon extra a, Forall entry_ok entries ->
     Permutation (map (fun e => (e_k e, e_v e)) entries) (canon ++ extra) -> NoDup (map fst (canon ++ extra)) ->
     (forall p, In p extra -> unknown_to "ExtXMap" (fst p)) ->
     fold_res map_attr (attr_pairs (render_attrs entries)) a = bind (fold_res map_attr canon a) (fun a' => Ok a'))
  /\ (forall entries canon extra a, Forall entry_ok entries ->
     Permutation (map (fun e => (e_k e, e_v e)) entries) (canon ++ extra) -> NoDup (map fst (canon ++ extra)) ->
     (forall p, In p extra -> unknown_to "ExtXDateRange" (fst p) /\ starts_with s_Xdash (fst p) = false) ->
     fold_res dr_attr (attr_pairs (render_attrs entries)) a = bind (fold_res dr_attr canon a) (fun a' => Ok a')).
Proof. exact styled_all. Qed.
Check C12_any_attribute_syntax :

  (forall entries canon extra a, Forall entry_ok entries ->
     Permutation (map (fun e => (e_k e, e_v e)) entries) (canon ++ extra) -> NoDup (map fst (canon ++ extra)) ->
     (forall p, In p extra -> unknown_to "ExtXMedia" (fst p)) ->
     fold_res xm_attr (attr_pairs (render_attrs entries)) a = bind (fold_res xm_attr canon a) (fun a' => Ok a'))
  /\ (forall entries canon extra a, Forall entry_ok entries ->
     Permutation (map (fun e => (e_k e, e_v e)) entries) (canon ++ extra) -> NoDup (map fst (canon ++ extra)) ->
     (forall p, In p extra -> unknown_to "ExtXSessionData" (fst p)) ->
     fold_res xs_attr (attr_pairs (render_attrs entries)) a = bind (fold_res xs_attr canon a) (fun a' => Ok a'))
  /\ (forall entries canon extra a, Forall entry_ok entries ->
     Permutation (map (fun e => (e_k e, e_v e)) entries) (canon ++ extra) -> NoDup (map fst (canon ++ extra)) ->
     (forall p, In p extra -> unknown_to "DecryptionKey" (fst p)) ->
     fold_res key_attr (attr_pairs (render_attrs entries)) a = bind (fold_res key_attr canon a) (fun a' => Ok a'))
  /\ (forall entries canon extra a, Forall entry_ok entries ->
     Permutation (map (fun e => (e_k e, e_v e)) entries) (canon ++ extra) -> NoDup (map fst (canon ++ extra)) ->
     (forall p, In p extra -> unknown_to "StreamData" (fst p)) ->
     fold_res sd_attr (attr_pairs (render_attrs entries)) a = bind (fold_res sd_attr canon a) (fun a' => Ok a'))
  /\ (forall entries canon extra a, Forall entry_ok entries ->
     Permutation (map (fun e => (e_k e, e_v e)) entries) (canon ++ extra) -> NoDup (map fst (canon ++ extra)) ->
     (forall p, In p extra -> unknown_to "VariantStream" (fst p)) ->
     fold_res si_attr (attr_pairs (render_attrs entries)) a = bind (fold_res si_attr canon a) (fun a' => Ok a'))
  /\ (forall entries canon extra a, Forall entry_ok entries ->
     Permutation (map (fun e => (e_k e, e_v e)) entries) (canon ++ extra) -> NoDup (map fst (canon ++ extra)) ->
     (forall p, In p extra -> unknown_to "ExtXStart" (fst p)) ->
     fold_res start_attr (attr_pairs (render_attrs entries)) a = bind (fold_res start_attr canon a) (fun a' => Ok a'))
  /\ (forall entries canon extra a, Forall entry_ok entries ->
     Permutation (map (fun e => (e_k e, e_v e)) entries) (canon ++ extra) -> NoDup (map fst (canon ++ extra)) ->
     (forall p, In p extra -> unknown_to "ExtXMap" (fst p)) ->
     fold_res map_attr (attr_pairs (render_attrs entries)) a = bind (fold_res map_attr canon a) (fun a' => Ok a'))
  /\ (forall entries canon extra a, Forall entry_ok entries ->
     Permutation (map (fun e => (e_k e, e_v e)) entries) (canon ++ extra) -> NoDup (map fst (canon ++ extra)) ->
     (forall p, In p extra -> unknown_to "ExtXDateRange" (fst p) /\ starts_with s_Xdash (fst p) = false) ->
     fold_res dr_attr (attr_pairs (render_attrs entries)) a = bind (fold_res dr_attr canon a) (fun a' => Ok a')).
Print Assumptions C12_any_attribute_syntax.

(* the relative order of playlist-level tags, and of the non-key tags preceding a segment's URI: a block of tags of
   pairwise different kinds among EXTINF, BYTERANGE, PROGRAM-DATE-TIME, DATERANGE, DISCONTINUITY, MAP and
   TARGETDURATION, MEDIA-SEQUENCE, PLAYLIST-TYPE, I-FRAMES-ONLY, INDEPENDENT-SEGMENTS, START, ENDLIST, VERSION may be
   written in any order, whatever follows (EXT-X-KEY and EXT-X-DISCONTINUITY-SEQUENCE are position dependent) *)
Theorem C12_tag_order : forall l1 l2, Permutation l1 l2 -> NoDup (map kind_of l1) -> forallb free_tag l1 = true ->
  forall s rest, run_lines s (map tline l1 ++ rest) = run_lines s (map tline l2 ++ rest).
Proof. exact free_block_order. Qed.
Check C12_tag_order : forall l1 l2, Permutation l1 l2 -> NoDup (map kind_of l1) -> forallb free_tag l1 = true ->
  forall s rest, run_lines s (map tline l1 ++ rest) = run_lines s (map tline l2 ++ rest).
Print Assumptions C12_tag_order.


(* ONE theorem over whole playlists: two texts whose cleaned lines (C12_crlf, C12_blank_lines, C12_line_padding say when these
   are even equal) are related by the closure of the elementary presentation changes parse to the same result — same
   value, or both rejected.  `restyle_media` / `restyle_master` = reflexive-symmetric-transitive closure of `lstep_media` /
   `lstep`; the rules are restated in C12_restyle_rules so that they cannot be weakened silently. *)
Theorem C12_restyle_media : forall t t' r r' b0, tag t pfx_ExtM3u = Ok r -> tag t' pfx_ExtM3u = Ok r' ->
  restyle_media (clean_lines r) (clean_lines r') -> parse_media_with b0 t = parse_media_with b0 t'.
Proof. exact restyle_parse_media. Qed.
Check C12_restyle_media : forall t t' r r' b0, tag t pfx_ExtM3u = Ok r -> tag t' pfx_ExtM3u = Ok r' ->
  restyle_media (clean_lines r) (clean_lines r') -> parse_media_with b0 t = parse_media_with b0 t'.
Print Assumptions C12_restyle_media.

Theorem C12_restyle_master : forall t t' r r', tag t pfx_ExtM3u = Ok r -> tag t' pfx_ExtM3u = Ok r' ->
  restyle_master (clean_lines r) (clean_lines r') -> parse_master t = parse_master t'.
Proof. exact restyle_parse_master. Qed.
Check C12_restyle_master : forall t t' r r', tag t pfx_ExtM3u = Ok r -> tag t' pfx_ExtM3u = Ok r' ->
  restyle_master (clean_lines r) (clean_lines r') -> parse_master t = parse_master t'.
Print Assumptions C12_restyle_master.

(* the elementary changes: a comment or redundant EXT-X-VERSION line inserted anywhere (not between EXT-X-STREAM-INF and
   its URI: `closed a`), a line replaced by another spelling with the same item, a STREAM-INF line respelled, and (media
   playlists) a block of free tags of pairwise different kinds permuted *)
Theorem C12_restyle_rules :
  (forall a c b, closed a = true -> single c = true ->
     (item1 c = Ok LComment \/ exists v, item1 c = Ok (LTag (TVersion v))) -> lstep (a ++ b) (a ++ c :: b))
  /\ (forall a l l' b, closed a = true -> single l = true -> single l' = true -> item1 l = item1 l' ->
     lstep (a ++ l :: b) (a ++ l' :: b))
  /\ (forall a l l' u b, closed a = true -> single l = false -> single l' = false ->
     parse_streaminf l u = parse_streaminf l' u -> lstep (a ++ l :: u :: b) (a ++ l' :: u :: b))
  /\ (forall x y, lstep x y -> lstep_media x y)
  /\ (forall a blk blk' ts ts' b, closed a = true -> forallb single blk = true -> forallb single blk' = true ->
     map item1 blk = map tline ts -> map item1 blk' = map tline ts' -> Permutation ts ts' ->
     NoDup (map kind_of ts) -> forallb free_tag ts = true -> lstep_media (a ++ blk ++ b) (a ++ blk' ++ b)).
Proof. repeat split; intros; [eapply ls_insert | eapply ls_replace | eapply ls_replace_pair | eapply lm_common | eapply lm_block]; eassumption. Qed.
Check C12_restyle_rules :
  (forall a c b, closed a = true -> single c = true ->
     (item1 c = Ok LComment \/ exists v, item1 c = Ok (LTag (TVersion v))) -> lstep (a ++ b) (a ++ c :: b))
  /\ (forall a l l' b, closed a = true -> single l = true -> single l' = true -> item1 l = item1 l' ->
     lstep (a ++ l :: b) (a ++ l' :: b))
  /\ (forall a l l' u b, closed a = true -> single l = false -> single l' = false ->
     parse_streaminf l u = parse_streaminf l' u -> lstep (a ++ l :: u :: b) (a ++ l' :: u :: b))
  /\ (forall x y, lstep x y -> lstep_media x y)
  /\ (forall a blk blk' ts ts' b, closed a = true -> forallb single blk = true -> forallb single blk' = true ->
     map item1 blk = map tline ts -> map item1 blk' = map tline ts' -> Permutation ts ts' ->
     NoDup (map kind_of ts) -> forallb free_tag ts = true -> lstep_media (a ++ blk ++ b) (a ++ blk' ++ b)).
Print Assumptions C12_restyle_rules.

(* instances of the "other spelling" rule: for EXT-X-MAP, EXT-X-START, EXT-X-MEDIA, EXT-X-SESSION-DATA, EXT-X-DATERANGE, EXT-X-KEY
   (METHOD=NONE included) and EXT-X-SESSION-KEY, any two spellings of the same canonical attribute list — attributes in any
   order, any white space around names, `=`, values and commas, any additional attributes unknown to the parser (names from
   the regenerated attribute tables) — are related *)
Theorem C12_restyle_attribute_lines :
  (forall a b e e' canon, closed a = true -> styled "ExtXMap" e canon -> styled "ExtXMap" e' canon ->
     trim (pfx_ExtXMap ++ render_attrs e) = pfx_ExtXMap ++ render_attrs e -> trim (pfx_ExtXMap ++ render_attrs e') = pfx_ExtXMap ++ render_attrs e' ->
     lstep (a ++ (pfx_ExtXMap ++ render_attrs e) :: b) (a ++ (pfx_ExtXMap ++ render_attrs e') :: b))
  /\ (forall a b e e' canon, closed a = true -> styled "ExtXStart" e canon -> styled "ExtXStart" e' canon ->
     trim (pfx_ExtXStart ++ render_attrs e) = pfx_ExtXStart ++ render_attrs e -> trim (pfx_ExtXStart ++ render_attrs e') = pfx_ExtXStart ++ render_attrs e' ->
     lstep (a ++ (pfx_ExtXStart ++ render_attrs e) :: b) (a ++ (pfx_ExtXStart ++ render_attrs e') :: b))
  /\ (forall a b e e' canon, closed a = true -> styled "ExtXMedia" e canon -> styled "ExtXMedia" e' canon ->
     trim (pfx_ExtXMedia ++ render_attrs e) = pfx_ExtXMedia ++ render_attrs e -> trim (pfx_ExtXMedia ++ render_attrs e') = pfx_ExtXMedia ++ render_attrs e' ->
     lstep (a ++ (pfx_ExtXMedia ++ render_attrs e) :: b) (a ++ (pfx_ExtXMedia ++ render_attrs e') :: b))
  /\ (forall a b e e' canon, closed a = true -> styled "ExtXSessionData" e canon -> styled "ExtXSessionData" e' canon ->
     trim (pfx_ExtXSessionData ++ render_attrs e) = pfx_ExtXSessionData ++ render_attrs e -> trim (pfx_ExtXSessionData ++ render_attrs e') = pfx_ExtXSessionData ++ render_attrs e' ->
     lstep (a ++ (pfx_ExtXSessionData ++ render_attrs e) :: b) (a ++ (pfx_ExtXSessionData ++ render_attrs e') :: b))
  /\ (forall a b e e' canon, closed a = true -> styled_dr e canon -> styled_dr e' canon ->
     trim (pfx_ExtXDateRange ++ render_attrs e) = pfx_ExtXDateRange ++ render_attrs e -> trim (pfx_ExtXDateRange ++ render_attrs e') = pfx_ExtXDateRange ++ render_attrs e' ->
     lstep (a ++ (pfx_ExtXDateRange ++ render_attrs e) :: b) (a ++ (pfx_ExtXDateRange ++ render_attrs e') :: b))
  /\ (forall a b e e' canon, closed a = true -> styled "DecryptionKey" e canon -> styled "DecryptionKey" e' canon ->
     trim (pfx_ExtXKey ++ render_attrs e) = pfx_ExtXKey ++ render_attrs e -> trim (pfx_ExtXKey ++ render_attrs e') = pfx_ExtXKey ++ render_attrs e' ->
     lstep (a ++ (pfx_ExtXKey ++ render_attrs e) :: b) (a ++ (pfx_ExtXKey ++ render_attrs e') :: b))
  /\ (forall a b e e' canon, closed a = true -> styled "DecryptionKey" e canon -> styled "DecryptionKey" e' canon ->
     trim (pfx_ExtXSessionKey ++ render_attrs e) = pfx_ExtXSessionKey ++ render_attrs e -> trim (pfx_ExtXSessionKey ++ render_attrs e') = pfx_ExtXSessionKey ++ render_attrs e' ->
     lstep (a ++ (pfx_ExtXSessionKey ++ render_attrs e) :: b) (a ++ (pfx_ExtXSessionKey ++ render_attrs e') :: b)).
Proof.
  repeat split; intros a b e e' canon Ha; [apply restyle_xmap | apply restyle_start | apply restyle_xmedia | apply restyle_session_data
    | apply restyle_daterange | apply restyle_xkey | apply restyle_session_key]; exact Ha.
Qed.
Check C12_restyle_attribute_lines :
  (forall a b e e' canon, closed a = true -> styled "ExtXMap" e canon -> styled "ExtXMap" e' canon ->
     trim (pfx_ExtXMap ++ render_attrs e) = pfx_ExtXMap ++ render_attrs e -> trim (pfx_ExtXMap ++ render_attrs e') = pfx_ExtXMap ++ render_attrs e' ->
     lstep (a ++ (pfx_ExtXMap ++ render_attrs e) :: b) (a ++ (pfx_ExtXMap ++ render_attrs e') :: b))
  /\ (forall a b e e' canon, closed a = true -> styled "ExtXStart" e canon -> styled "ExtXStart" e' canon ->
     trim (pfx_ExtXStart ++ render_attrs e) = pfx_ExtXStart ++ render_attrs e -> trim (pfx_ExtXStart ++ render_attrs e') = pfx_ExtXStart ++ render_attrs e' ->
     lstep (a ++ (pfx_ExtXStart ++ render_attrs e) :: b) (a ++ (pfx_ExtXStart ++ render_attrs e') :: b))
  /\ (forall a b e e' canon, closed a = true -> styled "ExtXMedia" e canon -> styled "ExtXMedia" e' canon ->
     trim (pfx_ExtXMedia ++ render_attrs e) = pfx_ExtXMedia ++ render_attrs e -> trim (pfx_ExtXMedia ++ render_attrs e') = pfx_ExtXMedia ++ render_attrs e' ->
     lstep (a ++ (pfx_ExtXMedia ++ render_attrs e) :: b) (a ++ (pfx_ExtXMedia ++ render_attrs e') :: b))
  /\ (forall a b e e' canon, closed a = true -> styled "ExtXSessionData" e canon -> styled "ExtXSessionData" e' canon ->
     trim (pfx_ExtXSessionData ++ render_attrs e) = pfx_ExtXSessionData ++ render_attrs e -> trim (pfx_ExtXSessionData ++ render_attrs e') = pfx_ExtXSessionData ++ render_attrs e' ->
     lstep (a ++ (pfx_ExtXSessionData ++ render_attrs e) :: b) (a ++ (pfx_ExtXSessionData ++ render_attrs e') :: b))
  /\ (forall a b e e' canon, closed a = true -> styled_dr e canon -> styled_dr e' canon ->
     trim (pfx_ExtXDateRange ++ render_attrs e) = pfx_ExtXDateRange ++ render_attrs e -> trim (pfx_ExtXDateRange ++ render_attrs e') = pfx_ExtXDateRange ++ render_attrs e' ->
     lstep (a ++ (pfx_ExtXDateRange ++ render_attrs e) :: b) (a ++ (pfx_ExtXDateRange ++ render_attrs e') :: b))
  /\ (forall a b e e' canon, closed a = true -> styled "DecryptionKey" e canon -> styled "DecryptionKey" e' canon ->
     trim (pfx_ExtXKey ++ render_attrs e) = pfx_ExtXKey ++ render_attrs e -> trim (pfx_ExtXKey ++ render_attrs e') = pfx_ExtXKey ++ render_attrs e' ->
     lstep (a ++ (pfx_ExtXKey ++ render_attrs e) :: b) (a ++ (pfx_ExtXKey ++ render_attrs e') :: b))
  /\ (forall a b e e' canon, closed a = true -> styled "DecryptionKey" e canon -> styled "DecryptionKey" e' canon ->
     trim (pfx_ExtXSessionKey ++ render_attrs e) = pfx_ExtXSessionKey ++ render_attrs e -> trim (pfx_ExtXSessionKey ++ render_attrs e') = pfx_ExtXSessionKey ++ render_attrs e' ->
     lstep (a ++ (pfx_ExtXSessionKey ++ render_attrs e) :: b) (a ++ (pfx_ExtXSessionKey ++ render_attrs e') :: b)).
Print Assumptions C12_restyle_attribute_lines.

(* ... and for the two variant-stream tags, whose attribute list is read by two parsers (the tag's own attributes and the
   shared stream data; for EXT-X-I-FRAME-STREAM-INF the URI attribute and the stream data) *)
Theorem C12_restyle_variant_lines :
  (forall a b e e' csi csd u, closed a = true -> styled2 e csi csd -> styled2 e' csi csd ->
     trim (pfx_VariantStream_EXTXSTREAMINF ++ render_attrs e) = pfx_VariantStream_EXTXSTREAMINF ++ render_attrs e ->
     trim (pfx_VariantStream_EXTXSTREAMINF ++ render_attrs e') = pfx_VariantStream_EXTXSTREAMINF ++ render_attrs e' ->
     lstep (a ++ (pfx_VariantStream_EXTXSTREAMINF ++ render_attrs e) :: u :: b) (a ++ (pfx_VariantStream_EXTXSTREAMINF ++ render_attrs e') :: u :: b))
  /\ (forall a b e e' uri csd, closed a = true -> styled_iframe e uri csd -> styled_iframe e' uri csd ->
     trim (pfx_VariantStream_EXTXIFRAME ++ render_attrs e) = pfx_VariantStream_EXTXIFRAME ++ render_attrs e ->
     trim (pfx_VariantStream_EXTXIFRAME ++ render_attrs e') = pfx_VariantStream_EXTXIFRAME ++ render_attrs e' ->
     lstep (a ++ (pfx_VariantStream_EXTXIFRAME ++ render_attrs e) :: b) (a ++ (pfx_VariantStream_EXTXIFRAME ++ render_attrs e') :: b)).
Proof. split; intros; [eapply restyle_streaminf | eapply restyle_iframe]; eassumption. Qed.
Check C12_restyle_variant_lines :
  (forall a b e e' csi csd u, closed a = true -> styled2 e csi csd -> styled2 e' csi csd ->
     trim (pfx_VariantStream_EXTXSTREAMINF ++ render_attrs e) = pfx_VariantStream_EXTXSTREAMINF ++ render_attrs e ->
     trim (pfx_VariantStream_EXTXSTREAMINF ++ render_attrs e') = pfx_VariantStream_EXTXSTREAMINF ++ render_attrs e' ->
     lstep (a ++ (pfx_VariantStream_EXTXSTREAMINF ++ render_attrs e) :: u :: b) (a ++ (pfx_VariantStream_EXTXSTREAMINF ++ render_attrs e') :: u :: b))
  /\ (forall a b e e' uri csd, closed a = true -> styled_iframe e uri csd -> styled_iframe e' uri csd ->
     trim (pfx_VariantStream_EXTXIFRAME ++ render_attrs e) = pfx_VariantStream_EXTXIFRAME ++ render_attrs e ->
     trim (pfx_VariantStream_EXTXIFRAME ++ render_attrs e') = pfx_VariantStream_EXTXIFRAME ++ render_attrs e' ->
     lstep (a ++ (pfx_VariantStream_EXTXIFRAME ++ render_attrs e) :: b) (a ++ (pfx_VariantStream_EXTXIFRAME ++ render_attrs e') :: b)).
Print Assumptions C12_restyle_variant_lines.

(* non-vacuity of the restyle rules: a padded, permuted EXT-X-MAP line with an unknown attribute is a spelling of the
   canonical list, the rule applies, and the theorem's conclusion is confirmed by evaluation *)
Definition ex_entries1 : list entry :=
  [ {| e_p1 := [32]; e_k := lit "FOO"; e_p2 := []; e_p3 := [9]; e_v := lit "1"; e_p4 := [32] |};
    {| e_p1 := [32]; e_k := lit "URI"; e_p2 := [32]; e_p3 := [32]; e_v := lit """a,b=c"""; e_p4 := [] |} ].
Definition ex_entries2 : list entry :=
  [ {| e_p1 := []; e_k := lit "URI"; e_p2 := []; e_p3 := []; e_v := lit """a,b=c"""; e_p4 := [] |} ].
Definition ex_canon : list (str * str) := [(lit "URI", lit """a,b=c""")].
Example C12_restyle_example :
  styled "ExtXMap" ex_entries1 ex_canon /\ styled "ExtXMap" ex_entries2 ex_canon
  /\ lstep ([lit "#EXT-X-TARGETDURATION:5"] ++ (pfx_ExtXMap ++ render_attrs ex_entries1) :: [lit "#EXTINF:5,"; lit "a.ts"])
           ([lit "#EXT-X-TARGETDURATION:5"] ++ (pfx_ExtXMap ++ render_attrs ex_entries2) :: [lit "#EXTINF:5,"; lit "a.ts"])
  /\ parse_media (lit "#EXTM3U
#EXT-X-TARGETDURATION:5
#EXT-X-MAP: FOO=	1 , URI = ""a,b=c""
#EXTINF:5,
a.ts
") = parse_media (lit "#EXTM3U
#EXT-X-TARGETDURATION:5
#EXT-X-MAP:URI=""a,b=c""
#EXTINF:5,
a.ts
").
Proof.
  assert (S1 : styled "ExtXMap" ex_entries1 ex_canon).
  { split.
    - repeat constructor; vm_compute; try reflexivity; try discriminate.
    - exists [(lit "FOO", lit "1")]. repeat split.
      + apply perm_swap.
      + cbn [map app fst ex_canon]. constructor; [intros [H|[]]; discriminate H|]. constructor; [intros []|constructor].
      + intros p [<- | []]. vm_compute. reflexivity. }
  assert (S2 : styled "ExtXMap" ex_entries2 ex_canon).
  { split.
    - repeat constructor; vm_compute; try reflexivity; try discriminate.
    - exists []. repeat split.
      + apply Permutation_refl.
      + cbn [map app fst ex_canon]. constructor; [intros []|constructor].
      + intros p []. }
  split; [exact S1|]. split; [exact S2|]. split.
  - assert (Hc : closed [lit "#EXT-X-TARGETDURATION:5"] = true) by (vm_compute; reflexivity).
    apply (restyle_xmap _ _ Hc _ _ ex_canon S1 S2); vm_compute; reflexivity.
  - vm_compute. reflexivity.
Qed.

(* white space around attribute names and values is trimmed by the tokenizer (C01_tokenizer) *)

Example C12_example :
  parse_media (lit "#EXTM3U
#EXT-X-TARGETDURATION:5
#EXTINF:5,
a.ts
") = parse_media (crlfify (lit "#EXTM3U
# comment

   #EXT-X-TARGETDURATION:5  
#EXT-X-VERSION:3
#EXTINF:5,
a.ts
")).
Proof. vm_compute. reflexivity. Qed.
(* the METHOD=NONE key tag with white space and an attribute a client has to ignore (known finding D22, repaired) *)
Example C12_example_none :
  parse_xkey (lit "#EXT-X-KEY:METHOD=NONE") = Ok None /\ parse_xkey (lit "#EXT-X-KEY: FOO=1 , METHOD = NONE") = Ok None
  /\ parse_xkey (lit "#EXT-X-KEY:METHOD=NONE,URI=""k""") = Err.
Proof. vm_compute. repeat split; reflexivity. Qed.
