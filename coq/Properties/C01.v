(* C01 — media playlist text is parsed faithfully.  Proved here: the layers the end-to-end
   statement is made of.  The end-to-end statement itself,
     forall sty a, wf a -> parse_media (render sty a) = Ok (complete (sem a)),
   is NOT proved (it needs every per-tag value lemma incl. the float text conversions); it is
   listed as open in the evidence and is what the correspondence check samples. *)
From hls Require Import Base Float Lex Kinds Types Tags Line Keys Media.
From hls.Generated Require Import Tables.
From hls Require Import Master.
From hls.Proofs Require Import Build Parse MediaProps Lexical Assembly MasterOrder Values MediaText C03Items ParsedBuilt Restyle FloatRound DurationText.
Open Scope N_scope.

(* L2: the tokenizer returns exactly the rendered (name, value) pairs, whatever the padding
   around names, '=', values and ','; commas and '=' inside quotes never split a value *)
Theorem C01_tokenizer : forall l, Forall entry_ok l ->
  attr_pairs (render_attrs l) = map (fun e => (e_k e, e_v e)) l.
Proof. exact tokenizer_inverts_render. Qed.
Check C01_tokenizer : forall l, Forall entry_ok l ->
  attr_pairs (render_attrs l) = map (fun e => (e_k e, e_v e)) l.
Print Assumptions C01_tokenizer.

Theorem C01_unquote_quote : forall s, clean_quoted s = true -> unquote (quote s) = s.
Proof. exact unquote_quote. Qed.
Check C01_unquote_quote : forall s, clean_quoted s = true -> unquote (quote s) = s.
Print Assumptions C01_unquote_quote.

(* L4: with the dispatch chain regenerated from src/line.rs, a line that starts with a tag's
   prefix is classified as that tag, whatever follows; the attribute-less tags are recognised
   exactly and an extension of their name is an unknown tag *)
Theorem C01_dispatch : forall p k rest, In (false, p, k) dispatch_table -> classify (p ++ rest) = k.
Proof. exact dispatch_by_prefix. Qed.
Check C01_dispatch : forall p k rest, In (false, p, k) dispatch_table -> classify (p ++ rest) = k.
Print Assumptions C01_dispatch.

Theorem C01_dispatch_flags :
  classify pfx_ExtXEndList = K_ExtXEndList /\ classify pfx_ExtXIFramesOnly = K_ExtXIFramesOnly
  /\ classify pfx_ExtXIndependentSegments = K_ExtXIndependentSegments
  /\ classify pfx_ExtXDiscontinuity = K_ExtXDiscontinuity.
Proof. exact dispatch_flags. Qed.
Check C01_dispatch_flags :
  classify pfx_ExtXEndList = K_ExtXEndList /\ classify pfx_ExtXIFramesOnly = K_ExtXIFramesOnly
  /\ classify pfx_ExtXIndependentSegments = K_ExtXIndependentSegments
  /\ classify pfx_ExtXDiscontinuity = K_ExtXDiscontinuity.
Print Assumptions C01_dispatch_flags.

(* names that only look like known tags, over the whole regenerated dispatch chain: a value tag's name without its colon
   (a bare `#EXT-X-KEY`) and a longer name (`#EXT-X-KEYS:1`) are unknown tags *)
Theorem C01_near_miss_names : name_without_colon_unknown = true /\ longer_name_unknown = true.
Proof. split; [exact bare_names_unknown | exact longer_names_unknown]. Qed.
Check C01_near_miss_names : name_without_colon_unknown = true /\ longer_name_unknown = true.
Print Assumptions C01_near_miss_names.

Theorem C01_flag_extension_unknown : forall c rest,
  classify (pfx_ExtXEndList ++ c :: rest) = K_Unknown
  /\ classify (pfx_ExtXIFramesOnly ++ c :: rest) = K_Unknown
  /\ classify (pfx_ExtXIndependentSegments ++ c :: rest) = K_Unknown.
Proof. exact flag_extension_unknown. Qed.
Check C01_flag_extension_unknown : forall c rest,
  classify (pfx_ExtXEndList ++ c :: rest) = K_Unknown
  /\ classify (pfx_ExtXIFramesOnly ++ c :: rest) = K_Unknown
  /\ classify (pfx_ExtXIndependentSegments ++ c :: rest) = K_Unknown.
Print Assumptions C01_flag_extension_unknown.

(* L5: segment assembly — exactly one segment per URI line, in order, each carrying what the
   tags between the previous URI line and its own specify (last instance of each tag) *)
Theorem C01_assembly : forall b0 ls s, run_lines (init_state b0) (map Ok ls) = Ok s ->
  Forall2 seg_matches (rev (ps_segs s)) (groups ls []).
Proof. exact assembly. Qed.
Check C01_assembly : forall b0 ls s, run_lines (init_state b0) (map Ok ls) = Ok s ->
  Forall2 seg_matches (rev (ps_segs s)) (groups ls []).
Print Assumptions C01_assembly.

(* unrecognised #EXT tags are kept, in source order *)
Theorem C01_unknown_tags : forall ls s s', run_lines s (map Ok ls) = Ok s' ->
  rev (ps_unknown s') = rev (ps_unknown s) ++ unknowns ls.
Proof. exact media_unknown_order. Qed.
Check C01_unknown_tags : forall ls s s', run_lines s (map Ok ls) = Ok s' ->
  rev (ps_unknown s') = rev (ps_unknown s) ++ unknowns ls.
Print Assumptions C01_unknown_tags.

(* value layer: 64-bit integers up to the type limit are read back exactly *)
Theorem C01_integers : forall w n, n < 2 ^ w -> parse_uint w (print_uint n) = Some n.
Proof. exact parse_print_uint. Qed.
Check C01_integers : forall w n, n < 2 ^ w -> parse_uint w (print_uint n) = Some n.
Print Assumptions C01_integers.

(* end to end, for the canonical rendering: every well-formed playlist value with the build() invariants is
   reported faithfully by the parser from its own text — the same playlist-level values and unknown tags,
   and per segment the same number, URI, duration/title, byte range, date range, flags and map (keys
   as a set).  Arbitrary surface syntax: the tokenizer / dispatch / assembly theorems above and C12. *)
Theorem C01_canonical_text : forall p raws, wf_media p = true -> built_ok p raws ->
  parse_media (print_media p) = Ok (reread p)
  /\ mp_target (reread p) = mp_target p /\ mp_mseq (reread p) = mp_mseq p /\ mp_dseq (reread p) = mp_dseq p
  /\ mp_ptype (reread p) = mp_ptype p /\ mp_iframes (reread p) = mp_iframes p /\ mp_indep (reread p) = mp_indep p
  /\ mp_start (reread p) = mp_start p /\ mp_endlist (reread p) = mp_endlist p /\ mp_unknown (reread p) = mp_unknown p
  /\ Forall2 seg_same (mp_segs (reread p)) (mp_segs p).
Proof.
  intros p raws Hw Hb. split; [apply (media_text_roundtrip p raws Hw Hb) | apply (reread_same p raws Hb)].
Qed.
Check C01_canonical_text : forall p raws, wf_media p = true -> built_ok p raws ->
  parse_media (print_media p) = Ok (reread p)
  /\ mp_target (reread p) = mp_target p /\ mp_mseq (reread p) = mp_mseq p /\ mp_dseq (reread p) = mp_dseq p
  /\ mp_ptype (reread p) = mp_ptype p /\ mp_iframes (reread p) = mp_iframes p /\ mp_indep (reread p) = mp_indep p
  /\ mp_start (reread p) = mp_start p /\ mp_endlist (reread p) = mp_endlist p /\ mp_unknown (reread p) = mp_unknown p
  /\ Forall2 seg_same (mp_segs (reread p)) (mp_segs p).
Print Assumptions C01_canonical_text.

(* ... and for every other presentation of that text: any text whose cleaned lines are related to those of the canonical
   text by the closure of the presentation changes of C12 (comments, redundant version tags, other spellings of a tag's
   attribute list, permuted free tags; CRLF / blank lines / padding do not even change the cleaned lines) parses to the
   same value *)
Theorem C01_styled_text : forall p raws t r r0, wf_media p = true -> built_ok p raws ->
  tag t pfx_ExtM3u = Ok r -> tag (print_media p) pfx_ExtM3u = Ok r0 -> restyle_media (clean_lines r) (clean_lines r0) ->
  parse_media t = Ok (reread p).
Proof.
  intros p raws t r r0 Hw Hb Ht Ht0 HR. unfold parse_media. rewrite (restyle_parse_media t (print_media p) r r0 mb_default Ht Ht0 HR).
  apply (media_text_roundtrip p raws Hw Hb).
Qed.
Check C01_styled_text : forall p raws t r r0, wf_media p = true -> built_ok p raws ->
  tag t pfx_ExtM3u = Ok r -> tag (print_media p) pfx_ExtM3u = Ok r0 -> restyle_media (clean_lines r) (clean_lines r0) ->
  parse_media t = Ok (reread p).
Print Assumptions C01_styled_text.

(* durations "to the nanosecond": a plain decimal with at most nine fractional digits below 2^20 s (12 days) is read,
   through f64 and Duration::try_from_secs_f64, to exactly the nanosecond count the text denotes — for every such text,
   not a sample (the rounding error of the f64 is below 2^-34 s and the nanosecond rounding absorbs it) *)
Theorem C01_duration_exact :
  (forall c a b, forallb is_digit (c :: a) = true -> forallb is_digit b = true -> (List.length b <= 9)%nat ->
     let m := zval ((c :: a) ++ b) 0 in let fc := Z.of_nat (List.length b) in
     (m < 1048576 * 10 ^ fc)%Z ->
     parse_duration ((c :: a) ++ 46%N :: b) = Ok (Z.to_N (m * 10 ^ (9 - fc))))
  /\ (forall c a, forallb is_digit (c :: a) = true ->
     let m := zval (c :: a) 0 in (m < 1048576)%Z -> parse_duration (c :: a) = Ok (Z.to_N (m * 1000000000))).
Proof. exact (conj parse_duration_plain parse_duration_int). Qed.
Check C01_duration_exact :
  (forall c a b, forallb is_digit (c :: a) = true -> forallb is_digit b = true -> (List.length b <= 9)%nat ->
     let m := zval ((c :: a) ++ b) 0 in let fc := Z.of_nat (List.length b) in
     (m < 1048576 * 10 ^ fc)%Z ->
     parse_duration ((c :: a) ++ 46%N :: b) = Ok (Z.to_N (m * 10 ^ (9 - fc))))
  /\ (forall c a, forallb is_digit (c :: a) = true ->
     let m := zval (c :: a) 0 in (m < 1048576)%Z -> parse_duration (c :: a) = Ok (Z.to_N (m * 1000000000))).
Print Assumptions C01_duration_exact.
Example C01_duration_example :
  parse_duration (lit "9.009") = Ok 9009000000 /\ parse_duration (lit "0.499999999") = Ok 499999999
  /\ parse_duration (lit "1048575.999999999") = Ok 1048575999999999 /\ zval (lit "9009") 0 = 9009%Z.
Proof. vm_compute. repeat split. Qed.

Example C01_example :
  attr_pairs (lit " URI = ""a,b=c"" ,IV=0x12,  X=""q""") = [(lit "URI", lit """a,b=c"""); (lit "IV", lit "0x12"); (lit "X", lit """q""")]
  /\ match parse_media (lit "#EXTM3U
#EXT-X-TARGETDURATION:10
#EXT-X-MAP:URI=""i,1"",BYTERANGE=""5@3""
#EXTINF:9.009,title, with comma
#EXT-X-DISCONTINUITY
a.ts
#EXT-X-ENDLISTX
") with
     | Ok p => map sg_uri (mp_segs p) = [lit "a.ts"] /\ mp_unknown p = [lit "#EXT-X-ENDLISTX"] /\ mp_endlist p = false
               /\ map (fun s => inf_dur (sg_inf s)) (mp_segs p) = [9009000000]
     | _ => False
     end.
Proof. vm_compute. repeat split. Qed.
