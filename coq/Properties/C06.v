(* C06 — EXT-X-KEY scoping: each segment and map reports exactly the keys in effect. *)
From hls Require Import Base Float Lex Kinds Types Tags Line Keys Media.
From hls.Spec Require Import KeySpec.
From hls.Proofs Require Import KeysProof C06.

(* after any history of EXT-X-KEY events the parser's key list holds exactly the keys in
   effect under RFC 8216 4.3.2.4 (absent KEYFORMAT = identity; METHOD=NONE removes all
   and leaves the explicit-none marker) *)
Theorem C06_in_effect : forall h x, In x (keys_after h) <-> KeySpec.InEffect h x.
Proof. exact keys_in_effect. Qed.
Check C06_in_effect : forall h x, In x (keys_after h) <-> KeySpec.InEffect h x.
Print Assumptions C06_in_effect.

(* no two keys of the same key format are ever reported together *)
Theorem C06_one_key_per_format : forall h a b,
  In (Some a) (keys_after h) -> In (Some b) (keys_after h) -> same_fmt a b = true -> a = b.
Proof. exact one_key_per_format. Qed.
Check C06_one_key_per_format : forall h a b,
  In (Some a) (keys_after h) -> In (Some b) (keys_after h) -> same_fmt a b = true -> a = b.
Print Assumptions C06_one_key_per_format.

(* the explicit-none marker is never mixed with keys *)
Theorem C06_marker_alone : forall h, In None (keys_after h) -> keys_after h = [None].
Proof. exact marker_alone. Qed.
Check C06_marker_alone : forall h, In None (keys_after h) -> keys_after h = [None].
Print Assumptions C06_marker_alone.

(* the keys are reported in the order of their EXT-X-KEY lines *)
Theorem C06_tag_order : forall h, subseq (keys_after h) h.
Proof. exact keys_in_tag_order. Qed.
Check C06_tag_order : forall h, subseq (keys_after h) h.
Print Assumptions C06_tag_order.

(* the parser state machine: after any accepted line sequence the key list is keys_after of
   the key events among those lines (starting from the list it began with) *)
Theorem C06_parser_state : forall ls s s', run_lines s (map Ok ls) = Ok s' ->
  ps_keys s' = keys_from (ps_keys s) (key_hist ls).
Proof. exact run_lines_keys. Qed.
Check C06_parser_state : forall ls s s', run_lines s (map Ok ls) = Ok s' ->
  ps_keys s' = keys_from (ps_keys s) (key_hist ls).
Print Assumptions C06_parser_state.

(* a segment is created with the key list held at its URI line, a map with the list held at
   the EXT-X-MAP line *)
Theorem C06_segment_snapshot : forall s u s', step s (LUri u) = Ok s' ->
  exists sg, ps_segs s' = sg :: ps_segs s /\ sg_keys sg = ps_keys s /\ sg_uri sg = u.
Proof. exact step_uri_snapshot. Qed.
Check C06_segment_snapshot : forall s u s', step s (LUri u) = Ok s' ->
  exists sg, ps_segs s' = sg :: ps_segs s /\ sg_keys sg = ps_keys s /\ sg_uri sg = u.
Print Assumptions C06_segment_snapshot.

Theorem C06_map_snapshot : forall s m s', step s (LTag (TMap m)) = Ok s' ->
  exists m', sa_map (ps_seg s') = Some m' /\ map_keys m' = ps_keys s /\ map_uri m' = map_uri m.
Proof. exact step_map_snapshot. Qed.
Check C06_map_snapshot : forall s m s', step s (LTag (TMap m)) = Ok s' ->
  exists m', sa_map (ps_seg s') = Some m' /\ map_keys m' = ps_keys s /\ map_uri m' = map_uri m.
Print Assumptions C06_map_snapshot.

(* non-vacuity: a history with two formats, a replacement and a reset *)
Definition ex_key (u : N) (f : option KeyFormat) : Key :=
  {| k_method := 0; k_uri := [u]; k_iv := IvMissing; k_format := f; k_versions := None |}.
Example C06_example :
  keys_after [Some (ex_key 1 None); Some (ex_key 2 (Some KfFairPlay)); Some (ex_key 3 (Some KfIdentity))]
  = [Some (ex_key 2 (Some KfFairPlay)); Some (ex_key 3 (Some KfIdentity))]
  /\ keys_after [Some (ex_key 1 None); None; Some (ex_key 4 (Some KfWidevine))] = [Some (ex_key 4 (Some KfWidevine))]
  /\ keys_after [Some (ex_key 1 None); None] = [None].
Proof. vm_compute. repeat split. Qed.
