(* C09 — the target-duration rule is enforced exactly, at every boundary. *)
From hls Require Import Base Float Lex Kinds Types Tags Line Keys Media.
From hls.Proofs Require Import Build Parse MediaProps FloatRound DurationText.
Open Scope N_scope.

(* rounded_ns is "nearest whole second, halves up", in nanoseconds *)
Theorem C09_rounding : forall d,
  rounded_ns d mod 1000000000 = 0 /\ rounded_ns d <= d + 500000000 /\ d + 500000000 < rounded_ns d + 1000000000.
Proof. exact rounded_ns_spec. Qed.
Check C09_rounding : forall d,
  rounded_ns d mod 1000000000 = 0 /\ rounded_ns d <= d + 500000000 /\ d + 500000000 < rounded_ns d + 1000000000.
Print Assumptions C09_rounding.

(* validation (shared by parsing and building) accepts iff every segment's rounded duration
   is within target + allowance, next to the two other validation rules *)
Theorem C09_iff : forall b t slots, b_segments b = Some slots ->
  (validate_segments b t = true <->
   (match b_indep b with Some true => indep_ok (present slots) = true | _ => True end)
   /\ (forall s, In s (present slots) -> rounded_ns (inf_dur (sg_inf s)) <= max_seg_dur t (b_excess b))
   /\ ranges_ok (present slots) None = true).
Proof. exact validate_iff_rule. Qed.
Check C09_iff : forall b t slots, b_segments b = Some slots ->
  (validate_segments b t = true <->
   (match b_indep b with Some true => indep_ok (present slots) = true | _ => True end)
   /\ (forall s, In s (present slots) -> rounded_ns (inf_dur (sg_inf s)) <= max_seg_dur t (b_excess b))
   /\ ranges_ok (present slots) None = true).
Print Assumptions C09_iff.

(* no media playlist value handed to the user holds a segment longer than the bound *)
Theorem C09_no_long_segment : forall b p, build b = Ok p ->
  forall sg, In sg (mp_segs p) ->
    rounded_ns (inf_dur (sg_inf sg)) <= max_seg_dur (mp_target p) (b_excess b).
Proof. exact build_durations. Qed.
Check C09_no_long_segment : forall b p, build b = Ok p ->
  forall sg, In sg (mp_segs p) ->
    rounded_ns (inf_dur (sg_inf sg)) <= max_seg_dur (mp_target p) (b_excess b).
Print Assumptions C09_no_long_segment.

(* the boundary on the text: for a plain decimal duration (at most nine fractional digits, below 2^20 s) the rounded
   duration is within T whole seconds iff the decimal number is below T + 1/2 — the passage through f64 never moves
   the x.5 boundary, for any such text (x.499999999 is accepted, x.5 is not, for every x) *)
Theorem C09_text_boundary : forall c a b (T : N), forallb is_digit (c :: a) = true -> forallb is_digit b = true ->
  (List.length b <= 9)%nat ->
  let m := zval ((c :: a) ++ b) 0 in let fc := Z.of_nat (List.length b) in
  (m < 1048576 * 10 ^ fc)%Z ->
  exists d, parse_duration ((c :: a) ++ 46%N :: b) = Ok d /\
    (rounded_ns d <= T * 1000000000 <-> (2 * m < (2 * Z.of_N T + 1) * 10 ^ fc)%Z).
Proof. exact duration_text_boundary. Qed.
Check C09_text_boundary : forall c a b (T : N), forallb is_digit (c :: a) = true -> forallb is_digit b = true ->
  (List.length b <= 9)%nat ->
  let m := zval ((c :: a) ++ b) 0 in let fc := Z.of_nat (List.length b) in
  (m < 1048576 * 10 ^ fc)%Z ->
  exists d, parse_duration ((c :: a) ++ 46%N :: b) = Ok d /\
    (rounded_ns d <= T * 1000000000 <-> (2 * m < (2 * Z.of_N T + 1) * 10 ^ fc)%Z).
Print Assumptions C09_text_boundary.

Example C09_example :
  is_ok (parse_media (lit "#EXTM3U
#EXT-X-TARGETDURATION:9
#EXTINF:9.499999999,
a.ts
")) = true /\ is_err (parse_media (lit "#EXTM3U
#EXT-X-TARGETDURATION:9
#EXTINF:9.5,
a.ts
")) = true.
Proof. vm_compute. split; reflexivity. Qed.
