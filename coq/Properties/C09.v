(* C09 — the target-duration rule is enforced exactly, at every boundary. *)
From hls Require Import Base Float Lex Kinds Types Tags Line Keys Media.
From hls.Proofs Require Import Build Parse MediaProps.
Open Scope N_scope.

(* rounded_ns is "nearest whole second, halves up", in nanoseconds *)
Theorem C09_rounding : forall d,
  rounded_ns d mod 1000000000 = 0 /\ rounded_ns d <= d + 500000000 /\ d + 500000000 < rounded_ns d + 1000000000.
Proof. exact rounded_ns_spec. Qed.
Check C09_rounding : forall d,
  rounded_ns d mod 1000000000 = 0 /\ rounded_ns d <= d + 500000000 /\ d + 500000000 < rounded_ns d + 1000000000.
Print Assumptions C09_rounding.

(* validation (shared by parsing and building) accepts iff every segment's rounded duration
   is within target + allowance, next to the two other validation rules *)
Theorem C09_iff : forall b t slots, b_segments b = Some slots ->
  (validate_segments b t = true <->
   (match b_indep b with Some true => indep_ok (present slots) = true | _ => True end)
   /\ (forall s, In s (present slots) -> rounded_ns (inf_dur (sg_inf s)) <= max_seg_dur t (b_excess b))
   /\ ranges_ok (present slots) None = true).
Proof. exact validate_iff_rule. Qed.
Check C09_iff : forall b t slots, b_segments b = Some slots ->
  (validate_segments b t = true <->
   (match b_indep b with Some true => indep_ok (present slots) = true | _ => True end)
   /\ (forall s, In s (present slots) -> rounded_ns (inf_dur (sg_inf s)) <= max_seg_dur t (b_excess b))
   /\ ranges_ok (present slots) None = true).
Print Assumptions C09_iff.

(* no media playlist value handed to the user holds a segment longer than the bound *)
Theorem C09_no_long_segment : forall b p, build b = Ok p ->
  forall sg, In sg (mp_segs p) ->
    rounded_ns (inf_dur (sg_inf sg)) <= max_seg_dur (mp_target p) (b_excess b).
Proof. exact build_durations. Qed.
Check C09_no_long_segment : forall b p, build b = Ok p ->
  forall sg, In sg (mp_segs p) ->
    rounded_ns (inf_dur (sg_inf sg)) <= max_seg_dur (mp_target p) (b_excess b).
Print Assumptions C09_no_long_segment.

Example C09_example :
  is_ok (parse_media (lit "#EXTM3U
#EXT-X-TARGETDURATION:9
#EXTINF:9.499999999,
a.ts
")) = true /\ is_err (parse_media (lit "#EXTM3U
#EXT-X-TARGETDURATION:9
#EXTINF:9.5,
a.ts
")) = true.
Proof. vm_compute. split; reflexivity. Qed.
