(* C16 — live updates keep segment identity: append and truncation are stable. *)
From hls Require Import Base Float Lex Kinds Types Tags Line Keys Media Master.
From hls.Generated Require Import Tables.
From hls.Proofs Require Import Build Parse MediaProps C16 MediaText C03Items ParsedBuilt Slide MediaParsedFloats.
Open Scope N_scope.

(* if an item list and an extension of it are both accepted (same media sequence value), the
   segments of the shorter one are a prefix of the longer one's: identical numbers and content *)
Theorem C16_prefix : forall b0 l1 l2 p q, items_wf_all (l1 ++ l2) ->
  parse_items b0 l1 = Ok p -> parse_items b0 (l1 ++ l2) = Ok q -> mp_mseq p = mp_mseq q ->
  firstn (List.length (mp_segs p)) (mp_segs q) = mp_segs p.
Proof. exact prefix_segments. Qed.
Check C16_prefix : forall b0 l1 l2 p q, items_wf_all (l1 ++ l2) ->
  parse_items b0 l1 = Ok p -> parse_items b0 (l1 ++ l2) = Ok q -> mp_mseq p = mp_mseq q ->
  firstn (List.length (mp_segs p)) (mp_segs q) = mp_segs p.
Print Assumptions C16_prefix.

(* appending complete lines to a text appends items *)
Theorem C16_lines_append : forall s ext,
  clean_lines (s ++ 10 :: ext) = clean_lines s ++ clean_lines ext.
Proof. exact clean_lines_append. Qed.
Check C16_lines_append : forall s ext,
  clean_lines (s ++ 10 :: ext) = clean_lines s ++ clean_lines ext.
Print Assumptions C16_lines_append.

(* a text cut after any segment tag is rejected *)
Theorem C16_cut_media : forall b0 ls t p,
  is_segment_tag t = true -> parse_items b0 (ls ++ [Ok (LTag t)]) = Ok p -> False.
Proof. exact trailing_segment_tag_rejected. Qed.
Check C16_cut_media : forall b0 ls t p,
  is_segment_tag t = true -> parse_items b0 (ls ++ [Ok (LTag t)]) = Ok p -> False.
Print Assumptions C16_cut_media.

(* a master text that ends in an EXT-X-STREAM-INF line (in tag position) is rejected *)
(* ... and not only when the segment tag is the last line: an item stays pending across every line that is not its URI line
   (playlist-level tags, unknown tags, comments, further segment tags), so a text cut anywhere inside an item is rejected *)
Theorem C16_cut_pending : forall b0 ls t rest p,
  is_segment_tag t = true -> Forall not_uri rest -> parse_items b0 (ls ++ Ok (LTag t) :: rest) = Ok p -> False.
Proof. exact pending_item_rejected. Qed.
Check C16_cut_pending : forall b0 ls t rest p,
  is_segment_tag t = true -> Forall not_uri rest -> parse_items b0 (ls ++ Ok (LTag t) :: rest) = Ok p -> False.
Print Assumptions C16_cut_pending.

Theorem C16_cut_master : forall ls, open_streaminf ls ->
  forall s s', mrun_lines s (items ls) = Ok s' -> False.
Proof. exact open_streaminf_rejected. Qed.
Check C16_cut_master : forall ls, open_streaminf ls ->
  forall s s', mrun_lines s (items ls) = Ok s' -> False.
Print Assumptions C16_cut_master.

(* sliding the window: the playlist value with its first k segments dropped and EXT-X-MEDIA-SEQUENCE
   raised by k, written by the writer (which restates the keys and maps still in effect) and read
   again: every remaining segment keeps its number, URI, duration, byte range, date range, flags,
   map, and its keys as a set — effective IVs included, since a derived IV is part of the key *)
Theorem C16_slide : forall s p k, parse_media s = Ok p -> wf_media p = true -> (k < List.length (mp_segs p))%nat ->
  parse_media (print_media (slide k p)) = Ok (reread (slide k p))
  /\ mp_mseq (reread (slide k p)) = mp_mseq p + N.of_nat k
  /\ Forall2 seg_same (mp_segs (reread (slide k p))) (skipn k (mp_segs p)).
Proof.
  intros s p k H Hwf Hk. destruct (parsed_media_built s p H) as [raws Hb]. exact (slide_roundtrip p raws k Hwf Hb Hk).
Qed.
Check C16_slide : forall s p k, parse_media s = Ok p -> wf_media p = true -> (k < List.length (mp_segs p))%nat ->
  parse_media (print_media (slide k p)) = Ok (reread (slide k p))
  /\ mp_mseq (reread (slide k p)) = mp_mseq p + N.of_nat k
  /\ Forall2 seg_same (mp_segs (reread (slide k p))) (skipn k (mp_segs p)).
Print Assumptions C16_slide.

(* the same for every parse result with durations below 2^20 s and plain SCTE35 values: no well-formedness or float hypothesis *)
Theorem C16_slide_parsed : forall s p k, parse_media s = Ok p -> media_small p = true -> (k < List.length (mp_segs p))%nat ->
  parse_media (print_media (slide k p)) = Ok (reread (slide k p))
  /\ mp_mseq (reread (slide k p)) = mp_mseq p + N.of_nat k
  /\ Forall2 seg_same (mp_segs (reread (slide k p))) (skipn k (mp_segs p)).
Proof. exact slide_roundtrip_small. Qed.
Check C16_slide_parsed : forall s p k, parse_media s = Ok p -> media_small p = true -> (k < List.length (mp_segs p))%nat ->
  parse_media (print_media (slide k p)) = Ok (reread (slide k p))
  /\ mp_mseq (reread (slide k p)) = mp_mseq p + N.of_nat k
  /\ Forall2 seg_same (mp_segs (reread (slide k p))) (skipn k (mp_segs p)).
Print Assumptions C16_slide_parsed.

Example C16_example :
  is_err (parse_master (lit "#EXTM3U
#EXT-X-STREAM-INF:BANDWIDTH=1
a.m3u8
#EXT-X-STREAM-INF:BANDWIDTH=2
")) = true /\ is_err (parse_media (lit "#EXTM3U
#EXT-X-TARGETDURATION:5
#EXTINF:5,
a.ts
#EXTINF:5,
")) = true /\ open_streaminf [lit "#EXT-X-STREAM-INF:BANDWIDTH=1"; lit "u"; lit "#EXT-X-STREAM-INF:BANDWIDTH=2"].
Proof.
  split; [vm_compute; reflexivity|]. split; [vm_compute; reflexivity|].
  apply os_pair; [vm_compute; reflexivity|]. apply os_last. vm_compute; reflexivity.
Qed.
