(* C20 — builder path: call sequences, numbering, no panic. *)
From hls Require Import Base Float Lex Kinds Types Tags Line Keys Media Dump Builder.
From hls Require Import Master.
From hls Require Import StableVecCap.
From hls.Generated Require Import Tables.
From hls.Proofs Require Import Build Parse MediaProps NoPanic C20 MediaText C03Items ParsedBuilt Rebuild StableVecCapProof.
Open Scope N_scope.

(* field setters in any order: setters of different fields commute, of the same field the
   last one wins — build() sees only the final field map *)
Theorem C20_setters_commute : forall o1 o2 f1 f2 s,
  setter_field o1 = Some f1 -> setter_field o2 = Some f2 -> f1 <> f2 ->
  bind (bstep s o1) (fun s' => bstep s' o2) = bind (bstep s o2) (fun s' => bstep s' o1).
Proof. exact setters_commute. Qed.
Check C20_setters_commute : forall o1 o2 f1 f2 s,
  setter_field o1 = Some f1 -> setter_field o2 = Some f2 -> f1 <> f2 ->
  bind (bstep s o1) (fun s' => bstep s' o2) = bind (bstep s o2) (fun s' => bstep s' o1).
Print Assumptions C20_setters_commute.

Theorem C20_last_setter_wins : forall o1 o2 f s,
  setter_field o1 = Some f -> setter_field o2 = Some f ->
  bind (bstep s o1) (fun s' => bstep s' o2) = bstep s o2.
Proof. exact last_setter_wins. Qed.
Check C20_last_setter_wins : forall o1 o2 f s,
  setter_field o1 = Some f -> setter_field o2 = Some f ->
  bind (bstep s o1) (fun s' => bstep s' o2) = bstep s o2.
Print Assumptions C20_last_setter_wins.

(* any successfully built media playlist is gap-free; implicit numbers are media_sequence +
   position, explicit numbers are preserved; URIs and durations are untouched *)
Theorem C20_numbers : forall b p slots, build b = Ok p -> b_segments b = Some slots ->
  forallb is_some slots = true /\
  List.length (mp_segs p) = List.length (present slots) /\
  forall k s, nth_error (present slots) k = Some s ->
    exists s', nth_error (mp_segs p) k = Some s' /\
      sg_number s' = (if sg_explicit s then sg_number s else mp_mseq p + N.of_nat k) /\
      sg_uri s' = sg_uri s /\ sg_inf s' = sg_inf s.
Proof. exact built_numbers. Qed.
Check C20_numbers : forall b p slots, build b = Ok p -> b_segments b = Some slots ->
  forallb is_some slots = true /\
  List.length (mp_segs p) = List.length (present slots) /\
  forall k s, nth_error (present slots) k = Some s ->
    exists s', nth_error (mp_segs p) k = Some s' /\
      sg_number s' = (if sg_explicit s then sg_number s else mp_mseq p + N.of_nat k) /\
      sg_uri s' = sg_uri s /\ sg_inf s' = sg_inf s.
Print Assumptions C20_numbers.

(* no builder call sequence panics; build() itself does not panic on segments whose byte
   ranges fit the integer type *)
Theorem C20_calls_total : forall ops, run_ops ops <> Panic.
Proof. exact run_ops_np. Qed.
Check C20_calls_total : forall ops, run_ops ops <> Panic.
Print Assumptions C20_calls_total.

Theorem C20_build_total : forall b,
  (forall slots s, b_segments b = Some slots -> In (Some s) slots -> seg_bounded s) ->
  build b <> Panic.
Proof. exact build_no_panic. Qed.
Check C20_build_total : forall b,
  (forall slots s, b_segments b = Some slots -> In (Some s) slots -> seg_bounded s) ->
  build b <> Panic.
Print Assumptions C20_build_total.

(* both construction paths end in the same build(): the parser is the builder fed by the line
   items *)
Theorem C20_shared_build : forall s, ps_partial s = false ->
  finish_media s = build {| b_target := b_target (ps_b s); b_mseq := b_mseq (ps_b s); b_dseq := b_dseq (ps_b s);
                            b_ptype := b_ptype (ps_b s); b_iframes := b_iframes (ps_b s); b_indep := b_indep (ps_b s);
                            b_start := b_start (ps_b s); b_endlist := b_endlist (ps_b s);
                            b_segments := Some (map Some (rev (ps_segs s))); b_excess := b_excess (ps_b s);
                            b_unknown := Some (rev (ps_unknown s)) |}.
Proof. intros s H. unfold finish_media. rewrite H. reflexivity. Qed.
Check C20_shared_build : forall s, ps_partial s = false ->
  finish_media s = build {| b_target := b_target (ps_b s); b_mseq := b_mseq (ps_b s); b_dseq := b_dseq (ps_b s);
                            b_ptype := b_ptype (ps_b s); b_iframes := b_iframes (ps_b s); b_indep := b_indep (ps_b s);
                            b_start := b_start (ps_b s); b_endlist := b_endlist (ps_b s);
                            b_segments := Some (map Some (rev (ps_segs s))); b_excess := b_excess (ps_b s);
                            b_unknown := Some (rev (ps_unknown s)) |}.
Print Assumptions C20_shared_build.

(* builder path = parser path.  build() is idempotent on its own results: the builder fed with the content of a
   built playlist — header fields, unknown tags, and the segments WITHOUT numbers and with their keys in raw form
   (`builder_of`) — builds exactly that playlist; in particular every playlist the parser returns is rebuilt
   exactly by the builder from its content ... *)
Theorem C20_rebuild : forall p raws, built_ok p raws -> mp_excess p = 0 -> build (builder_of p raws) = Ok p.
Proof. exact rebuild_exact. Qed.
Check C20_rebuild : forall p raws, built_ok p raws -> mp_excess p = 0 -> build (builder_of p raws) = Ok p.
Print Assumptions C20_rebuild.

Theorem C20_parsed_rebuild : forall s p, parse_media s = Ok p -> exists raws, build (builder_of p raws) = Ok p.
Proof. exact parsed_rebuild. Qed.
Check C20_parsed_rebuild : forall s p, parse_media s = Ok p -> exists raws, build (builder_of p raws) = Ok p.
Print Assumptions C20_parsed_rebuild.

(* ... and the text of the built value parses back to the same observable content (C03 machinery): the two paths
   agree, for every well-formed built value *)
Theorem C20_paths_agree : forall p raws, wf_media p = true -> built_ok p raws -> mp_excess p = 0 ->
  build (builder_of p raws) = Ok p /\ parse_media (print_media p) = Ok (reread p)
  /\ Forall2 seg_same (mp_segs (reread p)) (mp_segs p).
Proof.
  intros p raws Hw Hb He. split; [apply (rebuild_exact p raws Hb He)|]. split; [apply (media_text_roundtrip p raws Hw Hb)|].
  destruct (reread_same p raws Hb) as [_ [_ [_ [_ [_ [_ [_ [_ [_ Hs]]]]]]]]]. exact Hs.
Qed.
Check C20_paths_agree : forall p raws, wf_media p = true -> built_ok p raws -> mp_excess p = 0 ->
  build (builder_of p raws) = Ok p /\ parse_media (print_media p) = Ok (reread p)
  /\ Forall2 seg_same (mp_segs (reread p)) (mp_segs p).
Print Assumptions C20_paths_agree.

(* the segment vector with its CAPACITY (Model/StableVecCap.v: StableVec::insert panics when the index is not below the
   capacity, reserve_for makes room, push grows): any sequence of push_segment calls and any segments() call, with any
   explicit numbers, returns without panicking, and computes the slot lists the rest of the development uses.  The
   regenerated flag says that in the source every insert into the segment vector directly follows reserve_for with the
   same index; without it the first explicitly numbered segment panics (the repaired defect D14, C20_noreserve_panics). *)
Theorem C20_slots_never_panic :
  (forall ss v, exists v', fold_res push_segment_cap ss v = Ok v' /\ cs_slots v' = fold_left push_segment ss (cs_slots v))
  /\ (forall l, exists v', set_segments_cap l = Ok v' /\ cs_slots v' = set_segments l).
Proof. split; [exact pushes_cap_ok | exact set_segments_cap_ok]. Qed.
Check C20_slots_never_panic :
  (forall ss v, exists v', fold_res push_segment_cap ss v = Ok v' /\ cs_slots v' = fold_left push_segment ss (cs_slots v))
  /\ (forall l, exists v', set_segments_cap l = Ok v' /\ cs_slots v' = set_segments l).
Print Assumptions C20_slots_never_panic.

Theorem C20_reserve_before_insert : reserve_before_insert = true.
Proof. reflexivity. Qed.
Check C20_reserve_before_insert : reserve_before_insert = true.
Print Assumptions C20_reserve_before_insert.

Theorem C20_noreserve_panics : forall s, sg_explicit s = true -> push_segment_noreserve cs_new s = Panic.
Proof. exact noreserve_panics. Qed.
Check C20_noreserve_panics : forall s, sg_explicit s = true -> push_segment_noreserve cs_new s = Panic.
Print Assumptions C20_noreserve_panics.

Example C20_example :
  match run_ops [BTarget 10000000000; BMseq 0; BSegBegin (Some 1); BSegDur 5000000000; BSegUri [98]; BSegEndList;
                 BSegBegin (Some 0); BSegDur 5000000000; BSegUri [97]; BSegEndList;
                 BSegBegin None; BSegDur 5000000000; BSegUri [99]; BSegEndList; BSegments; BBuild] with
  | Ok s => match bs_out s with
            | Some (Ok p) => map sg_number (mp_segs p) = [0; 1; 2] /\ map sg_uri (mp_segs p) = [[97]; [98]; [99]]
            | _ => False
            end
  | _ => False
  end.
Proof. vm_compute. split; reflexivity. Qed.
