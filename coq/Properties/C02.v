(* C02 — master playlist text is parsed faithfully.  The lexical layers (tokenizer, unquote,
   dispatch) are shared with C01; here: collection in source order, enum tables, integers.  The
   end-to-end statement parse_master (render sty a) = Ok (sem a) is open (evidence). *)
From hls Require Import Base Float Lex Kinds Types Tags Line Keys Media Master.
From hls.Generated Require Import Tables.
From hls.Proofs Require Import Build Parse Lexical MasterOrder Values AttrText TagText TagTextMedia TagTextVariant
  TagTextSegment TagTextDateRange AttrTables MasterText Restyle.
From Coq Require Import String.
From Coq Require Import Lia.
Open Scope N_scope.

(* every tag appears in the result, in source order within its kind *)
Theorem C02_source_order : forall ls s,
  mrun_lines {| ms_indep := false; ms_start := None; ms_media := []; ms_variants := []; ms_sdata := [];
                ms_skeys := []; ms_unknown := [] |} (map Ok ls) = Ok s ->
  rev (ms_media s) = medias ls /\ rev (ms_variants s) = variants ls /\ rev (ms_sdata s) = sdatas ls
  /\ rev (ms_skeys s) = skeys ls /\ rev (ms_unknown s) = unknowns ls.
Proof. exact master_source_order. Qed.
Check C02_source_order : forall ls s,
  mrun_lines {| ms_indep := false; ms_start := None; ms_media := []; ms_variants := []; ms_sdata := [];
                ms_skeys := []; ms_unknown := [] |} (map Ok ls) = Ok s ->
  rev (ms_media s) = medias ls /\ rev (ms_variants s) = variants ls /\ rev (ms_sdata s) = sdatas ls
  /\ rev (ms_skeys s) = skeys ls /\ rev (ms_unknown s) = unknowns ls.
Print Assumptions C02_source_order.

(* commas and '=' inside quoted strings never split or truncate an attribute *)
Theorem C02_tokenizer : forall l, Forall entry_ok l ->
  attr_pairs (render_attrs l) = map (fun e => (e_k e, e_v e)) l.
Proof. exact tokenizer_inverts_render. Qed.
Check C02_tokenizer : forall l, Forall entry_ok l ->
  attr_pairs (render_attrs l) = map (fun e => (e_k e, e_v e)) l.
Print Assumptions C02_tokenizer.

Theorem C02_dispatch : forall p k rest, In (false, p, k) dispatch_table -> classify (p ++ rest) = k.
Proof. exact dispatch_by_prefix. Qed.
Check C02_dispatch : forall p k rest, In (false, p, k) dispatch_table -> classify (p ++ rest) = k.
Print Assumptions C02_dispatch.

(* all enum values (regenerated strum tables: 67 in-stream ids, media types, HDCP levels,
   encryption methods) are read back as written *)
Theorem C02_enums :
  (forall i, (i < 67)%nat -> enum_parse enum_InStreamId (enum_print enum_InStreamId (N.of_nat i)) = Ok (N.of_nat i))
  /\ (forall i, (i < 4)%nat -> enum_parse enum_MediaType (enum_print enum_MediaType (N.of_nat i)) = Ok (N.of_nat i))
  /\ (forall i, (i < 2)%nat -> enum_parse enum_HdcpLevel (enum_print enum_HdcpLevel (N.of_nat i)) = Ok (N.of_nat i))
  /\ (forall i, (i < 2)%nat -> enum_parse enum_EncryptionMethod (enum_print enum_EncryptionMethod (N.of_nat i)) = Ok (N.of_nat i)).
Proof.
  destruct enum_tables_ok as [H1 [H2 [H3 H4]]]. destruct enum_sizes as [S1 [S2 [S3 S4]]].
  repeat split; intros i Hi; apply enum_roundtrip; try assumption; lia.
Qed.
Check C02_enums :
  (forall i, (i < 67)%nat -> enum_parse enum_InStreamId (enum_print enum_InStreamId (N.of_nat i)) = Ok (N.of_nat i))
  /\ (forall i, (i < 4)%nat -> enum_parse enum_MediaType (enum_print enum_MediaType (N.of_nat i)) = Ok (N.of_nat i))
  /\ (forall i, (i < 2)%nat -> enum_parse enum_HdcpLevel (enum_print enum_HdcpLevel (N.of_nat i)) = Ok (N.of_nat i))
  /\ (forall i, (i < 2)%nat -> enum_parse enum_EncryptionMethod (enum_print enum_EncryptionMethod (N.of_nat i)) = Ok (N.of_nat i)).
Print Assumptions C02_enums.

(* u64 bandwidths up to 2^64-1 *)
Theorem C02_integers : forall n, n < 2 ^ 64 -> parse_u64 (print_uint n) = Ok n.
Proof. intros n H. unfold parse_u64. rewrite (parse_print_uint 64 n H). reflexivity. Qed.
Check C02_integers : forall n, n < 2 ^ 64 -> parse_u64 (print_uint n) = Ok n.
Print Assumptions C02_integers.

Theorem C02_resolution_channels : forall w h c, w < two64 -> h < two64 -> ch_number c < two64 ->
  parse_resolution (print_resolution (w, h)) = Ok (w, h) /\ parse_channels (print_channels c) = Ok c.
Proof. intros. split; [apply resolution_roundtrip | apply channels_roundtrip]; assumption. Qed.
Check C02_resolution_channels : forall w h c, w < two64 -> h < two64 -> ch_number c < two64 ->
  parse_resolution (print_resolution (w, h)) = Ok (w, h) /\ parse_channels (print_channels c) = Ok c.
Print Assumptions C02_resolution_channels.

(* the model's writers emit exactly the attribute names the source's Display impls write, in the
   same order (display table regenerated from the source; values with every optional attribute) *)
Theorem C02_writer_attr_names :
  map fst (xm_kvs full_media) = display_names_of "ExtXMedia"
  /\ map fst (key_kvs full_key) = display_names_of "DecryptionKey"
  /\ map fst (sd_kvs full_sd) = display_names_of "StreamData"
  /\ lit "URI" :: map fst (si_extra (Some (FZero false)) (Some [97]) (Some [97]) (Some CcNone)) = display_names_of "VariantStream"
  /\ map fst (start_kvs {| st_offset := FZero false; st_precise := true |}) = display_names_of "ExtXStart"
  /\ map fst (dr_kvs full_daterange) = display_names_of "ExtXDateRange".
Proof. destruct display_names_as_modelled as [H1 [_ [_ [H4 [H5 [H6 [H7 [_ H9]]]]]]]]. repeat split; assumption. Qed.
Check C02_writer_attr_names :
  map fst (xm_kvs full_media) = display_names_of "ExtXMedia"
  /\ map fst (key_kvs full_key) = display_names_of "DecryptionKey"
  /\ map fst (sd_kvs full_sd) = display_names_of "StreamData"
  /\ lit "URI" :: map fst (si_extra (Some (FZero false)) (Some [97]) (Some [97]) (Some CcNone)) = display_names_of "VariantStream"
  /\ map fst (start_kvs {| st_offset := FZero false; st_precise := true |}) = display_names_of "ExtXStart"
  /\ map fst (dr_kvs full_daterange) = display_names_of "ExtXDateRange".
Print Assumptions C02_writer_attr_names.

(* end to end, for the canonical rendering: every well-formed valid master playlist value is what the
   parser returns for its own text (all five collections in order, every attribute value) *)
Theorem C02_canonical_text : forall p, wf_master p = true -> validate_master p = true ->
  parse_master (print_master p) = Ok p.
Proof. exact master_text_roundtrip. Qed.
Check C02_canonical_text : forall p, wf_master p = true -> validate_master p = true ->
  parse_master (print_master p) = Ok p.
Print Assumptions C02_canonical_text.

(* ... and for every other presentation of that text (closure of the presentation changes of C12 on the cleaned lines) *)
Theorem C02_styled_text : forall p t r r0, wf_master p = true -> validate_master p = true ->
  tag t pfx_ExtM3u = Ok r -> tag (print_master p) pfx_ExtM3u = Ok r0 -> restyle_master (clean_lines r) (clean_lines r0) ->
  parse_master t = Ok p.
Proof.
  intros p t r r0 Hw Hv Ht Ht0 HR. rewrite (restyle_parse_master t (print_master p) r r0 Ht Ht0 HR).
  apply master_text_roundtrip; assumption.
Qed.
Check C02_styled_text : forall p t r r0, wf_master p = true -> validate_master p = true ->
  tag t pfx_ExtM3u = Ok r -> tag (print_master p) pfx_ExtM3u = Ok r0 -> restyle_master (clean_lines r) (clean_lines r0) ->
  parse_master t = Ok p.
Print Assumptions C02_styled_text.

Example C02_example :
  match parse_master (lit "#EXTM3U
#EXT-X-MEDIA:TYPE=AUDIO,GROUP-ID=""a,=1"",NAME=""n"",CHANNELS=""16/JOC""
#EXT-X-STREAM-INF:BANDWIDTH=18446744073709551615,CODECS=""x,y,z"",AUDIO=""a,=1""
#not-a-comment-but-the-uri
") with
  | Ok p => map xm_group (ma_media p) = [lit "a,=1"] /\
            map (fun v => match v with VStreamInf u _ _ _ _ sd => (u, sd_bandwidth sd, sd_codecs sd) | VIFrame u sd => (u, 0, None) end) (ma_variants p)
            = [(lit "#not-a-comment-but-the-uri", 18446744073709551615, Some [lit "x"; lit "y"; lit "z"])]
  | _ => False
  end.
Proof. vm_compute. split; reflexivity. Qed.
