(* C14 — per-tag attribute rules are enforced exactly. *)
From hls Require Import Base Float Lex Kinds Types Tags Line Keys Media Master.
From hls.Generated Require Import Tables.
From hls.Proofs Require Import Build C14 AttrOrder AttrTables KeyIff StreamIff DateRangeIff TagIff.
From Coq Require Import String.
From Coq Require Import Permutation.
Open Scope N_scope.

(* EXT-X-MEDIA (text and builder share ExtXMediaBuilder::build): accepted exactly when TYPE,
   GROUP-ID and NAME are present, SUBTITLES has a URI, CLOSED-CAPTIONS has no URI and an
   INSTREAM-ID, other types no INSTREAM-ID, not DEFAULT=YES with AUTOSELECT=NO, FORCED=YES
   only for SUBTITLES *)
Theorem C14_media_iff : forall a, is_ok (xm_build a) = true <-> media_rules a.
Proof. exact media_accept_iff. Qed.
Check C14_media_iff : forall a, is_ok (xm_build a) = true <-> media_rules a.
Print Assumptions C14_media_iff.

Theorem C14_media_invariant : forall l m, parse_xmedia l = Ok m ->
  (xm_type m = mt_subtitles -> xm_uri m <> None)
  /\ (xm_type m = mt_cc -> xm_uri m = None /\ xm_instream m <> None)
  /\ (xm_type m <> mt_cc -> xm_instream m = None)
  /\ (xm_forced m = true -> xm_type m = mt_subtitles).
Proof. exact media_invariant. Qed.
Check C14_media_invariant : forall l m, parse_xmedia l = Ok m ->
  (xm_type m = mt_subtitles -> xm_uri m <> None)
  /\ (xm_type m = mt_cc -> xm_uri m = None /\ xm_instream m <> None)
  /\ (xm_type m <> mt_cc -> xm_instream m = None)
  /\ (xm_forced m = true -> xm_type m = mt_subtitles).
Print Assumptions C14_media_invariant.

(* EXT-X-DATERANGE: END-ON-NEXT needs CLASS and forbids DURATION and END-DATE *)
Theorem C14_daterange_invariant : forall l d, parse_daterange l = Ok d ->
  dr_eon d = true -> dr_class d <> None /\ dr_duration d = None /\ dr_end d = None.
Proof. exact daterange_invariant. Qed.
Check C14_daterange_invariant : forall l d, parse_daterange l = Ok d ->
  dr_eon d = true -> dr_class d <> None /\ dr_duration d = None /\ dr_end d = None.
Print Assumptions C14_daterange_invariant.

(* keys: a non-blank URI, at most 9 (and at least 1) format versions, a 128-bit IV *)
Theorem C14_key_invariant : forall s k, parse_decryption_key s = Ok k ->
  is_nil (trim (k_uri k)) = false
  /\ (match k_versions k with Some v => (1 <= List.length v <= 9)%nat | None => True end).
Proof. exact key_invariant. Qed.
Check C14_key_invariant : forall s k, parse_decryption_key s = Ok k ->
  is_nil (trim (k_uri k)) = false
  /\ (match k_versions k with Some v => (1 <= List.length v <= 9)%nat | None => True end).
Print Assumptions C14_key_invariant.

(* keys as an IFF over every attribute text (any order, duplicates, unknown attributes): accepted exactly when every METHOD, IV
   and KEYFORMATVERSIONS attribute is well formed (`key_pair_ok`: METHOD in the regenerated enum table, IV = 0x + 32 hex digits,
   at most 9 versions below 256), some METHOD attribute is present and some URI attribute has a non-blank value *)
Theorem C14_key_iff : forall s,
  is_ok (parse_decryption_key s) =
  forallb key_pair_ok (attr_pairs s) && existsb is_method (attr_pairs s) && existsb is_good_uri (attr_pairs s).
Proof. exact key_text_accept_iff. Qed.
Check C14_key_iff : forall s,
  is_ok (parse_decryption_key s) =
  forallb key_pair_ok (attr_pairs s) && existsb is_method (attr_pairs s) && existsb is_good_uri (attr_pairs s).
Print Assumptions C14_key_iff.

Theorem C14_iv_invariant : forall s bs, parse_iv s = Ok (IvAes bs) -> List.length bs = 16%nat.
Proof. exact iv_invariant. Qed.
Check C14_iv_invariant : forall s bs, parse_iv s = Ok (IvAes bs) -> List.length bs = 16%nat.
Print Assumptions C14_iv_invariant.

(* EXT-X-SESSION-DATA: DATA-ID and exactly one of VALUE and URI *)
Theorem C14_session_data_rule : forall a,
  (exists d, (let! id := of_opt (xa_id a) in
              let! dd := match xa_value a, xa_uri a with
                         | Some _, Some _ => Err | Some v, None => Ok (SdValue v)
                         | None, Some u => Ok (SdUri u) | None, None => Err end in
              Ok {| xs_id := id; xs_data := dd; xs_lang := xa_lang a |}) = Ok d)
  <-> xa_id a <> None /\ ((xa_value a <> None /\ xa_uri a = None) \/ (xa_value a = None /\ xa_uri a <> None)).
Proof. exact session_data_rule. Qed.
Check C14_session_data_rule : forall a,
  (exists d, (let! id := of_opt (xa_id a) in
              let! dd := match xa_value a, xa_uri a with
                         | Some _, Some _ => Err | Some v, None => Ok (SdValue v)
                         | None, Some u => Ok (SdUri u) | None, None => Err end in
              Ok {| xs_id := id; xs_data := dd; xs_lang := xa_lang a |}) = Ok d)
  <-> xa_id a <> None /\ ((xa_value a <> None /\ xa_uri a = None) \/ (xa_value a = None /\ xa_uri a <> None)).
Print Assumptions C14_session_data_rule.

(* the decision does not depend on the order in which the attributes are written *)
Theorem C14_order_free : forall l1 l2, Permutation l1 l2 -> NoDup (map fst l1) ->
  forall a, fold_res xs_attr l1 a = fold_res xs_attr l2 a.
Proof. exact session_data_attr_order. Qed.
Check C14_order_free : forall l1 l2, Permutation l1 l2 -> NoDup (map fst l1) ->
  forall a, fold_res xs_attr l1 a = fold_res xs_attr l2 a.
Print Assumptions C14_order_free.

(* the attribute names every attribute-list parser of the SOURCE matches (and how it treats the value:
   unquote / parse / yes-no, fallible or not), and the names and quoting every Display impl writes, as
   read by the translator on this run, are the ones the model was written against *)
Theorem C14_attr_tables :
  attr_section_ok = true /\ parser_attr_table = expected_parser_attr_table
  /\ display_attr_table = expected_display_attr_table.
Proof. exact attr_tables_as_modelled. Qed.
Check C14_attr_tables :
  attr_section_ok = true /\ parser_attr_table = expected_parser_attr_table
  /\ display_attr_table = expected_display_attr_table.
Print Assumptions C14_attr_tables.

(* ... and the model's attribute functions look at exactly those names: any other attribute is
   ignored (RFC 8216 6.3.1), for every value and every accumulator *)
Theorem C14_other_attributes_ignored :
  (forall a k v, existsb (str_eqb k) (names_of "ExtXMedia") = false -> xm_attr a (k, v) = Ok a)
  /\ (forall a k v, existsb (str_eqb k) (names_of "ExtXSessionData") = false -> xs_attr a (k, v) = Ok a)
  /\ (forall a k v, existsb (str_eqb k) (names_of "DecryptionKey") = false -> key_attr a (k, v) = Ok a)
  /\ (forall a k v, existsb (str_eqb k) (names_of "StreamData") = false -> sd_attr a (k, v) = Ok a)
  /\ (forall a k v, existsb (str_eqb k) (names_of "VariantStream") = false -> si_attr a (k, v) = Ok a)
  /\ (forall a k v, existsb (str_eqb k) (names_of "ExtXStart") = false -> start_attr a (k, v) = Ok a)
  /\ (forall a k v, existsb (str_eqb k) (names_of "ExtXMap") = false -> map_attr a (k, v) = Ok a)
  /\ (forall a k v, existsb (str_eqb k) (names_of "ExtXDateRange") = false -> starts_with s_Xdash k = false ->
        dr_attr a (k, v) = Ok a).
Proof.
  repeat split; [exact xm_attr_ignores | exact xs_attr_ignores | exact key_attr_ignores | exact sd_attr_ignores
                | exact si_attr_ignores | exact start_attr_ignores | exact map_attr_ignores | exact dr_attr_ignores].
Qed.
Check C14_other_attributes_ignored :
  (forall a k v, existsb (str_eqb k) (names_of "ExtXMedia") = false -> xm_attr a (k, v) = Ok a)
  /\ (forall a k v, existsb (str_eqb k) (names_of "ExtXSessionData") = false -> xs_attr a (k, v) = Ok a)
  /\ (forall a k v, existsb (str_eqb k) (names_of "DecryptionKey") = false -> key_attr a (k, v) = Ok a)
  /\ (forall a k v, existsb (str_eqb k) (names_of "StreamData") = false -> sd_attr a (k, v) = Ok a)
  /\ (forall a k v, existsb (str_eqb k) (names_of "VariantStream") = false -> si_attr a (k, v) = Ok a)
  /\ (forall a k v, existsb (str_eqb k) (names_of "ExtXStart") = false -> start_attr a (k, v) = Ok a)
  /\ (forall a k v, existsb (str_eqb k) (names_of "ExtXMap") = false -> map_attr a (k, v) = Ok a)
  /\ (forall a k v, existsb (str_eqb k) (names_of "ExtXDateRange") = false -> starts_with s_Xdash k = false ->
        dr_attr a (k, v) = Ok a).
Print Assumptions C14_other_attributes_ignored.

Example C14_example :
  is_err (parse_xmedia (lit "#EXT-X-MEDIA:TYPE=CLOSED-CAPTIONS,GROUP-ID=""c"",NAME=""n"",INSTREAM-ID=""CC1"",FORCED=YES")) = true
  /\ is_ok (parse_xmedia (lit "#EXT-X-MEDIA:TYPE=CLOSED-CAPTIONS,GROUP-ID=""c"",NAME=""n"",INSTREAM-ID=""CC1""")) = true
  /\ is_err (parse_daterange (lit "#EXT-X-DATERANGE:ID=""a"",END-ON-NEXT=YES")) = true
  /\ is_ok (parse_daterange (lit "#EXT-X-DATERANGE:ID=""a"",CLASS=""c"",END-ON-NEXT=YES")) = true.
Proof. vm_compute. repeat split. Qed.

(* stream tags as an iff over ALL attribute lists (any order, duplicates, unknown attributes): accepted exactly when every
   BANDWIDTH / AVERAGE-BANDWIDTH / RESOLUTION / HDCP-LEVEL (and FRAME-RATE) attribute is well formed and some BANDWIDTH attribute is
   present — an AVERAGE-BANDWIDTH does not stand in for it —, and for the I-frame form some URI attribute *)
Theorem C14_streaminf_iff : forall line uri,
  is_ok (parse_streaminf line uri) =
  match tag line pfx_VariantStream_EXTXSTREAMINF with
  | Ok rest => forallb si_pair_ok (attr_pairs rest) && forallb sd_pair_ok (attr_pairs rest) && existsb is_bw (attr_pairs rest)
  | _ => false
  end.
Proof. exact streaminf_accept_iff. Qed.
Check C14_streaminf_iff : forall line uri,
  is_ok (parse_streaminf line uri) =
  match tag line pfx_VariantStream_EXTXSTREAMINF with
  | Ok rest => forallb si_pair_ok (attr_pairs rest) && forallb sd_pair_ok (attr_pairs rest) && existsb is_bw (attr_pairs rest)
  | _ => false
  end.
Print Assumptions C14_streaminf_iff.
Theorem C14_iframe_iff : forall line,
  is_ok (parse_iframe line) =
  match tag line pfx_VariantStream_EXTXIFRAME with
  | Ok rest => is_some (find_uri (attr_pairs rest)) && forallb sd_pair_ok (attr_pairs rest) && existsb is_bw (attr_pairs rest)
  | _ => false
  end.
Proof. exact iframe_accept_iff. Qed.
Check C14_iframe_iff : forall line,
  is_ok (parse_iframe line) =
  match tag line pfx_VariantStream_EXTXIFRAME with
  | Ok rest => is_some (find_uri (attr_pairs rest)) && forallb sd_pair_ok (attr_pairs rest) && existsb is_bw (attr_pairs rest)
  | _ => false
  end.
Print Assumptions C14_iframe_iff.
Example C14_stream_example :
  is_ok (parse_streaminf (lit "#EXT-X-STREAM-INF:AVERAGE-BANDWIDTH=5,BANDWIDTH=7,X=1,BANDWIDTH=9") (lit "u")) = true
  /\ is_ok (parse_streaminf (lit "#EXT-X-STREAM-INF:AVERAGE-BANDWIDTH=5") (lit "u")) = false
  /\ is_ok (parse_iframe (lit "#EXT-X-I-FRAME-STREAM-INF:BANDWIDTH=7")) = false
  /\ is_ok (parse_iframe (lit "#EXT-X-I-FRAME-STREAM-INF:URI=""i"",BANDWIDTH=7,HDCP-LEVEL=TYPE-0")) = true
  /\ is_ok (parse_iframe (lit "#EXT-X-I-FRAME-STREAM-INF:URI=""i"",BANDWIDTH=7,HDCP-LEVEL=TYPE-9")) = false.
Proof. vm_compute. repeat split. Qed.

(* EXT-X-DATERANGE as an iff over ALL attribute lists: every DURATION / PLANNED-DURATION a non-negative duration, END-ON-NEXT only
   with the value YES, client attribute names and values well formed (dr_pair_ok); an ID (kind 1); and with END-ON-NEXT (kind 10)
   a CLASS (kind 2) and neither DURATION (kind 5) nor END-DATE (kind 4) *)
Theorem C14_daterange_iff : forall line,
  is_ok (parse_daterange line) =
  match tag line pfx_ExtXDateRange with
  | Ok rest =>
      let l := attr_pairs rest in
      forallb dr_pair_ok l && has_kind 1 l
      && negb (has_kind 10 l && (negb (has_kind 2 l) || has_kind 5 l || has_kind 4 l))
  | _ => false
  end.
Proof. exact daterange_accept_iff. Qed.
Check C14_daterange_iff : forall line,
  is_ok (parse_daterange line) =
  match tag line pfx_ExtXDateRange with
  | Ok rest =>
      let l := attr_pairs rest in
      forallb dr_pair_ok l && has_kind 1 l
      && negb (has_kind 10 l && (negb (has_kind 2 l) || has_kind 5 l || has_kind 4 l))
  | _ => false
  end.
Print Assumptions C14_daterange_iff.
Example C14_daterange_example :
  is_ok (parse_daterange (lit "#EXT-X-DATERANGE:ID=""d"",CLASS=""c"",END-ON-NEXT=YES")) = true
  /\ is_ok (parse_daterange (lit "#EXT-X-DATERANGE:ID=""d"",END-ON-NEXT=YES")) = false
  /\ is_ok (parse_daterange (lit "#EXT-X-DATERANGE:CLASS=""c"",END-ON-NEXT=YES,ID=""d"",DURATION=1")) = false
  /\ is_ok (parse_daterange (lit "#EXT-X-DATERANGE:ID=""d"",DURATION=-1")) = false
  /\ is_ok (parse_daterange (lit "#EXT-X-DATERANGE:ID=""d"",X-a=1")) = false
  /\ is_ok (parse_daterange (lit "#EXT-X-DATERANGE:ID=""d"",END-ON-NEXT=NO")) = false.
Proof. vm_compute. repeat split. Qed.

(* EXT-X-SESSION-DATA over all attribute lists: a DATA-ID (kind 1) and exactly one of VALUE (kind 2) and URI (kind 3) *)
Theorem C14_session_data_iff : forall line,
  is_ok (parse_session_data line) =
  match tag line pfx_ExtXSessionData with
  | Ok rest => let l := attr_pairs rest in xs_has 1 l && xorb (xs_has 2 l) (xs_has 3 l)
  | _ => false
  end.
Proof. exact session_data_accept_iff. Qed.
Check C14_session_data_iff : forall line,
  is_ok (parse_session_data line) =
  match tag line pfx_ExtXSessionData with
  | Ok rest => let l := attr_pairs rest in xs_has 1 l && xorb (xs_has 2 l) (xs_has 3 l)
  | _ => false
  end.
Print Assumptions C14_session_data_iff.
(* EXT-X-START over all attribute lists: every TIME-OFFSET a finite float, every PRECISE YES or NO, some TIME-OFFSET present *)
Theorem C14_start_iff : forall line,
  is_ok (parse_start line) =
  match tag line pfx_ExtXStart with
  | Ok rest => forallb st_pair_ok (attr_pairs rest) && existsb is_offset (attr_pairs rest)
  | _ => false
  end.
Proof. exact start_accept_iff. Qed.
Check C14_start_iff : forall line,
  is_ok (parse_start line) =
  match tag line pfx_ExtXStart with
  | Ok rest => forallb st_pair_ok (attr_pairs rest) && existsb is_offset (attr_pairs rest)
  | _ => false
  end.
Print Assumptions C14_start_iff.
(* EXT-X-MAP over all attribute lists: every BYTERANGE a byte range, some URI present *)
Theorem C14_map_iff : forall line,
  is_ok (parse_xmap line) =
  match tag line pfx_ExtXMap with
  | Ok rest => forallb mp_pair_ok (attr_pairs rest) && existsb is_uri (attr_pairs rest)
  | _ => false
  end.
Proof. exact map_accept_iff. Qed.
Check C14_map_iff : forall line,
  is_ok (parse_xmap line) =
  match tag line pfx_ExtXMap with
  | Ok rest => forallb mp_pair_ok (attr_pairs rest) && existsb is_uri (attr_pairs rest)
  | _ => false
  end.
Print Assumptions C14_map_iff.
Example C14_tags_iff_example :
  is_ok (parse_session_data (lit "#EXT-X-SESSION-DATA:DATA-ID=""a"",VALUE=""v"",URI=""u""")) = false
  /\ is_ok (parse_session_data (lit "#EXT-X-SESSION-DATA:VALUE=""v"",DATA-ID=""a"",VALUE=""w""")) = true
  /\ is_ok (parse_start (lit "#EXT-X-START:PRECISE=YES")) = false
  /\ is_ok (parse_start (lit "#EXT-X-START:TIME-OFFSET=1,PRECISE=MAYBE")) = false
  /\ is_ok (parse_start (lit "#EXT-X-START:TIME-OFFSET=inf")) = false
  /\ is_ok (parse_xmap (lit "#EXT-X-MAP:BYTERANGE=""1@2""")) = false
  /\ is_ok (parse_xmap (lit "#EXT-X-MAP:BYTERANGE=""1@2"",URI=""i""")) = true.
Proof. vm_compute. repeat split. Qed.
