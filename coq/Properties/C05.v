(* C05 — parsing never panics, overflows or hangs on any input (model level). *)
From hls Require Import Base Float Lex Kinds Types Tags Line Keys Media Master.
From hls.Proofs Require Import Build Parse MediaProps NoPanic.
Open Scope N_scope.

(* for every string and every pre-configured builder, the media parser returns Ok or Err *)
Theorem C05_media_total : forall b0 input, parse_media_with b0 input <> Panic.
Proof. exact parse_media_no_panic. Qed.
Check C05_media_total : forall b0 input, parse_media_with b0 input <> Panic.
Print Assumptions C05_media_total.

Theorem C05_master_total : forall input, parse_master input <> Panic.
Proof. exact parse_master_no_panic. Qed.
Check C05_master_total : forall input, parse_master input <> Panic.
Print Assumptions C05_master_total.

(* every tag parser reachable from a line, on every line *)
Theorem C05_tags_total : forall k l, parse_kind k l <> Panic.
Proof. exact parse_kind_np. Qed.
Check C05_tags_total : forall k l, parse_kind k l <> Panic.
Print Assumptions C05_tags_total.

Theorem C05_streaminf_total : forall l u, parse_streaminf l u <> Panic.
Proof. exact parse_streaminf_np. Qed.
Check C05_streaminf_total : forall l u, parse_streaminf l u <> Panic.
Print Assumptions C05_streaminf_total.

(* the one remaining unwinding primitive, ByteRange::set_start in the offset completion, is
   never reached with start > end *)
Theorem C05_set_start_guarded : forall slots i seq prev,
  (forall s, In (Some s) slots -> seg_bounded s) ->
  (match prev with Some p => br_end p <= usize_max | None => True end) ->
  build_loop slots i seq prev <> Panic.
Proof. exact build_loop_no_panic. Qed.
Check C05_set_start_guarded : forall slots i seq prev,
  (forall s, In (Some s) slots -> seg_bounded s) ->
  (match prev with Some p => br_end p <= usize_max | None => True end) ->
  build_loop slots i seq prev <> Panic.
Print Assumptions C05_set_start_guarded.

(* no hang: the attribute tokenizer's result does not depend on the fuel once it exceeds the
   input length — every step strictly shortens the remainder *)
Theorem C05_tokenizer_progress : forall f1 f2 s, (List.length s < f1)%nat -> (List.length s < f2)%nat ->
  pairs_fuel f1 s = pairs_fuel f2 s.
Proof. exact pairs_fuel_enough. Qed.
Check C05_tokenizer_progress : forall f1 f2 s, (List.length s < f1)%nat -> (List.length s < f2)%nat ->
  pairs_fuel f1 s = pairs_fuel f2 s.
Print Assumptions C05_tokenizer_progress.

(* the inputs that used to panic are rejected *)
Example C05_example :
  is_err (parse_media (lit "#EXTM3U
#EXT-X-TARGETDURATION:5
#EXTINF:-1,
a.ts
")) = true
  /\ is_err (parse_media (lit "#EXTM3U
#EXT-X-TARGETDURATION:5
#EXT-X-BYTERANGE:18446744073709551615@1
#EXTINF:1,
a.ts
")) = true
  /\ is_err (parse_media (lit "#EXTM3U
#EXT-X-TARGETDURATION:5
#EXT-X-MEDIA-SEQUENCE:18446744073709551615
#EXTINF:1,
a.ts
#EXTINF:1,
b.ts
")) = true.
Proof. vm_compute. repeat split. Qed.
