(* C05 — parsing never panics, overflows or hangs on any input (model level). *)
From hls Require Import Base Float Lex Kinds Types Tags Line Keys Media Master.
From hls Require Import ByteLex.
From hls.Proofs Require Import Build Parse MediaProps NoPanic ByteLexProof KeyCost.
Open Scope N_scope.

(* for every string and every pre-configured builder, the media parser returns Ok or Err *)
Theorem C05_media_total : forall b0 input, parse_media_with b0 input <> Panic.
Proof. exact parse_media_no_panic. Qed.
Check C05_media_total : forall b0 input, parse_media_with b0 input <> Panic.
Print Assumptions C05_media_total.

Theorem C05_master_total : forall input, parse_master input <> Panic.
Proof. exact parse_master_no_panic. Qed.
Check C05_master_total : forall input, parse_master input <> Panic.
Print Assumptions C05_master_total.

(* every tag parser reachable from a line, on every line *)
Theorem C05_tags_total : forall k l, parse_kind k l <> Panic.
Proof. exact parse_kind_np. Qed.
Check C05_tags_total : forall k l, parse_kind k l <> Panic.
Print Assumptions C05_tags_total.

Theorem C05_streaminf_total : forall l u, parse_streaminf l u <> Panic.
Proof. exact parse_streaminf_np. Qed.
Check C05_streaminf_total : forall l u, parse_streaminf l u <> Panic.
Print Assumptions C05_streaminf_total.

(* the one remaining unwinding primitive, ByteRange::set_start in the offset completion, is
   never reached with start > end *)
Theorem C05_set_start_guarded : forall slots i seq prev,
  (forall s, In (Some s) slots -> seg_bounded s) ->
  (match prev with Some p => br_end p <= usize_max | None => True end) ->
  build_loop slots i seq prev <> Panic.
Proof. exact build_loop_no_panic. Qed.
Check C05_set_start_guarded : forall slots i seq prev,
  (forall s, In (Some s) slots -> seg_bounded s) ->
  (match prev with Some p => br_end p <= usize_max | None => True end) ->
  build_loop slots i seq prev <> Panic.
Print Assumptions C05_set_start_guarded.

(* no hang: the attribute tokenizer's result does not depend on the fuel once it exceeds the
   input length — every step strictly shortens the remainder *)
Theorem C05_tokenizer_progress : forall f1 f2 s, (List.length s < f1)%nat -> (List.length s < f2)%nat ->
  pairs_fuel f1 s = pairs_fuel f2 s.
Proof. exact pairs_fuel_enough. Qed.
Check C05_tokenizer_progress : forall f1 f2 s, (List.length s < f1)%nat -> (List.length s < f2)%nat ->
  pairs_fuel f1 s = pairs_fuel f2 s.
Print Assumptions C05_tokenizer_progress.

(* out-of-range slicing and index arithmetic: Model/ByteLex.v restates AttributePairs::next, unquote and tag at the level the
   Rust code is written (byte offsets into the UTF-8 string; `&s[a..b]` panics when a > b, b > len or an offset is not a
   character boundary; checked usize subtraction).  For EVERY string that index-level model returns exactly what the
   structural model used everywhere else returns: no slice is ever out of range or off a boundary, no subtraction underflows. *)
Theorem C05_tokenizer_indices : forall s, pairs_idx s = Ok (attr_pairs s).
Proof. exact pairs_idx_refines. Qed.
Check C05_tokenizer_indices : forall s, pairs_idx s = Ok (attr_pairs s).
Print Assumptions C05_tokenizer_indices.

Theorem C05_tokenizer_step : forall p tail,
  next_idx (p ++ tail) (byte_len p) =
  Ok (match next_struct tail with
      | Some (kv, rest) => Some (kv, byte_len (p ++ tail) - byte_len rest)
      | None => None
      end).
Proof. exact next_idx_refines. Qed.
Check C05_tokenizer_step : forall p tail,
  next_idx (p ++ tail) (byte_len p) =
  Ok (match next_struct tail with
      | Some (kv, rest) => Some (kv, byte_len (p ++ tail) - byte_len rest)
      | None => None
      end).
Print Assumptions C05_tokenizer_step.

Theorem C05_unquote_slice : forall s, unquote_idx s = Ok (unquote s).
Proof. exact unquote_idx_refines. Qed.
Check C05_unquote_slice : forall s, unquote_idx s = Ok (unquote s).
Print Assumptions C05_unquote_slice.

Theorem C05_tag_split : forall input prefix, tag_idx input prefix = tag input prefix.
Proof. exact tag_idx_refines. Qed.
Check C05_tag_split : forall input prefix, tag_idx input prefix = tag input prefix.
Print Assumptions C05_tag_split.

(* the index-level model can express the panics: the slice of the unquote defect D15 (`&value[1..0]` on a lone quote), a slice
   off a character boundary, an underflow *)
(* the cost clause, at the level of the key machinery (the only part of the parser whose work per line is not constant): for every
   sequence h of key events — the list of keys in effect never holds more entries than there are key formats in the text
   (pigeonhole over "one key per format"), so the comparisons and copies spent on keys (`key_work`: per event one search and one
   filter over the keys in effect) are LINEAR in the number of events when the formats are bounded, and at most QUADRATIC otherwise.
   Wall-clock time itself is measured (evidence field streams.time_scaling), not proved. *)
Theorem C05_keys_bounded : forall h reps, (forall k, In (Some k) h -> exists r, In r reps /\ same_fmt k r = true) ->
  (List.length (keys_after h) <= Nat.max 1 (List.length reps))%nat.
Proof. exact keys_bounded. Qed.
Check C05_keys_bounded : forall h reps, (forall k, In (Some k) h -> exists r, In r reps /\ same_fmt k r = true) ->
  (List.length (keys_after h) <= Nat.max 1 (List.length reps))%nat.
Print Assumptions C05_keys_bounded.
Theorem C05_key_work_linear : forall h reps, (forall k, In (Some k) h -> exists r, In r reps /\ same_fmt k r = true) ->
  (key_work h <= List.length h * (2 * Nat.max 1 (List.length reps) + 1))%nat.
Proof. exact key_work_linear. Qed.
Check C05_key_work_linear : forall h reps, (forall k, In (Some k) h -> exists r, In r reps /\ same_fmt k r = true) ->
  (key_work h <= List.length h * (2 * Nat.max 1 (List.length reps) + 1))%nat.
Print Assumptions C05_key_work_linear.
Theorem C05_key_work_quadratic : forall h, (key_work h <= List.length h * (2 * List.length h + 1))%nat.
Proof. exact key_work_quadratic. Qed.
Check C05_key_work_quadratic : forall h, (key_work h <= List.length h * (2 * List.length h + 1))%nat.
Print Assumptions C05_key_work_quadratic.

Definition c05_key (n : N) (f : option KeyFormat) : Key :=
  {| k_method := 0; k_uri := [107; 48 + n]; k_iv := IvMissing; k_format := f; k_versions := None |}.
Example C05_key_work_example :
  let h := [Some (c05_key 1 None); Some (c05_key 2 (Some KfFairPlay)); Some (c05_key 3 (Some KfIdentity)); Some (c05_key 4 (Some KfFairPlay));
            Some (c05_key 5 None); Some (c05_key 6 (Some KfFairPlay))] in
  let reps := [c05_key 0 None; c05_key 0 (Some KfFairPlay)] in
  (forall k, In (Some k) h -> exists r, In r reps /\ same_fmt k r = true)
  /\ List.length (keys_after h) = 2%nat /\ key_work h = 24%nat /\ (24 <= 6 * (2 * 2 + 1))%nat.
Proof.
  cbv zeta. split; [|vm_compute; repeat split; repeat constructor].
  intros k Hk. cbn [In] in Hk.
  repeat (destruct Hk as [Hk | Hk]; [inversion Hk; subst k; (exists (c05_key 0 None); split; [left; reflexivity | reflexivity]) || (exists (c05_key 0 (Some KfFairPlay)); split; [right; left; reflexivity | reflexivity])|]).
  destruct Hk.
Qed.

Example C05_slicing_panics :
  slice [34] 1 0 = Panic /\ slice (lit "a") 0 2 = Panic /\ slice [233; 97] 1 2 = Panic /\ usub 0 1 = Panic
  /\ slice (lit "abc") 1 2 = Ok (lit "b") /\ pairs_idx (lit " A = ""x,y"" ,B=1") = Ok [(lit "A", lit """x,y"""); (lit "B", lit "1")].
Proof. vm_compute. repeat split; reflexivity. Qed.

(* the inputs that used to panic are rejected *)
Example C05_example :
  is_err (parse_media (lit "#EXTM3U
#EXT-X-TARGETDURATION:5
#EXTINF:-1,
a.ts
")) = true
  /\ is_err (parse_media (lit "#EXTM3U
#EXT-X-TARGETDURATION:5
#EXT-X-BYTERANGE:18446744073709551615@1
#EXTINF:1,
a.ts
")) = true
  /\ is_err (parse_media (lit "#EXTM3U
#EXT-X-TARGETDURATION:5
#EXT-X-MEDIA-SEQUENCE:18446744073709551615
#EXTINF:1,
a.ts
#EXTINF:1,
b.ts
")) = true.
Proof. vm_compute. repeat split. Qed.
