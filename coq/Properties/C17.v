(* C17 — borrowed, owned and cloned forms of a value are interchangeable. *)
From hls Require Import Base Float Lex Kinds Types Tags Line Keys Media.
From hls.Generated Require Import Tables.
From hls.Proofs Require Import C17.
From Coq Require Import String.

(* the table regenerated from the hand-written into_owned() functions of the source: every row
   builds the same variant and copies the field from the field of the same name, and every
   declared field of every such type is rebuilt exactly once *)
Theorem C17_table : table_ok = true.
Proof. exact into_owned_table_ok. Qed.
Check C17_table : table_ok = true.
Print Assumptions C17_table.

(* what that means for a value: each field and the variant are unchanged by the rebuild *)
Theorem C17_fields_unchanged : forall rows ty v f s,
  forallb row_identity rows = true ->
  find_row rows ty (v_variant v) f = Some (ty, v_variant v, v_variant v, f, [s]) ->
  rebuild_field rows ty v f = v_field v f.
Proof. exact identity_table_rebuilds. Qed.
Check C17_fields_unchanged : forall rows ty v f s,
  forallb row_identity rows = true ->
  find_row rows ty (v_variant v) f = Some (ty, v_variant v, v_variant v, f, [s]) ->
  rebuild_field rows ty v f = v_field v f.
Print Assumptions C17_fields_unchanged.

Theorem C17_variant_unchanged : forall rows ty v,
  forallb row_identity rows = true -> rebuild_variant rows ty v = v_variant v.
Proof. exact identity_table_variant. Qed.
Check C17_variant_unchanged : forall rows ty v,
  forallb row_identity rows = true -> rebuild_variant rows ty v = v_variant v.
Print Assumptions C17_variant_unchanged.

(* the three entry points TryFrom<&str>, FromStr and builder().parse() are one function of the
   text (FromStr adds into_owned, covered above); a pre-configured builder only contributes its
   own fields *)
Theorem C17_entry_points : forall input, parse_media input = parse_media_with mb_default input.
Proof. reflexivity. Qed.
Check C17_entry_points : forall input, parse_media input = parse_media_with mb_default input.
Print Assumptions C17_entry_points.

(* non-vacuity: the table is not empty and contains the fields that are easy to swap *)
Example C17_example :
  (60 <=? List.length into_owned_table)%nat = true
  /\ existsb (fun r => let '(ty, _, _, tgt, _) := r in (String.eqb ty "ExtXMedia" && String.eqb tgt "assoc_language")%bool) into_owned_table = true
  /\ existsb (fun r => let '(ty, _, _, tgt, _) := r in (String.eqb ty "ExtXDateRange" && String.eqb tgt "scte35_in")%bool) into_owned_table = true.
Proof. vm_compute. repeat split. Qed.
