(* C15 — a text is never both a master and a media playlist; foreign tags are rejected. *)
From hls Require Import Base Float Lex Kinds Types Tags Line Keys Media Master.
From hls.Generated Require Import Tables.
From hls.Proofs Require Import C15.

(* no text is accepted by both parsers — for every string *)
Theorem C15_exclusive : forall input p q, parse_media input = Ok p -> parse_master input = Ok q -> False.
Proof. exact exclusive. Qed.
Check C15_exclusive : forall input p q, parse_media input = Ok p -> parse_master input = Ok q -> False.
Print Assumptions C15_exclusive.

(* the master parser accepts only texts all of whose items (lines in tag position: the line
   after an EXT-X-STREAM-INF is part of that item) parse, are not bare URI lines and are not of
   a kind in its foreign-tag list *)
Theorem C15_master_items : forall input p, parse_master input = Ok p ->
  exists rest, body input = Ok rest /\
    forall r, In r (lines_of rest) -> exists l, r = Ok l /\ master_item_ok l.
Proof. exact master_ok_items. Qed.
Check C15_master_items : forall input p, parse_master input = Ok p ->
  exists rest, body input = Ok rest /\
    forall r, In r (lines_of rest) -> exists l, r = Ok l /\ master_item_ok l.
Print Assumptions C15_master_items.

Theorem C15_media_items : forall input p, parse_media input = Ok p ->
  exists rest, body input = Ok rest /\
    forall r, In r (lines_of rest) -> exists l, r = Ok l /\ media_item_ok l.
Proof. exact media_ok_items. Qed.
Check C15_media_items : forall input p, parse_media input = Ok p ->
  exists rest, body input = Ok rest /\
    forall r, In r (lines_of rest) -> exists l, r = Ok l /\ media_item_ok l.
Print Assumptions C15_media_items.

(* the foreign-tag lists regenerated from the source contain the 13 media kinds / 4 master kinds *)
Theorem C15_foreign_tables :
  forallb (fun k => in_kinds k master_rejects)
    [K_ExtInf; K_ExtXByteRange; K_ExtXDiscontinuity; K_ExtXKey; K_ExtXMap; K_ExtXProgramDateTime;
     K_ExtXDateRange; K_ExtXTargetDuration; K_ExtXMediaSequence; K_ExtXDiscontinuitySequence;
     K_ExtXEndList; K_PlaylistType; K_ExtXIFramesOnly] = true
  /\ forallb (fun k => in_kinds k media_rejects)
       [K_ExtXMedia; K_VariantStream; K_ExtXSessionData; K_ExtXSessionKey] = true.
Proof. vm_compute. split; reflexivity. Qed.
Check C15_foreign_tables :
  forallb (fun k => in_kinds k master_rejects)
    [K_ExtInf; K_ExtXByteRange; K_ExtXDiscontinuity; K_ExtXKey; K_ExtXMap; K_ExtXProgramDateTime;
     K_ExtXDateRange; K_ExtXTargetDuration; K_ExtXMediaSequence; K_ExtXDiscontinuitySequence;
     K_ExtXEndList; K_PlaylistType; K_ExtXIFramesOnly] = true
  /\ forallb (fun k => in_kinds k media_rejects)
       [K_ExtXMedia; K_VariantStream; K_ExtXSessionData; K_ExtXSessionKey] = true.
Print Assumptions C15_foreign_tables.

(* a media playlist needs an EXT-X-TARGETDURATION item, and both need the EXTM3U header *)
Theorem C15_media_needs_target : forall input p, parse_media input = Ok p ->
  exists rest secs, body input = Ok rest /\ In (Ok (LTag (TTarget secs))) (lines_of rest).
Proof. exact media_ok_has_target. Qed.
Check C15_media_needs_target : forall input p, parse_media input = Ok p ->
  exists rest secs, body input = Ok rest /\ In (Ok (LTag (TTarget secs))) (lines_of rest).
Print Assumptions C15_media_needs_target.

Theorem C15_header : forall input rest, body input = Ok rest -> starts_with pfx_ExtM3u (trim input) = true.
Proof. exact header_needed. Qed.
Check C15_header : forall input rest, body input = Ok rest -> starts_with pfx_ExtM3u (trim input) = true.
Print Assumptions C15_header.

(* non-vacuity: one text accepted as media, one as master *)
Example C15_example :
  is_ok (parse_media (lit "#EXTM3U
#EXT-X-TARGETDURATION:5
#EXTINF:5,
a.ts
")) = true /\ is_ok (parse_master (lit "#EXTM3U
#EXT-X-STREAM-INF:BANDWIDTH=1
a.m3u8
")) = true.
Proof. vm_compute. split; reflexivity. Qed.
