(* C10 — the emitted EXT-X-VERSION is sound and not inflated. *)
From hls Require Import Base Float Lex Kinds Types Tags Line Keys Media Master.
From hls.Generated Require Import Tables.
From hls.Proofs Require Import Build Lexical C10.
Open Scope N_scope.

(* the text is  #EXTM3U, then the version line iff the required version is not 1 (carrying it),
   then the body — for both playlist kinds, by construction of the writer *)
Theorem C10_version_line : forall rv,
  (rv = 1 -> version_line rv = []) /\
  (rv <> 1 -> version_line rv = [pfx_ExtXVersion ++ print_protocol_version rv]).
Proof. exact version_line_spec. Qed.
Check C10_version_line : forall rv,
  (rv = 1 -> version_line rv = []) /\
  (rv <> 1 -> version_line rv = [pfx_ExtXVersion ++ print_protocol_version rv]).
Print Assumptions C10_version_line.

Theorem C10_text_shape : forall p q,
  media_lines p = [pfx_ExtM3u] ++ version_line (media_rv p) ++ media_body_lines p
  /\ master_lines q = [pfx_ExtM3u] ++ version_line (master_rv q) ++ master_body_lines q.
Proof. intros. split; reflexivity. Qed.
Check C10_text_shape : forall p q,
  media_lines p = [pfx_ExtM3u] ++ version_line (media_rv p) ++ media_body_lines p
  /\ master_lines q = [pfx_ExtM3u] ++ version_line (master_rv q) ++ master_body_lines q.
Print Assumptions C10_text_shape.

(* at most one version tag: no line of the body of a media playlist is a version line, provided
   no URI and no unknown tag is one (true of every parse result: such a line would have been
   dispatched to the version parser, the first entry of the dispatch chain) *)
Theorem C10_single_version_tag : forall p,
  forallb uri_ok (mp_segs p) = true -> forallb (fun u => negb (is_version_line u)) (mp_unknown p) = true ->
  forallb (fun l => negb (is_version_line l)) (media_body_lines p) = true.
Proof. exact media_body_no_version_line. Qed.
Check C10_single_version_tag : forall p,
  forallb uri_ok (mp_segs p) = true -> forallb (fun u => negb (is_version_line u)) (mp_unknown p) = true ->
  forallb (fun l => negb (is_version_line l)) (media_body_lines p) = true.
Print Assumptions C10_single_version_tag.

(* sound: every feature of RFC 8216 section 7 that is present forces the version up; the
   per-tag constants are read from the source by the translator *)
Theorem C10_sound_media : forall p s, In s (mp_segs p) ->
  (forall d, In (Some d) (sg_keys s) -> iv_is_some (k_iv d) = true -> 2 <= media_rv p)
  /\ ((inf_dur (sg_inf s)) mod 1000000000 <> 0 -> 3 <= media_rv p)
  /\ (sg_range s <> None -> 4 <= media_rv p)
  /\ (forall d, In (Some d) (sg_keys s) -> (is_some (k_format d) || is_some (k_versions d)) = true -> 5 <= media_rv p)
  /\ (sg_map s <> None -> 6 <= media_rv p).
Proof. exact rv_sound_media. Qed.
Check C10_sound_media : forall p s, In s (mp_segs p) ->
  (forall d, In (Some d) (sg_keys s) -> iv_is_some (k_iv d) = true -> 2 <= media_rv p)
  /\ ((inf_dur (sg_inf s)) mod 1000000000 <> 0 -> 3 <= media_rv p)
  /\ (sg_range s <> None -> 4 <= media_rv p)
  /\ (forall d, In (Some d) (sg_keys s) -> (is_some (k_format d) || is_some (k_versions d)) = true -> 5 <= media_rv p)
  /\ (sg_map s <> None -> 6 <= media_rv p).
Print Assumptions C10_sound_media.

Theorem C10_sound_iframes : forall p, mp_iframes p = true -> 4 <= media_rv p.
Proof. exact rv_sound_iframes. Qed.
Check C10_sound_iframes : forall p, mp_iframes p = true -> 4 <= media_rv p.
Print Assumptions C10_sound_iframes.

Theorem C10_sound_master : forall p,
  (forall m i, In m (ma_media p) -> xm_instream m = Some i -> 4 <= i -> 7 <= master_rv p)
  /\ (forall k, In k (ma_skeys p) -> key_rv k <= master_rv p).
Proof. exact rv_sound_master. Qed.
Check C10_sound_master : forall p,
  (forall m i, In m (ma_media p) -> xm_instream m = Some i -> 4 <= i -> 7 <= master_rv p)
  /\ (forall k, In k (ma_skeys p) -> key_rv k <= master_rv p).
Print Assumptions C10_sound_master.

(* not inflated: a segment's contribution is 1 or is demanded by a feature it has; the two
   documented conservative cases are visible: any IV (also a derived one) gives 2, any map gives 6 *)
Theorem C10_tight_segment : forall s,
  segment_rv s = 1
  \/ (segment_rv s = 2 /\ exists d, In (Some d) (sg_keys s) /\ iv_is_some (k_iv d) = true)
  \/ (segment_rv s = 3 /\ (inf_dur (sg_inf s)) mod 1000000000 <> 0)
  \/ (segment_rv s = 4 /\ sg_range s <> None)
  \/ (segment_rv s = 5 /\ exists d, In (Some d) (sg_keys s) /\ (is_some (k_format d) || is_some (k_versions d)) = true)
  \/ (segment_rv s = 6 /\ sg_map s <> None).
Proof. exact rv_tight_segment. Qed.
Check C10_tight_segment : forall s,
  segment_rv s = 1
  \/ (segment_rv s = 2 /\ exists d, In (Some d) (sg_keys s) /\ iv_is_some (k_iv d) = true)
  \/ (segment_rv s = 3 /\ (inf_dur (sg_inf s)) mod 1000000000 <> 0)
  \/ (segment_rv s = 4 /\ sg_range s <> None)
  \/ (segment_rv s = 5 /\ exists d, In (Some d) (sg_keys s) /\ (is_some (k_format d) || is_some (k_versions d)) = true)
  \/ (segment_rv s = 6 /\ sg_map s <> None).
Print Assumptions C10_tight_segment.

Example C10_example :
  match parse_media (lit "#EXTM3U
#EXT-X-TARGETDURATION:5
#EXT-X-KEY:METHOD=AES-128,URI=""k"",IV=0x00000000000000000000000000000001,KEYFORMAT=""identity""
#EXTINF:4.5,
a.ts
") with
  | Ok p => media_rv p = 5 /\ nth 1 (media_lines p) [] = lit "#EXT-X-VERSION:5"
  | _ => False
  end.
Proof. vm_compute. split; reflexivity. Qed.
