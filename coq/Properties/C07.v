(* C07 — segments are numbered from the media sequence; missing IVs derive from it. *)
From hls Require Import Base Float Lex Kinds Types Tags Line Keys Media.
From hls.Proofs Require Import Build Parse MediaProps.
Open Scope N_scope.

(* every accepted item list (hence every accepted text: C07_text below) numbers its segments
   consecutively from the media sequence value, wherever its tag appeared *)
Theorem C07_numbers : forall b0 ls p, items_wf_all ls -> parse_items b0 ls = Ok p ->
  forall k sg, nth_error (mp_segs p) k = Some sg -> sg_number sg = mp_mseq p + N.of_nat k.
Proof. exact accepted_numbers. Qed.
Check C07_numbers : forall b0 ls p, items_wf_all ls -> parse_items b0 ls = Ok p ->
  forall k sg, nth_error (mp_segs p) k = Some sg -> sg_number sg = mp_mseq p + N.of_nat k.
Print Assumptions C07_numbers.

(* the items the line layer produces are always well-formed, so the theorem applies to text *)
Theorem C07_text : forall input l, In (Ok l) (lines_of input) -> line_wf l.
Proof. exact lines_of_wf. Qed.
Check C07_text : forall input l, In (Ok l) (lines_of input) -> line_wf l.
Print Assumptions C07_text.

(* the keys a segment reports are the keys held at its URI line (C06) with the IV rule applied
   for its own number; URI, EXTINF and map are untouched *)
Theorem C07_keys : forall b0 ls p, items_wf_all ls -> parse_items b0 ls = Ok p ->
  exists s, run_lines (init_state b0) ls = Ok s /\
    List.length (mp_segs p) = List.length (ps_segs s) /\
    forall k s0, nth_error (rev (ps_segs s)) k = Some s0 ->
      exists sg, nth_error (mp_segs p) k = Some sg /\
        sg_keys sg = map (derive_iv (mp_mseq p + N.of_nat k)) (sg_keys s0) /\ sg_uri sg = sg_uri s0
        /\ sg_inf sg = sg_inf s0 /\ sg_map sg = sg_map s0.
Proof. exact accepted_keys. Qed.
Check C07_keys : forall b0 ls p, items_wf_all ls -> parse_items b0 ls = Ok p ->
  exists s, run_lines (init_state b0) ls = Ok s /\
    List.length (mp_segs p) = List.length (ps_segs s) /\
    forall k s0, nth_error (rev (ps_segs s)) k = Some s0 ->
      exists sg, nth_error (mp_segs p) k = Some sg /\
        sg_keys sg = map (derive_iv (mp_mseq p + N.of_nat k)) (sg_keys s0) /\ sg_uri sg = sg_uri s0
        /\ sg_inf sg = sg_inf s0 /\ sg_map sg = sg_map s0.
Print Assumptions C07_keys.

(* the IV rule: derived only for AES-128 + missing IV + absent/identity format; everything else
   of the key, and every explicit IV, is reported verbatim *)
Theorem C07_iv_rule : forall num d,
  derive_iv num (Some d) =
  Some {| k_method := k_method d; k_uri := k_uri d;
          k_iv := if (k_method d =? m_aes128)
                     && (match k_iv d with IvMissing => true | _ => false end)
                     && (match k_format d with None | Some KfIdentity => true | _ => false end)
                  then IvNumber num else k_iv d;
          k_format := k_format d; k_versions := k_versions d |}.
Proof. exact derive_iv_spec. Qed.
Check C07_iv_rule : forall num d,
  derive_iv num (Some d) =
  Some {| k_method := k_method d; k_uri := k_uri d;
          k_iv := if (k_method d =? m_aes128)
                     && (match k_iv d with IvMissing => true | _ => false end)
                     && (match k_format d with None | Some KfIdentity => true | _ => false end)
                  then IvNumber num else k_iv d;
          k_format := k_format d; k_versions := k_versions d |}.
Print Assumptions C07_iv_rule.

Theorem C07_explicit_iv_verbatim : forall num d bs, k_iv d = IvAes bs -> derive_iv num (Some d) = Some d.
Proof. exact derive_iv_explicit. Qed.
Check C07_explicit_iv_verbatim : forall num d bs, k_iv d = IvAes bs -> derive_iv num (Some d) = Some d.
Print Assumptions C07_explicit_iv_verbatim.

(* the 128-bit big-endian form of a derived IV denotes the segment number *)
Theorem C07_big_endian : forall v, v < two128 -> be_val (be_bytes 16 v []) 0 = v.
Proof. exact be_roundtrip_128. Qed.
Check C07_big_endian : forall v, v < two128 -> be_val (be_bytes 16 v []) 0 = v.
Print Assumptions C07_big_endian.

(* the writer never prints a derived IV: the key it writes has the derived IV stripped *)
Theorem C07_writer_strips : forall d n, k_iv d = IvNumber n -> k_iv (strip_derived d) = IvMissing.
Proof. intros d n H. unfold strip_derived. rewrite H. reflexivity. Qed.
Check C07_writer_strips : forall d n, k_iv d = IvNumber n -> k_iv (strip_derived d) = IvMissing.
Print Assumptions C07_writer_strips.

Example C07_example :
  match parse_media (lit "#EXTM3U
#EXT-X-TARGETDURATION:5
#EXTINF:5,
a.ts
#EXT-X-MEDIA-SEQUENCE:7
#EXT-X-KEY:METHOD=AES-128,URI=""k""
#EXTINF:5,
b.ts
") with
  | Ok p => map sg_number (mp_segs p) = [7; 8]
            /\ map (fun s => map (fun k => match k with Some d => k_iv d | None => IvMissing end) (sg_keys s)) (mp_segs p)
               = [[]; [IvNumber 8]]
  | _ => False
  end.
Proof. vm_compute. split; reflexivity. Qed.
