(* C04 — master playlist survives serialise -> parse.  Proved at item level (the tags the writer
   emits, read back in order, rebuild the value) and at text level (C04_text_roundtrip: the text
   itself parses back to the value, every tag through the tokenizer and its own parser). *)
From hls Require Import Base Float Lex Kinds Types Tags Line Keys Media Master.
From hls.Generated Require Import Tables.
From hls.Proofs Require Import C04 Values Lexical TextLines AttrText TagText TagTextMedia TagTextVariant MasterText ParsedWf FloatAll FloatFixed3 MediaParsedFloats.
Open Scope N_scope.

Theorem C04_items_roundtrip : forall p, validate_master p = true ->
  parse_master_items (map Ok (master_items p)) = Ok p.
Proof. exact master_items_roundtrip. Qed.
Check C04_items_roundtrip : forall p, validate_master p = true ->
  parse_master_items (map Ok (master_items p)) = Ok p.
Print Assumptions C04_items_roundtrip.

(* every value the parser returns satisfies the hypothesis *)
Theorem C04_parsed_valid : forall ls p, parse_master_items ls = Ok p -> validate_master p = true.
Proof.
  intros ls p H. unfold parse_master_items in H.
  destruct (mrun_lines ms_init ls) as [s| |]; simpl in H; try discriminate.
  unfold finish_master in H.
  match type of H with (if validate_master ?q then _ else _) = _ => destruct (validate_master q) eqn:E end; [|discriminate].
  inversion H; subst. exact E.
Qed.
Check C04_parsed_valid : forall ls p, parse_master_items ls = Ok p -> validate_master p = true.
Print Assumptions C04_parsed_valid.

(* value layers used by the tags of a master playlist *)
Theorem C04_values : forall n w h c s,
  n < 2 ^ 64 -> w < two64 -> h < two64 -> ch_number c < two64 -> clean_quoted s = true ->
  parse_u64 (print_uint n) = Ok n /\ parse_resolution (print_resolution (w, h)) = Ok (w, h)
  /\ parse_channels (print_channels c) = Ok c /\ unquote (quote s) = s.
Proof.
  intros n w h c s Hn Hw Hh Hc Hs. repeat split.
  - unfold parse_u64. rewrite (parse_print_uint 64 n Hn). reflexivity.
  - apply resolution_roundtrip; assumption.
  - apply channels_roundtrip; assumption.
  - apply unquote_quote; assumption.
Qed.
Check C04_values : forall n w h c s,
  n < 2 ^ 64 -> w < two64 -> h < two64 -> ch_number c < two64 -> clean_quoted s = true ->
  parse_u64 (print_uint n) = Ok n /\ parse_resolution (print_resolution (w, h)) = Ok (w, h)
  /\ parse_channels (print_channels c) = Ok c /\ unquote (quote s) = s.
Print Assumptions C04_values.

Example C04_example :
  match parse_master (lit "#EXTM3U
#EXT-X-MEDIA:TYPE=AUDIO,GROUP-ID=""a"",NAME=""n"",CHANNELS=""2""
#EXT-X-STREAM-INF:BANDWIDTH=5,AUDIO=""a"",FRAME-RATE=29.97
u
#EXT-X-SESSION-DATA:DATA-ID=""d"",URI=""x"",LANGUAGE=""en""
") with
  | Ok p => parse_master (print_master p) = Ok p /\ parse_master_items (map Ok (master_items p)) = Ok p
  | _ => False
  end.
Proof. vm_compute. split; reflexivity. Qed.

(* ---------- text level ---------- *)
(* The text the master writer produces for a well-formed, valid value parses back to that value.
   `wf_master` is a decidable predicate on the value: strings without double quote / CR / LF,
   integers inside their Rust types, enum indices inside the regenerated tables, keys without the
   representational corners the text cannot carry, unknown tags that are unknown to the dispatch
   chain — and, for the two float attributes (FRAME-RATE, TIME-OFFSET), that the modelled std
   conversions give the float back (`ufloat_rt`, `float_rt`; e.g. frame rates with at most three
   decimals).  Serialising the re-parsed value is then trivially byte-identical. *)
Theorem C04_text_roundtrip : forall p, wf_master p = true -> validate_master p = true ->
  parse_master (print_master p) = Ok p.
Proof. exact master_text_roundtrip. Qed.
Check C04_text_roundtrip : forall p, wf_master p = true -> validate_master p = true ->
  parse_master (print_master p) = Ok p.
Print Assumptions C04_text_roundtrip.

Theorem C04_text_fixed_point : forall p p', wf_master p = true -> validate_master p = true ->
  parse_master (print_master p) = Ok p' -> print_master p' = print_master p.
Proof.
  intros p p' Hw Hv H. rewrite (master_text_roundtrip p Hw Hv) in H. inversion H. reflexivity.
Qed.
Check C04_text_fixed_point : forall p p', wf_master p = true -> validate_master p = true ->
  parse_master (print_master p) = Ok p' -> print_master p' = print_master p.
Print Assumptions C04_text_fixed_point.

(* every tag of a master playlist, written and read back through its own parser *)
Theorem C04_tags_text :
  (forall m, wf_xmedia m = true -> parse_xmedia (print_xmedia m) = Ok m)
  /\ (forall u fr au su cc sd, wf_variant (VStreamInf u fr au su cc sd) = true ->
        parse_streaminf (streaminf_line fr au su cc sd) u = Ok (VStreamInf u fr au su cc sd)
        /\ print_variant (VStreamInf u fr au su cc sd) = streaminf_line fr au su cc sd ++ [10] ++ u)
  /\ (forall u sd, wf_variant (VIFrame u sd) = true ->
        parse_iframe (print_variant (VIFrame u sd)) = Ok (VIFrame u sd))
  /\ (forall d, wf_sdata d = true -> parse_session_data (print_session_data d) = Ok d)
  /\ (forall k, wf_key k = true -> parse_session_key (print_session_key k) = Ok k)
  /\ (forall s, wf_start s = true -> parse_start (print_start s) = Ok s).
Proof.
  repeat split.
  - intros m H. apply (xmedia_text m H).
  - apply (streaminf_text u fr au su cc sd H).
  - apply print_streaminf.
  - intros u sd H. apply (iframe_text u sd H).
  - intros d H. apply (session_data_text d H).
  - intros k H. apply (session_key_text k H).
  - intros s H. apply (start_text s H).
Qed.
Check C04_tags_text :
  (forall m, wf_xmedia m = true -> parse_xmedia (print_xmedia m) = Ok m)
  /\ (forall u fr au su cc sd, wf_variant (VStreamInf u fr au su cc sd) = true ->
        parse_streaminf (streaminf_line fr au su cc sd) u = Ok (VStreamInf u fr au su cc sd)
        /\ print_variant (VStreamInf u fr au su cc sd) = streaminf_line fr au su cc sd ++ [10] ++ u)
  /\ (forall u sd, wf_variant (VIFrame u sd) = true ->
        parse_iframe (print_variant (VIFrame u sd)) = Ok (VIFrame u sd))
  /\ (forall d, wf_sdata d = true -> parse_session_data (print_session_data d) = Ok d)
  /\ (forall k, wf_key k = true -> parse_session_key (print_session_key k) = Ok k)
  /\ (forall s, wf_start s = true -> parse_start (print_start s) = Ok s).
Print Assumptions C04_tags_text.

(* ---------- the property as stated: for every value obtained by parsing ---------- *)
(* every value the parser returns is well-formed (strings are unquote results, integers parse_uint
   results, enum indices table indices, URI lines trimmed lines, ...), so the only hypothesis left is
   the one on the std float conversions for FRAME-RATE / TIME-OFFSET values (`floats_master`,
   decidable; the property's own domain: frame rates with at most 3 decimals) *)
Theorem C04_parsed_wf : forall s p, parse_master s = Ok p -> wf_master_s p = true.
Proof. exact parsed_master_wf. Qed.
Check C04_parsed_wf : forall s p, parse_master s = Ok p -> wf_master_s p = true.
Print Assumptions C04_parsed_wf.

Theorem C04_roundtrip : forall s p, parse_master s = Ok p -> floats_master p = true ->
  parse_master (print_master p) = Ok p.
Proof. exact parsed_master_roundtrip. Qed.
Check C04_roundtrip : forall s p, parse_master s = Ok p -> floats_master p = true ->
  parse_master (print_master p) = Ok p.
Print Assumptions C04_roundtrip.

(* the hypotheses are met by a parsed playlist with every kind of tag (floats included) *)
(* the two float hypotheses inside `floats_master` are theorems on the values the RFC lets a playlist carry: FRAME-RATE values that
   are numbers with at most three decimals below 8192 (read as the nearest f32, written with {:.3}), and every TIME-OFFSET the
   reader accepts *)
Theorem C04_float_hypotheses : (forall V : N, V < 8192000 -> ufloat_rt (dec_to_f b32 (DNum false (Z.of_N V) (-3))) = true)
  /\ (forall s x, parse_float s = Ok x -> float_rt x = true).
Proof. exact (conj ufloat_rt_3dec (fun s x H => proj1 (proj2 (parsed_float_roundtrip s x H)))). Qed.
Check C04_float_hypotheses : (forall V : N, V < 8192000 -> ufloat_rt (dec_to_f b32 (DNum false (Z.of_N V) (-3))) = true)
  /\ (forall s x, parse_float s = Ok x -> float_rt x = true).
Print Assumptions C04_float_hypotheses.

(* the round trip of a parsed master playlist with the TIME-OFFSET hypothesis discharged (the float of a parse result comes out of
   the float reader: threaded through the master parser state): what is left is `rates_ok`, i.e. every FRAME-RATE survives the
   three-decimal writer — true for every rate with at most three decimals below 8192 (C04_float_hypotheses) *)
Theorem C04_roundtrip_parsed : forall s p, parse_master s = Ok p -> rates_ok p = true -> parse_master (print_master p) = Ok p.
Proof. exact parsed_master_roundtrip_rates. Qed.
Check C04_roundtrip_parsed : forall s p, parse_master s = Ok p -> rates_ok p = true -> parse_master (print_master p) = Ok p.
Print Assumptions C04_roundtrip_parsed.

Example C04_text_example :
  match parse_master (lit "#EXTM3U
#EXT-X-MEDIA:TYPE=AUDIO,GROUP-ID=""a"",NAME=""n"",LANGUAGE=""en"",DEFAULT=YES,AUTOSELECT=YES,CHANNELS=""2/JOC""
#EXT-X-MEDIA:TYPE=CLOSED-CAPTIONS,GROUP-ID=""c"",NAME=""cc"",INSTREAM-ID=""SERVICE12""
#EXT-X-STREAM-INF:BANDWIDTH=5,AVERAGE-BANDWIDTH=4,CODECS=""avc1.4d,mp4a"",RESOLUTION=640x360,HDCP-LEVEL=TYPE-0,AUDIO=""a"",CLOSED-CAPTIONS=""c"",FRAME-RATE=29.97
http://x/low.m3u8
#EXT-X-I-FRAME-STREAM-INF:URI=""i.m3u8"",BANDWIDTH=9
#EXT-X-SESSION-DATA:DATA-ID=""d"",URI=""x"",LANGUAGE=""en""
#EXT-X-SESSION-KEY:METHOD=AES-128,URI=""k"",IV=0x000102030405060708090a0b0c0d0e0f,KEYFORMAT=""com.example"",KEYFORMATVERSIONS=""1/2""
#EXT-X-INDEPENDENT-SEGMENTS
#EXT-X-START:TIME-OFFSET=-3.5,PRECISE=YES
#EXT-X-FOO:bar
") with
  | Ok p => wf_master p = true /\ floats_master p = true /\ validate_master p = true /\ List.length (ma_variants p) = 2%nat
  | _ => False
  end.
Proof. vm_compute. repeat split. Qed.
