(* C04 — master playlist survives serialise -> parse.  The master writer has no state; proved at
   item level: the tags it writes, read back in that order, rebuild the same value.  The text form
   of each tag read back is open (sampled by the correspondence check; value layers in C18). *)
From hls Require Import Base Float Lex Kinds Types Tags Line Keys Media Master.
From hls.Proofs Require Import C04 Values Lexical.
Open Scope N_scope.

Theorem C04_items_roundtrip : forall p, validate_master p = true ->
  parse_master_items (map Ok (master_items p)) = Ok p.
Proof. exact master_items_roundtrip. Qed.
Check C04_items_roundtrip : forall p, validate_master p = true ->
  parse_master_items (map Ok (master_items p)) = Ok p.
Print Assumptions C04_items_roundtrip.

(* every value the parser returns satisfies the hypothesis *)
Theorem C04_parsed_valid : forall ls p, parse_master_items ls = Ok p -> validate_master p = true.
Proof.
  intros ls p H. unfold parse_master_items in H.
  destruct (mrun_lines ms_init ls) as [s| |]; simpl in H; try discriminate.
  unfold finish_master in H.
  match type of H with (if validate_master ?q then _ else _) = _ => destruct (validate_master q) eqn:E end; [|discriminate].
  inversion H; subst. exact E.
Qed.
Check C04_parsed_valid : forall ls p, parse_master_items ls = Ok p -> validate_master p = true.
Print Assumptions C04_parsed_valid.

(* value layers used by the tags of a master playlist *)
Theorem C04_values : forall n w h c s,
  n < 2 ^ 64 -> w < two64 -> h < two64 -> ch_number c < two64 -> clean_quoted s = true ->
  parse_u64 (print_uint n) = Ok n /\ parse_resolution (print_resolution (w, h)) = Ok (w, h)
  /\ parse_channels (print_channels c) = Ok c /\ unquote (quote s) = s.
Proof.
  intros n w h c s Hn Hw Hh Hc Hs. repeat split.
  - unfold parse_u64. rewrite (parse_print_uint 64 n Hn). reflexivity.
  - apply resolution_roundtrip; assumption.
  - apply channels_roundtrip; assumption.
  - apply unquote_quote; assumption.
Qed.
Check C04_values : forall n w h c s,
  n < 2 ^ 64 -> w < two64 -> h < two64 -> ch_number c < two64 -> clean_quoted s = true ->
  parse_u64 (print_uint n) = Ok n /\ parse_resolution (print_resolution (w, h)) = Ok (w, h)
  /\ parse_channels (print_channels c) = Ok c /\ unquote (quote s) = s.
Print Assumptions C04_values.

Example C04_example :
  match parse_master (lit "#EXTM3U
#EXT-X-MEDIA:TYPE=AUDIO,GROUP-ID=""a"",NAME=""n"",CHANNELS=""2""
#EXT-X-STREAM-INF:BANDWIDTH=5,AUDIO=""a"",FRAME-RATE=29.97
u
#EXT-X-SESSION-DATA:DATA-ID=""d"",URI=""x"",LANGUAGE=""en""
") with
  | Ok p => parse_master (print_master p) = Ok p /\ parse_master_items (map Ok (master_items p)) = Ok p
  | _ => False
  end.
Proof. vm_compute. split; reflexivity. Qed.
