(* C03 — media playlist survives serialise -> parse.  Proved: the stateful part, i.e. which
   EXT-X-KEY tags the writer emits before which segment and what the reader makes of them, at the
   level of key events; the value layers it rests on are in C18/C01.  Not proved (open, sampled by
   the correspondence check): the text form of each tag read back (needs the float text
   conversions), and the reproduction of the ORDER inside a key list (false: known finding D20). *)
From hls Require Import Base Float Lex Kinds Types Tags Line Keys Media.
From hls.Spec Require Import KeySpec.
From hls.Proofs Require Import KeysProof C06 C11 C03.

(* for key lists as consecutive segments of a parse have them (each the marker alone or keys of
   pairwise different formats; keys never vanish without METHOD=NONE), the EXT-X-KEY events the
   writer emits make the reader hold, at every segment, exactly the same set of keys *)
Theorem C03_key_duality : forall Ks, chain_ok true Ks ->
  Forall2 (fun c K => forall x, In x c <-> In x K) (reparse_keys [] [] Ks) Ks.
Proof. exact key_duality. Qed.
Check C03_key_duality : forall Ks, chain_ok true Ks ->
  Forall2 (fun c K => forall x, In x c <-> In x K) (reparse_keys [] [] Ks) Ks.
Print Assumptions C03_key_duality.

(* one segment: whatever the writer's set and the reader's list were (related, well-shaped), after
   the segment's key events they are related again and the reader holds the segment's keys *)
Theorem C03_segment_step : forall avail cur K, KShape K -> rel avail cur -> wdistinct avail -> PShape cur ->
  (K = [] -> cur = []) ->
  let r := segment_key_events avail K in
  let cur' := keys_from cur (snd r) in
  rel (fst r) cur' /\ wdistinct (fst r) /\ PShape cur' /\ (forall x, In x cur' <-> In x K).
Proof. exact segment_duality. Qed.
Check C03_segment_step : forall avail cur K, KShape K -> rel avail cur -> wdistinct avail -> PShape cur ->
  (K = [] -> cur = []) ->
  let r := segment_key_events avail K in
  let cur' := keys_from cur (snd r) in
  rel (fst r) cur' /\ wdistinct (fst r) /\ PShape cur' /\ (forall x, In x cur' <-> In x K).
Print Assumptions C03_segment_step.

(* the key lists a parse produces are in the theorem's domain *)
Theorem C03_parsed_in_domain : forall h, Forall stripped (keys_after h) -> KShape (keys_after h).
Proof. exact parsed_keys_shape. Qed.
Check C03_parsed_in_domain : forall h, Forall stripped (keys_after h) -> KShape (keys_after h).
Print Assumptions C03_parsed_in_domain.

Theorem C03_keys_never_vanish : forall h ks, ks <> [] -> keys_from ks h <> [].
Proof. exact keys_from_nonempty. Qed.
Check C03_keys_never_vanish : forall h ks, ks <> [] -> keys_from ks h <> [].
Print Assumptions C03_keys_never_vanish.

(* D20: the order inside a key list is not always reproduced — a witness on the model *)
Definition d20_a : Key := {| k_method := 0; k_uri := [97]; k_iv := IvMissing; k_format := None; k_versions := None |}.
Definition d20_a2 : Key := {| k_method := 0; k_uri := [97; 50]; k_iv := IvMissing; k_format := None; k_versions := None |}.
Definition d20_b : Key := {| k_method := 1; k_uri := [98]; k_iv := IvMissing; k_format := Some KfFairPlay; k_versions := None |}.
Theorem C03_order_refuted :
  reparse_keys [] [] [[Some d20_a; Some d20_b]; [Some d20_a2; Some d20_b]]
  = [[Some d20_a; Some d20_b]; [Some d20_b; Some d20_a2]].
Proof. vm_compute. reflexivity. Qed.
Check C03_order_refuted :
  reparse_keys [] [] [[Some d20_a; Some d20_b]; [Some d20_a2; Some d20_b]]
  = [[Some d20_a; Some d20_b]; [Some d20_b; Some d20_a2]].
Print Assumptions C03_order_refuted.

(* non-vacuity: the history A,B | NONE | C of the repaired writer defect *)
Example C03_example :
  let c : Key := {| k_method := 0; k_uri := [99]; k_iv := IvMissing; k_format := Some KfWidevine; k_versions := None |} in
  chain_ok true [[Some d20_a; Some d20_b]; [Some c]]
  /\ reparse_keys [] [] [[Some d20_a; Some d20_b]; [Some c]] = [[Some d20_a; Some d20_b]; [Some c]].
Proof.
  split; [|vm_compute; reflexivity].
  simpl. repeat split; try discriminate; right; repeat constructor; simpl; intros; try tauto;
    repeat match goal with H : _ \/ _ |- _ => destruct H end; try tauto;
    match goal with H : Some _ = Some _ |- _ => inversion H; subst; vm_compute; reflexivity end.
Qed.
