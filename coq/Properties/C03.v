(* C03 — media playlist survives serialise -> parse.  Proved: (1) the stateful part, i.e. which
   EXT-X-KEY tags the writer emits before which segment and what the reader makes of them, at the
   level of key events; (2) the text level: the written text parses to `reread p`, which has the
   same observable content, with keys per segment as a set.  Not provable (false): the ORDER inside
   a key list (known finding D20) and a map's own key list (D9-K1).  Hypotheses on the std float /
   duration text conversions are decidable parts of `wf_media`. *)
From hls Require Import Base Float Lex Kinds Types Tags Line Keys Media.
From hls.Spec Require Import KeySpec.
From hls Require Import Master.
From hls.Generated Require Import Tables.
From hls.Proofs Require Import KeysProof C06 C11 C03 TextLines AttrText TagText TagTextSegment TagTextDateRange MediaText C03Items ParsedBuilt MediaParsedWf FloatAll MediaParsedFloats.

(* for key lists as consecutive segments of a parse have them (each the marker alone or keys of
   pairwise different formats; keys never vanish without METHOD=NONE), the EXT-X-KEY events the
   writer emits make the reader hold, at every segment, exactly the same set of keys *)
Theorem C03_key_duality : forall Ks, chain_ok true Ks ->
  Forall2 (fun c K => forall x, In x c <-> In x K) (reparse_keys [] [] Ks) Ks.
Proof. exact key_duality. Qed.
Check C03_key_duality : forall Ks, chain_ok true Ks ->
  Forall2 (fun c K => forall x, In x c <-> In x K) (reparse_keys [] [] Ks) Ks.
Print Assumptions C03_key_duality.

(* one segment: whatever the writer's set and the reader's list were (related, well-shaped), after
   the segment's key events they are related again and the reader holds the segment's keys *)
Theorem C03_segment_step : forall avail cur K, KShape K -> rel avail cur -> wdistinct avail -> PShape cur ->
  (K = [] -> cur = []) ->
  let r := segment_key_events avail K in
  let cur' := keys_from cur (snd r) in
  rel (fst r) cur' /\ wdistinct (fst r) /\ PShape cur' /\ (forall x, In x cur' <-> In x K).
Proof. exact segment_duality. Qed.
Check C03_segment_step : forall avail cur K, KShape K -> rel avail cur -> wdistinct avail -> PShape cur ->
  (K = [] -> cur = []) ->
  let r := segment_key_events avail K in
  let cur' := keys_from cur (snd r) in
  rel (fst r) cur' /\ wdistinct (fst r) /\ PShape cur' /\ (forall x, In x cur' <-> In x K).
Print Assumptions C03_segment_step.

(* the key lists a parse produces are in the theorem's domain *)
Theorem C03_parsed_in_domain : forall h, Forall stripped (keys_after h) -> KShape (keys_after h).
Proof. exact parsed_keys_shape. Qed.
Check C03_parsed_in_domain : forall h, Forall stripped (keys_after h) -> KShape (keys_after h).
Print Assumptions C03_parsed_in_domain.

Theorem C03_keys_never_vanish : forall h ks, ks <> [] -> keys_from ks h <> [].
Proof. exact keys_from_nonempty. Qed.
Check C03_keys_never_vanish : forall h ks, ks <> [] -> keys_from ks h <> [].
Print Assumptions C03_keys_never_vanish.

(* D20: the order inside a key list is not always reproduced — a witness on the model *)
Definition d20_a : Key := {| k_method := 0; k_uri := [97]; k_iv := IvMissing; k_format := None; k_versions := None |}.
Definition d20_a2 : Key := {| k_method := 0; k_uri := [97; 50]; k_iv := IvMissing; k_format := None; k_versions := None |}.
Definition d20_b : Key := {| k_method := 1; k_uri := [98]; k_iv := IvMissing; k_format := Some KfFairPlay; k_versions := None |}.
Theorem C03_order_refuted :
  reparse_keys [] [] [[Some d20_a; Some d20_b]; [Some d20_a2; Some d20_b]]
  = [[Some d20_a; Some d20_b]; [Some d20_b; Some d20_a2]].
Proof. vm_compute. reflexivity. Qed.
Check C03_order_refuted :
  reparse_keys [] [] [[Some d20_a; Some d20_b]; [Some d20_a2; Some d20_b]]
  = [[Some d20_a; Some d20_b]; [Some d20_b; Some d20_a2]].
Print Assumptions C03_order_refuted.

(* non-vacuity: the history A,B | NONE | C of the repaired writer defect *)
Example C03_example :
  let c : Key := {| k_method := 0; k_uri := [99]; k_iv := IvMissing; k_format := Some KfWidevine; k_versions := None |} in
  chain_ok true [[Some d20_a; Some d20_b]; [Some c]]
  /\ reparse_keys [] [] [[Some d20_a; Some d20_b]; [Some c]] = [[Some d20_a; Some d20_b]; [Some c]].
Proof.
  split; [|vm_compute; reflexivity].
  simpl. repeat split; try discriminate; right; repeat constructor; simpl; intros; try tauto;
    repeat match goal with H : _ \/ _ |- _ => destruct H end; try tauto;
    match goal with H : Some _ = Some _ |- _ => inversion H; subst; vm_compute; reflexivity end.
Qed.

(* ---------- text level ---------- *)
(* the text the media writer produces, read back: the parser sees exactly the items the writer meant
   (every tag through the tokenizer and its own parser; `wf_media`: decidable well-formedness of the
   value — clean strings, integers in range, URIs that are not tag lines, durations/floats that
   survive the modelled std conversions) *)
Theorem C03_text_items : forall p b0, wf_media p = true ->
  parse_media_with b0 (print_media p) = parse_items b0 (map Ok (media_items p)).
Proof. exact media_text_items. Qed.
Check C03_text_items : forall p b0, wf_media p = true ->
  parse_media_with b0 (print_media p) = parse_items b0 (map Ok (media_items p)).
Print Assumptions C03_text_items.

(* ... and those items, run through the parser state machine and build(), give `reread p`: for a
   playlist value with the invariants build() establishes (`built_ok`: numbers = media sequence +
   position, explicit byte ranges, durations within the target, keys = derived form of per-segment
   raw key lists that a parse can produce) *)
Theorem C03_text_roundtrip : forall p raws, wf_media p = true -> built_ok p raws ->
  parse_media (print_media p) = Ok (reread p).
Proof. exact media_text_roundtrip. Qed.
Check C03_text_roundtrip : forall p raws, wf_media p = true -> built_ok p raws ->
  parse_media (print_media p) = Ok (reread p).
Print Assumptions C03_text_roundtrip.

(* the re-read value has the same observable content: header, unknown tags, and per segment the
   number, URI, duration/title, byte range, date range, flags, map URI/range — and the same keys
   as a SET (their order is known finding D20; a map's keys are the reader's keys: D9-K1) *)
Theorem C03_reread_same : forall p raws, built_ok p raws ->
  mp_target (reread p) = mp_target p /\ mp_mseq (reread p) = mp_mseq p /\ mp_dseq (reread p) = mp_dseq p
  /\ mp_ptype (reread p) = mp_ptype p /\ mp_iframes (reread p) = mp_iframes p /\ mp_indep (reread p) = mp_indep p
  /\ mp_start (reread p) = mp_start p /\ mp_endlist (reread p) = mp_endlist p /\ mp_unknown (reread p) = mp_unknown p
  /\ Forall2 seg_same (mp_segs (reread p)) (mp_segs p).
Proof. exact reread_same. Qed.
Check C03_reread_same : forall p raws, built_ok p raws ->
  mp_target (reread p) = mp_target p /\ mp_mseq (reread p) = mp_mseq p /\ mp_dseq (reread p) = mp_dseq p
  /\ mp_ptype (reread p) = mp_ptype p /\ mp_iframes (reread p) = mp_iframes p /\ mp_indep (reread p) = mp_indep p
  /\ mp_start (reread p) = mp_start p /\ mp_endlist (reread p) = mp_endlist p /\ mp_unknown (reread p) = mp_unknown p
  /\ Forall2 seg_same (mp_segs (reread p)) (mp_segs p).
Print Assumptions C03_reread_same.

(* ---------- the property as stated: for every value obtained by parsing ---------- *)
(* every parse result has the build() invariants (numbers, explicit ranges, durations, key shapes) *)
Theorem C03_parsed_built : forall s p, parse_media s = Ok p -> exists raws, built_ok p raws.
Proof. exact parsed_media_built. Qed.
Check C03_parsed_built : forall s p, parse_media s = Ok p -> exists raws, built_ok p raws.
Print Assumptions C03_parsed_built.

(* ... so for every parse result that is well-formed (`wf_media`, decidable: durations and floats
   survive the std text conversions, unquoted SCTE35 values contain no comma, ...) writing and
   parsing again succeeds and yields the same observable content, keys per segment as a set *)
Theorem C03_roundtrip : forall s p, parse_media s = Ok p -> wf_media p = true ->
  parse_media (print_media p) = Ok (reread p)
  /\ mp_target (reread p) = mp_target p /\ mp_mseq (reread p) = mp_mseq p /\ mp_dseq (reread p) = mp_dseq p
  /\ mp_ptype (reread p) = mp_ptype p /\ mp_iframes (reread p) = mp_iframes p /\ mp_indep (reread p) = mp_indep p
  /\ mp_start (reread p) = mp_start p /\ mp_endlist (reread p) = mp_endlist p /\ mp_unknown (reread p) = mp_unknown p
  /\ Forall2 seg_same (mp_segs (reread p)) (mp_segs p).
Proof. exact parsed_media_roundtrip. Qed.
Check C03_roundtrip : forall s p, parse_media s = Ok p -> wf_media p = true ->
  parse_media (print_media p) = Ok (reread p)
  /\ mp_target (reread p) = mp_target p /\ mp_mseq (reread p) = mp_mseq p /\ mp_dseq (reread p) = mp_dseq p
  /\ mp_ptype (reread p) = mp_ptype p /\ mp_iframes (reread p) = mp_iframes p /\ mp_indep (reread p) = mp_indep p
  /\ mp_start (reread p) = mp_start p /\ mp_endlist (reread p) = mp_endlist p /\ mp_unknown (reread p) = mp_unknown p
  /\ Forall2 seg_same (mp_segs (reread p)) (mp_segs p).
Print Assumptions C03_roundtrip.

(* which parse results are well-formed: all of them, up to conditions on VALUES of the text that the
   writer cannot carry (`media_domain`, decidable): EXTINF / DATERANGE durations and TIME-OFFSET /
   client floats that survive the std text conversions, unquoted SCTE35-* values that are plain *)
Theorem C03_parsed_wf : forall s p, parse_media s = Ok p -> media_domain p = true -> wf_media p = true.
Proof. exact parsed_media_wf. Qed.
Check C03_parsed_wf : forall s p, parse_media s = Ok p -> media_domain p = true -> wf_media p = true.
Print Assumptions C03_parsed_wf.

(* the float / duration parts of `media_domain` are not restrictions on what the reader can produce: every duration below
   2^20 s survives the writer and the reader with nanosecond precision, and so does every float the reader accepts (TIME-OFFSET,
   client attributes) — proved for all values, see C18.v *)
Theorem C03_float_hypotheses : (forall ns : N, ns < 1048576 * 1000000000 -> dur_rt ns = true)
  /\ (forall s x, parse_float s = Ok x -> float_rt x = true /\ value_domain (VFloat x) = true).
Proof. exact (conj dur_rt_small (fun s x H => proj2 (parsed_float_domain s x H))). Qed.
Check C03_float_hypotheses : (forall ns : N, ns < 1048576 * 1000000000 -> dur_rt ns = true)
  /\ (forall s x, parse_float s = Ok x -> float_rt x = true /\ value_domain (VFloat x) = true).
Print Assumptions C03_float_hypotheses.

(* THE round trip without hypotheses on floats or on well-formedness: every parse result whose durations (EXTINF, DATERANGE
   DURATION / PLANNED-DURATION) are below 2^20 s and whose unquoted SCTE35-* values are plain (`media_small`: two comparisons and
   a character test per segment, no reference to the float conversions) is written and read back with the same observable content.
   The floats of a parse result (TIME-OFFSET, client attributes) need no condition: they come out of the float reader and therefore
   survive writer and reader (`parsed_media_domain`, threaded through the parser state like the structural invariants) *)
Theorem C03_roundtrip_parsed : forall s p, parse_media s = Ok p -> media_small p = true ->
  parse_media (print_media p) = Ok (reread p)
  /\ mp_target (reread p) = mp_target p /\ mp_mseq (reread p) = mp_mseq p /\ mp_dseq (reread p) = mp_dseq p
  /\ mp_ptype (reread p) = mp_ptype p /\ mp_iframes (reread p) = mp_iframes p /\ mp_indep (reread p) = mp_indep p
  /\ mp_start (reread p) = mp_start p /\ mp_endlist (reread p) = mp_endlist p /\ mp_unknown (reread p) = mp_unknown p
  /\ Forall2 seg_same (mp_segs (reread p)) (mp_segs p).
Proof. exact parsed_media_roundtrip_small. Qed.
Check C03_roundtrip_parsed : forall s p, parse_media s = Ok p -> media_small p = true ->
  parse_media (print_media p) = Ok (reread p)
  /\ mp_target (reread p) = mp_target p /\ mp_mseq (reread p) = mp_mseq p /\ mp_dseq (reread p) = mp_dseq p
  /\ mp_ptype (reread p) = mp_ptype p /\ mp_iframes (reread p) = mp_iframes p /\ mp_indep (reread p) = mp_indep p
  /\ mp_start (reread p) = mp_start p /\ mp_endlist (reread p) = mp_endlist p /\ mp_unknown (reread p) = mp_unknown p
  /\ Forall2 seg_same (mp_segs (reread p)) (mp_segs p).
Print Assumptions C03_roundtrip_parsed.
Theorem C03_parsed_domain : forall s p, parse_media s = Ok p -> media_small p = true -> media_domain p = true.
Proof. exact parsed_media_domain. Qed.
Check C03_parsed_domain : forall s p, parse_media s = Ok p -> media_small p = true -> media_domain p = true.
Print Assumptions C03_parsed_domain.

(* non-vacuity at text level: a parsed playlist with two key formats, a key rotation, METHOD=NONE,
   a map, byte ranges, a date range and fractional durations meets every hypothesis *)
Definition c03_empty : MediaPlaylist :=
  {| mp_target := 0; mp_mseq := 0; mp_dseq := 0; mp_ptype := None; mp_iframes := false; mp_indep := false;
     mp_start := None; mp_endlist := false; mp_segs := []; mp_excess := 0; mp_unknown := [] |}.
Definition c03_p : MediaPlaylist := Eval vm_compute in
  match parse_media (lit "#EXTM3U
#EXT-X-VERSION:6
#EXT-X-TARGETDURATION:10
#EXT-X-MEDIA-SEQUENCE:7
#EXT-X-PLAYLIST-TYPE:VOD
#EXT-X-START:TIME-OFFSET=1.5
#EXT-X-KEY:METHOD=AES-128,URI=""k1""
#EXT-X-KEY:METHOD=SAMPLE-AES,URI=""k2"",KEYFORMAT=""com.apple.streamingkeydelivery"",KEYFORMATVERSIONS=""1/2""
#EXT-X-MAP:URI=""init.mp4"",BYTERANGE=""100@0""
#EXT-X-BYTERANGE:500@100
#EXTINF:9.5,first
seg.mp4
#EXT-X-KEY:METHOD=AES-128,URI=""k3"",IV=0x000102030405060708090a0b0c0d0e0f
#EXT-X-BYTERANGE:400
#EXT-X-DATERANGE:ID=""d"",START-DATE=""2020-01-01T00:00:00Z"",DURATION=2.25,X-A=""v"",X-B=0xAB,X-C=1.5
#EXT-X-DISCONTINUITY
#EXTINF:10,
seg.mp4
#EXT-X-KEY:METHOD=NONE
#EXTINF:2.002,
plain.ts
#EXT-X-FOO:bar
#EXT-X-ENDLIST
") with Ok p => p | _ => c03_empty end.
Definition c03_raws : list (list xkey) := Eval vm_compute in
  map (fun s => map (fun k => match k with Some d => Some (strip_derived d) | None => None end) (sg_keys s)) (mp_segs c03_p).
Example C03_text_example :
  List.length (mp_segs c03_p) = 3%nat /\ media_small c03_p = true /\ media_domain c03_p = true /\ wf_media c03_p = true /\ built_ok c03_p c03_raws
  /\ parse_media (print_media c03_p) = Ok (reread c03_p).
Proof.
  assert (Hb : built_ok c03_p c03_raws).
  { constructor; try (vm_compute; reflexivity).
    - intros H; vm_compute in H; discriminate H.
    - unfold keys_from_raw. repeat constructor.
    - simpl. repeat split; try discriminate;
        try (left; reflexivity);
        right; repeat constructor; simpl; intros; try tauto;
        repeat match goal with H : _ \/ _ |- _ => destruct H end; try tauto;
        match goal with H : Some _ = Some _ |- _ => inversion H; subst; vm_compute; reflexivity end. }
  split; [reflexivity|]. split; [vm_compute; reflexivity|]. split; [vm_compute; reflexivity|]. split; [vm_compute; reflexivity|]. split; [exact Hb|].
  apply (media_text_roundtrip c03_p c03_raws); [vm_compute; reflexivity | exact Hb].
Qed.
