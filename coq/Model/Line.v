(* Line.v — src/line.rs: Lines::next and Tag::try_from.  The dispatch order, the prefix
   constants, the pairing prefix and the behaviour on a missing URI line are read from
   the generated tables. *)
From hls Require Import Base Float Lex Kinds Types Tags.
From hls.Generated Require Import Tables.
Open Scope N_scope.

Inductive tagv :=
| TVersion (v : N) | TInf (i : ExtInf) | TByteRange (r : ByteRange) | TDiscontinuity
| TKey (k : xkey) | TMap (m : ExtXMap) | TPdt (s : str) | TDateRange (d : DateRange)
| TTarget (secs : N) | TMediaSeq (n : N) | TDiscSeq (n : N) | TEndList | TPlaylistType (t : N)
| TIFramesOnly | TMedia (m : Media) | TSessionData (d : SessionData) | TSessionKey (k : Key)
| TIndep | TStart (s : Start) | TVariant (v : Variant) | TUnknown (s : str).

Definition kind_of (t : tagv) : kind :=
  match t with
  | TVersion _ => K_ExtXVersion | TInf _ => K_ExtInf | TByteRange _ => K_ExtXByteRange
  | TDiscontinuity => K_ExtXDiscontinuity | TKey _ => K_ExtXKey | TMap _ => K_ExtXMap
  | TPdt _ => K_ExtXProgramDateTime | TDateRange _ => K_ExtXDateRange
  | TTarget _ => K_ExtXTargetDuration | TMediaSeq _ => K_ExtXMediaSequence
  | TDiscSeq _ => K_ExtXDiscontinuitySequence | TEndList => K_ExtXEndList
  | TPlaylistType _ => K_PlaylistType | TIFramesOnly => K_ExtXIFramesOnly
  | TMedia _ => K_ExtXMedia | TSessionData _ => K_ExtXSessionData
  | TSessionKey _ => K_ExtXSessionKey | TIndep => K_ExtXIndependentSegments
  | TStart _ => K_ExtXStart | TVariant _ => K_VariantStream | TUnknown _ => K_Unknown
  end.

Inductive line := LTag (t : tagv) | LComment | LUri (s : str).

(* first matching entry of the dispatch chain *)
Fixpoint classify_in (tbl : list (bool * str * kind)) (l : str) : kind :=
  match tbl with
  | [] => K_Unknown
  | (exact, p, k) :: r =>
      if (if exact then str_eqb l p else starts_with p l) then k else classify_in r l
  end.
Definition classify (l : str) : kind := classify_in dispatch_table l.

(* the tag parser each Tag variant is built with (TryFrom::try_from(input)) *)
Definition parse_kind (k : kind) (l : str) : res tagv :=
  match k with
  | K_ExtXVersion => rmap TVersion (parse_version l)
  | K_ExtInf => rmap TInf (parse_extinf l)
  | K_ExtXByteRange => rmap TByteRange (parse_xbyterange l)
  | K_ExtXDiscontinuitySequence => rmap TDiscSeq (parse_disc_sequence l)
  | K_ExtXDiscontinuity => rmap (fun _ => TDiscontinuity) (parse_discontinuity l)
  | K_ExtXKey => rmap TKey (parse_xkey l)
  | K_ExtXMap => rmap TMap (parse_xmap l)
  | K_ExtXProgramDateTime => rmap TPdt (parse_pdt l)
  | K_ExtXTargetDuration => rmap TTarget (parse_target_duration l)
  | K_ExtXDateRange => rmap TDateRange (parse_daterange l)
  | K_ExtXMediaSequence => rmap TMediaSeq (parse_media_sequence l)
  | K_ExtXEndList => rmap (fun _ => TEndList) (parse_flag pfx_ExtXEndList l)
  | K_PlaylistType => rmap TPlaylistType (parse_playlist_type l)
  | K_ExtXIFramesOnly => rmap (fun _ => TIFramesOnly) (parse_flag pfx_ExtXIFramesOnly l)
  | K_ExtXMedia => rmap TMedia (parse_xmedia l)
  | K_VariantStream =>
      (* VariantStream::try_from on a single line: the I-frame form, or a STREAM-INF
         line without its URI line (unreachable from Lines::next, which pairs first) *)
      if is_ok (tag l pfx_VariantStream_EXTXIFRAME) then rmap TVariant (parse_iframe l) else Err
  | K_ExtXSessionData => rmap TSessionData (parse_session_data l)
  | K_ExtXSessionKey => rmap TSessionKey (parse_session_key l)
  | K_ExtXIndependentSegments => rmap (fun _ => TIndep) (parse_flag pfx_ExtXIndependentSegments l)
  | K_ExtXStart => rmap TStart (parse_start l)
  | K_Unknown => Ok (TUnknown l)
  end.

Definition s_hashEXT := Eval vm_compute in lit "#EXT".

(* Lines::next over the cleaned lines *)
Fixpoint items (ls : list str) : list (res line) :=
  match ls with
  | [] => []
  | l :: rest =>
      if starts_with pairing_prefix l then
        match rest with
        | [] => if missing_uri_is_error then [Err] else []
        | u :: rest' => rmap (fun v => LTag (TVariant v)) (parse_streaminf l u) :: items rest'
        end
      else if starts_with s_hashEXT l then rmap LTag (parse_kind (classify l) l) :: items rest
      else if starts_with [35] l then Ok LComment :: items rest
      else Ok (LUri l) :: items rest
  end.

Definition lines_of (input : str) : list (res line) := items (clean_lines input).
