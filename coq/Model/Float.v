(* Float.v — Z-only model of the Rust std float conversions hls_m3u8 relies on:
   dec2flt grammar, round-to-nearest-even into binary32/64, Duration::try_from_secs_f64,
   Duration::as_secs_f64, shortest-digits Display and {:.3}.  Validated against rustc on
   357k strings (DESIGN.md A.2); assumed, not verified, to equal std (trusted base). *)
From hls Require Import Base.
From Coq Require Import List ZArith NArith Bool.
Import ListNotations.
Open Scope Z_scope.

(* ---------- binary formats ---------- *)
Record fmt := { prec : Z; emin : Z; emax : Z }.  (* value m*2^e, |m| < 2^prec, e >= emin, e <= emax *)
Definition b64 := {| prec := 53; emin := -1074; emax := 971 |}.
Definition b32 := {| prec := 24; emin := -149; emax := 104 |}.

Inductive fval := FZero (neg:bool) | FInf (neg:bool) | FNan | FFin (neg:bool) (m:Z) (e:Z). (* m>0 *)

(* floor(n * 2^(-e) / d) and remainder information, n,d>0 *)
Definition scaled (n d e : Z) : Z * Z * Z :=   (* q, r, den  with n*2^-e/d = q + r/den *)
  if e <? 0 then let num := n * 2 ^ (- e) in (num / d, num mod d, d)
  else let den := d * 2 ^ e in (n / den, n mod den, den).

Definition rne (q r den : Z) : Z :=
  let c := Z.compare (2 * r) den in
  match c with Lt => q | Gt => q + 1 | Eq => if Z.even q then q else q + 1 end.

(* round positive rational n/d to format f *)
Definition rnd_pos (f : fmt) (neg : bool) (n d : Z) : fval :=
  let l := Z.log2 n - Z.log2 d in
  let e0 := l - prec f in
  let '(q0, _, _) := scaled n d e0 in
  let e1 := if 2 ^ prec f <=? q0 then e0 + 1 else e0 in
  let e := Z.max e1 (emin f) in
  let '(q, r, den) := scaled n d e in
  let m := rne q r den in
  if m =? 0 then FZero neg
  else
    let '(m', e') := if m =? 2 ^ prec f then (2 ^ (prec f - 1), e + 1) else (m, e) in
    if emax f <? e' then FInf neg else FFin neg m' e'.

(* ---------- decimal parsing (Rust dec2flt grammar) ---------- *)
Definition dval (c:char) : Z := Z.of_N (c - 48).
Fixpoint take_digits (s:str) (acc:Z) (cnt:Z) : Z * Z * str :=
  match s with c::r => if is_digit c then take_digits r (acc*10 + dval c) (cnt+1) else (acc,cnt,s) | [] => (acc,cnt,[]) end.
Definition lower (c:char) : char := if ((65 <=? c) && (c <=? 90))%N then (c+32)%N else c.
Fixpoint eq_ci (s t:str) : bool := match s,t with [],[] => true | a::s',b::t' => (lower a =? b)%N && eq_ci s' t' | _,_ => false end.
Definition s_inf : str := [105;110;102]%N. Definition s_infinity : str := [105;110;102;105;110;105;116;121]%N. Definition s_nan : str := [110;97;110]%N.

Inductive dec := DNan | DInf (neg:bool) | DNum (neg:bool) (m:Z) (e:Z). (* m * 10^e *)
Definition parse_dec (s:str) : option dec :=
  let '(neg, s1) := match s with 45%N::r => (true, r) | 43%N::r => (false, r) | _ => (false, s) end in
  if eq_ci s1 s_nan then Some DNan else if eq_ci s1 s_inf || eq_ci s1 s_infinity then Some (DInf neg) else
  let '(ip, ic, s2) := take_digits s1 0 0 in
  let '(m, fc, s3) := match s2 with 46%N::r => let '(m,fc,s3) := take_digits r ip 0 in (m,fc,s3) | _ => (ip,0,s2) end in
  if (ic + fc =? 0) then None else
  match s3 with
  | [] => Some (DNum neg m (- fc))
  | c::r => if (lower c =? 101)%N then
      let '(eneg, r1) := match r with 45%N::r' => (true, r') | 43%N::r' => (false, r') | _ => (false, r) end in
      let '(ev, ec, r2) := take_digits r1 0 0 in
      if (ec =? 0) then None else match r2 with [] => Some (DNum neg m ((if eneg then - ev else ev) - fc)) | _ => None end
    else None
  end.

Definition ndigits (m:Z) : Z := (* number of decimal digits, approx upper bound *) (Z.log2 m * 30103) / 100000 + 1.
Definition dec_to_f (f:fmt) (d:dec) : fval :=
  match d with DNan => FNan | DInf n => FInf n
  | DNum neg m e => if m =? 0 then FZero neg else
     let mag := ndigits m + e in
     if 400 <? mag then FInf neg else if mag <? -400 then FZero neg else
     if 0 <=? e then rnd_pos f neg (m * 10 ^ e) 1 else rnd_pos f neg m (10 ^ (- e))
  end.

(* ---------- Duration::from_secs_f64 ---------- *)
Definition dur_of_f (x:fval) : option Z (* ns; None = try_from_secs_f64 fails *) :=
  match x with
  | FNan | FInf _ => None
  | FZero _ => Some 0
  | FFin true _ _ => None
  | FFin false m e =>
     (* value m*2^e ; overflow if >= 2^64 *)
     if (64 <=? Z.log2 m + e) then None else
     let '(q, r, den) := scaled (m * 1000000000) 1 (- e) in  (* m*10^9 * 2^e = m*10^9 / 2^-e *)
     Some (rne q r den)
  end.

(* as_secs_f64 *)
Definition fadd64 (a b : fval) : fval :=
  match a, b with
  | FFin false ma ea, FFin false mb eb =>
      let e := Z.min ea eb in let n := ma * 2^(ea-e) + mb * 2^(eb-e) in
      if e <? 0 then rnd_pos b64 false n (2^(-e)) else rnd_pos b64 false (n * 2^e) 1
  | FZero _, x => x | x, FZero _ => x | _, _ => FNan end.
Definition secs_f64_of_dur (ns : Z) : fval :=
  let secs := ns / 1000000000 in let nanos := ns mod 1000000000 in
  let a := if secs =? 0 then FZero false else rnd_pos b64 false secs 1 in
  let b := if nanos =? 0 then FZero false else rnd_pos b64 false nanos 1000000000 in
  fadd64 a b.

(* ---------- shortest printing ---------- *)
(* x = m*2^e > 0 as rational n/d *)
Definition rat_of (m e:Z) : Z*Z := if e <? 0 then (m, 2^(-e)) else (m * 2^e, 1).
(* floor(log10 (n/d)) *)
Definition flog10 (n d : Z) : Z :=
  let est := ((Z.log2 n - Z.log2 d) * 30103) / 100000 in
  (* est within +-2 ; adjust: find largest t with 10^t <= n/d *)
  let le10 t := if 0 <=? t then (d * 10^t <=? n) else (d <=? n * 10^(-t)) in
  let t0 := est + 2 in
  if le10 t0 then t0 else if le10 (t0-1) then t0-1 else if le10 (t0-2) then t0-2 else if le10 (t0-3) then t0-3 else t0-4.

Definition feq (a b : fval) : bool := match a, b with FFin sa ma ea, FFin sb mb eb => Bool.eqb sa sb && (ma =? mb) && (ea =? eb) | _,_ => false end.
(* candidate digits D (integer) at scale 10^t ; returns Some (D,t) if rounds back *)
Definition cand_ok (f:fmt) (x:fval) (D t:Z) : bool :=
  if D <=? 0 then false else
  feq x (if 0 <=? t then rnd_pos f false (D * 10^t) 1 else rnd_pos f false D (10^(-t))).
(* |c - x| compare for c1 = D*10^t, c2=(D+1)*10^t : x - c1 vs c2 - x  <=> 2x vs c1+c2 = (2D+1)10^t *)
Definition closer_low (n d D t : Z) : comparison := (* compare (x - c1) (c2 - x) *)
  if 0 <=? t then Z.compare (2*n) ((2*D+1) * 10^t * d) else Z.compare (2*n*10^(-t)) ((2*D+1)*d).
Fixpoint shortest (fuel:nat) (f:fmt) (x:fval) (n d lg k : Z) : Z*Z :=
  match fuel with O => (0,0) | S fu =>
    let t := lg - (k - 1) in
    let D := if 0 <=? t then n / (d * 10^t) else (n * 10^(-t)) / d in
    let exact := if 0 <=? t then (D * 10^t * d =? n) else (D * d =? n * 10^(-t)) in
    if exact then (D, t) else
    let lo := cand_ok f x D t in let hi := cand_ok f x (D+1) t in
    match lo, hi with
    | true, true => match closer_low n d D t with Lt => (D,t) | Gt => (D+1,t) | Eq => (D+1,t) end
    | true, false => (D,t) | false, true => (D+1,t)
    | false, false => shortest fu f x n d lg (k+1) end end.

Fixpoint digits_rev (fuel:nat) (v:Z) : str := match fuel with O => [] | S f => if v <? 10 then [Z.to_N (v+48)] else Z.to_N (v mod 10 + 48) :: digits_rev f (v/10) end.
Definition digits (v:Z) : str := rev (digits_rev (S (Z.to_nat (Z.log2 v))) v).
Fixpoint zeros (n:nat) : str := match n with O => [] | S k => 48%N :: zeros k end.
Fixpoint strip_tz (D t : Z) (fuel:nat) : Z*Z := match fuel with O => (D,t) | S f => if (D mod 10 =? 0) && negb (D =? 0) then strip_tz (D/10) (t+1) f else (D,t) end.
Definition fmt_plain (neg:bool) (D t:Z) : str :=
  let '(D,t) := strip_tz D t 400 in
  let ds := digits D in let k := Z.of_nat (length ds) in
  let body := if 0 <=? t then ds ++ zeros (Z.to_nat t)
    else if (- t) <? k then firstn (Z.to_nat (k + t)) ds ++ [46%N] ++ skipn (Z.to_nat (k + t)) ds
    else [48;46]%N ++ zeros (Z.to_nat (- t - k)) ++ ds in
  (if neg then [45%N] else []) ++ body.
Definition print_shortest (f:fmt) (x:fval) : str :=
  match x with FNan => [78;97;78]%N | FInf n => (if n then [45%N] else []) ++ [105;110;102]%N
  | FZero n => (if n then [45%N] else []) ++ [48%N]
  | FFin neg m e => let '(n,d) := rat_of m e in let lg := flog10 n d in
      let '(D,t) := shortest 20 f (FFin false m e) n d lg 1 in fmt_plain neg D t end.
(* {:.3} *)
Definition pad3 (v:Z) : str := let ds := digits v in if v =? 0 then [48;48;48]%N else zeros (3 - length ds) ++ ds.
Definition print_fixed3 (x:fval) : str :=
  match x with FFin neg m e => let '(n,d) := rat_of m e in
     let '(q,r,den) := (n*1000 / d, (n*1000) mod d, d) in let v := rne q r den in
     (if neg then [45%N] else []) ++ (if v/1000 =? 0 then [48%N] else digits (v/1000)) ++ [46%N] ++ pad3 (v mod 1000)
  | FZero n => (if n then [45%N] else []) ++ [48;46;48;48;48]%N | _ => [] end.
