(* ByteLex.v — the index arithmetic and string slicing of src/attribute.rs (AttributePairs::next) and src/utils.rs
   (unquote, tag) at the level the Rust code is written: byte offsets into a UTF-8 string, `&s[a..b]` panicking
   when a > b, b > len or an offset is not a character boundary, and `usize` subtraction panicking on underflow
   (debug / overflow-checks build).  A `str` is still a list of code points (Rust's &str invariant: valid UTF-8);
   its byte view is given by `utf8_len`.  Lex.v is the structural model the rest of the development uses;
   Proofs/ByteLexProof.v shows that this index-level model never panics and computes the same pairs. *)
From hls Require Import Base Lex.
Open Scope N_scope.

(* ---------- byte offsets in a string ---------- *)
(* the rest of the string behind byte offset k, if k is a character boundary within the string *)
Fixpoint drop_bytes (s : str) (k : N) : option str :=
  if k =? 0 then Some s
  else match s with
       | [] => None
       | c :: r => if utf8_len c <=? k then drop_bytes r (k - utf8_len c) else None
       end.
(* the part of the string before byte offset k, if k is a character boundary within the string *)
Fixpoint take_bytes (s : str) (k : N) : option str :=
  if k =? 0 then Some []
  else match s with
       | [] => None
       | c :: r => if utf8_len c <=? k then omap (cons c) (take_bytes r (k - utf8_len c)) else None
       end.
(* &s[a..] and &s[a..b] *)
Definition slice_from (s : str) (a : N) : res str :=
  match drop_bytes s a with Some r => Ok r | None => Panic end.
Definition slice (s : str) (a b : N) : res str :=
  if b <? a then Panic
  else match drop_bytes s a with
       | Some r => match take_bytes r (b - a) with Some x => Ok x | None => Panic end
       | None => Panic
       end.
(* usize arithmetic with overflow checks *)
Definition usub (a b : N) : res N := if a <? b then Panic else Ok (a - b).

(* char_indices().find_map(|(i, c)| if c == ch { Some(i) } else { None }) : byte offset of the first occurrence *)
Fixpoint find_idx (ch : char) (s : str) (off : N) : option N :=
  match s with
  | [] => None
  | c :: r => if c =? ch then Some off else find_idx ch r (off + utf8_len c)
  end.
(* the loop over the value: byte offset (relative to the slice) of the first ',' outside double quotes *)
Fixpoint comma_idx (q : bool) (s : str) (off : N) : option N :=
  match s with
  | [] => None
  | c :: r => if c =? 34 then comma_idx (negb q) r (off + utf8_len c)
              else if (c =? 44) && negb q then Some off
              else comma_idx q r (off + utf8_len c)
  end.

(* ---------- AttributePairs::next ---------- *)
(* returns None (iterator exhausted) or the pair and the new value of `self.index` *)
Definition next_idx (s : str) (index : N) : res (option ((str * str) * N)) :=
  let len := byte_len s in
  (* self.string.as_bytes().get(self.index + 1)?; *)
  if len <=? index + 1 then Ok None
  else
    let start := index in
    (* self.string[self.index..].char_indices().find_map(..)? + self.index *)
    let! rest := slice_from s index in
    match find_idx 61 rest 0 with
    | None => Ok None
    | Some i =>
        let end_ := i + index in
        let index1 := end_ + 1 in
        let! key := slice s start end_ in
        (* value *)
        let start2 := index1 in
        let! rest2 := slice_from s index1 in
        let! pr :=
          match comma_idx false rest2 0 with
          | Some i2 =>
              (* self.index += 1; result = i + self.index - 1; *)
              let index' := index1 + 1 in
              let! r := usub (i2 + index') 1 in Ok (r, index')
          | None => Ok (len, index1)
          end in
        let '(end2, index2) := pr in
        (* self.index += end; self.index -= start; *)
        let! index3 := usub (index2 + end2) start2 in
        let! value := slice s start2 end2 in
        Ok (Some ((trim key, trim value), index3))
    end.

Fixpoint pairs_idx_fuel (fuel : nat) (s : str) (index : N) : res (list (str * str)) :=
  match fuel with
  | O => Ok []
  | S f => let! o := next_idx s index in
           match o with
           | None => Ok []
           | Some (kv, index') => let! r := pairs_idx_fuel f s index' in Ok (kv :: r)
           end
  end.
Definition pairs_idx (s : str) : res (list (str * str)) := pairs_idx_fuel (S (List.length s)) s 0.

(* ---------- utils::unquote: the slice &value[1..value.len() - 1] ---------- *)
Definition unquote_idx (s : str) : res str :=
  let len := byte_len s in
  if (2 <=? len) && starts_with [34] s && ends_with_char 34 s then
    let! hi := usub len 1 in
    let! inner := slice s 1 hi in
    if any_char is_bad_quoted inner then Ok (strip_bad s) else Ok inner
  else Ok (strip_bad s).

(* ---------- utils::tag: input.trim().split_at(tag.len()).1 behind the starts_with test ---------- *)
Definition tag_idx (input prefix : str) : res str :=
  let t := trim input in
  if starts_with prefix t then slice_from t (byte_len prefix)      (* split_at panics off a character boundary *)
  else Err.
