(* Dump.v — canonical observation dumps, grammar in /verif/harness/DUMP.md. *)
From hls Require Import Base Float Lex Kinds Types Tags Line Media Master.
From hls.Generated Require Import Tables.
Open Scope N_scope.

Definition sp : str := [32].
Definition paren (name : string) (fields : list str) : str :=
  40 :: lit name ++ flat_map (fun f => 32 :: f) fields ++ [41].
Definition dS (s : str) : str := 115 :: join_with [46] (map print_uint s).
Definition dN (n : N) : str := print_uint n.
Definition dB (b : bool) : str := if b then [49] else [48].
Definition dO {A} (f : A -> str) (o : option A) : str :=
  match o with Some x => f x | None => lit "none" end.
Definition fld {A} (name : string) (f : A -> str) (x : A) : str := paren name [f x].

Definition dR (r : ByteRange) : str := paren "r" [dO dN (br_start r); dN (br_end r)].
Definition dIV (iv : IV) : str :=
  match iv with
  | IvMissing => lit "missing"
  | IvAes bs => paren "aes" [dN (be_val bs 0)]
  | IvNumber n => paren "num" [dN n]
  end.
Definition dKF (k : KeyFormat) : str :=
  match k with
  | KfIdentity => lit "identity" | KfFairPlay => lit "fairplay" | KfWidevine => lit "widevine"
  | KfPlayReady => lit "playready" | KfOther s => paren "other" [dS s]
  end.
Definition dKey (k : Key) : str :=
  paren "key" [ paren "method" [if k_method k =? 0 then lit "aes128" else lit "sampleaes"];
                fld "uri" dS (k_uri k); fld "iv" dIV (k_iv k);
                fld "format" (dO dKF) (k_format k);
                fld "versions" (dO (fun v => paren "v" (map dN v))) (k_versions k) ].
Definition dXKey (k : xkey) : str := match k with Some d => dKey d | None => lit "(nokey)" end.
Definition some_keys (ks : list xkey) : list Key := present ks.
Definition dDecr (ks : list xkey) : list str :=
  [ paren "dlen" [dN (N.of_nat (List.length (some_keys ks)))];
    paren "dfirst" [dO dKey (hd_error (some_keys ks))] ].
(* ExtXMap::keys is not public; what is observable is Decryptable::keys *)
Definition dMap (m : ExtXMap) : str :=
  paren "map" ([ fld "uri" dS (map_uri m); fld "range" (dO dR) (map_range m);
                 paren "keys" (map dKey (some_keys (map_keys m))) ] ++ dDecr (map_keys m)).
Definition dValue (v : Value) : str :=
  match v with
  | VString s => paren "vs" [dS s]
  | VHex bs => paren "vh" (map dN bs)
  | VFloat x => paren "vf" [dN (f32_bits x)]
  end.
Definition dDR (d : DateRange) : str :=
  paren "dr" [ fld "id" dS (dr_id d); fld "class" (dO dS) (dr_class d);
               fld "sdate" (dO dS) (dr_start d); fld "edate" (dO dS) (dr_end d);
               fld "dur" (dO dN) (dr_duration d); fld "planned" (dO dN) (dr_planned d);
               fld "cmd" (dO dS) (dr_cmd d); fld "out" (dO dS) (dr_out d);
               fld "in" (dO dS) (dr_in d); fld "eon" dB (dr_eon d);
               paren "client" (map (fun kv => paren "ca" [dS (fst kv); dValue (snd kv)]) (dr_client d)) ].
Definition dStart (s : Start) : str := paren "start" [dN (f32_bits (st_offset s)); dB (st_precise s)].
Definition dSeg (s : Segment) : str :=
  paren "seg" ([ fld "num" dN (sg_number s); fld "uri" dS (sg_uri s);
                 fld "dur" dN (inf_dur (sg_inf s)); fld "title" (dO dS) (inf_title (sg_inf s));
                 fld "disc" dB (sg_disc s); fld "pdt" (dO dS) (sg_pdt s);
                 fld "range" (dO dR) (sg_range s); fld "map" (dO dMap) (sg_map s);
                 fld "daterange" (dO dDR) (sg_daterange s);
                 paren "keys" (map dXKey (sg_keys s)) ] ++ dDecr (sg_keys s)).
Definition dPT (t : option N) : str :=
  match t with None => lit "none" | Some 0 => lit "event" | Some _ => lit "vod" end.
Definition dMedia (p : MediaPlaylist) : str :=
  paren "media" [ fld "target" dN (mp_target p); fld "mseq" dN (mp_mseq p); fld "dseq" dN (mp_dseq p);
                  paren "ptype" [dPT (mp_ptype p)]; fld "iframes" dB (mp_iframes p);
                  fld "indep" dB (mp_indep p); fld "start" (dO dStart) (mp_start p);
                  fld "endlist" dB (mp_endlist p); fld "excess" dN (mp_excess p);
                  paren "unknown" (map dS (mp_unknown p)); paren "segs" (map dSeg (mp_segs p)) ].

Definition dMT (t : N) : str :=
  if t =? 0 then lit "audio" else if t =? 1 then lit "video"
  else if t =? 2 then lit "subtitles" else lit "cc".
Definition dCh (c : Channels) : str := paren "ch" [dN (ch_number c); dB (ch_joc c)].
Definition dXM (m : Media) : str :=
  paren "m" [ paren "type" [dMT (xm_type m)]; fld "uri" (dO dS) (xm_uri m); fld "group" dS (xm_group m);
              fld "lang" (dO dS) (xm_lang m); fld "assoc" (dO dS) (xm_assoc m); fld "name" dS (xm_name m);
              fld "default" dB (xm_default m); fld "autoselect" dB (xm_autoselect m);
              fld "forced" dB (xm_forced m);
              fld "instream" (dO (enum_print enum_InStreamId)) (xm_instream m);
              fld "chars" (dO dS) (xm_chars m); fld "channels" (dO dCh) (xm_channels m) ].
Definition dCC (c : ClosedCaptions) : str :=
  match c with CcNone => lit "ccnone" | CcGroup g => paren "ccgroup" [dS g] end.
Definition dSDT (d : StreamData) : str :=
  paren "sd" [ fld "bw" dN (sd_bandwidth d); fld "avg" (dO dN) (sd_avg d);
               fld "codecs" (dO (fun c => paren "c" (map dS c))) (sd_codecs d);
               fld "res" (dO (fun r => paren "x" [dN (fst r); dN (snd r)])) (sd_resolution d);
               fld "hdcp" (dO (fun h => if h =? 0 then lit "type0" else lit "hnone")) (sd_hdcp d);
               fld "video" (dO dS) (sd_video d) ].
Definition dVS (v : Variant) : str :=
  match v with
  | VIFrame u sd => paren "iframe" [fld "uri" dS u; dSDT sd]
  | VStreamInf u fr au su cc sd =>
      paren "streaminf" [ fld "uri" dS u; fld "fr" (dO (fun x => dN (f32_bits x))) fr;
                          fld "audio" (dO dS) au; fld "subs" (dO dS) su; fld "cc" (dO dCC) cc; dSDT sd ]
  end.
Definition dSD (d : SessionData) : str :=
  paren "sdat" [ fld "id" dS (xs_id d);
                 match xs_data d with SdValue v => fld "value" dS v | SdUri u => fld "uri" dS u end;
                 fld "lang" (dO dS) (xs_lang d) ].
Definition dMaster (p : MasterPlaylist) : str :=
  paren "master" [ fld "indep" dB (ma_indep p); fld "start" (dO dStart) (ma_start p);
                   paren "media" (map dXM (ma_media p)); paren "variants" (map dVS (ma_variants p));
                   paren "sdata" (map dSD (ma_sdata p)); paren "skeys" (map dKey (ma_skeys p));
                   paren "unknown" (map dS (ma_unknown p)) ].

(* ---------- results of the harness ops, as the harness prints them ---------- *)
Definition dRes {A} (f : A -> str) (r : res A) : str :=
  match r with Ok a => lit "ok " ++ f a | Err => lit "err" | Panic => lit "panic" end.

(* op `media` / `media_excess`: parse, required version, text, re-parse, text *)
Definition run_media_with (b0 : mbuilder) (input : str) : str :=
  dRes (fun p =>
    let t := print_media p in
    paren "mres" [ dMedia p; fld "rv" dN (media_rv p); fld "text" dS t;
                   match parse_media_with b0 t with
                   | Ok p2 => paren "re" [lit "ok"; dMedia p2; fld "text" dS (print_media p2)]
                   | Err => paren "re" [lit "err"]
                   | Panic => paren "re" [lit "panic"]
                   end ])
    (parse_media_with b0 input).
Definition run_media (input : str) : str := run_media_with mb_default input.
Definition run_master (input : str) : str :=
  dRes (fun p =>
    let t := print_master p in
    paren "ares" [ dMaster p; fld "rv" dN (master_rv p); fld "text" dS t;
                   match parse_master t with
                   | Ok p2 => paren "re" [lit "ok"; dMaster p2; fld "text" dS (print_master p2)]
                   | Err => paren "re" [lit "err"]
                   | Panic => paren "re" [lit "panic"]
                   end ])
    (parse_master input).

(* ---------- op `tag <Type> <text>`: parse, dump, print, re-parse ---------- *)
Definition tag_result {A} (parse : str -> res A) (print : A -> str) (dump : A -> str) (s : str) : str :=
  dRes (fun v =>
    let t := print v in
    paren "t" [ dump v; fld "text" dS t;
                match parse t with
                | Ok v2 => paren "re" [lit "ok"; dump v2]
                | Err => paren "re" [lit "err"]
                | Panic => paren "re" [lit "panic"]
                end ]) (parse s).
Definition dInf (i : ExtInf) : str := paren "inf" [dN (inf_dur i); dO dS (inf_title i)].
Definition dF (name : string) (x : fval) : str := paren name [dN (f32_bits x)].
Definition dPV (v : N) : str := paren "pv" [dN v].
Definition dMethod (m : N) : str := if m =? 0 then lit "aes128" else lit "sampleaes".
Definition dHdcp (h : N) : str := if h =? 0 then lit "type0" else lit "hnone".
Definition print_iv (iv : IV) : str :=
  match iv with
  | IvAes bs => s_0x ++ hex_encode false bs
  | IvNumber n => lit "InitializationVector::Number(" ++ print_uint n ++ [41]
  | IvMissing => lit "InitializationVector::Missing"
  end.
Definition pmap_of (m : ExtXMap) : ExtXMap := m.
Definition is_ty (ty : str) (n : string) : bool := str_eqb ty (lit n).
Definition run_tag (ty : str) (s : str) : str :=
  if is_ty ty "ExtInf" then tag_result parse_extinf print_extinf dInf s
  else if is_ty ty "ExtXByteRange" then tag_result parse_xbyterange print_xbyterange dR s
  else if is_ty ty "ByteRange" then tag_result parse_byte_range print_byte_range dR s
  else if is_ty ty "ExtXKey" then tag_result parse_xkey print_xkey dXKey s
  else if is_ty ty "ExtXMap" then tag_result parse_xmap print_xmap dMap s
  else if is_ty ty "ExtXProgramDateTime" then tag_result parse_pdt print_pdt (fun p => paren "pdt" [dS p]) s
  else if is_ty ty "ExtXDateRange" then tag_result parse_daterange print_daterange dDR s
  else if is_ty ty "ExtXStart" then tag_result parse_start print_start dStart s
  else if is_ty ty "ExtXMedia" then tag_result parse_xmedia print_xmedia dXM s
  else if is_ty ty "VariantStream" then tag_result parse_variant print_variant dVS s
  else if is_ty ty "ExtXSessionData" then tag_result parse_session_data print_session_data dSD s
  else if is_ty ty "ExtXSessionKey" then tag_result parse_session_key print_session_key dKey s
  else if is_ty ty "DecryptionKey" then tag_result parse_decryption_key print_decryption_key dKey s
  else if is_ty ty "Channels" then tag_result parse_channels print_channels dCh s
  else if is_ty ty "Resolution" then tag_result parse_resolution print_resolution (fun r => paren "x" [dN (fst r); dN (snd r)]) s
  else if is_ty ty "Codecs" then tag_result (fun x => Ok (parse_codecs x)) print_codecs (fun c => paren "c" (map dS c)) s
  else if is_ty ty "ClosedCaptions" then tag_result (fun x => Ok (parse_cc x)) print_cc dCC s
  else if is_ty ty "Float" then tag_result parse_float print_f32 (dF "f") s
  else if is_ty ty "UFloat" then tag_result parse_ufloat print_f32 (dF "uf") s
  else if is_ty ty "InitializationVector" then tag_result parse_iv print_iv dIV s
  else if is_ty ty "KeyFormat" then tag_result (fun x => Ok (parse_key_format x)) print_key_format dKF s
  else if is_ty ty "KeyFormatVersions" then tag_result parse_kfv print_kfv (fun v => paren "v" (map dN v)) s
  else if is_ty ty "ProtocolVersion" then tag_result parse_protocol_version print_protocol_version dPV s
  else if is_ty ty "ExtXVersion" then tag_result parse_version (fun v => pfx_ExtXVersion ++ print_protocol_version v) dPV s
  else if is_ty ty "PlaylistType" then tag_result parse_playlist_type print_playlist_type (fun t => dPT (Some t)) s
  else if is_ty ty "MediaType" then tag_result (enum_parse enum_MediaType) (enum_print enum_MediaType) dMT s
  else if is_ty ty "HdcpLevel" then tag_result (enum_parse enum_HdcpLevel) (enum_print enum_HdcpLevel) dHdcp s
  else if is_ty ty "EncryptionMethod" then tag_result (enum_parse enum_EncryptionMethod) (enum_print enum_EncryptionMethod) dMethod s
  else if is_ty ty "InStreamId" then tag_result (enum_parse enum_InStreamId) (enum_print enum_InStreamId) (enum_print enum_InStreamId) s
  else if is_ty ty "Value" then tag_result parse_value print_value dValue s
  else if is_ty ty "StreamData" then tag_result parse_stream_data print_stream_data dSDT s
  else lit "badop".

(* ---------- op `assoc`: rendition lookup ---------- *)
Fixpoint indices_where {A} (p : A -> bool) (l : list A) (i : N) : list N :=
  match l with
  | [] => []
  | x :: r => (if p x then [i] else []) ++ indices_where p r (i + 1)
  end.
Definition is_audio_stream (v : Variant) : bool :=
  match v with VStreamInf _ _ (Some _) _ _ _ => true | _ => false end.
Definition is_video_stream (v : Variant) : bool := is_some (sd_video (variant_sd v)).
Definition run_assoc (input : str) : str :=
  dRes (fun p =>
    paren "assoc" (map (fun v => paren "v" (map dN (indices_where (is_associated v) (ma_media p) 0))) (ma_variants p)
                   ++ [ paren "audio" (map dN (indices_where is_audio_stream (ma_variants p) 0));
                        paren "video" (map dN (indices_where is_video_stream (ma_variants p) 0));
                        paren "isassoc" [dB true] ]))
    (parse_master input).
