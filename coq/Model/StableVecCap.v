(* StableVecCap.v — the segment vector with its CAPACITY: stable-vec's `insert(index, x)` panics when
   index >= capacity, `reserve_for(index)` makes the capacity exceed the index, `push` grows as needed.
   MediaPlaylistBuilder::push_segment and ::segments at that level; Proofs/C20.v shows that they never panic and
   that, with the capacity erased, they are the slot-list functions of Builder.v. *)
From hls Require Import Base Float Lex Kinds Types Tags Line Keys Media Dump Builder.
Open Scope N_scope.

Record csv (A : Type) := { cs_slots : list (option A); cs_cap : nat }.
Arguments cs_slots {A}. Arguments cs_cap {A}.
Definition cs_new {A} : csv A := {| cs_slots := []; cs_cap := 0 |}.
Definition cs_with_capacity {A} (n : nat) : csv A := {| cs_slots := []; cs_cap := n |}.
(* reserve_for(index): afterwards capacity > index *)
Definition cs_reserve_for {A} (v : csv A) (idx : nat) : csv A :=
  {| cs_slots := cs_slots v; cs_cap := Nat.max (cs_cap v) (S idx) |}.
(* insert(index, x): panics if index >= capacity *)
Definition cs_insert {A} (v : csv A) (idx : nat) (x : A) : res (csv A) :=
  if Nat.ltb idx (cs_cap v) then Ok {| cs_slots := sv_insert (cs_slots v) idx x; cs_cap := cs_cap v |} else Panic.
(* push(x): grows (at least doubling) when full *)
Definition cs_push {A} (v : csv A) (x : A) : csv A :=
  {| cs_slots := sv_push (cs_slots v) x;
     cs_cap := if Nat.ltb (List.length (cs_slots v)) (cs_cap v) then cs_cap v else Nat.max (2 * cs_cap v) (S (List.length (cs_slots v))) |}.

(* MediaPlaylistBuilder::push_segment *)
Definition push_segment_cap (v : csv Segment) (s : Segment) : res (csv Segment) :=
  if sg_explicit s then cs_insert (cs_reserve_for v (N.to_nat (sg_number s))) (N.to_nat (sg_number s)) s
  else Ok (cs_push v s).
(* MediaPlaylistBuilder::segments *)
Definition set_segments_cap (l : list Segment) : res (csv Segment) :=
  let ex := filter sg_explicit l in
  let im := filter (fun s => negb (sg_explicit s)) l in
  let! v := fold_res (fun v s => cs_insert (cs_reserve_for v (N.to_nat (sg_number s))) (N.to_nat (sg_number s)) s) ex
                     (cs_with_capacity (List.length l)) in
  Ok (fold_left cs_push im v).
(* what a missing reserve_for would do (the repaired defect D14): insert straight away *)
Definition push_segment_noreserve (v : csv Segment) (s : Segment) : res (csv Segment) :=
  if sg_explicit s then cs_insert v (N.to_nat (sg_number s)) s else Ok (cs_push v s).
