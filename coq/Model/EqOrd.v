(* EqOrd.v — the hand-written PartialEq / Ord / Hash impls: KeyFormatVersions (fixed buffer +
   length) and the float wrappers.  Derived impls are structural (product / sum / list order). *)
From hls Require Import Base Float Types.
Open Scope N_scope.

(* ---------- KeyFormatVersions ---------- *)
Record kfv := { kf_buf : list N (* 9 slots *); kf_len : nat }.
Definition kfv_obs (k : kfv) : list N := firstn (kf_len k) (kf_buf k).     (* as_ref() *)
Fixpoint nlist_eqb (a b : list N) : bool :=
  match a, b with
  | [], [] => true
  | x :: a', y :: b' => (x =? y) && nlist_eqb a' b'
  | _, _ => false
  end.
(* slice Ord: lexicographic, a proper prefix is smaller *)
Fixpoint nlist_cmp (a b : list N) : comparison :=
  match a, b with
  | [], [] => Eq
  | [], _ :: _ => Lt
  | _ :: _, [] => Gt
  | x :: a', y :: b' => match x ?= y with Eq => nlist_cmp a' b' | c => c end
  end.
Definition kfv_eqb (a b : kfv) : bool := Nat.eqb (kf_len a) (kf_len b) && nlist_eqb (kfv_obs a) (kfv_obs b).
Definition kfv_cmp (a b : kfv) : comparison := nlist_cmp (kfv_obs a) (kfv_obs b).
(* write_usize(len) then the slice hash (length prefix + bytes) *)
Definition kfv_hash (a : kfv) : list N :=
  N.of_nat (kf_len a) :: N.of_nat (List.length (kfv_obs a)) :: kfv_obs a.
(* truncate keeps stale data behind the length; push overwrites the next slot *)
Definition kfv_truncate (k : kfv) (n : nat) : kfv :=
  if Nat.ltb (kf_len k) n then k else {| kf_buf := kf_buf k; kf_len := n |}.

(* ---------- Float / UFloat ---------- *)
(* a finite f32 is ordered like its sign-magnitude key; +0 and -0 share the key 0 *)
Definition fkey (x : fval) : Z :=
  let mag := Z.of_N (f32_bits x mod 2147483648) in
  if f_is_neg x then (- mag)%Z else mag.
Definition float_eqb (x y : fval) : bool := (fkey x =? fkey y)%Z.
Definition float_cmp (x y : fval) : comparison := (fkey x ?= fkey y)%Z.
(* Float::hash: zero (either sign) hashes the bytes of +0.0, anything else its own bytes *)
Definition float_hash (x : fval) : N := if (fkey x =? 0)%Z then 0 else f32_bits x.
