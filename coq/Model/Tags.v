(* Tags.v — src/tags/**: one parser (TryFrom<&str>) and one printer (Display) per tag. *)
From hls Require Import Base Float Lex Kinds Types.
From hls.Generated Require Import Tables.
Open Scope N_scope.

(* ---------- EXTINF ---------- *)
Record ExtInf := { inf_dur : N (* ns *); inf_title : option str }.
Definition parse_extinf (line : str) : res ExtInf :=
  let! rest := tag line pfx_ExtInf in
  let '(d, t) := splitn2 44 rest in
  let! ns := parse_duration d in
  let title := match t with
               | Some t' => let t'' := trim t' in if is_nil t'' then None else Some t''
               | None => None
               end in
  Ok {| inf_dur := ns; inf_title := title |}.
Definition print_extinf (i : ExtInf) : str :=
  pfx_ExtInf ++ print_duration (inf_dur i) ++ [44]
  ++ match inf_title i with Some t => t | None => [] end.
Definition extinf_rv (i : ExtInf) : N := if (inf_dur i) mod 1000000000 =? 0 then 1 else 3.

(* ---------- EXT-X-BYTERANGE ---------- *)
Definition parse_xbyterange (line : str) : res ByteRange :=
  let! rest := tag line pfx_ExtXByteRange in parse_byte_range rest.
Definition print_xbyterange (r : ByteRange) : str := pfx_ExtXByteRange ++ print_byte_range r.

(* ---------- EXT-X-KEY ---------- *)
Definition xkey := option Key.                       (* ExtXKey(None) = METHOD=NONE *)
Definition s_METHOD_NONE := Eval vm_compute in lit "METHOD=NONE".
(* METHOD=NONE stands alone: some METHOD attribute says NONE and no other METHOD / URI / IV / KEYFORMAT /
   KEYFORMATVERSIONS attribute is present (white space and unrecognised attributes do not matter) *)
Definition none_scan (st : bool * bool) (kv : str * str) : bool * bool :=
  let '(k, v) := kv in
  if str_eqb k s_METHOD && str_eqb v s_NONE then (true, snd st)
  else if str_eqb k s_METHOD || str_eqb k s_URI || str_eqb k s_IV || str_eqb k s_KEYFORMAT || str_eqb k s_KEYFORMATVERSIONS
       then (fst st, false)
  else st.
Definition is_method_none (ps : list (str * str)) : bool :=
  let st := fold_left none_scan ps (false, true) in fst st && snd st.
Definition parse_xkey (line : str) : res xkey :=
  let! rest := tag line pfx_ExtXKey in
  if is_method_none (attr_pairs rest) then Ok None
  else rmap Some (parse_decryption_key rest).
Definition print_xkey (k : xkey) : str :=
  pfx_ExtXKey ++ match k with Some d => print_decryption_key d | None => s_METHOD_NONE end.
Definition xkey_rv (k : xkey) : N := match k with Some d => key_rv d | None => 1 end.

(* ---------- EXT-X-MAP ---------- *)
Record ExtXMap := { map_uri : str; map_range : option ByteRange; map_keys : list xkey }.
Definition s_BYTERANGE := Eval vm_compute in lit "BYTERANGE".
Definition map_attr (a : option str * option ByteRange) (kv : str * str)
  : res (option str * option ByteRange) :=
  let '(k, v) := kv in
  if str_eqb k s_URI then Ok (Some (unquote v), snd a)
  else if str_eqb k s_BYTERANGE then
    let! r := parse_byte_range (unquote v) in Ok (fst a, Some r)
  else Ok a.
Definition parse_xmap (line : str) : res ExtXMap :=
  let! rest := tag line pfx_ExtXMap in
  let! a := fold_res map_attr (attr_pairs rest) (None, None) in
  let! u := of_opt (fst a) in
  Ok {| map_uri := u; map_range := snd a; map_keys := [] |}.
Definition s_URIeq := Eval vm_compute in lit "URI=".
Definition s_cBYTERANGE := Eval vm_compute in lit ",BYTERANGE=".
Definition print_xmap (m : ExtXMap) : str :=
  pfx_ExtXMap ++ s_URIeq ++ quote (map_uri m)
  ++ match map_range m with Some r => s_cBYTERANGE ++ quote (print_byte_range r) | None => [] end.

(* ---------- EXT-X-PROGRAM-DATE-TIME (default features: opaque text) ---------- *)
Definition parse_pdt (line : str) : res str := tag line pfx_ExtXProgramDateTime.
Definition print_pdt (s : str) : str := pfx_ExtXProgramDateTime ++ s.

(* ---------- EXT-X-DATERANGE ---------- *)
Record DateRange := { dr_id : str; dr_class : option str; dr_start : option str;
  dr_end : option str; dr_duration : option N; dr_planned : option N; dr_cmd : option str;
  dr_out : option str; dr_in : option str; dr_eon : bool; dr_client : list (str * Value) }.
Record dr_acc := { da_id : option str; da_class : option str; da_start : option str;
  da_end : option str; da_duration : option N; da_planned : option N; da_cmd : option str;
  da_out : option str; da_in : option str; da_eon : bool; da_client : list (str * Value) }.

(* BTreeMap insert: sorted by key, replacing an equal key *)
Fixpoint btree_insert (k : str) (v : Value) (l : list (str * Value)) : list (str * Value) :=
  match l with
  | [] => [(k, v)]
  | (k', v') :: r =>
      match str_cmp k k' with
      | Lt => (k, v) :: l
      | Eq => (k, v) :: r
      | Gt => (k', v') :: btree_insert k v r
      end
  end.

Definition s_ID := Eval vm_compute in lit "ID".
Definition s_CLASS := Eval vm_compute in lit "CLASS".
Definition s_START_DATE := Eval vm_compute in lit "START-DATE".
Definition s_END_DATE := Eval vm_compute in lit "END-DATE".
Definition s_DURATION := Eval vm_compute in lit "DURATION".
Definition s_PLANNED_DURATION := Eval vm_compute in lit "PLANNED-DURATION".
Definition s_SCTE35_CMD := Eval vm_compute in lit "SCTE35-CMD".
Definition s_SCTE35_OUT := Eval vm_compute in lit "SCTE35-OUT".
Definition s_SCTE35_IN := Eval vm_compute in lit "SCTE35-IN".
Definition s_END_ON_NEXT := Eval vm_compute in lit "END-ON-NEXT".
Definition s_Xdash := Eval vm_compute in lit "X-".

(* c.is_ascii_lowercase() || !c.is_ascii() || !(c.is_alphanumeric() || c == '-') *)
Definition bad_client_char (c : char) : bool :=
  ((97 <=? c) && (c <=? 122)) || (127 <? c)
  || negb (is_digit c || ((65 <=? c) && (c <=? 90)) || ((97 <=? c) && (c <=? 122)) || (c =? 45)).

Definition upd_dr (a : dr_acc) (f : dr_acc -> dr_acc) : res dr_acc := Ok (f a).
Definition dr_attr (a : dr_acc) (kv : str * str) : res dr_acc :=
  let '(k, v) := kv in
  if str_eqb k s_ID then
    Ok {| da_id := Some (unquote v); da_class := da_class a; da_start := da_start a; da_end := da_end a; da_duration := da_duration a; da_planned := da_planned a; da_cmd := da_cmd a; da_out := da_out a; da_in := da_in a; da_eon := da_eon a; da_client := da_client a |}
  else if str_eqb k s_CLASS then
    Ok {| da_id := da_id a; da_class := Some (unquote v); da_start := da_start a; da_end := da_end a; da_duration := da_duration a; da_planned := da_planned a; da_cmd := da_cmd a; da_out := da_out a; da_in := da_in a; da_eon := da_eon a; da_client := da_client a |}
  else if str_eqb k s_START_DATE then
    Ok {| da_id := da_id a; da_class := da_class a; da_start := Some (unquote v); da_end := da_end a; da_duration := da_duration a; da_planned := da_planned a; da_cmd := da_cmd a; da_out := da_out a; da_in := da_in a; da_eon := da_eon a; da_client := da_client a |}
  else if str_eqb k s_END_DATE then
    Ok {| da_id := da_id a; da_class := da_class a; da_start := da_start a; da_end := Some (unquote v); da_duration := da_duration a; da_planned := da_planned a; da_cmd := da_cmd a; da_out := da_out a; da_in := da_in a; da_eon := da_eon a; da_client := da_client a |}
  else if str_eqb k s_DURATION then
    let! d := parse_duration v in
    Ok {| da_id := da_id a; da_class := da_class a; da_start := da_start a; da_end := da_end a; da_duration := Some d; da_planned := da_planned a; da_cmd := da_cmd a; da_out := da_out a; da_in := da_in a; da_eon := da_eon a; da_client := da_client a |}
  else if str_eqb k s_PLANNED_DURATION then
    let! d := parse_duration v in
    Ok {| da_id := da_id a; da_class := da_class a; da_start := da_start a; da_end := da_end a; da_duration := da_duration a; da_planned := Some d; da_cmd := da_cmd a; da_out := da_out a; da_in := da_in a; da_eon := da_eon a; da_client := da_client a |}
  else if str_eqb k s_SCTE35_CMD then
    Ok {| da_id := da_id a; da_class := da_class a; da_start := da_start a; da_end := da_end a; da_duration := da_duration a; da_planned := da_planned a; da_cmd := Some (unquote v); da_out := da_out a; da_in := da_in a; da_eon := da_eon a; da_client := da_client a |}
  else if str_eqb k s_SCTE35_OUT then
    Ok {| da_id := da_id a; da_class := da_class a; da_start := da_start a; da_end := da_end a; da_duration := da_duration a; da_planned := da_planned a; da_cmd := da_cmd a; da_out := Some (unquote v); da_in := da_in a; da_eon := da_eon a; da_client := da_client a |}
  else if str_eqb k s_SCTE35_IN then
    Ok {| da_id := da_id a; da_class := da_class a; da_start := da_start a; da_end := da_end a; da_duration := da_duration a; da_planned := da_planned a; da_cmd := da_cmd a; da_out := da_out a; da_in := Some (unquote v); da_eon := da_eon a; da_client := da_client a |}
  else if str_eqb k s_END_ON_NEXT then
    if str_eqb v s_YES then
      Ok {| da_id := da_id a; da_class := da_class a; da_start := da_start a; da_end := da_end a; da_duration := da_duration a; da_planned := da_planned a; da_cmd := da_cmd a; da_out := da_out a; da_in := da_in a; da_eon := true; da_client := da_client a |}
    else Err
  else if starts_with s_Xdash k then
    if any_char bad_client_char k then Err
    else let! val := parse_value v in
         Ok {| da_id := da_id a; da_class := da_class a; da_start := da_start a; da_end := da_end a; da_duration := da_duration a; da_planned := da_planned a; da_cmd := da_cmd a; da_out := da_out a; da_in := da_in a; da_eon := da_eon a; da_client := btree_insert k val (da_client a) |}
  else Ok a.

Definition parse_daterange (line : str) : res DateRange :=
  let! rest := tag line pfx_ExtXDateRange in
  let! a := fold_res dr_attr (attr_pairs rest)
    {| da_id := None; da_class := None; da_start := None; da_end := None; da_duration := None;
       da_planned := None; da_cmd := None; da_out := None; da_in := None; da_eon := false;
       da_client := [] |} in
  let! id := of_opt (da_id a) in
  if da_eon a && negb (is_some (da_class a)) then Err
  else if da_eon a && is_some (da_duration a) then Err
  else if da_eon a && is_some (da_end a) then Err
  else Ok {| dr_id := id; dr_class := da_class a; dr_start := da_start a; dr_end := da_end a;
             dr_duration := da_duration a; dr_planned := da_planned a; dr_cmd := da_cmd a;
             dr_out := da_out a; dr_in := da_in a; dr_eon := da_eon a; dr_client := da_client a |}.

Definition s_IDeq := Eval vm_compute in lit "ID=".
Definition s_cCLASS := Eval vm_compute in lit ",CLASS=".
Definition s_cSTART_DATE := Eval vm_compute in lit ",START-DATE=".
Definition s_cEND_DATE := Eval vm_compute in lit ",END-DATE=".
Definition s_cDURATION := Eval vm_compute in lit ",DURATION=".
Definition s_cPLANNED := Eval vm_compute in lit ",PLANNED-DURATION=".
Definition s_cCMD := Eval vm_compute in lit ",SCTE35-CMD=".
Definition s_cOUT := Eval vm_compute in lit ",SCTE35-OUT=".
Definition s_cIN := Eval vm_compute in lit ",SCTE35-IN=".
Definition s_cEON := Eval vm_compute in lit ",END-ON-NEXT=YES".
Definition opt_str (pre : str) (f : str -> str) (o : option str) : str :=
  match o with Some s => pre ++ f s | None => [] end.
Definition print_daterange (d : DateRange) : str :=
  pfx_ExtXDateRange ++ s_IDeq ++ quote (dr_id d)
  ++ opt_str s_cCLASS quote (dr_class d)
  ++ opt_str s_cSTART_DATE quote (dr_start d)
  ++ opt_str s_cEND_DATE quote (dr_end d)
  ++ match dr_duration d with Some n => s_cDURATION ++ print_duration n | None => [] end
  ++ match dr_planned d with Some n => s_cPLANNED ++ print_duration n | None => [] end
  ++ opt_str s_cCMD (fun s => s) (dr_cmd d)
  ++ opt_str s_cOUT (fun s => s) (dr_out d)
  ++ opt_str s_cIN (fun s => s) (dr_in d)
  ++ flat_map (fun kv => 44 :: fst kv ++ 61 :: print_value (snd kv)) (dr_client d)
  ++ (if dr_eon d then s_cEON else []).

(* ---------- simple playlist tags ---------- *)
Definition parse_target_duration (line : str) : res N :=      (* seconds *)
  let! rest := tag line pfx_ExtXTargetDuration in parse_u64 rest.
Definition parse_media_sequence (line : str) : res N :=
  let! rest := tag line pfx_ExtXMediaSequence in parse_usize rest.
Definition parse_disc_sequence (line : str) : res N :=
  let! rest := tag line pfx_ExtXDiscontinuitySequence in parse_usize rest.
Definition parse_version (line : str) : res N :=
  let! rest := tag line pfx_ExtXVersion in parse_protocol_version rest.
Definition s_EVENT := Eval vm_compute in lit "EVENT".
Definition s_VOD := Eval vm_compute in lit "VOD".
Definition parse_playlist_type (line : str) : res N :=      (* 0 Event, 1 Vod *)
  let! rest := tag line pfx_PlaylistType in
  if str_eqb rest s_EVENT then Ok 0 else if str_eqb rest s_VOD then Ok 1 else Err.
Definition print_playlist_type (t : N) : str :=
  pfx_PlaylistType ++ (if t =? 0 then s_EVENT else s_VOD).
Definition parse_flag (pfx line : str) : res unit :=
  let! _ := tag line pfx in Ok tt.
Definition parse_discontinuity (line : str) : res unit :=
  if str_eqb line pfx_ExtXDiscontinuity then Ok tt else Err.

(* ---------- EXT-X-START ---------- *)
Record Start := { st_offset : fval; st_precise : bool }.
Definition s_TIME_OFFSET := Eval vm_compute in lit "TIME-OFFSET".
Definition s_PRECISE := Eval vm_compute in lit "PRECISE".
Definition start_attr (a : option fval * bool) (kv : str * str) : res (option fval * bool) :=
  let '(k, v) := kv in
  if str_eqb k s_TIME_OFFSET then let! x := parse_float v in Ok (Some x, snd a)
  else if str_eqb k s_PRECISE then let! b := parse_yes_or_no v in Ok (fst a, b)
  else Ok a.
Definition parse_start (line : str) : res Start :=
  let! rest := tag line pfx_ExtXStart in
  let! a := fold_res start_attr (attr_pairs rest) (None, false) in
  let! off := of_opt (fst a) in
  Ok {| st_offset := off; st_precise := snd a |}.
Definition s_TIME_OFFSETeq := Eval vm_compute in lit "TIME-OFFSET=".
Definition s_cPRECISE := Eval vm_compute in lit ",PRECISE=YES".
Definition print_start (s : Start) : str :=
  pfx_ExtXStart ++ s_TIME_OFFSETeq ++ print_f32 (st_offset s)
  ++ (if st_precise s then s_cPRECISE else []).

(* ---------- EXT-X-MEDIA ---------- *)
Record Media := { xm_type : N; xm_uri : option str; xm_group : str; xm_lang : option str;
  xm_assoc : option str; xm_name : str; xm_default : bool; xm_autoselect : bool;
  xm_forced : bool; xm_instream : option N; xm_chars : option str; xm_channels : option Channels }.
(* the derive_builder state: one Option per field *)
Record xm_acc := { ma_type : option N; ma_uri : option str; ma_group : option str;
  ma_lang : option str; ma_assoc : option str; ma_name : option str; ma_default : option bool;
  ma_autoselect : option bool; ma_forced : option bool; ma_instream : option N;
  ma_chars : option str; ma_channels : option Channels }.
Definition xm_empty : xm_acc :=
  {| ma_type := None; ma_uri := None; ma_group := None; ma_lang := None; ma_assoc := None;
     ma_name := None; ma_default := None; ma_autoselect := None; ma_forced := None;
     ma_instream := None; ma_chars := None; ma_channels := None |}.
Definition s_TYPE := Eval vm_compute in lit "TYPE".
Definition s_GROUP_ID := Eval vm_compute in lit "GROUP-ID".
Definition s_LANGUAGE := Eval vm_compute in lit "LANGUAGE".
Definition s_ASSOC_LANGUAGE := Eval vm_compute in lit "ASSOC-LANGUAGE".
Definition s_NAME := Eval vm_compute in lit "NAME".
Definition s_DEFAULT := Eval vm_compute in lit "DEFAULT".
Definition s_AUTOSELECT := Eval vm_compute in lit "AUTOSELECT".
Definition s_FORCED := Eval vm_compute in lit "FORCED".
Definition s_INSTREAM_ID := Eval vm_compute in lit "INSTREAM-ID".
Definition s_CHARACTERISTICS := Eval vm_compute in lit "CHARACTERISTICS".
Definition s_CHANNELS := Eval vm_compute in lit "CHANNELS".
Definition xm_attr (a : xm_acc) (kv : str * str) : res xm_acc :=
  let '(k, v) := kv in
  if str_eqb k s_TYPE then
    let! t := enum_parse enum_MediaType v in
    Ok {| ma_type := Some t; ma_uri := ma_uri a; ma_group := ma_group a; ma_lang := ma_lang a; ma_assoc := ma_assoc a; ma_name := ma_name a; ma_default := ma_default a; ma_autoselect := ma_autoselect a; ma_forced := ma_forced a; ma_instream := ma_instream a; ma_chars := ma_chars a; ma_channels := ma_channels a |}
  else if str_eqb k s_URI then
    Ok {| ma_type := ma_type a; ma_uri := Some (unquote v); ma_group := ma_group a; ma_lang := ma_lang a; ma_assoc := ma_assoc a; ma_name := ma_name a; ma_default := ma_default a; ma_autoselect := ma_autoselect a; ma_forced := ma_forced a; ma_instream := ma_instream a; ma_chars := ma_chars a; ma_channels := ma_channels a |}
  else if str_eqb k s_GROUP_ID then
    Ok {| ma_type := ma_type a; ma_uri := ma_uri a; ma_group := Some (unquote v); ma_lang := ma_lang a; ma_assoc := ma_assoc a; ma_name := ma_name a; ma_default := ma_default a; ma_autoselect := ma_autoselect a; ma_forced := ma_forced a; ma_instream := ma_instream a; ma_chars := ma_chars a; ma_channels := ma_channels a |}
  else if str_eqb k s_LANGUAGE then
    Ok {| ma_type := ma_type a; ma_uri := ma_uri a; ma_group := ma_group a; ma_lang := Some (unquote v); ma_assoc := ma_assoc a; ma_name := ma_name a; ma_default := ma_default a; ma_autoselect := ma_autoselect a; ma_forced := ma_forced a; ma_instream := ma_instream a; ma_chars := ma_chars a; ma_channels := ma_channels a |}
  else if str_eqb k s_ASSOC_LANGUAGE then
    Ok {| ma_type := ma_type a; ma_uri := ma_uri a; ma_group := ma_group a; ma_lang := ma_lang a; ma_assoc := Some (unquote v); ma_name := ma_name a; ma_default := ma_default a; ma_autoselect := ma_autoselect a; ma_forced := ma_forced a; ma_instream := ma_instream a; ma_chars := ma_chars a; ma_channels := ma_channels a |}
  else if str_eqb k s_NAME then
    Ok {| ma_type := ma_type a; ma_uri := ma_uri a; ma_group := ma_group a; ma_lang := ma_lang a; ma_assoc := ma_assoc a; ma_name := Some (unquote v); ma_default := ma_default a; ma_autoselect := ma_autoselect a; ma_forced := ma_forced a; ma_instream := ma_instream a; ma_chars := ma_chars a; ma_channels := ma_channels a |}
  else if str_eqb k s_DEFAULT then
    let! b := parse_yes_or_no v in
    Ok {| ma_type := ma_type a; ma_uri := ma_uri a; ma_group := ma_group a; ma_lang := ma_lang a; ma_assoc := ma_assoc a; ma_name := ma_name a; ma_default := Some b; ma_autoselect := ma_autoselect a; ma_forced := ma_forced a; ma_instream := ma_instream a; ma_chars := ma_chars a; ma_channels := ma_channels a |}
  else if str_eqb k s_AUTOSELECT then
    let! b := parse_yes_or_no v in
    Ok {| ma_type := ma_type a; ma_uri := ma_uri a; ma_group := ma_group a; ma_lang := ma_lang a; ma_assoc := ma_assoc a; ma_name := ma_name a; ma_default := ma_default a; ma_autoselect := Some b; ma_forced := ma_forced a; ma_instream := ma_instream a; ma_chars := ma_chars a; ma_channels := ma_channels a |}
  else if str_eqb k s_FORCED then
    let! b := parse_yes_or_no v in
    Ok {| ma_type := ma_type a; ma_uri := ma_uri a; ma_group := ma_group a; ma_lang := ma_lang a; ma_assoc := ma_assoc a; ma_name := ma_name a; ma_default := ma_default a; ma_autoselect := ma_autoselect a; ma_forced := Some b; ma_instream := ma_instream a; ma_chars := ma_chars a; ma_channels := ma_channels a |}
  else if str_eqb k s_INSTREAM_ID then
    let! i := enum_parse enum_InStreamId (unquote v) in
    Ok {| ma_type := ma_type a; ma_uri := ma_uri a; ma_group := ma_group a; ma_lang := ma_lang a; ma_assoc := ma_assoc a; ma_name := ma_name a; ma_default := ma_default a; ma_autoselect := ma_autoselect a; ma_forced := ma_forced a; ma_instream := Some i; ma_chars := ma_chars a; ma_channels := ma_channels a |}
  else if str_eqb k s_CHARACTERISTICS then
    Ok {| ma_type := ma_type a; ma_uri := ma_uri a; ma_group := ma_group a; ma_lang := ma_lang a; ma_assoc := ma_assoc a; ma_name := ma_name a; ma_default := ma_default a; ma_autoselect := ma_autoselect a; ma_forced := ma_forced a; ma_instream := ma_instream a; ma_chars := Some (unquote v); ma_channels := ma_channels a |}
  else if str_eqb k s_CHANNELS then
    let! c := parse_channels (unquote v) in
    Ok {| ma_type := ma_type a; ma_uri := ma_uri a; ma_group := ma_group a; ma_lang := ma_lang a; ma_assoc := ma_assoc a; ma_name := ma_name a; ma_default := ma_default a; ma_autoselect := ma_autoselect a; ma_forced := ma_forced a; ma_instream := ma_instream a; ma_chars := ma_chars a; ma_channels := Some c |}
  else Ok a.

Definition obool (o : option bool) : bool := match o with Some b => b | None => false end.
(* ExtXMediaBuilder::validate followed by the generated required-field checks *)
Definition xm_validate (a : xm_acc) : bool :=
  match ma_type a with
  | None => false
  | Some t =>
      negb ((t =? mt_subtitles) && negb (is_some (ma_uri a)))
      && (if t =? mt_cc then negb (is_some (ma_uri a)) && is_some (ma_instream a)
          else negb (is_some (ma_instream a)))
      && negb (obool (ma_default a) && match ma_autoselect a with Some b => negb b | None => false end)
      && negb (negb (t =? mt_subtitles) && obool (ma_forced a))
  end.
Definition xm_build (a : xm_acc) : res Media :=
  if xm_validate a then
    let! t := of_opt (ma_type a) in
    let! g := of_opt (ma_group a) in
    let! n := of_opt (ma_name a) in
    Ok {| xm_type := t; xm_uri := ma_uri a; xm_group := g; xm_lang := ma_lang a;
          xm_assoc := ma_assoc a; xm_name := n; xm_default := obool (ma_default a);
          xm_autoselect := obool (ma_autoselect a); xm_forced := obool (ma_forced a);
          xm_instream := ma_instream a; xm_chars := ma_chars a; xm_channels := ma_channels a |}
  else Err.
Definition parse_xmedia (line : str) : res Media :=
  let! rest := tag line pfx_ExtXMedia in
  let! a := fold_res xm_attr (attr_pairs rest) xm_empty in
  xm_build a.
Definition s_TYPEeq := Eval vm_compute in lit "TYPE=".
Definition s_cGROUP := Eval vm_compute in lit ",GROUP-ID=".
Definition s_cLANGUAGE := Eval vm_compute in lit ",LANGUAGE=".
Definition s_cASSOC := Eval vm_compute in lit ",ASSOC-LANGUAGE=".
Definition s_cNAME := Eval vm_compute in lit ",NAME=".
Definition s_cDEFAULT := Eval vm_compute in lit ",DEFAULT=YES".
Definition s_cAUTOSELECT := Eval vm_compute in lit ",AUTOSELECT=YES".
Definition s_cFORCED := Eval vm_compute in lit ",FORCED=YES".
Definition s_cINSTREAM := Eval vm_compute in lit ",INSTREAM-ID=".
Definition s_cCHARS := Eval vm_compute in lit ",CHARACTERISTICS=".
Definition s_cCHANNELS := Eval vm_compute in lit ",CHANNELS=".
Definition print_xmedia (m : Media) : str :=
  pfx_ExtXMedia ++ s_TYPEeq ++ enum_print enum_MediaType (xm_type m)
  ++ opt_str s_cURI quote (xm_uri m)
  ++ s_cGROUP ++ quote (xm_group m)
  ++ opt_str s_cLANGUAGE quote (xm_lang m)
  ++ opt_str s_cASSOC quote (xm_assoc m)
  ++ s_cNAME ++ quote (xm_name m)
  ++ (if xm_default m then s_cDEFAULT else [])
  ++ (if xm_autoselect m then s_cAUTOSELECT else [])
  ++ (if xm_forced m then s_cFORCED else [])
  ++ match xm_instream m with Some i => s_cINSTREAM ++ quote (enum_print enum_InStreamId i) | None => [] end
  ++ opt_str s_cCHARS quote (xm_chars m)
  ++ match xm_channels m with Some c => s_cCHANNELS ++ quote (print_channels c) | None => [] end.
Definition xmedia_rv (m : Media) : N :=
  match xm_instream m with Some i => if i <? 4 then 1 else 7 | None => 1 end.

(* ---------- variant streams ---------- *)
Inductive Variant :=
| VIFrame (uri : str) (sd : StreamData)
| VStreamInf (uri : str) (fr : option fval) (audio subs : option str)
             (cc : option ClosedCaptions) (sd : StreamData).
Definition s_FRAME_RATE := Eval vm_compute in lit "FRAME-RATE".
Definition s_AUDIO := Eval vm_compute in lit "AUDIO".
Definition s_SUBTITLES := Eval vm_compute in lit "SUBTITLES".
Definition s_CLOSED_CAPTIONS := Eval vm_compute in lit "CLOSED-CAPTIONS".
Fixpoint find_uri (l : list (str * str)) : option str :=
  match l with
  | [] => None
  | (k, v) :: r => if str_eqb k s_URI then Some (unquote v) else find_uri r
  end.
Definition parse_iframe (line : str) : res Variant :=
  let! rest := tag line pfx_VariantStream_EXTXIFRAME in
  let! u := of_opt (find_uri (attr_pairs rest)) in
  let! sd := parse_stream_data rest in
  Ok (VIFrame u sd).
Record si_acc := { si_fr : option fval; si_audio : option str; si_subs : option str;
                   si_cc : option ClosedCaptions }.
Definition si_attr (a : si_acc) (kv : str * str) : res si_acc :=
  let '(k, v) := kv in
  if str_eqb k s_FRAME_RATE then
    let! x := parse_ufloat v in
    Ok {| si_fr := Some x; si_audio := si_audio a; si_subs := si_subs a; si_cc := si_cc a |}
  else if str_eqb k s_AUDIO then
    Ok {| si_fr := si_fr a; si_audio := Some (unquote v); si_subs := si_subs a; si_cc := si_cc a |}
  else if str_eqb k s_SUBTITLES then
    Ok {| si_fr := si_fr a; si_audio := si_audio a; si_subs := Some (unquote v); si_cc := si_cc a |}
  else if str_eqb k s_CLOSED_CAPTIONS then
    Ok {| si_fr := si_fr a; si_audio := si_audio a; si_subs := si_subs a; si_cc := Some (parse_cc v) |}
  else Ok a.
(* `line` is the (trimmed) STREAM-INF line, `uri` the (trimmed, non-empty) line after it *)
Definition parse_streaminf (line uri : str) : res Variant :=
  let! rest := tag line pfx_VariantStream_EXTXSTREAMINF in
  let! a := fold_res si_attr (attr_pairs rest)
              {| si_fr := None; si_audio := None; si_subs := None; si_cc := None |} in
  let! sd := parse_stream_data rest in
  Ok (VStreamInf uri (si_fr a) (si_audio a) (si_subs a) (si_cc a) sd).
(* VariantStream::try_from on an arbitrary string (the public entry point): the I-frame
   form, or a STREAM-INF line followed by its URI line *)
Definition parse_variant (s : str) : res Variant :=
  if is_ok (tag s pfx_VariantStream_EXTXIFRAME) then parse_iframe s
  else
    let! rest := tag s pfx_VariantStream_EXTXSTREAMINF in
    match std_lines rest with
    | first :: uri :: _ =>
        let! a := fold_res si_attr (attr_pairs first)
                    {| si_fr := None; si_audio := None; si_subs := None; si_cc := None |} in
        let! sd := parse_stream_data first in
        Ok (VStreamInf uri (si_fr a) (si_audio a) (si_subs a) (si_cc a) sd)
    | _ => Err
    end.
Definition s_cFRAME_RATE := Eval vm_compute in lit ",FRAME-RATE=".
Definition s_cAUDIO := Eval vm_compute in lit ",AUDIO=".
Definition s_cSUBTITLES := Eval vm_compute in lit ",SUBTITLES=".
Definition s_cCC := Eval vm_compute in lit ",CLOSED-CAPTIONS=".
Definition print_variant (v : Variant) : str :=
  match v with
  | VIFrame u sd => pfx_VariantStream_EXTXIFRAME ++ s_URIeq ++ quote u ++ [44] ++ print_stream_data sd
  | VStreamInf u fr au su cc sd =>
      pfx_VariantStream_EXTXSTREAMINF ++ print_stream_data sd
      ++ match fr with Some x => s_cFRAME_RATE ++ print_fixed3 x | None => [] end
      ++ opt_str s_cAUDIO quote au
      ++ opt_str s_cSUBTITLES quote su
      ++ match cc with Some c => s_cCC ++ print_cc c | None => [] end
      ++ [10] ++ u
  end.
Definition variant_sd (v : Variant) : StreamData :=
  match v with VIFrame _ sd => sd | VStreamInf _ _ _ _ _ sd => sd end.

(* ---------- EXT-X-SESSION-DATA ---------- *)
Inductive SData := SdValue (s : str) | SdUri (s : str).
Record SessionData := { xs_id : str; xs_data : SData; xs_lang : option str }.
Definition s_DATA_ID := Eval vm_compute in lit "DATA-ID".
Definition s_VALUE := Eval vm_compute in lit "VALUE".
Record xs_acc := { xa_id : option str; xa_value : option str; xa_uri : option str; xa_lang : option str }.
Definition xs_attr (a : xs_acc) (kv : str * str) : res xs_acc :=
  let '(k, v) := kv in
  if str_eqb k s_DATA_ID then Ok {| xa_id := Some (unquote v); xa_value := xa_value a; xa_uri := xa_uri a; xa_lang := xa_lang a |}
  else if str_eqb k s_VALUE then Ok {| xa_id := xa_id a; xa_value := Some (unquote v); xa_uri := xa_uri a; xa_lang := xa_lang a |}
  else if str_eqb k s_URI then Ok {| xa_id := xa_id a; xa_value := xa_value a; xa_uri := Some (unquote v); xa_lang := xa_lang a |}
  else if str_eqb k s_LANGUAGE then Ok {| xa_id := xa_id a; xa_value := xa_value a; xa_uri := xa_uri a; xa_lang := Some (unquote v) |}
  else Ok a.
Definition parse_session_data (line : str) : res SessionData :=
  let! rest := tag line pfx_ExtXSessionData in
  let! a := fold_res xs_attr (attr_pairs rest)
              {| xa_id := None; xa_value := None; xa_uri := None; xa_lang := None |} in
  let! id := of_opt (xa_id a) in
  let! d := match xa_value a, xa_uri a with
            | Some _, Some _ => Err
            | Some v, None => Ok (SdValue v)
            | None, Some u => Ok (SdUri u)
            | None, None => Err
            end in
  Ok {| xs_id := id; xs_data := d; xs_lang := xa_lang a |}.
Definition s_DATA_IDeq := Eval vm_compute in lit "DATA-ID=".
Definition s_cVALUE := Eval vm_compute in lit ",VALUE=".
Definition print_session_data (d : SessionData) : str :=
  pfx_ExtXSessionData ++ s_DATA_IDeq ++ quote (xs_id d)
  ++ match xs_data d with SdValue v => s_cVALUE ++ quote v | SdUri u => s_cURI ++ quote u end
  ++ opt_str s_cLANGUAGE quote (xs_lang d).

(* ---------- EXT-X-SESSION-KEY ---------- *)
Definition parse_session_key (line : str) : res Key :=
  let! rest := tag line pfx_ExtXSessionKey in parse_decryption_key rest.
Definition print_session_key (k : Key) : str := pfx_ExtXSessionKey ++ print_decryption_key k.
