(* Lex.v — src/attribute.rs (AttributePairs) and src/utils.rs (unquote, quote, tag,
   parse_yes_or_no). *)
From hls Require Import Base.
Open Scope N_scope.

(* ---------- utils.rs ---------- *)
Definition is_bad_quoted (c : char) : bool := (c =? 34) || (c =? 10) || (c =? 13).
Definition strip_bad (s : str) : str := filter (fun c => negb (is_bad_quoted c)) s.

(* unquote: if the value starts and ends with '"' (and, since the fix of the lone-quote
   panic, is at least two bytes long) and the inside is clean, the inside; otherwise the
   value with every '"', LF and CR removed. *)
Definition unquote (s : str) : str :=
  match s with
  | 34 :: r =>
      match rev r with
      | 34 :: ri => let inner := rev ri in
                    if any_char is_bad_quoted inner then strip_bad s else inner
      | _ => strip_bad s
      end
  | _ => strip_bad s
  end.

Definition quote (s : str) : str := 34 :: filter (fun c => negb (c =? 34)) s ++ [34].

Definition tag (input prefix : str) : res str := of_opt (strip_prefix prefix (trim input)).

Definition s_YES := Eval vm_compute in lit "YES".
Definition s_NO := Eval vm_compute in lit "NO".
Definition parse_yes_or_no (s : str) : res bool :=
  if str_eqb s s_YES then Ok true else if str_eqb s s_NO then Ok false else Err.

(* ---------- attribute.rs ---------- *)
(* the value runs up to the first ',' that is not inside double quotes *)
Fixpoint span_val (q : bool) (s : str) : str * option str :=
  match s with
  | [] => ([], None)
  | c :: r =>
      if c =? 34 then let '(v, rest) := span_val (negb q) r in (c :: v, rest)
      else if (c =? 44) && negb q then ([], Some r)
      else let '(v, rest) := span_val q r in (c :: v, rest)
  end.

Fixpoint pairs_fuel (fuel : nat) (s : str) : list (str * str) :=
  match fuel with
  | O => []
  | S f =>
      if byte_len s <? 2 then []          (* `as_bytes().get(index + 1)?` *)
      else match split_once 61 s with     (* key ends at the first '=' *)
           | None => []
           | Some (k, rest) =>
               let '(v, rest') := span_val false rest in
               (trim k, trim v) :: match rest' with
                                   | Some r => pairs_fuel f r
                                   | None => []
                                   end
           end
  end.
Definition attr_pairs (s : str) : list (str * str) := pairs_fuel (S (List.length s)) s.
