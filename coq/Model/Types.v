(* Types.v — src/types/*.rs: value types, their FromStr/TryFrom<&str> and Display. *)
From hls Require Import Base Float Lex Kinds.
From hls.Generated Require Import Tables.
Open Scope N_scope.

(* ---------- enum tables (strum) ---------- *)
Fixpoint enum_find (tbl : list str) (s : str) (i : N) : option N :=
  match tbl with
  | [] => None
  | x :: r => if str_eqb x s then Some i else enum_find r s (i + 1)
  end.
Definition enum_parse (tbl : list str) (s : str) : res N := of_opt (enum_find tbl s 0).
Definition enum_print (tbl : list str) (i : N) : str := nth (N.to_nat i) tbl [].

(* EncryptionMethod: 0 = Aes128, 1 = SampleAes; MediaType: 0 Audio 1 Video 2 Subtitles
   3 ClosedCaptions; HdcpLevel: 0 Type0 1 None; InStreamId: index in declaration order *)
Definition m_aes128 : N := 0.
Definition mt_audio : N := 0. Definition mt_video : N := 1.
Definition mt_subtitles : N := 2. Definition mt_cc : N := 3.

(* ---------- integers ---------- *)
Definition parse_u64 (s : str) : res N := of_opt (parse_uint 64 s).
Definition parse_usize (s : str) : res N := of_opt (parse_uint 64 s).
Definition parse_u8 (s : str) : res N := of_opt (parse_uint 8 s).
Definition two64 : N := Eval vm_compute in 2 ^ 64.
Definition two128 : N := Eval vm_compute in 2 ^ 128.

(* ---------- f32 wrappers ---------- *)
(* an f32 value is kept as its fval; bits for dumps *)
Definition f32_bits (x : fval) : N :=
  let sgn (n : bool) : N := if n then 2147483648 else 0 in
  match x with
  | FZero n => sgn n
  | FInf n => sgn n + 2139095040
  | FNan => 2143289344
  | FFin n m e =>
      sgn n + (if (8388608 <=? m)%Z
               then Z.to_N (e + 150) * 8388608 + Z.to_N (m - 8388608)
               else Z.to_N m)
  end.
Definition parse_f32 (s : str) : res fval :=
  match parse_dec s with Some d => Ok (dec_to_f b32 d) | None => Err end.
Definition f_is_finite (x : fval) : bool :=
  match x with FZero _ | FFin _ _ _ => true | _ => false end.
Definition f_is_neg (x : fval) : bool :=
  match x with FZero n | FInf n | FFin n _ _ => n | FNan => false end.
Definition parse_float (s : str) : res fval :=      (* types::Float *)
  let! x := parse_f32 s in if f_is_finite x then Ok x else Err.
Definition parse_ufloat (s : str) : res fval :=     (* types::UFloat *)
  let! x := parse_f32 s in if f_is_finite x && negb (f_is_neg x) then Ok x else Err.
Definition print_f32 (x : fval) : str := print_shortest b32 x.

(* ---------- Duration <-> decimal seconds ---------- *)
(* value.parse::<f64>() then Duration::try_from_secs_f64 *)
Definition parse_duration (s : str) : res N :=
  match parse_dec s with
  | None => Err
  | Some d => match dur_of_f (dec_to_f b64 d) with
              | Some ns => Ok (Z.to_N ns)
              | None => Err
              end
  end.
Definition print_duration (ns : N) : str := print_shortest b64 (secs_f64_of_dur (Z.of_N ns)).

(* ---------- ByteRange ---------- *)
Record ByteRange := { br_start : option N; br_end : N }.
Definition parse_byte_range (s : str) : res ByteRange :=
  let '(l, st) := splitn2 64 s in
  let! len := parse_usize l in
  let! start := match st with
                | Some v => rmap Some (parse_usize v)
                | None => Ok None
                end in
  let e := match start with Some x => x | None => 0 end + len in
  if e <? two64 then Ok {| br_start := start; br_end := e |} else Err.
Definition br_len (r : ByteRange) : N :=
  br_end r - match br_start r with Some x => x | None => 0 end.   (* N subtraction saturates *)
Definition print_byte_range (r : ByteRange) : str :=
  print_uint (br_len r) ++ match br_start r with Some x => 64 :: print_uint x | None => [] end.

(* ---------- Channels ---------- *)
Record Channels := { ch_number : N; ch_joc : bool }.
Definition s_JOC := Eval vm_compute in lit "JOC".
Definition parse_channels (s : str) : res Channels :=
  match split_once 47 s with
  | None => let! n := parse_u64 s in Ok {| ch_number := n; ch_joc := false |}
  | Some (a, b) => let! n := parse_u64 a in
                   if str_eqb b s_JOC then Ok {| ch_number := n; ch_joc := true |} else Err
  end.
Definition print_channels (c : Channels) : str :=
  print_uint (ch_number c) ++ (if ch_joc c then 47 :: s_JOC else []).

(* ---------- Resolution ---------- *)
Definition parse_resolution (s : str) : res (N * N) :=
  let '(w, h) := splitn2 120 s in
  let! w := parse_usize w in
  match h with
  | None => Err
  | Some h => let! h := parse_usize h in Ok (w, h)
  end.
Definition print_resolution (r : N * N) : str := print_uint (fst r) ++ 120 :: print_uint (snd r).

(* ---------- Codecs ---------- *)
Definition parse_codecs (s : str) : list str := split_on 44 s.
Definition print_codecs (l : list str) : str := join_with [44] l.

(* ---------- ClosedCaptions ---------- *)
Inductive ClosedCaptions := CcGroup (s : str) | CcNone.
Definition s_NONE := Eval vm_compute in lit "NONE".
Definition parse_cc (s : str) : ClosedCaptions :=
  if str_eqb (trim s) s_NONE then CcNone else CcGroup (unquote s).
Definition print_cc (c : ClosedCaptions) : str :=
  match c with CcGroup s => quote s | CcNone => s_NONE end.

(* ---------- InitializationVector ---------- *)
Inductive IV := IvAes (bytes : list N) | IvNumber (n : N) | IvMissing.
Definition s_0x := Eval vm_compute in lit "0x".
Definition s_0X := Eval vm_compute in lit "0X".
Definition parse_iv (s : str) : res IV :=
  let body := match strip_prefix s_0x s with
              | Some r => Some r
              | None => strip_prefix s_0X s
              end in
  match body with
  | None => Err
  | Some r => if byte_len r =? 32
              then match hex_decode r with Some bs => Ok (IvAes bs) | None => Err end
              else Err
  end.
Definition iv_to_u128 (iv : IV) : option N :=
  match iv with IvAes bs => Some (be_val bs 0) | IvNumber n => Some n | IvMissing => None end.
Definition iv_is_some (iv : IV) : bool := match iv with IvMissing => false | _ => true end.

(* ---------- KeyFormat ---------- *)
Inductive KeyFormat := KfIdentity | KfFairPlay | KfWidevine | KfPlayReady | KfOther (s : str).
Definition s_identity := Eval vm_compute in lit "identity".
Definition s_fairplay := Eval vm_compute in lit "com.apple.streamingkeydelivery".
Definition s_widevine := Eval vm_compute in lit "urn:uuid:edef8ba9-79d6-4ace-a3c8-27dcd51d21ed".
Definition s_playready := Eval vm_compute in lit "com.microsoft.playready".
Definition parse_key_format (s : str) : KeyFormat :=
  let f := unquote s in
  if str_eqb f s_identity then KfIdentity
  else if str_eqb f s_fairplay then KfFairPlay
  else if str_eqb f s_widevine then KfWidevine
  else if str_eqb f s_playready then KfPlayReady
  else KfOther f.
Definition kf_text (k : KeyFormat) : str :=
  match k with
  | KfIdentity => s_identity | KfFairPlay => s_fairplay | KfWidevine => s_widevine
  | KfPlayReady => s_playready | KfOther s => s
  end.
(* Display writes quote(text); DecryptionKey's Display quotes that again, which is a no-op *)
Definition print_key_format (k : KeyFormat) : str := quote (kf_text k).
Definition kf_eqb (a b : KeyFormat) : bool :=
  match a, b with
  | KfIdentity, KfIdentity | KfFairPlay, KfFairPlay | KfWidevine, KfWidevine
  | KfPlayReady, KfPlayReady => true
  | KfOther x, KfOther y => str_eqb x y
  | _, _ => false
  end.

(* ---------- KeyFormatVersions (the used part of the buffer) ---------- *)
Fixpoint parse_all {A} (f : str -> res A) (l : list str) : res (list A) :=
  match l with
  | [] => Ok []
  | x :: r => let! a := f x in let! t := parse_all f r in Ok (a :: t)
  end.
(* items are parsed one by one; the 10th item is an error, but only if the first nine
   parsed (the loop fails at the first bad item) *)
Fixpoint parse_kfv_items (l : list str) (n : nat) : res (list N) :=
  match l with
  | [] => Ok []
  | x :: r => let! a := parse_u8 x in
              match n with
              | O => Err
              | S n' => let! t := parse_kfv_items r n' in Ok (a :: t)
              end
  end.
Definition parse_kfv (s : str) : res (list N) := parse_kfv_items (split_on 47 (unquote s)) 9.
Definition kfv_is_default (v : list N) : bool :=
  match v with [] => true | [x] => x =? 1 | _ => false end.
Definition s_q1q := Eval vm_compute in lit """1""".
Definition print_kfv (v : list N) : str :=
  if kfv_is_default v then s_q1q
  else 34 :: join_with [47] (map print_uint v) ++ [34].

(* ---------- ProtocolVersion ---------- *)
Definition parse_protocol_version (s : str) : res N :=
  match trim s with
  | [c] => if (49 <=? c) && (c <=? 55) then Ok (c - 48) else Err
  | _ => Err
  end.
Definition print_protocol_version (v : N) : str := [48 + v].

(* ---------- client attribute Value ---------- *)
Inductive Value := VString (s : str) | VHex (bs : list N) | VFloat (x : fval).
Fixpoint strip_rep_fuel (fuel : nat) (p s : str) : str :=
  match fuel with
  | O => s
  | S f => match p with
           | [] => s
           | _ => match strip_prefix p s with Some r => strip_rep_fuel f p r | None => s end
           end
  end.
Definition strip_rep (p s : str) : str := strip_rep_fuel (List.length s) p s.   (* trim_start_matches *)
Definition parse_value (s : str) : res Value :=
  if starts_with s_0x s || starts_with s_0X s then
    match hex_decode (strip_rep s_0X (strip_rep s_0x s)) with
    | Some bs => Ok (VHex bs)
    | None => Err
    end
  else match parse_float s with
       | Ok x => Ok (VFloat x)
       | _ => Ok (VString (unquote s))
       end.
Definition print_value (v : Value) : str :=
  match v with
  | VString s => quote s
  | VHex bs => s_0x ++ hex_encode true bs
  | VFloat x => print_f32 x
  end.

(* ---------- DecryptionKey ---------- *)
Record Key := { k_method : N; k_uri : str; k_iv : IV; k_format : option KeyFormat;
                k_versions : option (list N) }.

Record key_acc := { ka_method : option N; ka_uri : option str; ka_iv : option IV;
                    ka_format : option KeyFormat; ka_versions : option (list N) }.
Definition s_METHOD := Eval vm_compute in lit "METHOD".
Definition s_URI := Eval vm_compute in lit "URI".
Definition s_IV := Eval vm_compute in lit "IV".
Definition s_KEYFORMAT := Eval vm_compute in lit "KEYFORMAT".
Definition s_KEYFORMATVERSIONS := Eval vm_compute in lit "KEYFORMATVERSIONS".

Definition key_attr (a : key_acc) (kv : str * str) : res key_acc :=
  let '(k, v) := kv in
  if str_eqb k s_METHOD then
    let! m := enum_parse enum_EncryptionMethod v in
    Ok {| ka_method := Some m; ka_uri := ka_uri a; ka_iv := ka_iv a; ka_format := ka_format a; ka_versions := ka_versions a |}
  else if str_eqb k s_URI then
    let u := unquote v in
    if is_nil (trim u) then Ok a
    else Ok {| ka_method := ka_method a; ka_uri := Some u; ka_iv := ka_iv a; ka_format := ka_format a; ka_versions := ka_versions a |}
  else if str_eqb k s_IV then
    let! iv := parse_iv v in
    Ok {| ka_method := ka_method a; ka_uri := ka_uri a; ka_iv := Some iv; ka_format := ka_format a; ka_versions := ka_versions a |}
  else if str_eqb k s_KEYFORMAT then
    Ok {| ka_method := ka_method a; ka_uri := ka_uri a; ka_iv := ka_iv a; ka_format := Some (parse_key_format v); ka_versions := ka_versions a |}
  else if str_eqb k s_KEYFORMATVERSIONS then
    let! vs := parse_kfv v in
    Ok {| ka_method := ka_method a; ka_uri := ka_uri a; ka_iv := ka_iv a; ka_format := ka_format a; ka_versions := Some vs |}
  else Ok a.

Fixpoint fold_res {A B} (f : A -> B -> res A) (l : list B) (a : A) : res A :=
  match l with
  | [] => Ok a
  | x :: r => let! a' := f a x in fold_res f r a'
  end.

Definition parse_decryption_key (s : str) : res Key :=
  let! a := fold_res key_attr (attr_pairs s)
              {| ka_method := None; ka_uri := None; ka_iv := None; ka_format := None; ka_versions := None |} in
  let! m := of_opt (ka_method a) in
  let! u := of_opt (ka_uri a) in
  Ok {| k_method := m; k_uri := u;
        k_iv := match ka_iv a with Some iv => iv | None => IvMissing end;
        k_format := ka_format a; k_versions := ka_versions a |}.

Definition s_cIV := Eval vm_compute in lit ",IV=".
Definition s_cURI := Eval vm_compute in lit ",URI=".
Definition s_METHODeq := Eval vm_compute in lit "METHOD=".
Definition s_cKEYFORMAT := Eval vm_compute in lit ",KEYFORMAT=".
Definition s_cKEYFORMATVERSIONS := Eval vm_compute in lit ",KEYFORMATVERSIONS=".
Definition print_decryption_key (k : Key) : str :=
  s_METHODeq ++ enum_print enum_EncryptionMethod (k_method k) ++ s_cURI ++ quote (k_uri k)
  ++ match k_iv k with
     | IvAes bs => s_cIV ++ s_0x ++ hex_encode false bs
     | _ => []
     end
  ++ match k_format k with Some f => s_cKEYFORMAT ++ quote (print_key_format f) | None => [] end
  ++ match k_versions k with
     | Some v => s_cKEYFORMATVERSIONS ++ print_kfv v
     | None => []
     end.

Definition key_rv (k : Key) : N :=
  if is_some (k_format k) || is_some (k_versions k) then 5
  else if iv_is_some (k_iv k) then 2 else 1.

(* ---------- StreamData ---------- *)
Record StreamData := { sd_bandwidth : N; sd_avg : option N; sd_codecs : option (list str);
                       sd_resolution : option (N * N); sd_hdcp : option N; sd_video : option str }.
Definition s_BANDWIDTH := Eval vm_compute in lit "BANDWIDTH".
Definition s_AVERAGE_BANDWIDTH := Eval vm_compute in lit "AVERAGE-BANDWIDTH".
Definition s_CODECS := Eval vm_compute in lit "CODECS".
Definition s_RESOLUTION := Eval vm_compute in lit "RESOLUTION".
Definition s_HDCP_LEVEL := Eval vm_compute in lit "HDCP-LEVEL".
Definition s_VIDEO := Eval vm_compute in lit "VIDEO".
Record sd_acc := { sa_bw : option N; sa_avg : option N; sa_codecs : option (list str);
                   sa_res : option (N * N); sa_hdcp : option N; sa_video : option str }.
Definition sd_attr (a : sd_acc) (kv : str * str) : res sd_acc :=
  let '(k, v) := kv in
  if str_eqb k s_BANDWIDTH then
    let! n := parse_u64 v in
    Ok {| sa_bw := Some n; sa_avg := sa_avg a; sa_codecs := sa_codecs a; sa_res := sa_res a; sa_hdcp := sa_hdcp a; sa_video := sa_video a |}
  else if str_eqb k s_AVERAGE_BANDWIDTH then
    let! n := parse_u64 v in
    Ok {| sa_bw := sa_bw a; sa_avg := Some n; sa_codecs := sa_codecs a; sa_res := sa_res a; sa_hdcp := sa_hdcp a; sa_video := sa_video a |}
  else if str_eqb k s_CODECS then
    Ok {| sa_bw := sa_bw a; sa_avg := sa_avg a; sa_codecs := Some (parse_codecs (unquote v)); sa_res := sa_res a; sa_hdcp := sa_hdcp a; sa_video := sa_video a |}
  else if str_eqb k s_RESOLUTION then
    let! r := parse_resolution v in
    Ok {| sa_bw := sa_bw a; sa_avg := sa_avg a; sa_codecs := sa_codecs a; sa_res := Some r; sa_hdcp := sa_hdcp a; sa_video := sa_video a |}
  else if str_eqb k s_HDCP_LEVEL then
    let! h := enum_parse enum_HdcpLevel v in
    Ok {| sa_bw := sa_bw a; sa_avg := sa_avg a; sa_codecs := sa_codecs a; sa_res := sa_res a; sa_hdcp := Some h; sa_video := sa_video a |}
  else if str_eqb k s_VIDEO then
    Ok {| sa_bw := sa_bw a; sa_avg := sa_avg a; sa_codecs := sa_codecs a; sa_res := sa_res a; sa_hdcp := sa_hdcp a; sa_video := Some (unquote v) |}
  else Ok a.
Definition parse_stream_data (s : str) : res StreamData :=
  let! a := fold_res sd_attr (attr_pairs s)
              {| sa_bw := None; sa_avg := None; sa_codecs := None; sa_res := None; sa_hdcp := None; sa_video := None |} in
  let! bw := of_opt (sa_bw a) in
  Ok {| sd_bandwidth := bw; sd_avg := sa_avg a; sd_codecs := sa_codecs a;
        sd_resolution := sa_res a; sd_hdcp := sa_hdcp a; sd_video := sa_video a |}.
Definition s_BANDWIDTHeq := Eval vm_compute in lit "BANDWIDTH=".
Definition s_cAVG := Eval vm_compute in lit ",AVERAGE-BANDWIDTH=".
Definition s_cCODECS := Eval vm_compute in lit ",CODECS=".
Definition s_cRESOLUTION := Eval vm_compute in lit ",RESOLUTION=".
Definition s_cHDCP := Eval vm_compute in lit ",HDCP-LEVEL=".
Definition s_cVIDEO := Eval vm_compute in lit ",VIDEO=".
Definition print_stream_data (d : StreamData) : str :=
  s_BANDWIDTHeq ++ print_uint (sd_bandwidth d)
  ++ match sd_avg d with Some v => s_cAVG ++ print_uint v | None => [] end
  ++ match sd_codecs d with Some c => s_cCODECS ++ quote (print_codecs c) | None => [] end
  ++ match sd_resolution d with Some r => s_cRESOLUTION ++ print_resolution r | None => [] end
  ++ match sd_hdcp d with Some h => s_cHDCP ++ enum_print enum_HdcpLevel h | None => [] end
  ++ match sd_video d with Some v => s_cVIDEO ++ quote v | None => [] end.
