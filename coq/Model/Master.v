(* Master.v — src/master_playlist.rs: parser, MasterPlaylistBuilder::validate,
   RequiredVersion, Display, rendition lookup. *)
From hls Require Import Base Float Lex Kinds Types Tags Line Media.
From hls.Generated Require Import Tables.
Open Scope N_scope.

Record MasterPlaylist := { ma_indep : bool; ma_start : option Start; ma_media : list Media;
  ma_variants : list Variant; ma_sdata : list SessionData; ma_skeys : list Key;
  ma_unknown : list str }.

(* ---------- validation ---------- *)
Definition check_media_group (media : list Media) (ty : N) (g : str) : bool :=
  existsb (fun m => (xm_type m =? ty) && str_eqb (xm_group m) g) media.

Definition variant_groups_ok (media : list Media) (v : Variant) : bool :=
  match v with
  | VStreamInf _ _ au su cc sd =>
      match au with Some g => check_media_group media mt_audio g | None => true end
      && match sd_video sd with Some g => check_media_group media mt_video g | None => true end
      && match su with Some g => check_media_group media mt_subtitles g | None => true end
      && match cc with Some (CcGroup g) => check_media_group media mt_cc g | _ => true end
  | VIFrame _ sd =>
      match sd_video sd with Some g => check_media_group media mt_video g | None => true end
  end.
Definition has_cc_none (v : Variant) : bool :=
  match v with VStreamInf _ _ _ _ (Some CcNone) _ => true | _ => false end.
Definition has_cc_group (v : Variant) : bool :=
  match v with VStreamInf _ _ _ _ (Some (CcGroup _)) _ => true | _ => false end.
(* since the CLOSED-CAPTIONS=NONE fix the exclusion is checked in both orders *)
Definition validate_variants (media : list Media) (vs : list Variant) : bool :=
  forallb (variant_groups_ok media) vs
  && negb (existsb has_cc_none vs && existsb has_cc_group vs).

Definition sd_key_eqb (a b : SessionData) : bool :=
  str_eqb (xs_id a) (xs_id b) && opt_eqb str_eqb (xs_lang a) (xs_lang b).
Fixpoint nodup_by {A} (e : A -> A -> bool) (l : list A) : bool :=
  match l with
  | [] => true
  | x :: r => negb (existsb (e x) r) && nodup_by e r
  end.
Definition validate_session_data (l : list SessionData) : bool := nodup_by sd_key_eqb l.

Definition validate_master (p : MasterPlaylist) : bool :=
  validate_variants (ma_media p) (ma_variants p) && validate_session_data (ma_sdata p).

(* ---------- parser ---------- *)
Record mstate := { ms_indep : bool; ms_start : option Start; ms_media : list Media;
  ms_variants : list Variant; ms_sdata : list SessionData; ms_skeys : list Key;
  ms_unknown : list str }.     (* lists reversed *)

Definition mstep (s : mstate) (l : line) : res mstate :=
  match l with
  | LTag t =>
      if in_kinds (kind_of t) master_rejects then Err
      else match t with
      | TVersion _ => Ok s
      | TMedia m => Ok {| ms_indep := ms_indep s; ms_start := ms_start s; ms_media := m :: ms_media s; ms_variants := ms_variants s; ms_sdata := ms_sdata s; ms_skeys := ms_skeys s; ms_unknown := ms_unknown s |}
      | TVariant v => Ok {| ms_indep := ms_indep s; ms_start := ms_start s; ms_media := ms_media s; ms_variants := v :: ms_variants s; ms_sdata := ms_sdata s; ms_skeys := ms_skeys s; ms_unknown := ms_unknown s |}
      | TSessionData d => Ok {| ms_indep := ms_indep s; ms_start := ms_start s; ms_media := ms_media s; ms_variants := ms_variants s; ms_sdata := d :: ms_sdata s; ms_skeys := ms_skeys s; ms_unknown := ms_unknown s |}
      | TSessionKey k => Ok {| ms_indep := ms_indep s; ms_start := ms_start s; ms_media := ms_media s; ms_variants := ms_variants s; ms_sdata := ms_sdata s; ms_skeys := k :: ms_skeys s; ms_unknown := ms_unknown s |}
      | TIndep => Ok {| ms_indep := true; ms_start := ms_start s; ms_media := ms_media s; ms_variants := ms_variants s; ms_sdata := ms_sdata s; ms_skeys := ms_skeys s; ms_unknown := ms_unknown s |}
      | TStart st => Ok {| ms_indep := ms_indep s; ms_start := Some st; ms_media := ms_media s; ms_variants := ms_variants s; ms_sdata := ms_sdata s; ms_skeys := ms_skeys s; ms_unknown := ms_unknown s |}
      | TUnknown u => Ok {| ms_indep := ms_indep s; ms_start := ms_start s; ms_media := ms_media s; ms_variants := ms_variants s; ms_sdata := ms_sdata s; ms_skeys := ms_skeys s; ms_unknown := u :: ms_unknown s |}
      | _ => Err
      end
  | LUri _ => Err
  | LComment => Ok s
  end.
Fixpoint mrun_lines (s : mstate) (ls : list (res line)) : res mstate :=
  match ls with
  | [] => Ok s
  | r :: rest => let! l := r in let! s' := mstep s l in mrun_lines s' rest
  end.

Definition ms_init : mstate :=
  {| ms_indep := false; ms_start := None; ms_media := []; ms_variants := []; ms_sdata := [];
     ms_skeys := []; ms_unknown := [] |}.
Definition finish_master (s : mstate) : res MasterPlaylist :=
  let p := {| ma_indep := ms_indep s; ma_start := ms_start s; ma_media := rev (ms_media s);
              ma_variants := rev (ms_variants s); ma_sdata := rev (ms_sdata s);
              ma_skeys := rev (ms_skeys s); ma_unknown := rev (ms_unknown s) |} in
  if validate_master p then Ok p else Err.
Definition parse_master_items (ls : list (res line)) : res MasterPlaylist :=
  let! s := mrun_lines ms_init ls in finish_master s.
Definition parse_master (input : str) : res MasterPlaylist :=
  let! rest := tag input pfx_ExtM3u in parse_master_items (lines_of rest).

(* ---------- RequiredVersion ---------- *)
Definition master_rv (p : MasterPlaylist) : N :=
  maxl [ (if ma_indep p then rv_ExtXIndependentSegments_req else 1);
         match ma_start p with Some _ => rv_ExtXStart_req | None => 1 end;
         maxl (map xmedia_rv (ma_media p));
         maxl (map (fun _ => rv_VariantStream_req) (ma_variants p));
         maxl (map (fun _ => rv_ExtXSessionData_req) (ma_sdata p));
         maxl (map key_rv (ma_skeys p)) ].

(* ---------- Display ---------- *)
(* a STREAM-INF variant is written as two lines (the tag and its URI) *)
Definition variant_lines (v : Variant) : list str := split_on 10 (print_variant v).
Definition master_body_lines (p : MasterPlaylist) : list str :=
  map print_xmedia (ma_media p)
  ++ flat_map variant_lines (ma_variants p)
  ++ map print_session_data (ma_sdata p)
  ++ map print_session_key (ma_skeys p)
  ++ (if ma_indep p then [pfx_ExtXIndependentSegments] else [])
  ++ olist (ma_start p) print_start
  ++ ma_unknown p.
Definition master_lines (p : MasterPlaylist) : list str :=
  [pfx_ExtM3u] ++ version_line (master_rv p) ++ master_body_lines p.
Definition print_master (p : MasterPlaylist) : str :=
  nl pfx_ExtM3u
  ++ flat_map nl (version_line (master_rv p))
  ++ flat_map (fun m => nl (print_xmedia m)) (ma_media p)
  ++ flat_map (fun v => nl (print_variant v)) (ma_variants p)
  ++ flat_map (fun d => nl (print_session_data d)) (ma_sdata p)
  ++ flat_map (fun k => nl (print_session_key k)) (ma_skeys p)
  ++ (if ma_indep p then nl pfx_ExtXIndependentSegments else [])
  ++ match ma_start p with Some s => nl (print_start s) | None => [] end
  ++ flat_map nl (ma_unknown p).

(* ---------- VariantStream::is_associated / MasterPlaylist::associated_with ---------- *)
Definition cc_matches (c : ClosedCaptions) (g : str) : bool :=
  match c with CcGroup x => str_eqb g x | CcNone => str_eqb g s_NONE end.
Definition is_associated (v : Variant) (m : Media) : bool :=
  match v with
  | VIFrame _ sd =>
      (xm_type m =? mt_video)
      && match sd_video sd with Some g => str_eqb g (xm_group m) | None => false end
  | VStreamInf _ _ au su cc sd =>
      if xm_type m =? mt_audio then match au with Some g => str_eqb g (xm_group m) | None => false end
      else if xm_type m =? mt_video then match sd_video sd with Some g => str_eqb g (xm_group m) | None => false end
      else if xm_type m =? mt_subtitles then match su with Some g => str_eqb g (xm_group m) | None => false end
      else match cc with Some c => cc_matches c (xm_group m) | None => false end
  end.
Definition associated_with (p : MasterPlaylist) (v : Variant) : list Media :=
  filter (is_associated v) (ma_media p).
