(* Keys.v — the EXT-X-KEY update of the keys in effect (src/media_playlist.rs, the
   `Tag::ExtXKey` arm of parse_media_playlist), generic in the key type so that the
   proofs need only the algebra of "same KEYFORMAT" and of equality. *)
From hls Require Import Base.

Section KeysGen.
  Context {K : Type}.
  Variable same : K -> K -> bool.     (* same KEYFORMAT (absent = identity) *)
  Variable eqb : K -> K -> bool.      (* derived PartialEq *)

  Definition xeqb (a b : option K) : bool :=
    match a, b with
    | None, None => true
    | Some x, Some y => eqb x y
    | _, _ => false
    end.
  (* an old entry is hit by a new key when it is the explicit-none marker or has the
     same key format *)
  Definition key_hit (k : K) (old : option K) : bool :=
    match old with Some o => same o k | None => true end.
  Fixpoint find_first {A} (p : A -> bool) (l : list A) : option A :=
    match l with [] => None | x :: r => if p x then Some x else find_first p r end.
  (* METHOD=NONE (None) clears and leaves the marker; a key removes the first hit (all
     entries equal to it: `retain(|k| k != old)`) and is appended *)
  Definition key_step_gen (ks : list (option K)) (x : option K) : list (option K) :=
    match x with
    | None => [None]
    | Some k =>
        match find_first (key_hit k) ks with
        | Some old => filter (fun y => negb (xeqb y old)) ks ++ [x]
        | None => ks ++ [x]
        end
    end.
  Definition keys_after_gen (h : list (option K)) : list (option K) := fold_left key_step_gen h [].
End KeysGen.
