(* Builder.v — the public builders as operation sequences: MediaPlaylistBuilder setters,
   push_segment / segments over the StableVec slot vector, MediaSegmentBuilder, build. *)
From hls Require Import Base Float Lex Kinds Types Tags Line Keys Media Dump.
From hls.Generated Require Import Tables.
Open Scope N_scope.

(* MediaSegmentBuilder: one Option per field *)
Record sbuilder := { sb_number : option N; sb_explicit : option bool; sb_keys : option (list xkey);
  sb_map : option ExtXMap; sb_range : option ByteRange; sb_daterange : option DateRange;
  sb_disc : option bool; sb_pdt : option str; sb_inf : option ExtInf; sb_uri : option str }.
Definition sb_empty : sbuilder :=
  {| sb_number := None; sb_explicit := None; sb_keys := None; sb_map := None; sb_range := None;
     sb_daterange := None; sb_disc := None; sb_pdt := None; sb_inf := None; sb_uri := None |}.
Definition sb_build (b : sbuilder) : res Segment :=
  let! i := of_opt (sb_inf b) in
  let! u := of_opt (sb_uri b) in
  Ok {| sg_number := odef (sb_number b) 0; sg_explicit := odef (sb_explicit b) false;
        sg_keys := odef (sb_keys b) []; sg_map := sb_map b; sg_range := sb_range b;
        sg_daterange := sb_daterange b; sg_disc := odef (sb_disc b) false; sg_pdt := sb_pdt b;
        sg_inf := i; sg_uri := u |}.

(* StableVec: slot list, length = next_push_index *)
Fixpoint sv_insert {A} (slots : list (option A)) (idx : nat) (x : A) : list (option A) :=
  match idx, slots with
  | O, [] => [Some x]
  | O, _ :: r => Some x :: r
  | S n, [] => None :: sv_insert [] n x
  | S n, s :: r => s :: sv_insert r n x
  end.
Definition sv_push {A} (slots : list (option A)) (x : A) : list (option A) := slots ++ [Some x].

Definition push_segment (slots : list (option Segment)) (s : Segment) : list (option Segment) :=
  if sg_explicit s then sv_insert slots (N.to_nat (sg_number s)) s else sv_push slots s.
(* MediaPlaylistBuilder::segments: explicitly numbered ones first, the others pushed after *)
Definition set_segments (l : list Segment) : list (option Segment) :=
  let ex := filter sg_explicit l in
  let im := filter (fun s => negb (sg_explicit s)) l in
  fold_left sv_push im (fold_left (fun sl s => sv_insert sl (N.to_nat (sg_number s)) s) ex []).

Inductive bop :=
| BTarget (ns : N) | BMseq (n : N) | BDseq (n : N) | BPtype (o : option N) | BIframes (b : bool)
| BIndep (b : bool) | BStart (line : str) | BEndlist (b : bool) | BExcess (ns : N)
| BUnknownAdd (s : str) | BUnknownSet
| BSegBegin (num : option N) | BSegDur (ns : N) | BSegTag (line : str) | BSegUri (s : str)
| BSegEndPush | BSegEndList | BSegments | BBuild.

Record bstate := { bs_b : mbuilder; bs_unknown : list str; bs_list : list Segment; bs_seg : sbuilder;
                   bs_out : option (res MediaPlaylist) }.
Definition bs_init : bstate :=
  {| bs_b := mb_default; bs_unknown := []; bs_list := []; bs_seg := sb_empty; bs_out := None |}.

Definition upd_b (s : bstate) (b : mbuilder) : bstate :=
  {| bs_b := b; bs_unknown := bs_unknown s; bs_list := bs_list s; bs_seg := bs_seg s; bs_out := bs_out s |}.
Definition upd_seg (s : bstate) (g : sbuilder) : bstate :=
  {| bs_b := bs_b s; bs_unknown := bs_unknown s; bs_list := bs_list s; bs_seg := g; bs_out := bs_out s |}.

Definition seg_tag (g : sbuilder) (line : str) : res sbuilder :=
  let! t := parse_kind (classify line) line in
  match t with
  | TInf i => Ok {| sb_number := sb_number g; sb_explicit := sb_explicit g; sb_keys := sb_keys g; sb_map := sb_map g; sb_range := sb_range g; sb_daterange := sb_daterange g; sb_disc := sb_disc g; sb_pdt := sb_pdt g; sb_inf := Some i; sb_uri := sb_uri g |}
  | TByteRange r => Ok {| sb_number := sb_number g; sb_explicit := sb_explicit g; sb_keys := sb_keys g; sb_map := sb_map g; sb_range := Some r; sb_daterange := sb_daterange g; sb_disc := sb_disc g; sb_pdt := sb_pdt g; sb_inf := sb_inf g; sb_uri := sb_uri g |}
  | TDiscontinuity => Ok {| sb_number := sb_number g; sb_explicit := sb_explicit g; sb_keys := sb_keys g; sb_map := sb_map g; sb_range := sb_range g; sb_daterange := sb_daterange g; sb_disc := Some true; sb_pdt := sb_pdt g; sb_inf := sb_inf g; sb_uri := sb_uri g |}
  | TKey k => Ok {| sb_number := sb_number g; sb_explicit := sb_explicit g; sb_keys := Some (odef (sb_keys g) [] ++ [k]); sb_map := sb_map g; sb_range := sb_range g; sb_daterange := sb_daterange g; sb_disc := sb_disc g; sb_pdt := sb_pdt g; sb_inf := sb_inf g; sb_uri := sb_uri g |}
  | TMap m => Ok {| sb_number := sb_number g; sb_explicit := sb_explicit g; sb_keys := sb_keys g; sb_map := Some m; sb_range := sb_range g; sb_daterange := sb_daterange g; sb_disc := sb_disc g; sb_pdt := sb_pdt g; sb_inf := sb_inf g; sb_uri := sb_uri g |}
  | TPdt p => Ok {| sb_number := sb_number g; sb_explicit := sb_explicit g; sb_keys := sb_keys g; sb_map := sb_map g; sb_range := sb_range g; sb_daterange := sb_daterange g; sb_disc := sb_disc g; sb_pdt := Some p; sb_inf := sb_inf g; sb_uri := sb_uri g |}
  | TDateRange d => Ok {| sb_number := sb_number g; sb_explicit := sb_explicit g; sb_keys := sb_keys g; sb_map := sb_map g; sb_range := sb_range g; sb_daterange := Some d; sb_disc := sb_disc g; sb_pdt := sb_pdt g; sb_inf := sb_inf g; sb_uri := sb_uri g |}
  | _ => Err
  end.

(* one builder call; a failing MediaSegmentBuilder::build or tag parse ends the script with Err *)
Definition bstep (s : bstate) (o : bop) : res bstate :=
  let b := bs_b s in
  let g := bs_seg s in
  match o with
  | BTarget ns => Ok (upd_b s {| b_target := Some ns; b_mseq := b_mseq b; b_dseq := b_dseq b; b_ptype := b_ptype b; b_iframes := b_iframes b; b_indep := b_indep b; b_start := b_start b; b_endlist := b_endlist b; b_segments := b_segments b; b_excess := b_excess b; b_unknown := b_unknown b |})
  | BMseq n => Ok (upd_b s {| b_target := b_target b; b_mseq := Some n; b_dseq := b_dseq b; b_ptype := b_ptype b; b_iframes := b_iframes b; b_indep := b_indep b; b_start := b_start b; b_endlist := b_endlist b; b_segments := b_segments b; b_excess := b_excess b; b_unknown := b_unknown b |})
  | BDseq n => Ok (upd_b s {| b_target := b_target b; b_mseq := b_mseq b; b_dseq := Some n; b_ptype := b_ptype b; b_iframes := b_iframes b; b_indep := b_indep b; b_start := b_start b; b_endlist := b_endlist b; b_segments := b_segments b; b_excess := b_excess b; b_unknown := b_unknown b |})
  | BPtype p => Ok (upd_b s {| b_target := b_target b; b_mseq := b_mseq b; b_dseq := b_dseq b; b_ptype := Some p; b_iframes := b_iframes b; b_indep := b_indep b; b_start := b_start b; b_endlist := b_endlist b; b_segments := b_segments b; b_excess := b_excess b; b_unknown := b_unknown b |})
  | BIframes v => Ok (upd_b s {| b_target := b_target b; b_mseq := b_mseq b; b_dseq := b_dseq b; b_ptype := b_ptype b; b_iframes := Some v; b_indep := b_indep b; b_start := b_start b; b_endlist := b_endlist b; b_segments := b_segments b; b_excess := b_excess b; b_unknown := b_unknown b |})
  | BIndep v => Ok (upd_b s {| b_target := b_target b; b_mseq := b_mseq b; b_dseq := b_dseq b; b_ptype := b_ptype b; b_iframes := b_iframes b; b_indep := Some v; b_start := b_start b; b_endlist := b_endlist b; b_segments := b_segments b; b_excess := b_excess b; b_unknown := b_unknown b |})
  | BStart line =>
      let! st := parse_start line in
      Ok (upd_b s {| b_target := b_target b; b_mseq := b_mseq b; b_dseq := b_dseq b; b_ptype := b_ptype b; b_iframes := b_iframes b; b_indep := b_indep b; b_start := Some (Some st); b_endlist := b_endlist b; b_segments := b_segments b; b_excess := b_excess b; b_unknown := b_unknown b |})
  | BEndlist v => Ok (upd_b s {| b_target := b_target b; b_mseq := b_mseq b; b_dseq := b_dseq b; b_ptype := b_ptype b; b_iframes := b_iframes b; b_indep := b_indep b; b_start := b_start b; b_endlist := Some v; b_segments := b_segments b; b_excess := b_excess b; b_unknown := b_unknown b |})
  | BExcess ns => Ok (upd_b s {| b_target := b_target b; b_mseq := b_mseq b; b_dseq := b_dseq b; b_ptype := b_ptype b; b_iframes := b_iframes b; b_indep := b_indep b; b_start := b_start b; b_endlist := b_endlist b; b_segments := b_segments b; b_excess := Some ns; b_unknown := b_unknown b |})
  | BUnknownAdd u => Ok {| bs_b := b; bs_unknown := bs_unknown s ++ [u]; bs_list := bs_list s; bs_seg := g; bs_out := bs_out s |}
  | BUnknownSet => Ok (upd_b s {| b_target := b_target b; b_mseq := b_mseq b; b_dseq := b_dseq b; b_ptype := b_ptype b; b_iframes := b_iframes b; b_indep := b_indep b; b_start := b_start b; b_endlist := b_endlist b; b_segments := b_segments b; b_excess := b_excess b; b_unknown := Some (bs_unknown s) |})
  | BSegBegin num =>
      Ok (upd_seg s {| sb_number := num; sb_explicit := match num with Some _ => Some true | None => None end;
                       sb_keys := None; sb_map := None; sb_range := None; sb_daterange := None; sb_disc := None;
                       sb_pdt := None; sb_inf := None; sb_uri := None |})
  | BSegDur ns =>
      Ok (upd_seg s {| sb_number := sb_number g; sb_explicit := sb_explicit g; sb_keys := sb_keys g; sb_map := sb_map g; sb_range := sb_range g; sb_daterange := sb_daterange g; sb_disc := sb_disc g; sb_pdt := sb_pdt g; sb_inf := Some {| inf_dur := ns; inf_title := None |}; sb_uri := sb_uri g |})
  | BSegTag line => let! g' := seg_tag g line in Ok (upd_seg s g')
  | BSegUri u =>
      Ok (upd_seg s {| sb_number := sb_number g; sb_explicit := sb_explicit g; sb_keys := sb_keys g; sb_map := sb_map g; sb_range := sb_range g; sb_daterange := sb_daterange g; sb_disc := sb_disc g; sb_pdt := sb_pdt g; sb_inf := sb_inf g; sb_uri := Some u |})
  | BSegEndPush =>
      let! sg := sb_build g in
      let slots := push_segment (odef (b_segments b) []) sg in
      Ok (upd_b s {| b_target := b_target b; b_mseq := b_mseq b; b_dseq := b_dseq b; b_ptype := b_ptype b; b_iframes := b_iframes b; b_indep := b_indep b; b_start := b_start b; b_endlist := b_endlist b; b_segments := Some slots; b_excess := b_excess b; b_unknown := b_unknown b |})
  | BSegEndList =>
      let! sg := sb_build g in
      Ok {| bs_b := b; bs_unknown := bs_unknown s; bs_list := bs_list s ++ [sg]; bs_seg := g; bs_out := bs_out s |}
  | BSegments =>
      Ok {| bs_b := {| b_target := b_target b; b_mseq := b_mseq b; b_dseq := b_dseq b; b_ptype := b_ptype b; b_iframes := b_iframes b; b_indep := b_indep b; b_start := b_start b; b_endlist := b_endlist b; b_segments := Some (set_segments (bs_list s)); b_excess := b_excess b; b_unknown := b_unknown b |};
            bs_unknown := bs_unknown s; bs_list := []; bs_seg := g; bs_out := bs_out s |}
  | BBuild => Ok {| bs_b := b; bs_unknown := bs_unknown s; bs_list := bs_list s; bs_seg := g; bs_out := Some (build b) |}
  end.

Definition run_ops (ops : list bop) : res bstate := fold_res bstep ops bs_init.

(* result of a script, printed like the `media` op: the built value, its text, the re-parse *)
Definition run_builder (ops : list bop) : str :=
  match run_ops ops with
  | Ok s =>
      match bs_out s with
      | Some r =>
          dRes (fun p =>
            let t := print_media p in
            paren "mres" [ dMedia p; fld "rv" dN (media_rv p); fld "text" dS t;
                           match parse_media t with
                           | Ok p2 => paren "re" [lit "ok"; dMedia p2; fld "text" dS (print_media p2)]
                           | Err => paren "re" [lit "err"]
                           | Panic => paren "re" [lit "panic"]
                           end ]) r
      | None => lit "nobuild"
      end
  | Err => lit "err"
  | Panic => lit "panic"
  end.
