(* Kinds.v — the variants of the crate-private `Tag` enum (src/line.rs). *)
Inductive kind : Set :=
| K_ExtXVersion | K_ExtInf | K_ExtXByteRange | K_ExtXDiscontinuity | K_ExtXKey | K_ExtXMap
| K_ExtXProgramDateTime | K_ExtXDateRange | K_ExtXTargetDuration | K_ExtXMediaSequence
| K_ExtXDiscontinuitySequence | K_ExtXEndList | K_PlaylistType | K_ExtXIFramesOnly
| K_ExtXMedia | K_ExtXSessionData | K_ExtXSessionKey | K_ExtXIndependentSegments
| K_ExtXStart | K_VariantStream | K_Unknown.

Definition kind_eqb (a b : kind) : bool :=
  match a, b with
  | K_ExtXVersion, K_ExtXVersion | K_ExtInf, K_ExtInf | K_ExtXByteRange, K_ExtXByteRange
  | K_ExtXDiscontinuity, K_ExtXDiscontinuity | K_ExtXKey, K_ExtXKey | K_ExtXMap, K_ExtXMap
  | K_ExtXProgramDateTime, K_ExtXProgramDateTime | K_ExtXDateRange, K_ExtXDateRange
  | K_ExtXTargetDuration, K_ExtXTargetDuration | K_ExtXMediaSequence, K_ExtXMediaSequence
  | K_ExtXDiscontinuitySequence, K_ExtXDiscontinuitySequence | K_ExtXEndList, K_ExtXEndList
  | K_PlaylistType, K_PlaylistType | K_ExtXIFramesOnly, K_ExtXIFramesOnly
  | K_ExtXMedia, K_ExtXMedia | K_ExtXSessionData, K_ExtXSessionData
  | K_ExtXSessionKey, K_ExtXSessionKey | K_ExtXIndependentSegments, K_ExtXIndependentSegments
  | K_ExtXStart, K_ExtXStart | K_VariantStream, K_VariantStream | K_Unknown, K_Unknown => true
  | _, _ => false
  end.
