(* Media.v — src/media_playlist.rs and src/media_segment.rs: the parser state machine,
   MediaPlaylistBuilder::build (validation, numbering, IV derivation, byte-range
   completion), RequiredVersion and Display. *)
From hls Require Import Base Float Lex Kinds Types Tags Line Keys.
From hls.Generated Require Import Tables.
Open Scope N_scope.

(* ---------- structural equality of keys (derived PartialEq) ---------- *)
Fixpoint list_eqb {A} (e : A -> A -> bool) (a b : list A) : bool :=
  match a, b with
  | [], [] => true
  | x :: a', y :: b' => e x y && list_eqb e a' b'
  | _, _ => false
  end.
Definition opt_eqb {A} (e : A -> A -> bool) (a b : option A) : bool :=
  match a, b with
  | None, None => true
  | Some x, Some y => e x y
  | _, _ => false
  end.
Definition iv_eqb (a b : IV) : bool :=
  match a, b with
  | IvAes x, IvAes y => list_eqb N.eqb x y
  | IvNumber x, IvNumber y => x =? y
  | IvMissing, IvMissing => true
  | _, _ => false
  end.
Definition key_eqb (a b : Key) : bool :=
  (k_method a =? k_method b) && str_eqb (k_uri a) (k_uri b) && iv_eqb (k_iv a) (k_iv b)
  && opt_eqb kf_eqb (k_format a) (k_format b)
  && opt_eqb (list_eqb N.eqb) (k_versions a) (k_versions b).
Definition xkey_eqb (a b : xkey) : bool := xeqb key_eqb a b.

(* key format with "absent = identity" (RFC 8216 4.3.2.4) *)
Definition fmt_of (k : Key) : KeyFormat :=
  match k_format k with Some f => f | None => KfIdentity end.
Definition same_fmt (a b : Key) : bool := kf_eqb (fmt_of a) (fmt_of b).

(* ---------- segments ---------- *)
Record Segment := { sg_number : N; sg_explicit : bool; sg_keys : list xkey;
  sg_map : option ExtXMap; sg_range : option ByteRange; sg_daterange : option DateRange;
  sg_disc : bool; sg_pdt : option str; sg_inf : ExtInf; sg_uri : str }.

(* the MediaSegmentBuilder the parser fills between two URI lines *)
Record seg_acc := { sa_map : option ExtXMap; sa_range : option ByteRange;
  sa_daterange : option DateRange; sa_disc : bool; sa_pdt : option str; sa_inf : option ExtInf }.
Definition seg_empty : seg_acc :=
  {| sa_map := None; sa_range := None; sa_daterange := None; sa_disc := false; sa_pdt := None;
     sa_inf := None |}.

(* ---------- MediaPlaylistBuilder ---------- *)
(* segments: the StableVec as a slot list (index = position) *)
Record mbuilder := { b_target : option N; b_mseq : option N; b_dseq : option N;
  b_ptype : option (option N); b_iframes : option bool; b_indep : option bool;
  b_start : option (option Start); b_endlist : option bool;
  b_segments : option (list (option Segment)); b_excess : option N;
  b_unknown : option (list str) }.
Definition mb_default : mbuilder :=
  {| b_target := None; b_mseq := None; b_dseq := None; b_ptype := None; b_iframes := None;
     b_indep := None; b_start := None; b_endlist := None; b_segments := None;
     b_excess := None; b_unknown := None |}.

Record MediaPlaylist := { mp_target : N (* ns *); mp_mseq : N; mp_dseq : N; mp_ptype : option N;
  mp_iframes : bool; mp_indep : bool; mp_start : option Start; mp_endlist : bool;
  mp_segs : list Segment; mp_excess : N; mp_unknown : list str }.

(* ---------- parser state ---------- *)
Record pstate := { ps_seg : seg_acc; ps_partial : bool; ps_hasdisc : bool;
  ps_unknown : list str (* reversed *); ps_keys : list xkey;
  ps_segs : list Segment (* reversed *); ps_b : mbuilder }.

(* the EXT-X-KEY update of the keys in effect (ordered container since the determinism
   fix): METHOD=NONE clears and leaves the explicit-none marker; a key removes the
   first entry that is the marker or has the same KEYFORMAT, then is appended *)
Definition key_step (ks : list xkey) (x : xkey) : list xkey := key_step_gen same_fmt key_eqb ks x.
Definition keys_after (h : list xkey) : list xkey := fold_left key_step h [].

Definition set_seg (s : pstate) (a : seg_acc) : pstate :=
  {| ps_seg := a; ps_partial := true; ps_hasdisc := ps_hasdisc s; ps_unknown := ps_unknown s;
     ps_keys := ps_keys s; ps_segs := ps_segs s; ps_b := ps_b s |}.
Definition set_b (s : pstate) (b : mbuilder) : pstate :=
  {| ps_seg := ps_seg s; ps_partial := ps_partial s; ps_hasdisc := ps_hasdisc s;
     ps_unknown := ps_unknown s; ps_keys := ps_keys s; ps_segs := ps_segs s; ps_b := b |}.

Definition step_tag (s : pstate) (t : tagv) : res pstate :=
  let a := ps_seg s in
  let b := ps_b s in
  match t with
  | TInf i => Ok (set_seg s {| sa_map := sa_map a; sa_range := sa_range a; sa_daterange := sa_daterange a; sa_disc := sa_disc a; sa_pdt := sa_pdt a; sa_inf := Some i |})
  | TByteRange r => Ok (set_seg s {| sa_map := sa_map a; sa_range := Some r; sa_daterange := sa_daterange a; sa_disc := sa_disc a; sa_pdt := sa_pdt a; sa_inf := sa_inf a |})
  | TDiscontinuity =>
      Ok {| ps_seg := {| sa_map := sa_map a; sa_range := sa_range a; sa_daterange := sa_daterange a; sa_disc := true; sa_pdt := sa_pdt a; sa_inf := sa_inf a |};
            ps_partial := true; ps_hasdisc := true; ps_unknown := ps_unknown s;
            ps_keys := ps_keys s; ps_segs := ps_segs s; ps_b := b |}
  | TKey k =>
      Ok {| ps_seg := a; ps_partial := true; ps_hasdisc := ps_hasdisc s; ps_unknown := ps_unknown s;
            ps_keys := key_step (ps_keys s) k; ps_segs := ps_segs s; ps_b := b |}
  | TMap m =>
      Ok (set_seg s {| sa_map := Some {| map_uri := map_uri m; map_range := map_range m; map_keys := ps_keys s |};
                       sa_range := sa_range a; sa_daterange := sa_daterange a; sa_disc := sa_disc a; sa_pdt := sa_pdt a; sa_inf := sa_inf a |})
  | TPdt p => Ok (set_seg s {| sa_map := sa_map a; sa_range := sa_range a; sa_daterange := sa_daterange a; sa_disc := sa_disc a; sa_pdt := Some p; sa_inf := sa_inf a |})
  | TDateRange d => Ok (set_seg s {| sa_map := sa_map a; sa_range := sa_range a; sa_daterange := Some d; sa_disc := sa_disc a; sa_pdt := sa_pdt a; sa_inf := sa_inf a |})
  | TTarget secs =>
      Ok (set_b s {| b_target := Some (secs * 1000000000); b_mseq := b_mseq b; b_dseq := b_dseq b; b_ptype := b_ptype b; b_iframes := b_iframes b; b_indep := b_indep b; b_start := b_start b; b_endlist := b_endlist b; b_segments := b_segments b; b_excess := b_excess b; b_unknown := b_unknown b |})
  | TMediaSeq n =>
      Ok (set_b s {| b_target := b_target b; b_mseq := Some n; b_dseq := b_dseq b; b_ptype := b_ptype b; b_iframes := b_iframes b; b_indep := b_indep b; b_start := b_start b; b_endlist := b_endlist b; b_segments := b_segments b; b_excess := b_excess b; b_unknown := b_unknown b |})
  | TDiscSeq n =>
      if negb (is_nil (ps_segs s)) then Err
      else if ps_hasdisc s then Err
      else Ok (set_b s {| b_target := b_target b; b_mseq := b_mseq b; b_dseq := Some n; b_ptype := b_ptype b; b_iframes := b_iframes b; b_indep := b_indep b; b_start := b_start b; b_endlist := b_endlist b; b_segments := b_segments b; b_excess := b_excess b; b_unknown := b_unknown b |})
  | TEndList =>
      Ok (set_b s {| b_target := b_target b; b_mseq := b_mseq b; b_dseq := b_dseq b; b_ptype := b_ptype b; b_iframes := b_iframes b; b_indep := b_indep b; b_start := b_start b; b_endlist := Some true; b_segments := b_segments b; b_excess := b_excess b; b_unknown := b_unknown b |})
  | TPlaylistType p =>
      Ok (set_b s {| b_target := b_target b; b_mseq := b_mseq b; b_dseq := b_dseq b; b_ptype := Some (Some p); b_iframes := b_iframes b; b_indep := b_indep b; b_start := b_start b; b_endlist := b_endlist b; b_segments := b_segments b; b_excess := b_excess b; b_unknown := b_unknown b |})
  | TIFramesOnly =>
      Ok (set_b s {| b_target := b_target b; b_mseq := b_mseq b; b_dseq := b_dseq b; b_ptype := b_ptype b; b_iframes := Some true; b_indep := b_indep b; b_start := b_start b; b_endlist := b_endlist b; b_segments := b_segments b; b_excess := b_excess b; b_unknown := b_unknown b |})
  | TIndep =>
      Ok (set_b s {| b_target := b_target b; b_mseq := b_mseq b; b_dseq := b_dseq b; b_ptype := b_ptype b; b_iframes := b_iframes b; b_indep := Some true; b_start := b_start b; b_endlist := b_endlist b; b_segments := b_segments b; b_excess := b_excess b; b_unknown := b_unknown b |})
  | TStart st =>
      Ok (set_b s {| b_target := b_target b; b_mseq := b_mseq b; b_dseq := b_dseq b; b_ptype := b_ptype b; b_iframes := b_iframes b; b_indep := b_indep b; b_start := Some (Some st); b_endlist := b_endlist b; b_segments := b_segments b; b_excess := b_excess b; b_unknown := b_unknown b |})
  | TVersion _ => Ok s
  | TUnknown u =>
      Ok {| ps_seg := a; ps_partial := ps_partial s; ps_hasdisc := ps_hasdisc s;
            ps_unknown := u :: ps_unknown s; ps_keys := ps_keys s; ps_segs := ps_segs s; ps_b := b |}
  | TMedia _ | TVariant _ | TSessionData _ | TSessionKey _ => Err    (* placeholder, see step *)
  end.

Definition in_kinds (k : kind) (l : list kind) : bool := existsb (kind_eqb k) l.

Definition step (s : pstate) (l : line) : res pstate :=
  match l with
  | LTag t => if in_kinds (kind_of t) media_rejects then Err else step_tag s t
  | LUri u =>
      let a := ps_seg s in
      (* MediaSegmentBuilder::build: `duration` is the only required field left unset *)
      let! i := of_opt (sa_inf a) in
      let sg := {| sg_number := 0; sg_explicit := false; sg_keys := ps_keys s; sg_map := sa_map a;
                   sg_range := sa_range a; sg_daterange := sa_daterange a; sg_disc := sa_disc a;
                   sg_pdt := sa_pdt a; sg_inf := i; sg_uri := u |} in
      Ok {| ps_seg := seg_empty; ps_partial := false; ps_hasdisc := ps_hasdisc s;
            ps_unknown := ps_unknown s; ps_keys := ps_keys s; ps_segs := sg :: ps_segs s;
            ps_b := ps_b s |}
  | LComment => Ok s
  end.

(* `for line in Lines { match line? { … } }` *)
Fixpoint run_lines (s : pstate) (ls : list (res line)) : res pstate :=
  match ls with
  | [] => Ok s
  | r :: rest => let! l := r in let! s' := step s l in run_lines s' rest
  end.

(* ---------- validation ---------- *)
Definition dur_max : N := Eval vm_compute in (2 ^ 64 - 1) * 1000000000 + 999999999.
Definition max_seg_dur (target : N) (excess : option N) : N :=
  match excess with Some e => N.min (target + e) dur_max | None => target end.
(* rounded to the nearest second, halves up, compared in nanoseconds *)
Definition rounded_ns (d : N) : N := (d + 500000000) / 1000000000 * 1000000000.

Definition present {A} (slots : list (option A)) : list A :=
  flat_map (fun o => match o with Some x => [x] | None => [] end) slots.

Definition indep_ok (segs : list Segment) : bool :=
  let keys := flat_map sg_keys segs in
  let is_aes := existsb (fun k => match k with Some d => k_method d =? m_aes128 | None => false end) keys in
  if is_aes
  then forallb (fun k => match k with Some d => k_method d =? m_aes128 | None => false end) keys
  else true.

Fixpoint ranges_ok (segs : list Segment) (last_uri : option str) : bool :=
  match segs with
  | [] => true
  | s :: r =>
      match sg_range s with
      | Some rg =>
          match br_start rg with
          | None => match last_uri with
                    | Some u => str_eqb u (sg_uri s) && ranges_ok r last_uri
                    | None => false
                    end
          | Some _ => ranges_ok r (Some (sg_uri s))
          end
      | None => ranges_ok r None
      end
  end.

(* the loop of validate_media_segments interleaves the duration and the range check per
   segment; both only ever return Err, so the conjunction is equivalent *)
Definition validate_segments (b : mbuilder) (target : N) : bool :=
  match b_segments b with
  | None => true
  | Some slots =>
      let segs := present slots in
      (if match b_indep b with Some true => true | _ => false end then indep_ok segs else true)
      && forallb (fun s => rounded_ns (inf_dur (sg_inf s)) <=? max_seg_dur target (b_excess b)) segs
      && ranges_ok segs None
  end.

(* ---------- build ---------- *)
Definition derive_iv (num : N) (k : xkey) : xkey :=
  match k with
  | Some d =>
      if (k_method d =? m_aes128)
         && (match k_iv d with IvMissing => true | _ => false end)
         && (match k_format d with None => true | Some KfIdentity => true | _ => false end)
      then Some {| k_method := k_method d; k_uri := k_uri d; k_iv := IvNumber num;
                   k_format := k_format d; k_versions := k_versions d |}
      else k
  | None => None
  end.

(* ByteRange::saturating_add for a range without start, then set_start: set_start panics
   when the new start exceeds the end *)
Definition usize_max : N := two64 - 1.
Definition complete_range (r : ByteRange) (prev : option ByteRange) : res ByteRange :=
  match br_start r with
  | Some _ => Ok r
  | None =>
      match prev with
      | Some p =>
          let e := N.min (br_end r + br_end p) usize_max in
          if e <? br_end p then Panic else Ok {| br_start := Some (br_end p); br_end := e |}
      | None => Ok {| br_start := Some 0; br_end := br_end r |}
      end
  end.

(* the `for (i, segment) in segments.iter_mut()` loop: i = slot index *)
Fixpoint build_loop (slots : list (option Segment)) (i seqnum : N) (prev : option ByteRange)
  : res (list (option Segment)) :=
  match slots with
  | [] => Ok []
  | None :: rest => let! t := build_loop rest (i + 1) seqnum prev in Ok (None :: t)
  | Some s :: rest =>
      let! num := (if sg_explicit s then Ok (sg_number s)
                   else if i + seqnum <? two64 then Ok (i + seqnum) else Err) in
      let keys := map (derive_iv num) (sg_keys s) in
      let! rg := match sg_range s with
                 | Some r => rmap Some (complete_range r prev)
                 | None => Ok None
                 end in
      let prev' := match rg with Some r => Some r | None => prev end in
      let s' := {| sg_number := num; sg_explicit := sg_explicit s; sg_keys := keys;
                   sg_map := sg_map s; sg_range := rg; sg_daterange := sg_daterange s;
                   sg_disc := sg_disc s; sg_pdt := sg_pdt s; sg_inf := sg_inf s; sg_uri := sg_uri s |} in
      let! t := build_loop rest (i + 1) seqnum prev' in
      Ok (Some s' :: t)
  end.

Definition odef {A} (o : option A) (d : A) : A := match o with Some x => x | None => d end.

Definition build (b : mbuilder) : res MediaPlaylist :=
  if match b_target b with Some t => validate_segments b t | None => true end then
    let seqnum := odef (b_mseq b) 0 in
    let! slots := of_opt (b_segments b) in
    let first_ok := match present slots with
                    | f :: _ => negb ((sg_number f <? seqnum) && sg_explicit f)
                    | [] => true
                    end in
    if first_ok then
      let! slots' := build_loop slots 0 seqnum None in
      if forallb is_some slots' then
        let! t := of_opt (b_target b) in
        Ok {| mp_target := t; mp_mseq := seqnum; mp_dseq := odef (b_dseq b) 0;
              mp_ptype := odef (b_ptype b) None; mp_iframes := odef (b_iframes b) false;
              mp_indep := odef (b_indep b) false; mp_start := odef (b_start b) None;
              mp_endlist := odef (b_endlist b) false; mp_segs := present slots';
              mp_excess := odef (b_excess b) 0; mp_unknown := odef (b_unknown b) [] |}
      else Err
    else Err
  else Err.

(* ---------- parse_media_playlist ---------- *)
Definition init_state (b0 : mbuilder) : pstate :=
  {| ps_seg := seg_empty; ps_partial := false; ps_hasdisc := false; ps_unknown := []; ps_keys := [];
     ps_segs := []; ps_b := b0 |}.
(* after the last line: a pending segment is an error; otherwise build *)
Definition finish_media (s : pstate) : res MediaPlaylist :=
  if ps_partial s then Err
  else
    let b := ps_b s in
    build {| b_target := b_target b; b_mseq := b_mseq b; b_dseq := b_dseq b; b_ptype := b_ptype b;
             b_iframes := b_iframes b; b_indep := b_indep b; b_start := b_start b;
             b_endlist := b_endlist b; b_segments := Some (map Some (rev (ps_segs s)));
             b_excess := b_excess b; b_unknown := Some (rev (ps_unknown s)) |}.
Definition parse_items (b0 : mbuilder) (ls : list (res line)) : res MediaPlaylist :=
  let! s := run_lines (init_state b0) ls in finish_media s.
Definition parse_media_with (b0 : mbuilder) (input : str) : res MediaPlaylist :=
  let! rest := tag input pfx_ExtM3u in parse_items b0 (lines_of rest).
Definition parse_media (input : str) : res MediaPlaylist := parse_media_with mb_default input.
Definition with_excess (ns : N) : mbuilder :=
  {| b_target := None; b_mseq := None; b_dseq := None; b_ptype := None; b_iframes := None;
     b_indep := None; b_start := None; b_endlist := None; b_segments := None;
     b_excess := Some ns; b_unknown := None |}.

(* ---------- RequiredVersion ---------- *)
Definition maxl (l : list N) : N := fold_left N.max l 1.
Definition segment_rv (s : Segment) : N :=
  maxl [ maxl (map xkey_rv (sg_keys s));
         match sg_map s with Some _ => rv_ExtXMap_req | None => 1 end;
         match sg_range s with Some _ => rv_ExtXByteRange_req | None => 1 end;
         match sg_daterange s with Some _ => rv_ExtXDateRange_req | None => 1 end;
         (if sg_disc s then rv_ExtXDiscontinuity_req else 1);
         match sg_pdt s with Some _ => rv_ExtXProgramDateTime_req | None => 1 end;
         extinf_rv (sg_inf s) ].
Definition media_rv (p : MediaPlaylist) : N :=
  maxl [ rv_ExtXTargetDuration_req;
         (if mp_mseq p =? 0 then 1 else rv_ExtXMediaSequence_req);
         (if mp_dseq p =? 0 then 1 else rv_ExtXDiscontinuitySequence_req);
         match mp_ptype p with Some _ => rv_PlaylistType_req | None => 1 end;
         (if mp_iframes p then rv_ExtXIFramesOnly_req else 1);
         (if mp_indep p then rv_ExtXIndependentSegments_req else 1);
         match mp_start p with Some _ => rv_ExtXStart_req | None => 1 end;
         (if mp_endlist p then rv_ExtXEndList_req else 1);
         maxl (map segment_rv (mp_segs p)) ].

(* ---------- Display ---------- *)
(* Display is modelled as the list of lines written (each followed by LF) *)
Definition nl (s : str) : str := s ++ [10].
Definition olist {A} (o : option A) (f : A -> str) : list str := match o with Some x => [f x] | None => [] end.
Definition segment_lines (s : Segment) : list str :=
  olist (sg_map s) print_xmap
  ++ olist (sg_range s) print_xbyterange
  ++ olist (sg_daterange s) print_daterange
  ++ (if sg_disc s then [pfx_ExtXDiscontinuity] else [])
  ++ olist (sg_pdt s) print_pdt
  ++ [print_extinf (sg_inf s); sg_uri s].
Definition print_segment (s : Segment) : str := flat_map nl (segment_lines s).

(* the writer's `available_keys` set, as a duplicate-free list *)
Definition set_mem (k : xkey) (l : list xkey) : bool := existsb (xkey_eqb k) l.
Definition set_remove (k : xkey) (l : list xkey) : list xkey :=
  filter (fun y => negb (xkey_eqb y k)) l.
Definition strip_derived (d : Key) : Key :=
  match k_iv d with
  | IvNumber _ => {| k_method := k_method d; k_uri := k_uri d; k_iv := IvMissing;
                     k_format := k_format d; k_versions := k_versions d |}
  | _ => d
  end.
(* one key of one segment: returns the new set and the EXT-X-KEY tags written *)
Definition write_key (avail : list xkey) (k : xkey) : list xkey * list xkey :=
  match k with
  | Some d =>
      let avail := set_remove None avail in
      let d' := strip_derived d in
      let key := Some d' in
      if set_mem key avail then (avail, [])
      else
        let avail := avail ++ [key] in
        let old := find_first (fun y => match y with
                                        | Some o => same_fmt o d' && negb (xkey_eqb y key)
                                        | None => false end) avail in
        let avail := match old with Some o => set_remove o avail | None => avail end in
        (avail, [key])
  | None => ([None], [None])
  end.
Fixpoint write_keys (avail : list xkey) (ks : list xkey) : list xkey * list xkey :=
  match ks with
  | [] => (avail, [])
  | k :: r => let '(a1, t1) := write_key avail k in
              let '(a2, t2) := write_keys a1 r in (a2, t1 ++ t2)
  end.
(* a written key whose format none of the segment's keys has can only be revoked with
   METHOD=NONE, which revokes all keys; the segment's keys are then written again *)
Definition stale_keys (avail : list xkey) (keys : list xkey) : bool :=
  existsb is_some keys
  && existsb (fun old => match old with
                         | Some o => negb (existsb (fun k => match k with Some kk => same_fmt kk o | None => false end) keys)
                         | None => false
                         end) avail.
(* the key tags written before one segment, and the writer's set afterwards *)
Definition segment_key_events (avail : list xkey) (keys : list xkey) : list xkey * list xkey :=
  let stale := stale_keys avail keys in
  let '(a, t) := write_keys (if stale then [] else avail) keys in
  (a, (if stale then [None] else []) ++ t).
Fixpoint segments_lines (avail : list xkey) (segs : list Segment) : list str :=
  match segs with
  | [] => []
  | s :: r =>
      let '(a, ev) := segment_key_events avail (sg_keys s) in
      map print_xkey ev ++ segment_lines s ++ segments_lines a r
  end.

Definition version_line (rv : N) : list str :=
  if rv =? 1 then [] else [pfx_ExtXVersion ++ print_protocol_version rv].
Definition media_header_lines (p : MediaPlaylist) : list str :=
  [pfx_ExtXTargetDuration ++ print_uint (mp_target p / 1000000000)]
  ++ (if mp_mseq p =? 0 then [] else [pfx_ExtXMediaSequence ++ print_uint (mp_mseq p)])
  ++ (if mp_dseq p =? 0 then [] else [pfx_ExtXDiscontinuitySequence ++ print_uint (mp_dseq p)])
  ++ olist (mp_ptype p) print_playlist_type
  ++ (if mp_iframes p then [pfx_ExtXIFramesOnly] else [])
  ++ (if mp_indep p then [pfx_ExtXIndependentSegments] else [])
  ++ olist (mp_start p) print_start.
Definition media_body_lines (p : MediaPlaylist) : list str :=
  media_header_lines p ++ segments_lines [] (mp_segs p) ++ mp_unknown p
  ++ (if mp_endlist p then [pfx_ExtXEndList] else []).
Definition media_lines (p : MediaPlaylist) : list str :=
  [pfx_ExtM3u] ++ version_line (media_rv p) ++ media_body_lines p.
Definition print_media (p : MediaPlaylist) : str := flat_map nl (media_lines p).
