(* Base.v — strings as lists of Unicode scalar values, result type, Rust std string
   helpers used by hls_m3u8 (trim, lines, starts_with, split), integer text. *)
From Coq Require Export List NArith ZArith Bool Ascii String.
Export ListNotations.
Open Scope N_scope.

Definition char := N.
Definition str := list char.

Inductive res (A : Type) : Type := Ok (a : A) | Err | Panic.
Arguments Ok {A} a. Arguments Err {A}. Arguments Panic {A}.

Definition bind {A B} (r : res A) (f : A -> res B) : res B :=
  match r with Ok a => f a | Err => Err | Panic => Panic end.
Notation "'let!' x ':=' r 'in' k" := (bind r (fun x => k))
  (at level 200, x pattern, r at level 100, k at level 200).
Definition rmap {A B} (f : A -> B) (r : res A) : res B := bind r (fun a => Ok (f a)).
Definition of_opt {A} (o : option A) : res A := match o with Some a => Ok a | None => Err end.
Definition is_ok {A} (r : res A) : bool := match r with Ok _ => true | _ => false end.
Definition is_err {A} (r : res A) : bool := match r with Err => true | _ => false end.
Definition is_panic {A} (r : res A) : bool := match r with Panic => true | _ => false end.

(* literal strings *)
Definition lit (s : string) : str := map N_of_ascii (list_ascii_of_string s).

(* ---------- characters ---------- *)
(* Unicode White_Space, as used by char::is_whitespace / str::trim *)
Definition is_ws (c : char) : bool :=
  ((9 <=? c) && (c <=? 13)) || (c =? 32) || (c =? 133) || (c =? 160) || (c =? 5760)
  || ((8192 <=? c) && (c <=? 8202)) || (c =? 8232) || (c =? 8233) || (c =? 8239)
  || (c =? 8287) || (c =? 12288).
Definition is_digit (c : char) : bool := (48 <=? c) && (c <=? 57).
Definition utf8_len (c : char) : N :=
  if c <? 128 then 1 else if c <? 2048 then 2 else if c <? 65536 then 3 else 4.
Fixpoint byte_len (s : str) : N := match s with [] => 0 | c :: r => utf8_len c + byte_len r end.

(* ---------- equality / prefix ---------- *)
Fixpoint str_eqb (a b : str) : bool :=
  match a, b with
  | [], [] => true
  | x :: a', y :: b' => (x =? y) && str_eqb a' b'
  | _, _ => false
  end.
Fixpoint starts_with (p s : str) : bool :=
  match p, s with
  | [], _ => true
  | x :: p', y :: s' => (x =? y) && starts_with p' s'
  | _ :: _, [] => false
  end.
Fixpoint strip_prefix (p s : str) : option str :=
  match p, s with
  | [], _ => Some s
  | x :: p', y :: s' => if x =? y then strip_prefix p' s' else None
  | _ :: _, [] => None
  end.
Definition ends_with_char (c : char) (s : str) : bool :=
  match rev s with x :: _ => x =? c | [] => false end.

(* lexicographic comparison by code point (= UTF-8 byte order) *)
Fixpoint str_cmp (a b : str) : comparison :=
  match a, b with
  | [], [] => Eq
  | [], _ :: _ => Lt
  | _ :: _, [] => Gt
  | x :: a', y :: b' => match x ?= y with Eq => str_cmp a' b' | c => c end
  end.

(* ---------- trim ---------- *)
Fixpoint trim_start (s : str) : str :=
  match s with c :: r => if is_ws c then trim_start r else s | [] => [] end.
Definition trim_end (s : str) : str := rev (trim_start (rev s)).
Definition trim (s : str) : str := trim_end (trim_start s).

(* ---------- splitting ---------- *)
(* split at every occurrence of c; always returns a non-empty list (like str::split) *)
Fixpoint split_on (c : char) (s : str) : list str :=
  match s with
  | [] => [[]]
  | x :: r =>
      if x =? c then [] :: split_on c r
      else match split_on c r with
           | h :: t => (x :: h) :: t
           | [] => [[x]]
           end
  end.
(* split at the first occurrence of c *)
Fixpoint split_once (c : char) (s : str) : option (str * str) :=
  match s with
  | [] => None
  | x :: r => if x =? c then Some ([], r)
              else match split_once c r with
                   | Some (a, b) => Some (x :: a, b)
                   | None => None
                   end
  end.
(* str::splitn(2, c): first piece, optional rest *)
Definition splitn2 (c : char) (s : str) : str * option str :=
  match split_once c s with Some (a, b) => (a, Some b) | None => (s, None) end.

(* the lines hls_m3u8 sees: str::lines, each trimmed, empty ones dropped.
   str::lines splits at LF and strips one CR before it; since every line is trimmed
   afterwards (CR is white space) splitting at LF alone gives the same result. *)
Definition is_nil {A} (l : list A) : bool := match l with [] => true | _ => false end.
Definition clean_lines (s : str) : list str :=
  filter (fun l => negb (is_nil l)) (map trim (split_on 10 s)).

(* str::lines: pieces are terminated by LF; a CR directly before that LF is dropped; a last
   piece without LF is returned unchanged; no trailing empty piece *)
Definition strip_cr (l : str) : str :=
  match rev l with 13 :: r => rev r | _ => l end.
Fixpoint std_lines_aux (s : str) (cur : str) : list str :=
  match s with
  | [] => match cur with [] => [] | _ => [rev cur] end
  | c :: r => if c =? 10 then strip_cr (rev cur) :: std_lines_aux r [] else std_lines_aux r (c :: cur)
  end.
Definition std_lines (s : str) : list str := std_lines_aux s [].

Fixpoint join_with (sep : str) (ls : list str) : str :=
  match ls with
  | [] => []
  | [x] => x
  | x :: r => x ++ sep ++ join_with sep r
  end.

(* ---------- unsigned integers (Rust uN::from_str / Display) ---------- *)
Fixpoint digits_val (s : str) (acc : N) : option N :=
  match s with
  | [] => Some acc
  | c :: r => if is_digit c then digits_val r (acc * 10 + (c - 48)) else None
  end.
(* optional leading '+', at least one digit, value < 2^w *)
Definition strip_plus (s : str) : str :=
  match s with c :: r => if c =? 43 then r else s | [] => s end.
Definition parse_uint (w : N) (s : str) : option N :=
  let body := strip_plus s in
  match body with
  | [] => None
  | _ => match digits_val body 0 with
         | Some v => if v <? 2 ^ w then Some v else None
         | None => None
         end
  end.
Fixpoint print_uint_fuel (fuel : nat) (n : N) (acc : str) : str :=
  match fuel with
  | O => acc
  | S f => let acc' := (48 + n mod 10) :: acc in
           if n <? 10 then acc' else print_uint_fuel f (n / 10) acc'
  end.
Definition print_uint (n : N) : str := print_uint_fuel (S (N.to_nat (N.log2 n))) n [].

(* hex *)
Definition hex_val (c : char) : option N :=
  if is_digit c then Some (c - 48)
  else if (97 <=? c) && (c <=? 102) then Some (c - 87)
  else if (65 <=? c) && (c <=? 70) then Some (c - 55)
  else None.
Fixpoint hex_decode (s : str) : option (list N) :=
  match s with
  | [] => Some []
  | a :: b :: r =>
      match hex_val a, hex_val b, hex_decode r with
      | Some x, Some y, Some t => Some ((x * 16 + y) :: t)
      | _, _, _ => None
      end
  | [_] => None
  end.
Definition hex_digit (upper : bool) (v : N) : char :=
  if v <? 10 then 48 + v else (if upper then 55 else 87) + v.
Fixpoint hex_encode (upper : bool) (bs : list N) : str :=
  match bs with
  | [] => []
  | b :: r => hex_digit upper (b / 16) :: hex_digit upper (b mod 16) :: hex_encode upper r
  end.

(* big-endian bytes <-> number *)
Fixpoint be_val (bs : list N) (acc : N) : N :=
  match bs with [] => acc | b :: r => be_val r (acc * 256 + b) end.
Fixpoint be_bytes (n : nat) (v : N) (acc : list N) : list N :=
  match n with O => acc | S k => be_bytes k (v / 256) ((v mod 256) :: acc) end.

Definition all_chars (p : char -> bool) (s : str) : bool := forallb p s.
Definition any_char (p : char -> bool) (s : str) : bool := existsb p s.
Definition omap {A B} (f : A -> B) (o : option A) : option B :=
  match o with Some a => Some (f a) | None => None end.
Definition is_some {A} (o : option A) : bool := match o with Some _ => true | None => false end.
