(* Extract.v — extraction of the executable model (ExtrOcamlBasic only). *)
Require Extraction.
Require ExtrOcamlBasic.
From hls Require Import Base Float Lex Kinds Types Tags Line Media Master Dump Builder.
Extraction Language OCaml.
Extraction "../ocaml/model.ml"
  run_media run_media_with run_master with_excess mb_default run_tag run_builder run_assoc.
