(* StableVecCapProof.v — with the capacity in the model, push_segment and segments() never panic, for any segments
   and any explicit numbers, and compute the slot lists of Builder.v. *)
From hls Require Import Base Float Lex Kinds Types Tags Line Keys Media Dump Builder StableVecCap.
From Coq Require Import Lia.
Open Scope N_scope.

Lemma insert_after_reserve : forall A (v : csv A) idx x,
  cs_insert (cs_reserve_for v idx) idx x = Ok {| cs_slots := sv_insert (cs_slots v) idx x; cs_cap := Nat.max (cs_cap v) (S idx) |}.
Proof.
  intros A v idx x. unfold cs_insert, cs_reserve_for. cbn [cs_cap cs_slots].
  replace (Nat.ltb idx (Nat.max (cs_cap v) (S idx))) with true by (symmetry; apply Nat.ltb_lt; lia). reflexivity.
Qed.
Theorem push_segment_cap_ok : forall v s, exists v', push_segment_cap v s = Ok v' /\ cs_slots v' = push_segment (cs_slots v) s.
Proof.
  intros v s. unfold push_segment_cap, push_segment. destruct (sg_explicit s).
  - rewrite insert_after_reserve. eexists. split; reflexivity.
  - eexists. split; reflexivity.
Qed.
Lemma fold_insert_ok : forall ex (v : csv Segment), exists v',
  fold_res (fun v s => cs_insert (cs_reserve_for v (N.to_nat (sg_number s))) (N.to_nat (sg_number s)) s) ex v = Ok v'
  /\ cs_slots v' = fold_left (fun sl s => sv_insert sl (N.to_nat (sg_number s)) s) ex (cs_slots v).
Proof.
  induction ex as [|s ex IH]; intros v; [exists v; split; reflexivity|].
  cbn [fold_res fold_left]. rewrite insert_after_reserve. cbn [bind].
  destruct (IH {| cs_slots := sv_insert (cs_slots v) (N.to_nat (sg_number s)) s; cs_cap := Nat.max (cs_cap v) (S (N.to_nat (sg_number s))) |}) as [v' [E S]].
  exists v'. split; [exact E | exact S].
Qed.
Lemma fold_push_slots : forall im (v : csv Segment), cs_slots (fold_left cs_push im v) = fold_left sv_push im (cs_slots v).
Proof. induction im as [|s im IH]; intros v; [reflexivity|]. cbn [fold_left]. rewrite IH. reflexivity. Qed.
Theorem set_segments_cap_ok : forall l, exists v', set_segments_cap l = Ok v' /\ cs_slots v' = set_segments l.
Proof.
  intros l. unfold set_segments_cap, set_segments. cbv zeta.
  destruct (fold_insert_ok (filter sg_explicit l) (cs_with_capacity (List.length l))) as [v' [E S]].
  rewrite E. cbn [bind]. eexists. split; [reflexivity|]. rewrite fold_push_slots, S. reflexivity.
Qed.
(* every sequence of pushes *)
Theorem pushes_cap_ok : forall ss v, exists v',
  fold_res push_segment_cap ss v = Ok v' /\ cs_slots v' = fold_left push_segment ss (cs_slots v).
Proof.
  induction ss as [|s ss IH]; intros v; [exists v; split; reflexivity|].
  cbn [fold_res fold_left]. destruct (push_segment_cap_ok v s) as [v1 [E1 S1]]. rewrite E1. cbn [bind].
  destruct (IH v1) as [v' [E S]]. exists v'. split; [exact E | rewrite S, S1; reflexivity].
Qed.
(* the model can express the panic: without the reserve_for call an explicit number beyond the capacity panics (D14) *)
Lemma noreserve_panics : forall s, sg_explicit s = true -> push_segment_noreserve cs_new s = Panic.
Proof. intros s H. unfold push_segment_noreserve, cs_insert, cs_new. rewrite H. reflexivity. Qed.
