(* MediaText.v — the text the media writer produces, read back as items: for a well-formed
   playlist value, lines_of (text after #EXTM3U) = the item list the writer "meant". *)
From hls Require Import Base Float Lex Kinds Types Tags Line Keys Media Master.
From hls.Generated Require Import Tables.
From hls.Proofs Require Import EqFacts C16 C12 Lexical Values TextLines AttrText TagText TagTextMedia
  TagTextVariant MasterText TagTextSegment TagTextDateRange C10.
From Coq Require Import Lia ZifyN ZifyNat.
Open Scope N_scope.

(* ---------- single lines ---------- *)
Lemma item_closed_pfx : forall pfx K rest tail t,
  In (false, pfx, K) dispatch_table -> starts_with s_hashEXT pfx = true ->
  starts_with pairing_prefix pfx = false -> starts_with pfx pairing_prefix = false ->
  parse_kind K (pfx ++ rest) = Ok t ->
  items ((pfx ++ rest) :: tail) = Ok (LTag t) :: items tail.
Proof. exact item_tag. Qed.

Lemma item_xkey : forall k tail, match k with Some d => wf_key d = true | None => True end ->
  items (print_xkey k :: tail) = Ok (LTag (TKey k)) :: items tail.
Proof.
  intros k tail H. destruct (xkey_text k H) as [Hp _]. unfold print_xkey in *.
  apply (item_tag pfx_ExtXKey K_ExtXKey); [in_table | reflexivity | reflexivity | reflexivity |].
  cbn [parse_kind]. rewrite Hp. reflexivity.
Qed.
Definition bare_map (m : ExtXMap) : ExtXMap := {| map_uri := map_uri m; map_range := map_range m; map_keys := [] |}.
Lemma item_xmap : forall m tail, wf_xmap m = true ->
  items (print_xmap m :: tail) = Ok (LTag (TMap (bare_map m))) :: items tail.
Proof.
  intros m tail H. destruct (xmap_text m H) as [Hp _]. rewrite print_xmap_kvs in *.
  apply (item_tag pfx_ExtXMap K_ExtXMap); [in_table | reflexivity | reflexivity | reflexivity |].
  cbn [parse_kind]. rewrite Hp. reflexivity.
Qed.
Lemma item_xbyterange : forall r tail, wf_range r = true ->
  items (print_xbyterange r :: tail) = Ok (LTag (TByteRange r)) :: items tail.
Proof.
  intros r tail H. destruct (xbyterange_text r H) as [Hp _]. unfold print_xbyterange in *.
  apply (item_tag pfx_ExtXByteRange K_ExtXByteRange); [in_table | reflexivity | reflexivity | reflexivity |].
  cbn [parse_kind]. rewrite Hp. reflexivity.
Qed.
Lemma item_daterange : forall d tail, wf_daterange d = true ->
  items (print_daterange d :: tail) = Ok (LTag (TDateRange d)) :: items tail.
Proof.
  intros d tail H. destruct (daterange_text d H) as [Hp _]. rewrite print_daterange_kvs in *.
  apply (item_tag pfx_ExtXDateRange K_ExtXDateRange); [in_table | reflexivity | reflexivity | reflexivity |].
  cbn [parse_kind]. rewrite Hp. reflexivity.
Qed.
Lemma item_pdt : forall s tail, good_line (print_pdt s) = true ->
  items (print_pdt s :: tail) = Ok (LTag (TPdt s)) :: items tail.
Proof.
  intros s tail H. pose proof (pdt_text s H) as Hp. unfold print_pdt in *.
  apply (item_tag pfx_ExtXProgramDateTime K_ExtXProgramDateTime); [in_table | reflexivity | reflexivity | reflexivity |].
  cbn [parse_kind]. rewrite Hp. reflexivity.
Qed.
Lemma item_extinf : forall i tail, wf_extinf i = true ->
  items (print_extinf i :: tail) = Ok (LTag (TInf i)) :: items tail.
Proof.
  intros i tail H. destruct (extinf_text i H) as [Hp _]. unfold print_extinf in *.
  apply (item_tag pfx_ExtInf K_ExtInf); [in_table | reflexivity | reflexivity | reflexivity |].
  cbn [parse_kind]. rewrite Hp. reflexivity.
Qed.
Lemma item_disc : forall tail, items (pfx_ExtXDiscontinuity :: tail) = Ok (LTag TDiscontinuity) :: items tail.
Proof. intros. reflexivity. Qed.
Lemma item_endlist : forall tail, items (pfx_ExtXEndList :: tail) = Ok (LTag TEndList) :: items tail.
Proof. intros. reflexivity. Qed.
Lemma item_iframes : forall tail, items (pfx_ExtXIFramesOnly :: tail) = Ok (LTag TIFramesOnly) :: items tail.
Proof. intros. reflexivity. Qed.
Lemma item_target : forall n tail, n < two64 ->
  items ((pfx_ExtXTargetDuration ++ print_uint n) :: tail) = Ok (LTag (TTarget n)) :: items tail.
Proof.
  intros n tail H. destruct (target_duration_text n H) as [Hp _].
  apply (item_tag pfx_ExtXTargetDuration K_ExtXTargetDuration); [in_table | reflexivity | reflexivity | reflexivity |].
  cbn [parse_kind]. rewrite Hp. reflexivity.
Qed.
Lemma item_mseq : forall n tail, n < two64 ->
  items ((pfx_ExtXMediaSequence ++ print_uint n) :: tail) = Ok (LTag (TMediaSeq n)) :: items tail.
Proof.
  intros n tail H. destruct (media_sequence_text n H) as [Hp _].
  apply (item_tag pfx_ExtXMediaSequence K_ExtXMediaSequence); [in_table | reflexivity | reflexivity | reflexivity |].
  cbn [parse_kind]. rewrite Hp. reflexivity.
Qed.
Lemma item_dseq : forall n tail, n < two64 ->
  items ((pfx_ExtXDiscontinuitySequence ++ print_uint n) :: tail) = Ok (LTag (TDiscSeq n)) :: items tail.
Proof.
  intros n tail H. destruct (disc_sequence_text n H) as [Hp _].
  apply (item_tag pfx_ExtXDiscontinuitySequence K_ExtXDiscontinuitySequence); [in_table | reflexivity | reflexivity | reflexivity |].
  cbn [parse_kind]. rewrite Hp. reflexivity.
Qed.
Lemma item_ptype : forall t tail, t < 2 ->
  items (print_playlist_type t :: tail) = Ok (LTag (TPlaylistType t)) :: items tail.
Proof. intros t tail H. assert (E : t = 0 \/ t = 1) by lia. destruct E as [-> | ->]; reflexivity. Qed.
Definition wf_uri (u : str) : bool := good_line u && negb (starts_with [35] u).
Lemma item_uri : forall u tail, wf_uri u = true -> items (u :: tail) = Ok (LUri u) :: items tail.
Proof.
  intros u tail H. unfold wf_uri in H. apply andb_true_iff in H. destruct H as [_ H]. apply negb_true_iff in H.
  cbn [items]. destruct u as [|c r]; [reflexivity|]. cbn [starts_with] in H. rewrite andb_true_r in H.
  assert (Hp : starts_with pairing_prefix (c :: r) = false).
  { unfold pairing_prefix. cbn [starts_with pfx_VariantStream_EXTXSTREAMINF]. rewrite H. reflexivity. }
  assert (Hh : starts_with s_hashEXT (c :: r) = false) by (cbn [starts_with s_hashEXT]; rewrite H; reflexivity).
  rewrite Hp, Hh. cbn [starts_with]. rewrite H. reflexivity.
Qed.

(* ---------- key events ---------- *)
Definition xk_ok (k : xkey) : bool := match k with Some d => wf_key d | None => true end.
Definition skey_ok (k : xkey) : bool := match k with Some d => wf_key (strip_derived d) | None => true end.
Lemma write_key_events_ok : forall avail k, skey_ok k = true -> forallb xk_ok (snd (write_key avail k)) = true.
Proof.
  intros avail [d|] H; [|reflexivity]. cbn [write_key]. cbv zeta.
  destruct (set_mem (Some (strip_derived d)) (set_remove None avail)); [reflexivity|].
  cbn [snd forallb xk_ok]. cbn [skey_ok] in H. rewrite H. reflexivity.
Qed.
Lemma write_keys_events_ok : forall ks avail, forallb skey_ok ks = true -> forallb xk_ok (snd (write_keys avail ks)) = true.
Proof.
  induction ks as [|k ks IH]; intros avail H; [reflexivity|]. cbn [forallb] in H. apply andb_true_iff in H.
  destruct H as [Hk Hks]. cbn [write_keys]. pose proof (write_key_events_ok avail k Hk) as E1.
  destruct (write_key avail k) as [a1 t1]. pose proof (IH a1 Hks) as E2. destruct (write_keys a1 ks) as [a2 t2].
  cbn [snd] in *. rewrite forallb_app, E1, E2. reflexivity.
Qed.
Lemma segment_events_ok : forall avail ks, forallb skey_ok ks = true ->
  forallb xk_ok (snd (segment_key_events avail ks)) = true.
Proof.
  intros avail ks H. unfold segment_key_events.
  pose proof (write_keys_events_ok ks (if stale_keys avail ks then [] else avail) H) as E.
  destruct (write_keys (if stale_keys avail ks then [] else avail) ks) as [a t]. cbn [snd] in E.
  cbv beta iota zeta. cbn [snd]. rewrite forallb_app. apply andb_true_iff. split; [destruct (stale_keys avail ks); reflexivity | exact E].
Qed.

(* ---------- one segment ---------- *)
Definition oopt {A} (o : option A) (f : A -> bool) : bool := match o with Some x => f x | None => true end.
Definition wf_segment (s : Segment) : bool :=
  oopt (sg_map s) wf_xmap && oopt (sg_range s) wf_range && oopt (sg_daterange s) wf_daterange
  && oopt (sg_pdt s) (fun p => good_line (print_pdt p)) && wf_extinf (sg_inf s) && wf_uri (sg_uri s)
  && forallb skey_ok (sg_keys s).
Definition oitem {A} (o : option A) (f : A -> tagv) : list line := match o with Some x => [LTag (f x)] | None => [] end.
Definition segment_items (s : Segment) : list line :=
  oitem (sg_map s) (fun m => TMap (bare_map m))
  ++ oitem (sg_range s) TByteRange
  ++ oitem (sg_daterange s) TDateRange
  ++ (if sg_disc s then [LTag TDiscontinuity] else [])
  ++ oitem (sg_pdt s) TPdt
  ++ [LTag (TInf (sg_inf s)); LUri (sg_uri s)].
Lemma items_olist : forall A (o : option A) (pr : A -> str) (mk : A -> tagv) (wf : A -> bool) tail,
  (forall x tl, wf x = true -> items (pr x :: tl) = Ok (LTag (mk x)) :: items tl) ->
  oopt o wf = true -> items (olist o pr ++ tail) = map Ok (oitem o mk) ++ items tail.
Proof. intros A [x|] pr mk wf tail H Hw; [apply H, Hw | reflexivity]. Qed.
Lemma segment_lines_items : forall s tail, wf_segment s = true ->
  items (segment_lines s ++ tail) = map Ok (segment_items s) ++ items tail.
Proof.
  intros s tail H. unfold wf_segment in H.
  repeat (apply andb_true_iff in H; let H2 := fresh "W" in destruct H as [H H2]).
  unfold segment_lines, segment_items. rewrite !map_app, <- !app_assoc.
  rewrite (items_olist _ _ print_xmap (fun m => TMap (bare_map m)) wf_xmap _ item_xmap H).
  rewrite (items_olist _ _ print_xbyterange TByteRange wf_range _ item_xbyterange W4).
  rewrite (items_olist _ _ print_daterange TDateRange wf_daterange _ item_daterange W3).
  f_equal. f_equal. f_equal.
  assert (Hd : forall tl, items ((if sg_disc s then [pfx_ExtXDiscontinuity] else []) ++ tl)
                = map Ok (if sg_disc s then [LTag TDiscontinuity] else []) ++ items tl).
  { intros. destruct (sg_disc s); [apply item_disc | reflexivity]. }
  rewrite Hd. f_equal.
  rewrite (items_olist _ _ print_pdt TPdt (fun p => good_line (print_pdt p)) _ item_pdt W2). f_equal.
  cbn [app map]. rewrite (item_extinf _ _ W1), (item_uri _ _ W0). reflexivity.
Qed.
Lemma segment_lines_good : forall s, wf_segment s = true -> forallb good_line (segment_lines s) = true.
Proof.
  intros s H. unfold wf_segment in H.
  repeat (apply andb_true_iff in H; let H2 := fresh "W" in destruct H as [H H2]).
  unfold segment_lines. rewrite !forallb_app.
  assert (E1 : forallb good_line (olist (sg_map s) print_xmap) = true).
  { destruct (sg_map s) as [m|]; [|reflexivity]. cbn [olist forallb]. rewrite (proj2 (xmap_text m H)). reflexivity. }
  assert (E2 : forallb good_line (olist (sg_range s) print_xbyterange) = true).
  { destruct (sg_range s) as [r|]; [|reflexivity]. cbn [olist forallb]. rewrite (proj2 (xbyterange_text r W4)). reflexivity. }
  assert (E3 : forallb good_line (olist (sg_daterange s) print_daterange) = true).
  { destruct (sg_daterange s) as [d|]; [|reflexivity]. cbn [olist forallb]. rewrite (proj2 (daterange_text d W3)). reflexivity. }
  assert (E4 : forallb good_line (if sg_disc s then [pfx_ExtXDiscontinuity] else []) = true) by (destruct (sg_disc s); reflexivity).
  assert (E5 : forallb good_line (olist (sg_pdt s) print_pdt) = true).
  { destruct (sg_pdt s) as [p|]; [|reflexivity]. cbn [olist forallb oopt] in *. rewrite W2. reflexivity. }
  assert (E6 : forallb good_line [print_extinf (sg_inf s); sg_uri s] = true).
  { cbn [forallb]. destruct (extinf_text _ W1) as [_ ->]. unfold wf_uri in W0. apply andb_true_iff in W0.
    destruct W0 as [-> _]. reflexivity. }
  rewrite E1, E2, E3, E4, E5, E6. reflexivity.
Qed.

(* ---------- all segments, with the writer's key state ---------- *)
Fixpoint segments_items (avail : list xkey) (segs : list Segment) : list line :=
  match segs with
  | [] => []
  | s :: r =>
      let '(a, ev) := segment_key_events avail (sg_keys s) in
      map (fun k => LTag (TKey k)) ev ++ segment_items s ++ segments_items a r
  end.
Lemma items_keys : forall ev tail, forallb xk_ok ev = true ->
  items (map print_xkey ev ++ tail) = map Ok (map (fun k => LTag (TKey k)) ev) ++ items tail.
Proof.
  induction ev as [|k ev IH]; intros tail H; [reflexivity|]. cbn [forallb] in H. apply andb_true_iff in H.
  destruct H as [Hk Hev]. cbn [map app]. rewrite item_xkey, (IH tail Hev); [reflexivity|].
  destruct k; [exact Hk | exact I].
Qed.
Lemma keys_lines_good : forall ev, forallb xk_ok ev = true -> forallb good_line (map print_xkey ev) = true.
Proof.
  induction ev as [|k ev IH]; intros H; [reflexivity|]. cbn [forallb] in H. apply andb_true_iff in H.
  destruct H as [Hk Hev]. cbn [map forallb]. rewrite (IH Hev), andb_true_r.
  apply (xkey_text k). destruct k; [exact Hk | exact I].
Qed.
Lemma segments_lines_items : forall segs avail tail, forallb wf_segment segs = true ->
  items (segments_lines avail segs ++ tail) = map Ok (segments_items avail segs) ++ items tail
  /\ forallb good_line (segments_lines avail segs) = true.
Proof.
  induction segs as [|s r IH]; intros avail tail H; [split; reflexivity|].
  cbn [forallb] in H. apply andb_true_iff in H. destruct H as [Hs Hr].
  cbn [segments_lines segments_items].
  assert (Hk : forallb skey_ok (sg_keys s) = true).
  { unfold wf_segment in Hs. apply andb_true_iff in Hs. tauto. }
  pose proof (segment_events_ok avail (sg_keys s) Hk) as Hev.
  destruct (segment_key_events avail (sg_keys s)) as [a ev]. cbn [snd] in Hev.
  destruct (IH a tail Hr) as [I1 I2]. split.
  - rewrite <- !app_assoc, (items_keys _ _ Hev), (segment_lines_items _ _ Hs), I1.
    rewrite !map_app, <- !app_assoc. reflexivity.
  - rewrite !forallb_app, (keys_lines_good _ Hev), (segment_lines_good _ Hs), I2. reflexivity.
Qed.

(* ---------- the whole playlist ---------- *)
Definition wf_media (p : MediaPlaylist) : bool :=
  (mp_target p / 1000000000 <? two64) && (mp_mseq p <? two64) && (mp_dseq p <? two64)
  && oopt (mp_ptype p) (fun t => t <? 2) && oopt (mp_start p) wf_start
  && forallb wf_segment (mp_segs p) && forallb wf_unknown (mp_unknown p).
Definition media_header_items (p : MediaPlaylist) : list line :=
  [LTag (TTarget (mp_target p / 1000000000))]
  ++ (if mp_mseq p =? 0 then [] else [LTag (TMediaSeq (mp_mseq p))])
  ++ (if mp_dseq p =? 0 then [] else [LTag (TDiscSeq (mp_dseq p))])
  ++ oitem (mp_ptype p) TPlaylistType
  ++ (if mp_iframes p then [LTag TIFramesOnly] else [])
  ++ (if mp_indep p then [LTag TIndep] else [])
  ++ oitem (mp_start p) TStart.
Definition media_items (p : MediaPlaylist) : list line :=
  media_header_items p ++ segments_items [] (mp_segs p)
  ++ map (fun u => LTag (TUnknown u)) (mp_unknown p)
  ++ (if mp_endlist p then [LTag TEndList] else []).

Lemma media_body_items : forall p, wf_media p = true ->
  items (media_body_lines p) = map Ok (media_items p) /\ forallb good_line (media_body_lines p) = true.
Proof.
  intros p H. unfold wf_media in H.
  repeat (apply andb_true_iff in H; let H2 := fresh "W" in destruct H as [H H2]).
  apply N.ltb_lt in H, W4, W3.
  unfold media_body_lines, media_items, media_header_lines, media_header_items.
  destruct (segments_lines_items (mp_segs p) [] (mp_unknown p ++ (if mp_endlist p then [pfx_ExtXEndList] else [])) W0) as [S1 S2].
  assert (Hu : items (mp_unknown p ++ (if mp_endlist p then [pfx_ExtXEndList] else []))
               = map Ok (map (fun u => LTag (TUnknown u)) (mp_unknown p) ++ (if mp_endlist p then [LTag TEndList] else []))).
  { pose proof (items_family _ (fun u : str => u) TUnknown wf_unknown item_unknown (mp_unknown p)
                  (if mp_endlist p then [pfx_ExtXEndList] else []) W) as E.
    rewrite map_id in E. rewrite E, map_app, map_map. f_equal. destruct (mp_endlist p); reflexivity. }
  split.
  - rewrite <- !app_assoc. cbn [app]. rewrite (item_target _ _ H).
    cbn [map]. f_equal. rewrite !map_app.
    assert (E1 : forall tl, items ((if mp_mseq p =? 0 then [] else [pfx_ExtXMediaSequence ++ print_uint (mp_mseq p)]) ++ tl)
                 = map Ok (if mp_mseq p =? 0 then [] else [LTag (TMediaSeq (mp_mseq p))]) ++ items tl).
    { intros. destruct (mp_mseq p =? 0); [reflexivity | apply item_mseq, W4]. }
    rewrite E1. f_equal.
    assert (E2 : forall tl, items ((if mp_dseq p =? 0 then [] else [pfx_ExtXDiscontinuitySequence ++ print_uint (mp_dseq p)]) ++ tl)
                 = map Ok (if mp_dseq p =? 0 then [] else [LTag (TDiscSeq (mp_dseq p))]) ++ items tl).
    { intros. destruct (mp_dseq p =? 0); [reflexivity | apply item_dseq, W3]. }
    rewrite E2. f_equal.
    rewrite (items_olist _ _ print_playlist_type TPlaylistType (fun t => t <? 2)).
    2:{ intros x tl Hx. apply item_ptype. apply N.ltb_lt, Hx. }
    2:{ exact W2. }
    f_equal.
    assert (E3 : forall tl, items ((if mp_iframes p then [pfx_ExtXIFramesOnly] else []) ++ tl)
                 = map Ok (if mp_iframes p then [LTag TIFramesOnly] else []) ++ items tl).
    { intros. destruct (mp_iframes p); [apply item_iframes | reflexivity]. }
    rewrite E3. f_equal.
    assert (E4 : forall tl, items ((if mp_indep p then [pfx_ExtXIndependentSegments] else []) ++ tl)
                 = map Ok (if mp_indep p then [LTag TIndep] else []) ++ items tl).
    { intros. destruct (mp_indep p); [apply item_indep | reflexivity]. }
    rewrite E4. f_equal.
    rewrite (items_olist _ _ print_start TStart wf_start _ item_start W1). f_equal.
    rewrite S1, Hu, map_app. reflexivity.
  - assert (G1 : forallb good_line [pfx_ExtXTargetDuration ++ print_uint (mp_target p / 1000000000)] = true)
      by (cbn [forallb]; rewrite (proj2 (target_duration_text _ H)); reflexivity).
    assert (G2 : forallb good_line (if mp_mseq p =? 0 then [] else [pfx_ExtXMediaSequence ++ print_uint (mp_mseq p)]) = true)
      by (destruct (mp_mseq p =? 0); [reflexivity | cbn [forallb]; rewrite (proj2 (media_sequence_text _ W4)); reflexivity]).
    assert (G3 : forallb good_line (if mp_dseq p =? 0 then [] else [pfx_ExtXDiscontinuitySequence ++ print_uint (mp_dseq p)]) = true)
      by (destruct (mp_dseq p =? 0); [reflexivity | cbn [forallb]; rewrite (proj2 (disc_sequence_text _ W3)); reflexivity]).
    assert (G4 : forallb good_line (olist (mp_ptype p) print_playlist_type) = true).
    { destruct (mp_ptype p) as [t|]; [|reflexivity]. cbn [oopt] in W2. apply N.ltb_lt in W2. cbn [olist forallb].
      rewrite (proj2 (playlist_type_text t W2)). reflexivity. }
    assert (G5 : forallb good_line (if mp_iframes p then [pfx_ExtXIFramesOnly] else []) = true) by (destruct (mp_iframes p); reflexivity).
    assert (G6 : forallb good_line (if mp_indep p then [pfx_ExtXIndependentSegments] else []) = true) by (destruct (mp_indep p); reflexivity).
    assert (G7 : forallb good_line (olist (mp_start p) print_start) = true).
    { destruct (mp_start p) as [st|]; [|reflexivity]. cbn [olist forallb oopt] in *. rewrite (proj2 (start_text st W1)). reflexivity. }
    assert (G8 : forallb good_line (mp_unknown p) = true).
    { eapply forallb_impl; [|exact W]. intros u Hu'. unfold wf_unknown in Hu'.
      do 3 (apply andb_true_iff in Hu'; destruct Hu' as [Hu' _]). exact Hu'. }
    assert (G9 : forallb good_line (if mp_endlist p then [pfx_ExtXEndList] else []) = true) by (destruct (mp_endlist p); reflexivity).
    rewrite <- !app_assoc.
    rewrite forallb_app; apply andb_true_iff; split; [exact G1|].
    rewrite forallb_app; apply andb_true_iff; split; [exact G2|].
    rewrite forallb_app; apply andb_true_iff; split; [exact G3|].
    rewrite forallb_app; apply andb_true_iff; split; [exact G4|].
    rewrite forallb_app; apply andb_true_iff; split; [exact G5|].
    rewrite forallb_app; apply andb_true_iff; split; [exact G6|].
    rewrite forallb_app; apply andb_true_iff; split; [exact G7|].
    rewrite forallb_app; apply andb_true_iff; split; [exact S2|].
    rewrite forallb_app; apply andb_true_iff; split; [exact G8 | exact G9].
Qed.

(* the version line *)
Lemma key_rv_le : forall k, key_rv k <= 7.
Proof.
  intros k. unfold key_rv. destruct (is_some (k_format k) || is_some (k_versions k)); [lia|].
  destruct (iv_is_some (k_iv k)); lia.
Qed.
Lemma segment_rv_le7 : forall s, segment_rv s <= 7.
Proof.
  intros s. unfold segment_rv. apply maxl_le; [lia|]. intros x Hx. cbn [In] in Hx.
  repeat (destruct Hx as [<- | Hx]); try (destruct Hx).
  - apply maxl_le; [lia|]. intros y Hy. apply in_map_iff in Hy. destruct Hy as [k [<- _]].
    destruct k as [d|]; cbn [xkey_rv]; [apply key_rv_le | lia].
  - destruct (sg_map s); vm_compute; discriminate.
  - destruct (sg_range s); vm_compute; discriminate.
  - destruct (sg_daterange s); vm_compute; discriminate.
  - destruct (sg_disc s); vm_compute; discriminate.
  - destruct (sg_pdt s); vm_compute; discriminate.
  - unfold extinf_rv. destruct (inf_dur (sg_inf s) mod 1000000000 =? 0); lia.
Qed.
Lemma media_rv_range : forall p, 1 <= media_rv p <= 7.
Proof.
  intros p. split; [apply maxl_ge1|]. unfold media_rv. apply maxl_le; [lia|].
  intros x Hx. cbn [In] in Hx.
  repeat (destruct Hx as [<- | Hx]); try (destruct Hx).
  - vm_compute; discriminate.
  - destruct (mp_mseq p =? 0); vm_compute; discriminate.
  - destruct (mp_dseq p =? 0); vm_compute; discriminate.
  - destruct (mp_ptype p); vm_compute; discriminate.
  - destruct (mp_iframes p); vm_compute; discriminate.
  - destruct (mp_indep p); vm_compute; discriminate.
  - destruct (mp_start p); vm_compute; discriminate.
  - destruct (mp_endlist p); vm_compute; discriminate.
  - apply maxl_le; [lia|]. intros y Hy. apply in_map_iff in Hy. destruct Hy as [s [<- _]]. apply segment_rv_le7.
Qed.
Lemma version_line_items_media : forall rv tail s, 1 <= rv <= 7 ->
  forallb good_line (version_line rv) = true
  /\ run_lines s (items (version_line rv ++ tail)) = run_lines s (items tail).
Proof.
  intros rv tail s H. unfold version_line. destruct (rv =? 1); [split; reflexivity|].
  assert (E : rv = 1 \/ rv = 2 \/ rv = 3 \/ rv = 4 \/ rv = 5 \/ rv = 6 \/ rv = 7) by lia.
  split.
  - destruct E as [->|[->|[->|[->|[->|[->| ->]]]]]]; reflexivity.
  - cbn [app].
    match goal with |- run_lines _ (items ?L) = _ =>
      assert (Hit : items L = Ok (LTag (TVersion rv)) :: items tail)
        by (destruct E as [->|[->|[->|[->|[->|[->| ->]]]]]]; reflexivity) end.
    rewrite Hit. apply (version_tag_invariant_media [] (items tail) s rv).
Qed.

(* parsing the written text = running the parser over the items the writer meant *)
Theorem media_text_items : forall p b0, wf_media p = true ->
  parse_media_with b0 (print_media p) = parse_items b0 (map Ok (media_items p)).
Proof.
  intros p b0 Hwf. unfold print_media, media_lines. cbn [app].
  pose proof (media_rv_range p) as Hr.
  destruct (media_body_items p Hwf) as [Hitems Hgoodb].
  destruct (version_line_items_media (media_rv p) (media_body_lines p) (init_state b0) Hr) as [Hg Hrun].
  assert (Hgood : forallb good_line (version_line (media_rv p) ++ media_body_lines p) = true)
    by (rewrite forallb_app, Hg, Hgoodb; reflexivity).
  destruct (written_text_lines pfx_ExtM3u _ ltac:(reflexivity) Hgood) as [rest [Hstrip Hclean]].
  unfold parse_media_with, tag. rewrite Hstrip. cbn [of_opt bind]. unfold lines_of. rewrite Hclean.
  unfold parse_items. rewrite Hrun, Hitems. reflexivity.
Qed.
