(* durations with millisecond precision, shard 0: [0, 3000) ms — dur_rt evaluated for every value *)
From hls Require Import Base Float Lex Kinds Types Tags.
From hls.Proofs Require Import TagText TagTextSegment Sweep.
Open Scope N_scope.
Lemma dur_ms_shard0 : forallb (fun ms => dur_rt (ms * 1000000)) (range 0 3000) = true.
Proof. vm_compute. reflexivity. Qed.
