(* SweepAll.v — the shards of the float sweeps combined into bounded universally quantified statements *)
From hls Require Import Base Float Lex Kinds Types Tags.
From hls.Proofs Require Import TagText TagTextSegment Sweep SweepDur0 SweepDur1 SweepDur2 SweepDur3 SweepFloat SweepFloat2.
From Coq Require Import ZArith Lia.
Open Scope N_scope.

Theorem duration_ms_sweep : forall ms, ms < 12000 -> dur_rt (ms * 1000000) = true.
Proof.
  intros ms H.
  destruct (N.lt_ge_cases ms 3000); [apply (sweep _ _ _ dur_ms_shard0); lia|].
  destruct (N.lt_ge_cases ms 6000); [apply (sweep _ _ _ dur_ms_shard1); lia|].
  destruct (N.lt_ge_cases ms 9000); [apply (sweep _ _ _ dur_ms_shard2); lia|].
  apply (sweep _ _ _ dur_ms_shard3); lia.
Qed.
Theorem frame_rate_sweep :
  (forall n, n <= 6100 -> ufloat_rt (f32_of_dec false n (-2)) = true)
  /\ (forall n, In n standard_rates -> ufloat_rt (f32_of_dec false n (-3)) = true).
Proof.
  split.
  - intros n H. apply (sweep _ _ _ frame_rate_hundredths). lia.
  - intros n H. pose proof frame_rate_standard as F. rewrite forallb_forall in F. apply F. exact H.
Qed.
Theorem time_offset_sweep : forall n, n <= 3000 ->
  float_rt (f32_of_dec false n (-1)) = true /\ float_rt (f32_of_dec true n (-1)) = true.
Proof.
  intros n H. apply andb_true_iff. apply (sweep (fun n => float_rt (f32_of_dec false n (-1)) && float_rt (f32_of_dec true n (-1))) _ _ time_offset_tenths). lia.
Qed.
