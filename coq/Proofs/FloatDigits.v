(* FloatDigits.v — the digit search of the shortest-digits writer always returns digits: once the decimal grid 10^t is finer than
   half a unit in the last place, one of the two neighbouring grid points rounds back to the value (FloatNear), and that
   happens after at most 9 (f32) / 18 (f64) digit counts, inside the fuel of 20. *)
From hls Require Import Base Float.
From hls.Proofs Require Import FloatRound FloatNear.
From Coq Require Import Lia.
Local Open Scope Z_scope.

(* a^z as a fraction up/dn, to avoid case splits on signs *)
Definition up (a z : Z) : Z := a ^ Z.max z 0.
Definition dn (a z : Z) : Z := a ^ Z.max (- z) 0.
Lemma up_pos : forall a z, 0 < a -> 0 < up a z. Proof. intros. apply Z.pow_pos_nonneg; lia. Qed.
Lemma dn_pos : forall a z, 0 < a -> 0 < dn a z. Proof. intros. apply Z.pow_pos_nonneg; lia. Qed.
Lemma updn_add : forall a z w, 0 < a -> up a (z + w) * dn a z * dn a w = up a z * up a w * dn a (z + w).
Proof.
  intros a z w Ha. unfold up, dn. rewrite <- !Z.pow_add_r by lia. f_equal. lia.
Qed.
Lemma up_nonneg : forall a z, 0 <= z -> up a z = a ^ z /\ dn a z = 1.
Proof. intros a z H. unfold up, dn. rewrite Z.max_l by lia. rewrite Z.max_r by lia. auto. Qed.
Lemma dn_neg : forall a z, z < 0 -> up a z = 1 /\ dn a z = a ^ (- z).
Proof. intros a z H. unfold up, dn. rewrite Z.max_r by lia. rewrite Z.max_l by lia. auto. Qed.

Lemma rat_of_updn : forall m e, rat_of m e = (m * up 2 e, dn 2 e).
Proof.
  intros m e. unfold rat_of. destruct (Z_lt_le_dec e 0) as [C|C].
  - replace (e <? 0) with true by (symmetry; apply Z.ltb_lt; lia). destruct (dn_neg 2 e C) as [-> ->]. f_equal. lia.
  - replace (e <? 0) with false by (symmetry; apply Z.ltb_ge; lia). destruct (up_nonneg 2 e C) as [-> ->]. reflexivity.
Qed.
Lemma sc_updn : forall n d E, sc_num n E = n * dn 2 E /\ sc_den n d E = d * up 2 E.
Proof.
  intros n d E. unfold sc_num. destruct (Z_lt_le_dec E 0) as [C|C].
  - destruct (scaled_neg n d E C) as [_ [_ ->]]. replace (E <? 0) with true by (symmetry; apply Z.ltb_lt; lia).
    destruct (dn_neg 2 E C) as [-> ->]. split; lia.
  - destruct (scaled_nonneg n d E C) as [_ [_ ->]]. replace (E <? 0) with false by (symmetry; apply Z.ltb_ge; lia).
    destruct (up_nonneg 2 E C) as [-> ->]. split; lia.
Qed.
Lemma cand_updn : forall f D t, cand_round f D t = rnd_pos f false (D * up 10 t) (dn 10 t).
Proof.
  intros f D t. unfold cand_round. destruct (Z_lt_le_dec t 0) as [C|C].
  - replace (0 <=? t) with false by (symmetry; apply Z.leb_gt; lia). destruct (dn_neg 10 t C) as [-> ->]. f_equal. lia.
  - replace (0 <=? t) with true by (symmetry; apply Z.leb_le; lia). destruct (up_nonneg 10 t C) as [-> ->]. reflexivity.
Qed.
Lemma feq_refl : forall x, match x with FFin _ _ _ => feq x x = true | _ => True end.
Proof. intros [| | |s m e]; try exact I. cbn. rewrite Bool.eqb_reflx, !Z.eqb_refl. reflexivity. Qed.
Lemma cand_ok_iff : forall f m e D t, 0 < D -> cand_round f D t = FFin false m e -> cand_ok f (FFin false m e) D t = true.
Proof.
  intros f m e D t HD H. unfold cand_ok. replace (D <=? 0) with false by (symmetry; apply Z.leb_gt; lia).
  fold (cand_round f D t). rewrite H. apply (feq_refl (FFin false m e)).
Qed.

(* the floor digit at scale t, in up/dn form *)
Definition digit_at (n d t : Z) : Z := (n * dn 10 t) / (d * up 10 t).
Lemma digit_at_eq : forall n d t, (if 0 <=? t then n / (d * 10 ^ t) else n * 10 ^ (- t) / d) = digit_at n d t.
Proof.
  intros n d t. unfold digit_at. destruct (Z_lt_le_dec t 0) as [C|C].
  - replace (0 <=? t) with false by (symmetry; apply Z.leb_gt; lia). destruct (dn_neg 10 t C) as [-> ->]. f_equal; lia.
  - replace (0 <=? t) with true by (symmetry; apply Z.leb_le; lia). destruct (up_nonneg 10 t C) as [-> ->]. f_equal; lia.
Qed.

(* the grid 10^t is finer than 2^(e-1) *)
Definition fine (t e : Z) : Prop := up 10 t * dn 2 (e - 2) < 2 * dn 10 t * up 2 (e - 2).

(* on a fine grid, with the value at least one grid step, one of the two neighbouring grid points rounds to the value *)
Theorem grid_point_rounds : forall f m e t, 2 <= prec f -> canonical f m e ->
  let n := fst (rat_of m e) in let d := snd (rat_of m e) in
  fine t e -> d * up 10 t <= n * dn 10 t ->
  let D := digit_at n d t in
  0 < D /\ (cand_round f D t = FFin false m e \/ cand_round f (D + 1) t = FFin false m e).
Proof.
  intros f m e t Hp Hc. cbv zeta. rewrite rat_of_updn. cbn [fst snd]. intros Hf Hge.
  set (D := digit_at (m * up 2 e) (dn 2 e) t).
  assert (Hm : 0 < m) by (destruct Hc as [[? ?] _]; assumption).
  pose proof (up_pos 2 e ltac:(lia)) as P1. pose proof (dn_pos 2 e ltac:(lia)) as P2.
  pose proof (up_pos 10 t ltac:(lia)) as P3. pose proof (dn_pos 10 t ltac:(lia)) as P4.
  pose proof (up_pos 2 (e - 2) ltac:(lia)) as P5. pose proof (dn_pos 2 (e - 2) ltac:(lia)) as P6.
  set (xn := m * up 2 e) in *. set (xd := dn 2 e) in *. set (U := up 10 t) in *. set (V := dn 10 t) in *.
  set (u2 := up 2 (e - 2)) in *. set (d2 := dn 2 (e - 2)) in *.
  assert (Hxn : 0 < xn) by (unfold xn; nia).
  assert (PW : 0 < xd * U) by nia.
  pose proof (Z.div_mod (xn * V) (xd * U) ltac:(lia)) as DM. pose proof (Z.mod_pos_bound (xn * V) (xd * U) PW) as MB.
  fold xn xd in D. change (xn * V / (xd * U)) with D in DM. set (R := (xn * V) mod (xd * U)) in *.
  assert (D1 : 0 < D).
  { destruct (Z_lt_le_dec 0 D) as [C|C]; [assumption|]. exfalso.
    assert (xd * U * D <= 0) by (apply Z.mul_nonneg_nonpos; lia). lia. }
  split; [exact D1|].
  (* x at scale e-2 is exactly 4m *)
  assert (XS : xn * d2 = 4 * m * xd * u2).
  { pose proof (updn_add 2 2 (e - 2) ltac:(lia)) as A. replace (2 + (e - 2)) with e in A by lia.
    change (dn 2 2) with 1 in A. change (up 2 2) with 4 in A. unfold xn, xd, u2, d2. nia. }
  set (a := D * U * xd). set (b := xn * V). set (W := U * xd).
  assert (Br : a <= b < a + W) by (unfold a, b, W; nia).
  assert (FW : W * d2 < 2 * V * u2 * xd) by (unfold W, fine in *; fold U V u2 d2 in Hf; nia).
  assert (Go : forall D', 0 < D' -> d2 * (D' * U * xd - b) < V * u2 * xd -> - (V * u2 * xd) < d2 * (D' * U * xd - b) ->
               cand_round f D' t = FFin false m e).
  { intros D' HD' G1 G2. rewrite cand_updn. fold U V.
    apply rnd_near_canonical; try assumption; try nia.
    destruct (sc_updn (D' * U) V (e - 2)) as [-> ->]. fold u2 d2.
    (* multiply by xd and use XS *)
    assert (K : (D' * U * d2 - 4 * m * (V * u2)) * xd = d2 * (D' * U * xd - b)) by (unfold b; nia).
    split; apply Z.mul_lt_mono_pos_r with (p := xd); try assumption; nia. }
  destruct (Z_le_gt_dec (2 * (b - a)) W) as [C|C].
  - left. apply Go; [assumption | |]; fold a; nia.
  - right. apply Go; [lia | |]; replace ((D + 1) * U * xd) with (a + W) by (unfold a, W; ring); nia.
Qed.

(* ---------- the search loop ---------- *)
Lemma le10_updn : forall n d t, (if 0 <=? t then d * 10 ^ t <=? n else d <=? n * 10 ^ (- t)) = (d * up 10 t <=? n * dn 10 t).
Proof.
  intros n d t. destruct (Z_lt_le_dec t 0) as [C|C].
  - replace (0 <=? t) with false by (symmetry; apply Z.leb_gt; lia). destruct (dn_neg 10 t C) as [-> ->]. f_equal; lia.
  - replace (0 <=? t) with true by (symmetry; apply Z.leb_le; lia). destruct (up_nonneg 10 t C) as [-> ->]. f_equal; lia.
Qed.

Theorem shortest_finds : forall fuel f m e lg k ks, 2 <= prec f -> canonical f m e ->
  let n := fst (rat_of m e) in let d := snd (rat_of m e) in
  k <= ks < k + Z.of_nat fuel -> fine (lg - (ks - 1)) e -> d * up 10 (lg - (ks - 1)) <= n * dn 10 (lg - (ks - 1)) ->
  fst (shortest fuel f (FFin false m e) n d lg k) <> 0.
Proof.
  induction fuel as [|fu IH]; intros f m e lg k ks Hp Hc n d Hk Hf Hge; [lia|].
  assert (Hm : 0 < m) by (destruct Hc as [[? ?] _]; assumption).
  destruct (rat_of_pos m e Hm) as [Pn Pd]. fold n d in Pn, Pd.
  cbn [shortest]. cbv zeta. set (t0 := lg - (k - 1)).
  rewrite (digit_at_eq n d t0). set (D0 := digit_at n d t0).
  assert (C : forall Dx, cand_ok f (FFin false m e) Dx t0 = true -> 0 < Dx).
  { intros Dx Hx. unfold cand_ok in Hx. destruct (Dx <=? 0) eqn:E; [discriminate|]. apply Z.leb_gt in E. exact E. }
  destruct (if 0 <=? t0 then D0 * 10 ^ t0 * d =? n else D0 * d =? n * 10 ^ (- t0)) eqn:Ex.
  - cbn [fst]. destruct (0 <=? t0) eqn:Et.
    + apply Z.leb_le in Et. apply Z.eqb_eq in Ex. assert (0 < 10 ^ t0) by (apply Z.pow_pos_nonneg; lia). nia.
    + apply Z.leb_gt in Et. apply Z.eqb_eq in Ex. assert (0 < 10 ^ (- t0)) by (apply Z.pow_pos_nonneg; lia). nia.
  - destruct (cand_ok f (FFin false m e) D0 t0) eqn:Lo; destruct (cand_ok f (FFin false m e) (D0 + 1) t0) eqn:Hi.
    + pose proof (C _ Lo). destruct (closer_low n d D0 t0); cbn [fst]; lia.
    + pose proof (C _ Lo). cbn [fst]; lia.
    + pose proof (C _ Hi). cbn [fst]; lia.
    + destruct (Z.eq_dec k ks) as [E|NE].
      * exfalso. subst ks. fold t0 in Hf, Hge.
        destruct (grid_point_rounds f m e t0 Hp Hc Hf Hge) as [PD [R|R]]; fold n d in PD, R; fold D0 in PD, R.
        -- rewrite (cand_ok_iff f m e D0 t0 PD R) in Lo. discriminate.
        -- rewrite (cand_ok_iff f m e (D0 + 1) t0 ltac:(lia) R) in Hi. discriminate.
      * apply (IH f m e lg (k + 1) ks Hp Hc); [lia | exact Hf | exact Hge].
Qed.

(* ---------- the grid is fine after enough digits ---------- *)
Lemma fine_after : forall f m e lg ks, canonical f m e -> 0 < prec f ->
  let n := fst (rat_of m e) in let d := snd (rat_of m e) in
  d * up 10 lg <= n * dn 10 lg -> 1 <= ks -> 2 * 2 ^ prec f <= 10 ^ (ks - 1) ->
  fine (lg - (ks - 1)) e /\ d * up 10 (lg - (ks - 1)) <= n * dn 10 (lg - (ks - 1)).
Proof.
  intros f m e lg ks [[Hm1 Hm2] _] Hp. cbv zeta. rewrite rat_of_updn. cbn [fst snd]. intros H1 Hks HK.
  set (p := prec f) in *. set (t := lg - (ks - 1)).
  pose proof (updn_add 10 t (ks - 1) ltac:(lia)) as A3. replace (t + (ks - 1)) with lg in A3 by (unfold t; lia).
  destruct (up_nonneg 10 (ks - 1) ltac:(lia)) as [Ek1 Ek2]. rewrite Ek1, Ek2 in A3.
  pose proof (updn_add 2 p e ltac:(lia)) as A2. destruct (up_nonneg 2 p ltac:(lia)) as [Ep1 Ep2]. rewrite Ep1, Ep2 in A2.
  pose proof (updn_add 2 (p + 2) (e - 2) ltac:(lia)) as A4. replace (p + 2 + (e - 2)) with (p + e) in A4 by lia.
  destruct (up_nonneg 2 (p + 2) ltac:(lia)) as [Eq1 Eq2]. rewrite Eq1, Eq2 in A4.
  replace (2 ^ (p + 2)) with (4 * 2 ^ p) in A4 by (rewrite Z.pow_add_r by lia; change (2 ^ 2) with 4; ring).
  pose proof (up_pos 2 e ltac:(lia)) as P1. pose proof (dn_pos 2 e ltac:(lia)) as P2.
  pose proof (up_pos 10 t ltac:(lia)) as P3. pose proof (dn_pos 10 t ltac:(lia)) as P4.
  pose proof (up_pos 2 (e - 2) ltac:(lia)) as P5. pose proof (dn_pos 2 (e - 2) ltac:(lia)) as P6.
  pose proof (up_pos 10 lg ltac:(lia)) as P7. pose proof (dn_pos 10 lg ltac:(lia)) as P8.
  pose proof (up_pos 2 (p + e) ltac:(lia)) as P9. pose proof (dn_pos 2 (p + e) ltac:(lia)) as P10.
  pose proof (pow2_pos p ltac:(lia)) as P11.
  set (xn := m * up 2 e) in *. set (xd := dn 2 e) in *. set (U := up 10 t) in *. set (V := dn 10 t) in *.
  set (u2 := up 2 (e - 2)) in *. set (d2 := dn 2 (e - 2)) in *. set (Ul := up 10 lg) in *. set (Vl := dn 10 lg) in *.
  set (Ue := up 2 (p + e)) in *. set (Ve := dn 2 (p + e)) in *. set (K := 10 ^ (ks - 1)) in *. set (Pp := 2 ^ p) in *.
  assert (Hxn : 0 < xn) by (unfold xn; nia).
  (* (A) U*K*xd <= xn*V *)
  assert (A : U * K * xd <= xn * V).
  { apply Z.mul_le_mono_pos_r with (p := Vl); [assumption|].
    replace (U * K * xd * Vl) with (xd * (U * K * Vl)) by ring. rewrite <- A3.
    replace (xd * (Ul * V * 1)) with (xd * Ul * V) by ring. replace (xn * V * Vl) with (xn * Vl * V) by ring.
    apply Z.mul_le_mono_nonneg_r; lia. }
  (* (2) xn*Ve < xd*Ue *)
  assert (B2 : xn * Ve < xd * Ue).
  { replace (xd * Ue) with (Ue * 1 * xd) by ring. rewrite A2. unfold xn.
    replace (m * up 2 e * Ve) with (m * (up 2 e * Ve)) by ring. replace (Pp * up 2 e * Ve) with (Pp * (up 2 e * Ve)) by ring.
    apply Z.mul_lt_mono_pos_r; [nia | lia]. }
  (* (B) U*K*Ve < Ue*V *)
  assert (B : U * K * Ve < Ue * V).
  { apply Z.mul_lt_mono_pos_r with (p := xd); [assumption|].
    assert (U * K * Ve * xd <= xn * V * Ve) by (replace (U * K * Ve * xd) with (U * K * xd * Ve) by ring; apply Z.mul_le_mono_nonneg_r; lia).
    assert (xn * V * Ve < Ue * V * xd) by (replace (xn * V * Ve) with (xn * Ve * V) by ring; replace (Ue * V * xd) with (xd * Ue * V) by ring; apply Z.mul_lt_mono_pos_r; lia).
    lia. }
  split.
  - unfold fine. fold t U V u2 d2.
    (* U*K*d2 < 4*Pp*u2*V *)
    assert (C1 : U * K * d2 < 4 * Pp * u2 * V).
    { apply Z.mul_lt_mono_pos_r with (p := Ve); [assumption|].
      replace (U * K * d2 * Ve) with (U * K * Ve * d2) by ring.
      replace (4 * Pp * u2 * V * Ve) with (4 * Pp * u2 * Ve * V) by ring. rewrite <- A4.
      replace (Ue * 1 * d2 * V) with (Ue * V * d2) by ring. apply Z.mul_lt_mono_pos_r; lia. }
    assert (C2 : U * (2 * Pp) * d2 <= U * K * d2).
    { apply Z.mul_le_mono_nonneg_r; [lia|]. apply Z.mul_le_mono_nonneg_l; lia. }
    assert (C3 : 2 * Pp * (U * d2) < 2 * Pp * (2 * V * u2)) by (ring_simplify; ring_simplify in C1; ring_simplify in C2; lia).
    apply Z.mul_lt_mono_pos_l in C3; lia.
  - fold t U V. assert (K1 : 1 <= K) by lia.
    assert (U * xd <= U * K * xd) by (apply Z.mul_le_mono_nonneg_r; [lia|]; nia). lia.
Qed.

(* ---------- flog10 never overestimates: 10^(flog10 x) <= x ---------- *)
Definition est10 (L : Z) : Z := L * 30103 / 100000.
Definition low_ok (L : Z) : bool := up 10 (est10 L - 2) * dn 2 (L - 1) <=? dn 10 (est10 L - 2) * up 2 (L - 1).
Definition l_range : list Z := map (fun i => Z.of_nat i - 1200) (seq 0 2401).
Lemma low_ok_sweep : forallb low_ok l_range = true.
Proof. vm_compute. reflexivity. Qed.
Lemma low_ok_all : forall L, -1200 <= L <= 1200 -> low_ok L = true.
Proof.
  intros L H. pose proof low_ok_sweep as S. rewrite forallb_forall in S. apply S. unfold l_range.
  apply in_map_iff. exists (Z.to_nat (L + 1200)). split; [lia|]. apply in_seq. lia.
Qed.

Theorem flog10_le : forall n d, 0 < n -> 0 < d -> -1200 <= Z.log2 n - Z.log2 d <= 1200 ->
  d * up 10 (flog10 n d) <= n * dn 10 (flog10 n d).
Proof.
  intros n d Hn Hd HL. unfold flog10. cbv zeta. fold (est10 (Z.log2 n - Z.log2 d)).
  set (L := Z.log2 n - Z.log2 d) in *. set (t0 := est10 L + 2).
  rewrite !le10_updn.
  destruct (d * up 10 t0 <=? n * dn 10 t0) eqn:E0; [apply Z.leb_le; exact E0|].
  destruct (d * up 10 (t0 - 1) <=? n * dn 10 (t0 - 1)) eqn:E1; [apply Z.leb_le; exact E1|].
  destruct (d * up 10 (t0 - 2) <=? n * dn 10 (t0 - 2)) eqn:E2; [apply Z.leb_le; exact E2|].
  destruct (d * up 10 (t0 - 3) <=? n * dn 10 (t0 - 3)) eqn:E3; [apply Z.leb_le; exact E3|].
  replace (t0 - 4) with (est10 L - 2) by (unfold t0; lia).
  pose proof (low_ok_all L HL) as LO. unfold low_ok in LO. apply Z.leb_le in LO.
  destruct (Z.log2_spec n Hn) as [N1 _]. destruct (Z.log2_spec d Hd) as [_ D2].
  pose proof (Z.log2_nonneg n) as Ln. pose proof (Z.log2_nonneg d) as Ld.
  pose proof (updn_add 2 (L - 1) (Z.log2 d + 1) ltac:(lia)) as A. replace (L - 1 + (Z.log2 d + 1)) with (Z.log2 n) in A by (unfold L; lia).
  destruct (up_nonneg 2 (Z.log2 n) Ln) as [E1' E2']. destruct (up_nonneg 2 (Z.log2 d + 1) ltac:(lia)) as [E3' E4'].
  rewrite E1', E2', E3', E4' in A. replace (Z.log2 d + 1) with (Z.succ (Z.log2 d)) in A by lia.
  set (T := est10 L - 2) in *.
  pose proof (up_pos 10 T ltac:(lia)) as P1. pose proof (dn_pos 10 T ltac:(lia)) as P2.
  pose proof (up_pos 2 (L - 1) ltac:(lia)) as P3. pose proof (dn_pos 2 (L - 1) ltac:(lia)) as P4.
  set (U := up 10 T) in *. set (V := dn 10 T) in *. set (u := up 2 (L - 1)) in *. set (w := dn 2 (L - 1)) in *.
  set (Pn := 2 ^ Z.log2 n) in *. set (Pd := 2 ^ Z.succ (Z.log2 d)) in *.
  apply Z.mul_le_mono_pos_r with (p := w); [assumption|].
  assert (S1 : d * U * w <= Pd * U * w) by (apply Z.mul_le_mono_nonneg_r; [lia|]; apply Z.mul_le_mono_nonneg_r; lia).
  assert (S2 : Pd * U * w <= Pd * (V * u)) by (replace (Pd * U * w) with (Pd * (U * w)) by ring; apply Z.mul_le_mono_nonneg_l; lia).
  assert (S3 : Pd * (V * u) = Pn * w * V) by (rewrite !Z.mul_1_r in A; replace (Pd * (V * u)) with (u * Pd * V) by ring; rewrite <- A; ring).
  assert (S4 : Pn * w * V <= n * V * w) by (replace (Pn * w * V) with (Pn * (w * V)) by ring; replace (n * V * w) with (n * (w * V)) by ring; apply Z.mul_le_mono_nonneg_r; nia).
  lia.
Qed.

(* ---------- every canonical value gets digits ---------- *)
Lemma rat_of_log2 : forall m e, 0 < m -> Z.log2 (fst (rat_of m e)) - Z.log2 (snd (rat_of m e)) = Z.log2 m + e.
Proof.
  intros m e Hm. unfold rat_of. destruct (Z_lt_le_dec e 0) as [C|C].
  - replace (e <? 0) with true by (symmetry; apply Z.ltb_lt; lia). cbn [fst snd]. rewrite Z.log2_pow2 by lia. lia.
  - replace (e <? 0) with false by (symmetry; apply Z.ltb_ge; lia). cbn [fst snd]. rewrite Z.log2_mul_pow2 by lia.
    change (Z.log2 1) with 0. lia.
Qed.

Theorem digits_found : forall f m e ks, 2 <= prec f -> canonical f m e ->
  -1100 <= emin f -> emax f <= 1100 -> prec f <= 64 ->
  1 <= ks <= 20 -> 2 * 2 ^ prec f <= 10 ^ (ks - 1) ->
  let n := fst (rat_of m e) in let d := snd (rat_of m e) in
  fst (shortest 20 f (FFin false m e) n d (flog10 n d) 1) <> 0.
Proof.
  intros f m e ks Hp Hc Hemin Hemax Hp64 Hks HK n d.
  assert (Hc' := Hc). destruct Hc' as [[Hm1 Hm2] [[He1 He2] _]].
  destruct (rat_of_pos m e Hm1) as [Pn Pd]. fold n d in Pn, Pd.
  assert (HL : -1200 <= Z.log2 n - Z.log2 d <= 1200).
  { unfold n, d. rewrite rat_of_log2 by assumption. pose proof (Z.log2_nonneg m).
    assert (Z.log2 m < prec f) by (apply Z.log2_lt_pow2; lia). lia. }
  pose proof (flog10_le n d Pn Pd HL) as LE.
  destruct (fine_after f m e (flog10 n d) ks Hc ltac:(lia) LE ltac:(lia) HK) as [F G].
  apply (shortest_finds 20 f m e (flog10 n d) 1 ks Hp Hc); [cbn; lia | exact F | exact G].
Qed.
Corollary digits_found_b32 : forall m e, canonical b32 m e ->
  fst (shortest 20 b32 (FFin false m e) (fst (rat_of m e)) (snd (rat_of m e)) (flog10 (fst (rat_of m e)) (snd (rat_of m e))) 1) <> 0.
Proof. intros m e Hc. apply (digits_found b32 m e 9); cbn; try lia; assumption. Qed.
Corollary digits_found_b64 : forall m e, canonical b64 m e ->
  fst (shortest 20 b64 (FFin false m e) (fst (rat_of m e)) (snd (rat_of m e)) (flog10 (fst (rat_of m e)) (snd (rat_of m e))) 1) <> 0.
Proof. intros m e Hc. apply (digits_found b64 m e 18); cbn; try lia; assumption. Qed.
