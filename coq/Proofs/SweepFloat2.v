(* TIME-OFFSET (shortest-digits writer) for every tenth with |x| <= 300.0 — float_rt evaluated for every value *)
From hls Require Import Base Float Lex Kinds Types Tags.
From hls.Proofs Require Import TagText Sweep SweepFloat.
From Coq Require Import ZArith.
Open Scope N_scope.
Lemma time_offset_tenths : forallb (fun n => float_rt (f32_of_dec false n (-1)) && float_rt (f32_of_dec true n (-1))) (range 0 (N.to_nat 3001)) = true.
Proof. vm_compute. reflexivity. Qed.
