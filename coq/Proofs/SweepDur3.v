(* durations with millisecond precision, shard 3: [9000, 12000) ms — dur_rt evaluated for every value *)
From hls Require Import Base Float Lex Kinds Types Tags.
From hls.Proofs Require Import TagText TagTextSegment Sweep.
Open Scope N_scope.
Lemma dur_ms_shard3 : forallb (fun ms => dur_rt (ms * 1000000)) (range 9000 3000) = true.
Proof. vm_compute. reflexivity. Qed.
