(* DurationText.v — the text layer of the EXTINF / duration attribute reader: a plain decimal "III.FFF" with at most nine
   fractional digits below 2^20 seconds is read to exactly that many nanoseconds (parse_dec -> dec_to_f b64 -> dur_of_f). *)
From hls Require Import Base Float Types.
From hls.Proofs Require Import FloatRound.
From Coq Require Import Lia.
Local Open Scope Z_scope.

Fixpoint zval (s : str) (acc : Z) : Z := match s with c :: r => zval r (acc * 10 + dval c) | [] => acc end.
Definition no_digit_head (s : str) : Prop := match s with c :: _ => is_digit c = false | [] => True end.

Lemma take_digits_app : forall a rest acc cnt, forallb is_digit a = true -> no_digit_head rest ->
  take_digits (a ++ rest) acc cnt = (zval a acc, cnt + Z.of_nat (List.length a), rest).
Proof.
  induction a as [|c a IH]; intros rest acc cnt Ha Hr.
  - cbn [app zval List.length]. replace (cnt + Z.of_nat 0) with cnt by lia.
    destruct rest as [|c r]; [reflexivity|]. cbn [take_digits]. cbn in Hr. rewrite Hr. reflexivity.
  - cbn [forallb] in Ha. apply andb_true_iff in Ha. destruct Ha as [Hc Ha].
    cbn [app take_digits zval]. rewrite Hc. rewrite IH by assumption. cbn [List.length]. f_equal. f_equal. lia.
Qed.
Lemma zval_app : forall a b acc, zval (a ++ b) acc = zval b (zval a acc).
Proof. induction a as [|c a IH]; intros; cbn [app zval]; auto. Qed.

Lemma digit_cases : forall c, is_digit c = true ->
  (c = 48 \/ c = 49 \/ c = 50 \/ c = 51 \/ c = 52 \/ c = 53 \/ c = 54 \/ c = 55 \/ c = 56 \/ c = 57)%N.
Proof. intros c H. unfold is_digit in H. apply andb_true_iff in H. destruct H as [A B]. apply N.leb_le in A. apply N.leb_le in B. lia. Qed.

Definition sign_split (s : str) : bool * str :=
  match s with 45%N :: r => (true, r) | 43%N :: r => (false, r) | _ => (false, s) end.
Definition parse_dec_body (neg : bool) (s1 : str) : option dec :=
  if eq_ci s1 s_nan then Some DNan else if eq_ci s1 s_inf || eq_ci s1 s_infinity then Some (DInf neg) else
  let '(ip, ic, s2) := take_digits s1 0 0 in
  let '(m, fc, s3) := match s2 with 46%N::r => let '(m,fc,s3) := take_digits r ip 0 in (m,fc,s3) | _ => (ip,0,s2) end in
  if (ic + fc =? 0) then None else
  match s3 with
  | [] => Some (DNum neg m (- fc))
  | c::r => if (lower c =? 101)%N then
      let '(eneg, r1) := match r with 45%N::r' => (true, r') | 43%N::r' => (false, r') | _ => (false, r) end in
      let '(ev, ec, r2) := take_digits r1 0 0 in
      if (ec =? 0) then None else match r2 with [] => Some (DNum neg m ((if eneg then - ev else ev) - fc)) | _ => None end
    else None
  end.
Lemma parse_dec_eq : forall s, parse_dec s = let '(neg, s1) := sign_split s in parse_dec_body neg s1.
Proof. reflexivity. Qed.
Lemma sign_split_digit : forall c (r : str), is_digit c = true -> sign_split (c :: r) = (false, c :: r).
Proof. intros c r Hc. destruct (digit_cases c Hc) as [-> | [-> | [-> | [-> | [-> | [-> | [-> | [-> | [-> | ->]]]]]]]]]; reflexivity. Qed.
Lemma eq_ci_digit : forall c (r : str), is_digit c = true ->
  eq_ci (c :: r) s_nan = false /\ eq_ci (c :: r) s_inf = false /\ eq_ci (c :: r) s_infinity = false.
Proof. intros c r Hc. destruct (digit_cases c Hc) as [-> | [-> | [-> | [-> | [-> | [-> | [-> | [-> | [-> | ->]]]]]]]]]; repeat split; reflexivity. Qed.

Lemma parse_dec_plain : forall c a b, forallb is_digit (c :: a) = true -> forallb is_digit b = true ->
  parse_dec ((c :: a) ++ 46%N :: b) = Some (DNum false (zval ((c :: a) ++ b) 0) (- Z.of_nat (List.length b))).
Proof.
  intros c a b Ha Hb. rewrite parse_dec_eq.
  assert (Hc : is_digit c = true) by (cbn [forallb] in Ha; apply andb_true_iff in Ha; tauto).
  change ((c :: a) ++ 46%N :: b) with (c :: (a ++ 46%N :: b)).
  rewrite sign_split_digit by assumption. unfold parse_dec_body.
  destruct (eq_ci_digit c (a ++ 46%N :: b) Hc) as [E1 [E2 E3]]. rewrite E1, E2, E3. cbn [orb].
  change (c :: (a ++ 46%N :: b)) with ((c :: a) ++ 46%N :: b).
  rewrite (take_digits_app (c :: a) (46%N :: b) 0 0 Ha) by reflexivity.
  cbv beta iota.
  rewrite <- (app_nil_r b) at 1. rewrite (take_digits_app b [] _ 0 Hb) by exact I.
  replace (0 + Z.of_nat (List.length (c :: a)) + (0 + Z.of_nat (List.length b)) =? 0) with false
    by (symmetry; apply Z.eqb_neq; cbn [List.length]; lia).
  rewrite zval_app. replace (0 + Z.of_nat (List.length b)) with (Z.of_nat (List.length b)) by lia. reflexivity.
Qed.

Lemma parse_dec_int : forall c a, forallb is_digit (c :: a) = true ->
  parse_dec (c :: a) = Some (DNum false (zval (c :: a) 0) 0).
Proof.
  intros c a Ha. rewrite parse_dec_eq.
  assert (Hc : is_digit c = true) by (cbn [forallb] in Ha; apply andb_true_iff in Ha; tauto).
  rewrite sign_split_digit by assumption. unfold parse_dec_body.
  destruct (eq_ci_digit c a Hc) as [E1 [E2 E3]]. rewrite E1, E2, E3. cbn [orb].
  rewrite <- (app_nil_r (c :: a)) at 1. rewrite (take_digits_app (c :: a) [] 0 0 Ha) by exact I.
  cbv beta iota.
  replace (0 + Z.of_nat (List.length (c :: a)) + 0 =? 0) with false by (symmetry; apply Z.eqb_neq; cbn [List.length]; lia).
  reflexivity.
Qed.

Lemma zval_nonneg : forall s acc, 0 <= acc -> 0 <= zval s acc.
Proof. induction s as [|c s IH]; intros acc H; cbn [zval]; [assumption|]. apply IH. unfold dval. lia. Qed.

(* "III.FFF": at most nine fractional digits, value below 2^20 s: exact nanoseconds *)
Theorem parse_duration_plain : forall c a b, forallb is_digit (c :: a) = true -> forallb is_digit b = true ->
  (List.length b <= 9)%nat ->
  let m := zval ((c :: a) ++ b) 0 in let fc := Z.of_nat (List.length b) in
  m < 1048576 * 10 ^ fc ->
  parse_duration ((c :: a) ++ 46%N :: b) = Ok (Z.to_N (m * 10 ^ (9 - fc))).
Proof.
  intros c a b Ha Hb Hl m fc Hm. unfold parse_duration. rewrite parse_dec_plain by assumption. fold m. fold fc.
  assert (M0 : 0 <= m) by (apply zval_nonneg; lia).
  destruct (Z.eq_dec m 0) as [E|E].
  - rewrite E. cbn. reflexivity.
  - rewrite dec_duration_exact by lia. reflexivity.
Qed.
Theorem parse_duration_int : forall c a, forallb is_digit (c :: a) = true ->
  let m := zval (c :: a) 0 in m < 1048576 ->
  parse_duration (c :: a) = Ok (Z.to_N (m * 1000000000)).
Proof.
  intros c a Ha m Hm. unfold parse_duration. rewrite parse_dec_int by assumption. fold m.
  assert (M0 : 0 <= m) by (apply zval_nonneg; lia).
  destruct (Z.eq_dec m 0) as [E|E].
  - rewrite E. cbn. reflexivity.
  - pose proof (dec_duration_exact m 0 ltac:(lia) ltac:(lia) ltac:(change (10 ^ 0) with 1; lia)) as D.
    change (- 0) with 0 in D. rewrite D. reflexivity.
Qed.

(* ---------- the target-duration comparison on the decimal text ---------- *)
From hls Require Import Lex Kinds Tags Line Keys Media.
From Coq Require Import ZifyN ZifyBool.
Local Open Scope Z_scope.
Lemma rounded_le_iff : forall d T : N,
  (rounded_ns d <= T * 1000000000 <-> d < T * 1000000000 + 500000000)%N.
Proof.
  intros d T. unfold rounded_ns.
  pose proof (N.div_mod (d + 500000000) 1000000000 ltac:(lia))%N as E.
  pose proof (N.mod_lt (d + 500000000) 1000000000 ltac:(lia))%N as B.
  set (q := ((d + 500000000) / 1000000000)%N) in *. split; intros H; nia.
Qed.

(* for "III.FFF" (<= 9 fractional digits, below 2^20 s): the rounded duration is within T whole seconds
   iff the decimal number itself is below T + 1/2 — no f64 artefact moves the boundary *)
Theorem duration_text_boundary : forall c a b (T : N), forallb is_digit (c :: a) = true -> forallb is_digit b = true ->
  (List.length b <= 9)%nat ->
  let m := zval ((c :: a) ++ b) 0 in let fc := Z.of_nat (List.length b) in
  m < 1048576 * 10 ^ fc ->
  exists d, parse_duration ((c :: a) ++ 46%N :: b) = Ok d /\
    ((rounded_ns d <= T * 1000000000)%N <-> 2 * m < (2 * Z.of_N T + 1) * 10 ^ fc).
Proof.
  intros c a b T Ha Hb Hl m fc Hm.
  exists (Z.to_N (m * 10 ^ (9 - fc))). split; [apply parse_duration_plain; assumption|].
  rewrite rounded_le_iff.
  assert (M0 : 0 <= m) by (apply zval_nonneg; lia).
  assert (Hfc : 0 <= fc <= 9) by lia.
  assert (P : 10 ^ fc * 10 ^ (9 - fc) = 1000000000).
  { rewrite <- Z.pow_add_r by lia. replace (fc + (9 - fc)) with 9 by lia. reflexivity. }
  assert (P1 : 0 < 10 ^ fc) by (apply Z.pow_pos_nonneg; lia).
  assert (P2 : 0 < 10 ^ (9 - fc)) by (apply Z.pow_pos_nonneg; lia).
  set (u := 10 ^ fc) in *. set (v := 10 ^ (9 - fc)) in *.
  split; intros H.
  - assert (H' : m * v < Z.of_N T * 1000000000 + 500000000) by lia.
    assert (2 * m * v < (2 * Z.of_N T + 1) * u * v) by nia. nia.
  - assert (2 * m * v < (2 * Z.of_N T + 1) * u * v) by nia.
    assert (m * v < Z.of_N T * 1000000000 + 500000000) by nia. lia.
Qed.
