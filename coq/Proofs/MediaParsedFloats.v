(* MediaParsedFloats.v — the float / duration parts of `media_domain` hold for every parse result whose durations are below
   2^20 s: the floats of a parse result (TIME-OFFSET, client attributes of date ranges) come out of `parse_float`, hence survive
   the writer and the reader (FloatAll); what remains of the domain is a bound on durations and the SCTE35 values being plain. *)
From hls Require Import Base Float Lex Kinds Types Tags Line Keys Media Master.
From hls.Generated Require Import Tables.
From hls.Spec Require Import KeySpec.
From hls.Proofs Require Import EqFacts KeysProof C06 Build Parse MediaProps C11 C03 C16 C12 C14 Lexical Values TextLines
  AttrText TagText TagTextMedia TagTextVariant MasterText ParsedWf TagTextSegment TagTextDateRange MediaText C03Items ParsedBuilt
  MediaParsedWf FloatAll.
From Coq Require Import Lia.
Open Scope N_scope.

Theorem parsed_float_domain : forall s x, parse_float s = Ok x ->
  parse_float (print_f32 x) = Ok x /\ float_rt x = true /\ value_domain (VFloat x) = true.
Proof.
  intros s x H. destruct (parsed_float_roundtrip s x H) as [A [B [C D]]]. split; [exact A|]. split; [exact B|].
  cbn [value_domain]. rewrite B, C, D. reflexivity.
Qed.
Lemma parsed_value_domain : forall s v, parse_value s = Ok v -> value_domain v = true.
Proof.
  intros s v H. unfold parse_value in H. destruct (starts_with s_0x s || starts_with s_0X s).
  - destruct (hex_decode _); [|discriminate]. inversion H; subst. reflexivity.
  - destruct (parse_float s) as [x| |] eqn:E; inversion H; subst; try reflexivity. apply (parsed_float_domain s x E).
Qed.

(* ---------- date ranges and EXT-X-START as parsed ---------- *)
Definition cdom (l : list (str * Value)) : bool := forallb (fun kv => value_domain (snd kv)) l.
Lemma dr_attr_cdom : forall a kv a', cdom (da_client a) = true -> dr_attr a kv = Ok a' -> cdom (da_client a') = true.
Proof.
  intros a [k v] a' A H. unfold dr_attr in H.
  Ltac dc_fin H := inversion H; subst; cbn [da_client]; assumption.
  destruct (str_eqb k s_ID); [dc_fin H|].
  destruct (str_eqb k s_CLASS); [dc_fin H|].
  destruct (str_eqb k s_START_DATE); [dc_fin H|].
  destruct (str_eqb k s_END_DATE); [dc_fin H|].
  destruct (str_eqb k s_DURATION); [apply bind_ok in H; destruct H as [x [_ H]]; dc_fin H|].
  destruct (str_eqb k s_PLANNED_DURATION); [apply bind_ok in H; destruct H as [x [_ H]]; dc_fin H|].
  destruct (str_eqb k s_SCTE35_CMD); [dc_fin H|].
  destruct (str_eqb k s_SCTE35_OUT); [dc_fin H|].
  destruct (str_eqb k s_SCTE35_IN); [dc_fin H|].
  destruct (str_eqb k s_END_ON_NEXT); [destruct (str_eqb v s_YES); [dc_fin H | discriminate]|].
  destruct (starts_with s_Xdash k); [|dc_fin H].
  destruct (any_char bad_client_char k); [discriminate|].
  apply bind_ok in H. destruct H as [val [Hv H]]. inversion H; subst. cbn [da_client].
  unfold cdom in *. rewrite forallb_forall in *. intros [k2 v2] Hin. destruct (btree_insert_keys _ _ _ _ Hin) as [Heq | Hin'].
  - inversion Heq; subst. cbn [snd]. apply (parsed_value_domain _ _ Hv).
  - apply (A _ Hin').
Qed.
Theorem parsed_daterange_cdom : forall l d, parse_daterange l = Ok d -> cdom (dr_client d) = true.
Proof.
  intros l d H. unfold parse_daterange in H. apply bind_ok in H. destruct H as [rest [_ H]].
  apply bind_ok in H. destruct H as [a [Ha H]].
  assert (A : cdom (da_client a) = true).
  { refine (fold_res_inv _ _ dr_attr (fun a => cdom (da_client a) = true) dr_attr_cdom _ _ _ _ Ha). reflexivity. }
  destruct (da_id a) as [id|]; [|discriminate]. cbn [of_opt bind] in H.
  destruct (da_eon a && negb (is_some (da_class a))); [discriminate|].
  destruct (da_eon a && is_some (da_duration a)); [discriminate|].
  destruct (da_eon a && is_some (da_end a)); [discriminate|].
  inversion H; subst d. exact A.
Qed.
Theorem parsed_start_wf : forall l st, parse_start l = Ok st -> wf_start st = true.
Proof.
  intros l st H. unfold parse_start in H. apply bind_ok in H. destruct H as [rest [_ H]].
  apply bind_ok in H. destruct H as [a [Ha H]].
  assert (A : match fst a with Some x => float_rt x = true | None => True end).
  { refine (fold_res_inv _ _ start_attr (fun a => match fst a with Some x => float_rt x = true | None => True end) _ _ _ _ _ Ha); [|exact I].
    intros a0 [k v] a1 P Hs. unfold start_attr in Hs. destruct (str_eqb k s_TIME_OFFSET).
    - apply bind_ok in Hs. destruct Hs as [x [Hx Hs]]. inversion Hs; subst. cbn [fst]. apply (parsed_float_domain v x Hx).
    - destruct (str_eqb k s_PRECISE).
      + apply bind_ok in Hs. destruct Hs as [b [_ Hs]]. inversion Hs; subst. cbn [fst]. exact P.
      + inversion Hs; subst. exact P. }
  destruct (fst a) as [x|]; [|discriminate]. cbn [of_opt bind] in H. inversion H; subst. unfold wf_start. cbn [st_offset]. exact A.
Qed.

(* ---------- items and parser state ---------- *)
Definition item_fd (l : line) : Prop :=
  match l with
  | LTag (TDateRange d) => cdom (dr_client d) = true
  | LTag (TStart st) => wf_start st = true
  | _ => True
  end.
Lemma parse_kind_item_fd : forall k l t, parse_kind k l = Ok t -> item_fd (LTag t).
Proof.
  intros k l t H.
  destruct k; cbn [parse_kind] in H;
    try (apply rmap_ok in H; destruct H as [a [Ha ->]]; cbn [item_fd]; try exact I).
  - apply (parsed_daterange_cdom l a Ha).
  - apply (parsed_start_wf l a Ha).
  - destruct (is_ok (tag l pfx_VariantStream_EXTXIFRAME)); [|discriminate].
    apply rmap_ok in H. destruct H as [a [Ha ->]]. exact I.
  - inversion H; subst. exact I.
Qed.
Lemma items_item_fd : forall ls l, In (Ok l) (items ls) -> item_fd l.
Proof.
  fix IH 1. intros ls l Hin. destruct ls as [|x rest]; cbn [items] in Hin; [destruct Hin|].
  destruct (starts_with pairing_prefix x).
  - destruct rest as [|u rest'].
    + destruct missing_uri_is_error; cbn [In] in Hin; [destruct Hin as [H|H]; [discriminate|destruct H] | destruct Hin].
    + cbn [In] in Hin. destruct Hin as [H | Hin].
      * apply rmap_ok in H. destruct H as [v [Hv ->]]. exact I.
      * apply (IH rest' l Hin).
  - destruct (starts_with s_hashEXT x).
    + cbn [In] in Hin. destruct Hin as [H | Hin]; [|exact (IH rest l Hin)].
      apply rmap_ok in H. destruct H as [t [Ht ->]]. apply (parse_kind_item_fd (classify x) x t Ht).
    + destruct (starts_with [35] x); cbn [In] in Hin.
      * destruct Hin as [H | Hin]; [inversion H; exact I | exact (IH rest l Hin)].
      * destruct Hin as [H | Hin]; [inversion H; exact I | exact (IH rest l Hin)].
Qed.

Definition odr_fd (o : option DateRange) : Prop := match o with Some d => cdom (dr_client d) = true | None => True end.
Definition finv (s : pstate) : Prop :=
  odr_fd (sa_daterange (ps_seg s)) /\ Forall (fun sg => odr_fd (sg_daterange sg)) (ps_segs s)
  /\ match b_start (ps_b s) with Some (Some st) => wf_start st = true | _ => True end.
Lemma step_finv : forall s l s', finv s -> item_fd l -> step s l = Ok s' -> finv s'.
Proof.
  intros s l s' [F1 [F2 F3]] Hl H. destruct l as [t| |u]; unfold step in H.
  - destruct (in_kinds (kind_of t) media_rejects); [discriminate|].
    destruct t; cbn [step_tag set_seg set_b] in H; cbn [item_fd] in Hl;
      repeat match type of H with context [if ?c then _ else _] => destruct c end;
      try discriminate; inversion H; subst; unfold finv;
      cbn [ps_seg ps_segs ps_b sa_daterange b_start odr_fd]; repeat split; assumption.
  - inversion H; subst. repeat split; assumption.
  - destruct (sa_inf (ps_seg s)) as [i|]; cbn [of_opt bind] in H; [|discriminate]. inversion H; subst.
    unfold finv. cbn [ps_seg ps_segs ps_b seg_empty sa_daterange odr_fd]. repeat split; try assumption.
    constructor; [cbn [sg_daterange]; exact F1 | exact F2].
Qed.
Lemma run_lines_finv : forall ls s s', finv s -> (forall l, In (Ok l) ls -> item_fd l) -> run_lines s ls = Ok s' -> finv s'.
Proof.
  induction ls as [|r ls IH]; intros s s' Hm Hall H; cbn [run_lines] in H.
  - inversion H; subst. exact Hm.
  - apply bind_ok in H. destruct H as [l [Hr H]]. subst r. apply bind_ok in H. destruct H as [s1 [Hs1 H]].
    apply (IH s1 s'); [|intros y Hy; apply Hall; right; exact Hy | exact H].
    apply (step_finv s l s1 Hm); [apply Hall; left; reflexivity | exact Hs1].
Qed.
Lemma init_finv : finv (init_state mb_default).
Proof. unfold finv, init_state, mb_default, seg_empty. cbn. repeat split; constructor. Qed.

(* build() copies the date range of every slot *)
Lemma build_loop_dr : forall raws i mseq prev out, build_loop (map Some raws) i mseq prev = Ok out ->
  exists segs, out = map Some segs /\ map sg_daterange segs = map sg_daterange raws.
Proof.
  induction raws as [|s raws IH]; intros i mseq prev out H.
  - inversion H. exists []. split; reflexivity.
  - cbn [map build_loop] in H.
    apply bind_ok in H. destruct H as [num [_ H]]. apply bind_ok in H. destruct H as [rg [_ H]].
    apply bind_ok in H. destruct H as [t [Ht H]]. inversion H; subst out. clear H.
    destruct (IH _ _ _ _ Ht) as [segs [-> E]].
    eexists (_ :: segs). split; [reflexivity|]. cbn [map sg_daterange]. rewrite E. reflexivity.
Qed.

(* ---------- the domain of a parse result, without floats ---------- *)
Definition dur_small (n : N) : bool := n <? 1048576 * 1000000000.
Definition odur_small (o : option N) : bool := match o with Some n => dur_small n | None => true end.
Definition dr_small (d : DateRange) : bool :=
  odur_small (dr_duration d) && odur_small (dr_planned d) && raw_ok (dr_cmd d) && raw_ok (dr_out d) && raw_ok (dr_in d).
Definition seg_small (s : Segment) : bool := dur_small (inf_dur (sg_inf s)) && oopt (sg_daterange s) dr_small.
Definition media_small (p : MediaPlaylist) : bool := forallb seg_small (mp_segs p).

Lemma odur_of_small : forall o, odur_small o = true -> odur o = true.
Proof. intros [n|] H; [|reflexivity]. cbn [odur]. apply dur_rt_small. apply N.ltb_lt. exact H. Qed.

Theorem parsed_media_domain : forall s p, parse_media s = Ok p -> media_small p = true -> media_domain p = true.
Proof.
  intros s p H Hd. unfold parse_media, parse_media_with in H. apply bind_ok in H. destruct H as [rest [_ H]].
  destruct (parse_items_inv _ _ _ H) as [st [Hr [Hpart Hf]]].
  assert (Hall : forall l, In (Ok l) (lines_of rest) -> item_fd l).
  { intros l Hl. unfold lines_of in Hl. apply (items_item_fd (clean_lines rest) l Hl). }
  destruct (run_lines_finv _ _ _ init_finv Hall Hr) as [_ [Fsegs Fst]].
  unfold finish_media in Hf. rewrite Hpart in Hf.
  destruct (build_fields _ _ Hf) as [_ [_ [_ [F4 _]]]]. cbn [b_start] in F4.
  apply build_ok_inv in Hf. cbn [b_target b_segments b_mseq b_excess] in Hf.
  destruct Hf as [t [slots [slots' [Ht [Hs [Hv [Hl [Hc [Hp [Hm [Htt _]]]]]]]]]]].
  inversion Hs; subst slots. clear Hs.
  destruct (build_loop_dr _ _ _ _ _ Hl) as [segs [-> Edr]].
  rewrite present_map_some in Hp.
  unfold media_domain. apply andb_true_iff. split.
  - rewrite F4. destruct (b_start (ps_b st)) as [[st0|]|]; cbn [odef oopt]; try reflexivity. exact Fst.
  - unfold media_small in Hd. rewrite Hp in *. rewrite forallb_forall in *. intros x Hx. specialize (Hd x Hx).
    unfold seg_small in Hd. apply andb_true_iff in Hd. destruct Hd as [D1 D2].
    unfold seg_domain. rewrite (dur_rt_small _ (proj1 (N.ltb_lt _ _) D1)). cbn [andb].
    destruct (sg_daterange x) as [d|] eqn:Ed; [|reflexivity]. cbn [oopt] in *.
    assert (Cd : cdom (dr_client d) = true).
    { assert (Hin : In (Some d) (map sg_daterange segs)) by (rewrite <- Ed; apply in_map; exact Hx).
      rewrite Edr in Hin. apply in_map_iff in Hin. destruct Hin as [raw [Er Hraw]].
      rewrite Forall_forall in Fsegs. specialize (Fsegs raw (proj2 (in_rev _ _) Hraw)). rewrite Er in Fsegs. exact Fsegs. }
    unfold dr_small in D2. repeat (apply andb_true_iff in D2; let H2 := fresh "E" in destruct D2 as [D2 H2]).
    unfold dr_domain. rewrite (odur_of_small _ D2), (odur_of_small _ E2), E1, E0, E. cbn [andb]. exact Cd.
Qed.

(* ---------- the round trip of a parse result, with no hypothesis on floats ---------- *)
Theorem parsed_media_roundtrip_small : forall s p, parse_media s = Ok p -> media_small p = true ->
  parse_media (print_media p) = Ok (reread p)
  /\ mp_target (reread p) = mp_target p /\ mp_mseq (reread p) = mp_mseq p /\ mp_dseq (reread p) = mp_dseq p
  /\ mp_ptype (reread p) = mp_ptype p /\ mp_iframes (reread p) = mp_iframes p /\ mp_indep (reread p) = mp_indep p
  /\ mp_start (reread p) = mp_start p /\ mp_endlist (reread p) = mp_endlist p /\ mp_unknown (reread p) = mp_unknown p
  /\ Forall2 seg_same (mp_segs (reread p)) (mp_segs p).
Proof.
  intros s p H Hs. apply (parsed_media_roundtrip s p H). apply (parsed_media_wf s p H). apply (parsed_media_domain s p H Hs).
Qed.

(* the slid window of a parse result, with no hypothesis on floats *)
From hls.Proofs Require Import Slide.
Theorem slide_roundtrip_small : forall s p k, parse_media s = Ok p -> media_small p = true -> (k < List.length (mp_segs p))%nat ->
  parse_media (print_media (slide k p)) = Ok (reread (slide k p))
  /\ mp_mseq (reread (slide k p)) = mp_mseq p + N.of_nat k
  /\ Forall2 seg_same (mp_segs (reread (slide k p))) (skipn k (mp_segs p)).
Proof.
  intros s p k H Hs Hk. destruct (parsed_media_built s p H) as [raws Hb].
  exact (slide_roundtrip p raws k (parsed_media_wf s p H (parsed_media_domain s p H Hs)) Hb Hk).
Qed.

(* ---------- master playlists: the TIME-OFFSET of a parse result needs no hypothesis ---------- *)
Definition mstart_ok (s : mstate) : Prop := match ms_start s with Some st => wf_start st = true | None => True end.
Lemma mstep_start : forall s l s', mstart_ok s -> item_fd l -> mstep s l = Ok s' -> mstart_ok s'.
Proof.
  intros s l s' A Hl H. destruct l as [t| |u]; cbn [mstep] in H; try discriminate.
  - destruct (in_kinds (kind_of t) master_rejects); [discriminate|].
    destruct t; try discriminate; inversion H; subst; unfold mstart_ok in *; cbn [ms_start]; cbn [item_fd] in Hl; assumption.
  - inversion H; subst. exact A.
Qed.
Lemma mrun_lines_start : forall ls s s', mstart_ok s -> (forall l, In (Ok l) ls -> item_fd l) -> mrun_lines s ls = Ok s' -> mstart_ok s'.
Proof.
  induction ls as [|r ls IH]; intros s s' Hs Hall H; cbn [mrun_lines] in H.
  - inversion H; subst. exact Hs.
  - apply bind_ok in H. destruct H as [l [Hr H]]. subst r. apply bind_ok in H. destruct H as [s1 [Hs1 H]].
    apply (IH s1 s'); [|intros y Hy; apply Hall; right; exact Hy | exact H].
    apply (mstep_start s l s1 Hs); [apply Hall; left; reflexivity | exact Hs1].
Qed.
Definition rates_ok (p : MasterPlaylist) : bool := forallb floats_variant (ma_variants p).
Theorem parsed_master_floats : forall s p, parse_master s = Ok p -> rates_ok p = true -> floats_master p = true.
Proof.
  intros s p H Hr. unfold parse_master in H. apply bind_ok in H. destruct H as [rest [_ H]].
  unfold parse_master_items in H. apply bind_ok in H. destruct H as [st [Hrun H]].
  assert (Hall : forall l, In (Ok l) (lines_of rest) -> item_fd l).
  { intros l Hl. unfold lines_of in Hl. apply (items_item_fd (clean_lines rest) l Hl). }
  pose proof (mrun_lines_start _ _ _ (I : mstart_ok ms_init) Hall Hrun) as A.
  unfold finish_master in H.
  match type of H with (if validate_master ?q then _ else _) = _ => destruct (validate_master q); [|discriminate] end.
  inversion H; subst. unfold floats_master. unfold rates_ok in Hr. cbn [ma_variants ma_start] in *. rewrite Hr. cbn [andb].
  unfold mstart_ok in A. destruct (ms_start st); [exact A | reflexivity].
Qed.
Theorem parsed_master_roundtrip_rates : forall s p, parse_master s = Ok p -> rates_ok p = true ->
  parse_master (print_master p) = Ok p.
Proof. intros s p H Hr. apply (parsed_master_roundtrip s p H). apply (parsed_master_floats s p H Hr). Qed.
