(* Build.v — MediaPlaylistBuilder::build: numbering, IV derivation, byte-range completion,
   prefix stability, absence of panics. *)
From hls Require Import Base Float Lex Kinds Types Tags Line Keys Media.
From hls.Generated Require Import Tables.
From hls.Proofs Require Import EqFacts.
From Coq Require Import Lia ZifyN ZifyBool.
Ltac Zify.zify_post_hook ::= Z.div_mod_to_equations.
Open Scope N_scope.

(* ---------- res plumbing ---------- *)
Lemma bind_ok : forall A B (r : res A) (f : A -> res B) b,
  bind r f = Ok b -> exists a, r = Ok a /\ f a = Ok b.
Proof. intros A B [a| |] f b H; simpl in H; try discriminate. eauto. Qed.

(* ---------- what one step of the loop does to a segment ---------- *)
Definition same_content (s s' : Segment) : Prop :=
  sg_uri s' = sg_uri s /\ sg_inf s' = sg_inf s /\ sg_map s' = sg_map s /\ sg_daterange s' = sg_daterange s
  /\ sg_disc s' = sg_disc s /\ sg_pdt s' = sg_pdt s /\ sg_explicit s' = sg_explicit s.

(* the loop over a slot list in which every slot is filled *)
Lemma build_loop_all_some : forall segs i seq prev r,
  build_loop (map Some segs) i seq prev = Ok r ->
  exists segs', r = map Some segs' /\ List.length segs' = List.length segs.
Proof.
  induction segs as [|s segs IH]; simpl; intros i seq prev r H.
  - inversion H. exists []. auto.
  - apply bind_ok in H. destruct H as [num [Hn H]].
    apply bind_ok in H. destruct H as [rg [Hr H]].
    apply bind_ok in H. destruct H as [t [Ht H]].
    inversion H; subst r. destruct (IH _ _ _ _ Ht) as [segs' [-> Hl]].
    eexists (_ :: segs'). split; [reflexivity | simpl; congruence].
Qed.

(* numbers, keys and untouched fields, position by position *)
Lemma build_loop_nth : forall segs i seq prev segs',
  build_loop (map Some segs) i seq prev = Ok (map Some segs') ->
  forall k s, nth_error segs k = Some s ->
  exists s', nth_error segs' k = Some s' /\ same_content s s'
    /\ sg_number s' = (if sg_explicit s then sg_number s else i + N.of_nat k + seq)
    /\ sg_keys s' = map (derive_iv (sg_number s')) (sg_keys s).
Proof.
  induction segs as [|s0 segs IH]; simpl; intros i seq prev segs' H k s Hk.
  - destruct k; discriminate.
  - apply bind_ok in H. destruct H as [num [Hn H]].
    apply bind_ok in H. destruct H as [rg [Hr H]].
    apply bind_ok in H. destruct H as [t [Ht H]].
    inversion H as [H1]. destruct segs' as [|s0' segs']; [discriminate|].
    simpl in H1. inversion H1; subst. clear H1 H.
    destruct k as [|k]; simpl in Hk.
    + inversion Hk; subst s. eexists. split; [reflexivity|]. simpl.
      split; [unfold same_content; simpl; tauto|].
      split; [|reflexivity].
      destruct (sg_explicit s0).
      * inversion Hn; reflexivity.
      * destruct (i + seq <? two64); inversion Hn. lia.
    + destruct (IH _ _ _ _ Ht k s Hk) as [s' [Hs' [Hc [Hnum Hkeys]]]].
      exists s'. split; [exact Hs'|]. split; [exact Hc|]. split; [|exact Hkeys].
      rewrite Hnum. destruct (sg_explicit s); [reflexivity|]. lia.
Qed.

(* ---------- IV derivation rule ---------- *)
Lemma derive_iv_spec : forall num d,
  derive_iv num (Some d) =
  Some {| k_method := k_method d; k_uri := k_uri d;
          k_iv := if (k_method d =? m_aes128)
                     && (match k_iv d with IvMissing => true | _ => false end)
                     && (match k_format d with None | Some KfIdentity => true | _ => false end)
                  then IvNumber num else k_iv d;
          k_format := k_format d; k_versions := k_versions d |}.
Proof.
  intros num d. unfold derive_iv.
  destruct ((k_method d =? m_aes128) && _ && _); [reflexivity|].
  destruct d; reflexivity.
Qed.
Lemma derive_iv_none : forall num, derive_iv num None = None.
Proof. reflexivity. Qed.
(* an explicit IV is never touched *)
Lemma derive_iv_explicit : forall num d bs, k_iv d = IvAes bs -> derive_iv num (Some d) = Some d.
Proof.
  intros num d bs H. unfold derive_iv. rewrite H. rewrite andb_false_r. reflexivity.
Qed.

(* big-endian 128-bit value of a derived IV *)
Lemma be_val_app : forall a b acc, be_val (a ++ b) acc = be_val b (be_val a acc).
Proof. induction a as [|x a IH]; simpl; intros; [reflexivity | apply IH]. Qed.
Lemma be_bytes_val : forall n v acc, be_val (be_bytes n v acc) 0 = be_val acc (v mod 256 ^ N.of_nat n).
Proof.
  induction n as [|n IH]; intros v acc.
  - simpl. rewrite N.mod_1_r. reflexivity.
  - cbn [be_bytes]. rewrite IH. cbn [be_val]. f_equal.
    replace (N.of_nat (S n)) with (N.succ (N.of_nat n)) by lia.
    rewrite N.pow_succ_r'.
    assert (H256 : 256 ^ N.of_nat n <> 0) by (apply N.pow_nonzero; lia).
    rewrite N.mod_mul_r by lia. lia.
Qed.
(* to_slice then to_u128 of a derived IV gives the segment number back (128-bit) *)
Lemma be_roundtrip_128 : forall v, v < two128 -> be_val (be_bytes 16 v []) 0 = v.
Proof.
  intros v H. rewrite be_bytes_val. cbn [be_val].
  apply N.mod_small. unfold two128 in H. exact H.
Qed.

(* ---------- byte ranges ---------- *)
(* RFC 8216 4.3.2.2 as a specification: `prev` = (URI, end) of the immediately preceding
   segment if that was a sub-range *)
Fixpoint resolve (segs : list Segment) (prev : option (str * N)) : option (list (option ByteRange)) :=
  match segs with
  | [] => Some []
  | s :: r =>
      match sg_range s with
      | None => omap (cons None) (resolve r None)
      | Some rg =>
          match br_start rg with
          | Some st => omap (cons (Some rg)) (resolve r (Some (sg_uri s, br_end rg)))
          | None =>
              match prev with
              | Some (u, e) =>
                  if str_eqb u (sg_uri s)
                  then let rg' := {| br_start := Some e; br_end := e + br_end rg |} in
                       omap (cons (Some rg')) (resolve r (Some (sg_uri s, br_end rg')))
                  else None
              | None => None
              end
          end
      end
  end.

(* validation accepts exactly the resolvable chains *)
Lemma ranges_ok_resolve : forall segs lu prev,
  (match lu with Some u => exists e, prev = Some (u, e) | None => prev = None end) ->
  (ranges_ok segs lu = true <-> resolve segs prev <> None).
Proof.
  induction segs as [|s segs IH]; intros lu prev Hrel; simpl.
  - split; [discriminate | reflexivity].
  - destruct (sg_range s) as [rg|].
    + destruct (br_start rg) as [st|].
      * specialize (IH (Some (sg_uri s)) (Some (sg_uri s, br_end rg))).
        rewrite IH by eauto.
        destruct (resolve segs _); simpl; split; congruence.
      * destruct lu as [u|].
        -- destruct Hrel as [e ->]. rewrite andb_true_iff.
           destruct (str_eqb u (sg_uri s)) eqn:E.
           ++ apply str_eqb_eq in E. subst u.
              specialize (IH (Some (sg_uri s)) (Some (sg_uri s, e + br_end rg))).
              rewrite IH by eauto. cbn [br_end].
              destruct (resolve segs _); simpl; intuition congruence.
           ++ split; [intros [H _]; discriminate | congruence].
        -- subst prev. split; [discriminate | congruence].
    + specialize (IH None None). rewrite IH by reflexivity.
      destruct (resolve segs None); simpl; split; congruence.
Qed.

(* ranges of the built segments are the resolved ones (no saturation inside the domain) *)
Definition range_of (s : Segment) := sg_range s.
Lemma build_loop_ranges : forall segs i seq prevR lu prevS segs' rs,
  ranges_ok segs lu = true ->
  (match lu with
   | Some u => exists p, prevR = Some p /\ prevS = Some (u, br_end p)
   | None => prevS = None
   end) ->
  resolve segs prevS = Some rs ->
  (forall r, In (Some r) rs -> br_end r <= usize_max) ->
  build_loop (map Some segs) i seq prevR = Ok (map Some segs') ->
  map sg_range segs' = rs.
Proof.
  induction segs as [|s segs IH]; simpl; intros i seq prevR lu prevS segs' rs Hok Hrel Hres Hb H.
  - inversion Hres; subst. destruct segs'; [reflexivity | discriminate].
  - apply bind_ok in H. destruct H as [num [Hn H]].
    apply bind_ok in H. destruct H as [rg' [Hr H]].
    apply bind_ok in H. destruct H as [t [Ht H]].
    inversion H as [H1]. destruct segs' as [|s0' segs']; [discriminate|].
    simpl in H1. inversion H1; subst t. subst s0'. clear H1 H. cbn [map sg_range].
    destruct (sg_range s) as [rg|] eqn:Erg.
    + destruct (br_start rg) as [st|] eqn:Est.
      * apply bind_ok in Hr. destruct Hr as [c [Hc Hr]]. inversion Hr; subst rg'. clear Hr.
        unfold complete_range in Hc. rewrite Est in Hc. inversion Hc; subst c.
        destruct (resolve segs (Some (sg_uri s, br_end rg))) as [rs0|] eqn:E0; simpl in Hres; [|discriminate].
        inversion Hres; subst rs. f_equal.
        eapply (IH _ _ _ (Some (sg_uri s))); try eassumption.
        -- exists rg. split; reflexivity.
        -- intros r Hin. apply Hb. right; assumption.
      * destruct lu as [u|]; [|discriminate].
        destruct Hrel as [p [-> ->]].
        apply andb_true_iff in Hok. destruct Hok as [Eu Hok]. rewrite Eu in Hres.
        apply str_eqb_eq in Eu. subst u.
        destruct (resolve segs (Some (sg_uri s, br_end p + br_end rg))) as [rs0|] eqn:E0;
          cbn [br_end] in Hres; rewrite ?E0 in Hres; simpl in Hres; [|discriminate].
        inversion Hres; subst rs. clear Hres.
        assert (Hle : br_end p + br_end rg <= usize_max).
        { specialize (Hb {| br_start := Some (br_end p); br_end := br_end p + br_end rg |}).
          cbn [br_end] in Hb. apply Hb. left; reflexivity. }
        apply bind_ok in Hr. destruct Hr as [c [Hc Hr]]. inversion Hr; subst rg'. clear Hr.
        unfold complete_range in Hc. rewrite Est in Hc.
        assert (Emin : N.min (br_end rg + br_end p) usize_max = br_end p + br_end rg) by lia.
        rewrite Emin in Hc.
        destruct (br_end p + br_end rg <? br_end p) eqn:El; [lia|].
        inversion Hc; subst c. f_equal.
        eapply (IH _ _ _ (Some (sg_uri s))); try eassumption.
        -- eexists. split; reflexivity.
        -- intros r Hin. apply Hb. right; assumption.
    + inversion Hr; subst rg'.
      destruct (resolve segs None) as [rs0|] eqn:E0; simpl in Hres; [|discriminate].
      inversion Hres; subst rs. f_equal.
      eapply (IH _ _ _ None); try eassumption.
      -- reflexivity.
      -- intros r Hin. apply Hb. right; assumption.
Qed.

(* ---------- the loop never panics on ranges that fit the integer type ---------- *)
Definition seg_bounded (s : Segment) : Prop :=
  match sg_range s with Some r => br_end r <= usize_max | None => True end.
Lemma complete_range_no_panic : forall r prev,
  (match prev with Some p => br_end p <= usize_max | None => True end) ->
  complete_range r prev <> Panic /\
  (forall c, complete_range r prev = Ok c -> br_end r <= usize_max -> br_end c <= usize_max).
Proof.
  intros r prev Hp. unfold complete_range.
  destruct (br_start r).
  - split; [discriminate | intros c H; inversion H; auto].
  - destruct prev as [p|].
    + destruct (N.min (br_end r + br_end p) usize_max <? br_end p) eqn:E; [lia|].
      split; [discriminate|]. intros c H. inversion H; subst; simpl. lia.
    + split; [discriminate | intros c H; inversion H; auto].
Qed.

Lemma bind_np : forall A B (r : res A) (f : A -> res B),
  r <> Panic -> (forall a, r = Ok a -> f a <> Panic) -> bind r f <> Panic.
Proof. intros A B [a| |] f H1 H2; simpl; [apply H2; reflexivity | discriminate | congruence]. Qed.

Lemma build_loop_no_panic : forall slots i seq prev,
  (forall s, In (Some s) slots -> seg_bounded s) ->
  (match prev with Some p => br_end p <= usize_max | None => True end) ->
  build_loop slots i seq prev <> Panic.
Proof.
  induction slots as [|[s|] slots IH]; intros i seq prev Hb Hp; cbn [build_loop].
  - discriminate.
  - assert (Hs : seg_bounded s) by (apply Hb; left; reflexivity).
    apply bind_np.
    { destruct (sg_explicit s); [discriminate|]. destruct (i + seq <? two64); discriminate. }
    intros num _. unfold seg_bounded in Hs.
    apply bind_np.
    { destruct (sg_range s) as [r|]; [|discriminate].
      destruct (complete_range_no_panic r prev Hp) as [Hnp _].
      unfold rmap. apply bind_np; [assumption | discriminate]. }
    intros rg Hrg.
    apply bind_np; [|discriminate].
    apply IH; [intros; apply Hb; right; assumption|].
    destruct rg as [c|]; [|assumption].
    destruct (sg_range s) as [r|]; [|discriminate].
    destruct (complete_range_no_panic r prev Hp) as [_ Hbd].
    unfold rmap in Hrg. apply bind_ok in Hrg. destruct Hrg as [c' [Hc Hr]]. inversion Hr; subst c'.
    apply Hbd; assumption.
  - apply bind_np; [|discriminate].
    apply IH; [intros; apply Hb; right; assumption | assumption].
Qed.

Lemma build_no_panic : forall b,
  (forall slots s, b_segments b = Some slots -> In (Some s) slots -> seg_bounded s) ->
  build b <> Panic.
Proof.
  intros b Hb. unfold build.
  destruct (match b_target b with Some t => validate_segments b t | None => true end); [|discriminate].
  apply bind_np; [destruct (b_segments b); discriminate|].
  intros slots Hs. destruct (b_segments b) as [sl0|] eqn:Es; [|discriminate]. inversion Hs; subst sl0.
  destruct (match present slots with f :: _ => _ | [] => true end); [|discriminate].
  apply bind_np.
  { apply build_loop_no_panic; [intros s H; exact (Hb slots s eq_refl H) | exact I]. }
  intros sl _. destruct (forallb is_some sl); [|discriminate].
  apply bind_np; [destruct (b_target b); discriminate | discriminate].
Qed.

(* ---------- prefix stability of the loop ---------- *)
Lemma build_loop_app : forall l1 l2 i seq prev r,
  build_loop (l1 ++ l2) i seq prev = Ok r ->
  exists r1 r2, build_loop l1 i seq prev = Ok r1 /\ r = r1 ++ r2 /\ List.length r1 = List.length l1.
Proof.
  induction l1 as [|[s|] l1 IH]; simpl; intros l2 i seq prev r H.
  - exists [], r. auto.
  - apply bind_ok in H. destruct H as [num [Hn H]]. rewrite Hn. cbn [bind].
    apply bind_ok in H. destruct H as [rg [Hr H]]. rewrite Hr. cbn [bind].
    apply bind_ok in H. destruct H as [t [Ht H]].
    destruct (IH _ _ _ _ _ Ht) as [r1 [r2 [H1 [-> Hl]]]]. rewrite H1. cbn [bind].
    inversion H; subst r. eexists (_ :: r1), r2. split; [reflexivity|]. split; [reflexivity | simpl; congruence].
  - apply bind_ok in H. destruct H as [t [Ht H]].
    destruct (IH _ _ _ _ _ Ht) as [r1 [r2 [H1 [-> Hl]]]]. rewrite H1. cbn [bind].
    inversion H; subst r. exists (None :: r1), r2. split; [reflexivity|]. split; [reflexivity | simpl; congruence].
Qed.

(* ---------- rounding ---------- *)
Lemma rounded_ns_spec : forall d,
  rounded_ns d mod 1000000000 = 0 /\ rounded_ns d <= d + 500000000 /\ d + 500000000 < rounded_ns d + 1000000000.
Proof. intros d. unfold rounded_ns. repeat split; lia. Qed.
