(* MediaParsedWf.v — which part of MediaText.wf_media every media playlist returned by the parser
   has unconditionally (the structural part), and which part is a condition on the text's values
   (`media_domain`: durations / floats that survive the std conversions, unquoted SCTE35 values
   without comma). *)
From hls Require Import Base Float Lex Kinds Types Tags Line Keys Media Master.
From hls.Generated Require Import Tables.
From hls.Spec Require Import KeySpec.
From hls.Proofs Require Import EqFacts KeysProof C06 Build Parse MediaProps C11 C03 C16 C12 C14 Lexical Values TextLines
  AttrText TagText TagTextMedia TagTextVariant MasterText ParsedWf TagTextSegment TagTextDateRange MediaText C03Items ParsedBuilt.
From Coq Require Import Lia ZifyN ZifyNat ZifyBool.
Open Scope N_scope.

(* ---------- per tag ---------- *)
Lemma parsed_range_wf : forall s r, parse_byte_range s = Ok r -> wf_range r = true.
Proof.
  intros s r H. unfold parse_byte_range in H. destruct (splitn2 64 s) as [l st].
  apply bind_ok in H. destruct H as [len [_ H]]. apply bind_ok in H. destruct H as [start [_ H]].
  destruct (match start with Some x => x | None => 0 end + len <? two64) eqn:E; [|discriminate].
  inversion H; subst. unfold wf_range. cbn [br_end br_start]. rewrite E. destruct start; [apply N.leb_le; lia | reflexivity].
Qed.
Lemma parsed_xmap_wf : forall l m, parse_xmap l = Ok m -> wf_xmap m = true.
Proof.
  intros l m H. unfold parse_xmap in H. apply bind_ok in H. destruct H as [rest [_ H]].
  apply bind_ok in H. destruct H as [a [Ha H]]. apply bind_ok in H. destruct H as [u [Hu H]]. inversion H; subst.
  assert (Hinv : oclean (fst a) = true /\ oopt (snd a) wf_range = true).
  { refine (fold_res_inv _ _ map_attr (fun a => oclean (fst a) = true /\ oopt (snd a) wf_range = true) _ _ _ _ _ Ha); [|split; reflexivity].
    intros [u0 r0] [k v] a' [I1 I2] Hs. unfold map_attr in Hs. cbn [fst snd] in *.
    destruct (str_eqb k s_URI); [inversion Hs; subst; split; [apply unquote_clean | exact I2]|].
    destruct (str_eqb k s_BYTERANGE).
    - apply bind_ok in Hs. destruct Hs as [r [Hr Hs]]. inversion Hs; subst. split; [exact I1 | apply (parsed_range_wf _ _ Hr)].
    - inversion Hs; subst. split; assumption. }
  destruct Hinv as [I1 I2]. unfold wf_xmap. cbn [map_uri map_range].
  destruct (fst a) as [u'|]; [|discriminate]. inversion Hu; subst. cbn [oclean] in I1. rewrite I1.
  destruct (snd a); [exact I2 | reflexivity].
Qed.
Lemma strip_prefix_some : forall p l r, strip_prefix p l = Some r -> l = p ++ r.
Proof.
  induction p as [|c p IH]; intros l r H; [inversion H; reflexivity|].
  destruct l as [|d l]; [discriminate|]. cbn [strip_prefix] in H. destruct (N.eqb_spec c d) as [->|]; [|discriminate].
  cbn [app]. f_equal. apply IH, H.
Qed.
Lemma tag_good : forall l pfx rest, good_line l = true -> tag l pfx = Ok rest -> l = pfx ++ rest.
Proof.
  intros l pfx rest Hg H. unfold tag in H. rewrite (good_line_trim _ Hg) in H.
  destruct (strip_prefix pfx l) as [r|] eqn:E; [|discriminate]. inversion H; subst. apply strip_prefix_some, E.
Qed.
Lemma parsed_pdt_wf : forall l s, good_line l = true -> parse_pdt l = Ok s -> good_line (print_pdt s) = true.
Proof. intros l s Hg H. unfold parse_pdt in H. unfold print_pdt. rewrite <- (tag_good _ _ _ Hg H). exact Hg. Qed.

(* ---------- EXTINF ---------- *)
Lemma split_once_some : forall c s a b, split_once c s = Some (a, b) -> s = a ++ c :: b.
Proof.
  intros c. induction s as [|x r IH]; intros a b H; [discriminate|]. cbn [split_once] in H.
  destruct (N.eqb_spec x c) as [->|Hne]; [inversion H; reflexivity|].
  destruct (split_once c r) as [[a' b']|]; [|discriminate]. inversion H; subst. cbn [app]. f_equal. apply IH. reflexivity.
Qed.
Lemma no_lf_sub : forall a b, (forall x, In x a -> In x b) -> no_lf b = true -> no_lf a = true.
Proof. intros a b Hs Hb. unfold no_lf in *. rewrite forallb_forall in *. intros x Hx. apply Hb, Hs, Hx. Qed.
Lemma trimmed_good : forall t l, trim t <> [] -> (forall x, In x t -> In x l) -> no_lf l = true -> good_line (trim t) = true.
Proof.
  intros t l Hne Hs Hl. destruct (trim_good t Hne) as [G1 G2]. unfold good_line. rewrite G1, G2. cbn [andb].
  apply (no_lf_sub _ l); [intros x Hx; apply Hs, trim_subset, Hx | exact Hl].
Qed.
Theorem parsed_extinf_title : forall l i, good_line l = true -> parse_extinf l = Ok i -> wf_title (inf_title i) = true.
Proof.
  intros l i Hg H. unfold parse_extinf in H. apply bind_ok in H. destruct H as [rest [Ht H]].
  pose proof (tag_good _ _ _ Hg Ht) as El.
  unfold splitn2 in H. destruct (split_once 44 rest) as [[d t]|] eqn:Es.
  - apply bind_ok in H. destruct H as [ns [_ H]]. inversion H; subst i. cbn [inf_title].
    destruct (is_nil (trim t)) eqn:En; [reflexivity|]. cbn [wf_title]. rewrite En. cbn [negb andb].
    apply (trimmed_good t l).
    + destruct (trim t); [discriminate | discriminate].
    + intros x Hx. rewrite El, (split_once_some _ _ _ _ Es). apply in_or_app. right. apply in_or_app. right. right. exact Hx.
    + apply good_line_no_lf, Hg.
  - apply bind_ok in H. destruct H as [ns [_ H]]. inversion H. reflexivity.
Qed.

(* ---------- ordering of client attribute names ---------- *)
Lemma str_cmp_refl : forall a, str_cmp a a = Eq.
Proof. induction a as [|x a IH]; [reflexivity|]. cbn [str_cmp]. rewrite N.compare_refl. exact IH. Qed.
Lemma str_cmp_eq : forall a b, str_cmp a b = Eq -> a = b.
Proof.
  induction a as [|x a IH]; intros [|y b] H; try discriminate; [reflexivity|]. cbn [str_cmp] in H.
  destruct (x ?= y) eqn:E; try discriminate. apply N.compare_eq in E. subst. f_equal. apply IH, H.
Qed.
Lemma str_cmp_antisym : forall a b, str_cmp b a = CompOpp (str_cmp a b).
Proof.
  induction a as [|x a IH]; intros [|y b]; try reflexivity. cbn [str_cmp]. rewrite (N.compare_antisym x y).
  destruct (x ?= y); cbn [CompOpp]; [apply IH | reflexivity | reflexivity].
Qed.
Lemma str_cmp_lt_trans : forall a b c, str_cmp a b = Lt -> str_cmp b c = Lt -> str_cmp a c = Lt.
Proof.
  induction a as [|x a IH]; intros [|y b] [|z c] H1 H2; try discriminate; try reflexivity.
  cbn [str_cmp] in *. destruct (x ?= y) eqn:E1; try discriminate; destruct (y ?= z) eqn:E2; try discriminate.
  - apply N.compare_eq in E1, E2. subst. rewrite N.compare_refl. apply (IH b c H1 H2).
  - apply N.compare_eq in E1. subst. rewrite E2. reflexivity.
  - apply N.compare_eq in E2. subst. rewrite E1. reflexivity.
  - assert (E : (x ?= z) = Lt).
    { apply N.compare_lt_iff. apply N.compare_lt_iff in E1. apply N.compare_lt_iff in E2. exact (N.lt_trans _ _ _ E1 E2). }
    rewrite E. reflexivity.
Qed.
Lemma cmp_gt_lt : forall a b, cmp_gt a b = true <-> str_cmp b a = Lt.
Proof.
  intros a b. unfold cmp_gt. rewrite (str_cmp_antisym b a). destruct (str_cmp b a); cbn [CompOpp]; split; intros H; try discriminate; reflexivity.
Qed.
Lemma btree_insert_keys : forall k v l x, In x (btree_insert k v l) -> x = (k, v) \/ In x l.
Proof.
  induction l as [|[k' v'] l IH]; intros x H; cbn [btree_insert] in H.
  - destruct H as [<-|[]]. left. reflexivity.
  - destruct (str_cmp k k').
    + destruct H as [<-|H]; [left; reflexivity | right; right; exact H].
    + destruct H as [<-|H]; [left; reflexivity | right; exact H].
    + destruct H as [<-|H]; [right; left; reflexivity|]. destruct (IH x H) as [-> | Hin]; [left; reflexivity | right; right; exact Hin].
Qed.
Lemma btree_insert_sorted : forall k v l, sorted_client l = true -> sorted_client (btree_insert k v l) = true.
Proof.
  induction l as [|[k' v'] l IH]; intros Hs; [reflexivity|]. cbn [sorted_client] in Hs.
  apply andb_true_iff in Hs. destruct Hs as [Hall Hs]. cbn [btree_insert]. destruct (str_cmp k k') eqn:E.
  - apply str_cmp_eq in E. subst. cbn [sorted_client]. rewrite Hall, Hs. reflexivity.
  - cbn [sorted_client forallb fst]. rewrite Hall, Hs, !andb_true_r.
    assert (H1 : cmp_gt k' k = true) by (apply cmp_gt_lt; exact E). rewrite H1. cbn [andb].
    rewrite forallb_forall in *. intros [k2 v2] Hin. cbn [fst]. apply cmp_gt_lt.
    apply (str_cmp_lt_trans k k' k2 E). apply cmp_gt_lt. apply (Hall (k2, v2) Hin).
  - cbn [sorted_client]. rewrite (IH Hs), andb_true_r. rewrite forallb_forall in *. intros [k2 v2] Hin. cbn [fst].
    destruct (btree_insert_keys _ _ _ _ Hin) as [Heq | Hin'].
    + inversion Heq; subst. unfold cmp_gt. rewrite E. reflexivity.
    + apply (Hall (k2, v2) Hin').
Qed.

(* ---------- EXT-X-DATERANGE ---------- *)
Definition value_struct (v : Value) : bool :=
  match v with VString s => clean_quoted s | VHex bs => forallb (fun b => b <? 256) bs | VFloat _ => true end.
Definition value_domain (v : Value) : bool :=
  match v with
  | VFloat x => float_rt x && negb (starts_with s_0x (print_f32 x)) && negb (starts_with s_0X (print_f32 x))
  | _ => true
  end.
Lemma wf_value_split : forall v, value_struct v = true -> value_domain v = true -> wf_value v = true.
Proof. intros [s|bs|x] H1 H2; [exact H1 | exact H1 | exact H2]. Qed.
Lemma parsed_value_struct : forall s v, parse_value s = Ok v -> value_struct v = true.
Proof.
  intros s v H. unfold parse_value in H. destruct (starts_with s_0x s || starts_with s_0X s).
  - destruct (hex_decode _) as [bs|] eqn:E; [|discriminate]. inversion H; subst. cbn [value_struct].
    apply (hex_decode_facts _ _ E).
  - destruct (parse_float s) as [x| |]; inversion H; subst; cbn [value_struct]; try reflexivity; apply unquote_clean.
Qed.
Definition dr_domain (d : DateRange) : bool :=
  odur (dr_duration d) && odur (dr_planned d) && raw_ok (dr_cmd d) && raw_ok (dr_out d) && raw_ok (dr_in d)
  && forallb (fun kv => value_domain (snd kv)) (dr_client d).
Definition dacc_ok (a : dr_acc) : Prop :=
  oclean (da_id a) = true /\ oclean (da_class a) = true /\ oclean (da_start a) = true /\ oclean (da_end a) = true
  /\ forallb (fun kv => client_key_ok (fst kv) && value_struct (snd kv)) (da_client a) = true
  /\ sorted_client (da_client a) = true.
Lemma dr_attr_ok : forall a kv a', dacc_ok a -> dr_attr a kv = Ok a' -> dacc_ok a'.
Proof.
  intros a [k v] a' [A1 [A2 [A3 [A4 [A5 A6]]]]] H. unfold dr_attr in H. pose proof (unquote_clean v) as Hu.
  Ltac dr_fin H := inversion H; subst; unfold dacc_ok; cbn [da_id da_class da_start da_end da_client oclean];
                   repeat split; assumption.
  destruct (str_eqb k s_ID); [dr_fin H|].
  destruct (str_eqb k s_CLASS); [dr_fin H|].
  destruct (str_eqb k s_START_DATE); [dr_fin H|].
  destruct (str_eqb k s_END_DATE); [dr_fin H|].
  destruct (str_eqb k s_DURATION); [apply bind_ok in H; destruct H as [x [_ H]]; dr_fin H|].
  destruct (str_eqb k s_PLANNED_DURATION); [apply bind_ok in H; destruct H as [x [_ H]]; dr_fin H|].
  destruct (str_eqb k s_SCTE35_CMD); [dr_fin H|].
  destruct (str_eqb k s_SCTE35_OUT); [dr_fin H|].
  destruct (str_eqb k s_SCTE35_IN); [dr_fin H|].
  destruct (str_eqb k s_END_ON_NEXT); [destruct (str_eqb v s_YES); [dr_fin H | discriminate]|].
  destruct (starts_with s_Xdash k) eqn:Ec; [|dr_fin H].
  (* client attribute *)
  destruct (any_char bad_client_char k) eqn:Eb; [discriminate|].
  apply bind_ok in H. destruct H as [val [Hv H]]. inversion H; subst. unfold dacc_ok.
  cbn [da_id da_class da_start da_end da_client]. repeat split; try assumption.
  - rewrite forallb_forall in *. intros [k2 v2] Hin. destruct (btree_insert_keys _ _ _ _ Hin) as [Heq | Hin'].
    + inversion Heq; subst. cbn [fst snd]. unfold client_key_ok. rewrite Ec, Eb. cbn [negb andb]. apply (parsed_value_struct _ _ Hv).
    + apply (A5 _ Hin').
  - apply btree_insert_sorted, A6.
Qed.
Theorem parsed_daterange_wf : forall l d, parse_daterange l = Ok d -> dr_domain d = true -> wf_daterange d = true.
Proof.
  intros l d H Hd. unfold parse_daterange in H. apply bind_ok in H. destruct H as [rest [_ H]].
  apply bind_ok in H. destruct H as [a [Ha H]].
  assert (H0 : dacc_ok {| da_id := None; da_class := None; da_start := None; da_end := None; da_duration := None;
       da_planned := None; da_cmd := None; da_out := None; da_in := None; da_eon := false; da_client := [] |}) by (repeat split).
  destruct (fold_res_inv _ _ dr_attr dacc_ok dr_attr_ok _ _ _ H0 Ha) as [A1 [A2 [A3 [A4 [A5 A6]]]]].
  destruct (da_id a) as [id|]; [|discriminate]. cbn [of_opt bind] in H.
  destruct (da_eon a && negb (is_some (da_class a))) eqn:E1; [discriminate|].
  destruct (da_eon a && is_some (da_duration a)) eqn:E2; [discriminate|].
  destruct (da_eon a && is_some (da_end a)) eqn:E3; [discriminate|].
  inversion H; subst d. clear H. unfold dr_domain in Hd. cbn [dr_duration dr_planned dr_cmd dr_out dr_in dr_client] in Hd.
  repeat (apply andb_true_iff in Hd; let H2 := fresh "D" in destruct Hd as [Hd H2]).
  unfold wf_daterange. cbn [dr_id dr_class dr_start dr_end dr_duration dr_planned dr_cmd dr_out dr_in dr_eon dr_client].
  cbn [oclean] in A1. rewrite A1, A2, A3, A4, Hd, D3, D2, D1, D0, A6. cbn [andb].
  assert (Hc : forallb client_ok (da_client a) = true).
  { rewrite forallb_forall in *. intros kv Hin. specialize (A5 kv Hin). specialize (D kv Hin).
    apply andb_true_iff in A5. destruct A5 as [K V]. unfold client_ok. rewrite K. apply wf_value_split; assumption. }
  rewrite Hc. cbn [andb]. destruct (da_eon a); [|reflexivity]. cbn [andb] in E1, E2, E3.
  apply negb_false_iff in E1. rewrite E1, E2, E3. reflexivity.
Qed.

(* ---------- items ---------- *)
Definition dr_struct (d : DateRange) : Prop := dr_domain d = true -> wf_daterange d = true.
Definition item_mwf (l : line) : Prop :=
  match l with
  | LTag (TMap m) => wf_xmap m = true
  | LTag (TByteRange r) => wf_range r = true
  | LTag (TDateRange d) => dr_struct d
  | LTag (TPdt s) => good_line (print_pdt s) = true
  | LTag (TInf i) => wf_title (inf_title i) = true
  | LTag (TKey k) => xk_ok k = true /\ stripped k
  | LTag (TUnknown u) => wf_unknown u = true
  | LTag (TTarget n) => n < two64
  | LTag (TMediaSeq n) => n < two64
  | LTag (TDiscSeq n) => n < two64
  | LTag (TPlaylistType t) => t < 2
  | LUri u => wf_uri u = true
  | _ => True
  end.
Lemma parse_u64_lt : forall s n, parse_u64 s = Ok n -> n < two64.
Proof. intros s n H. apply N.ltb_lt. apply (parse_u64_bound _ _ H). Qed.
Lemma parse_kind_item_mwf : forall k l t, good_line l = true -> starts_with s_hashEXT l = true ->
  starts_with pairing_prefix l = false -> k = classify l -> parse_kind k l = Ok t -> item_mwf (LTag t).
Proof.
  intros k l t Hg Hh Hp Hk H.
  destruct k; cbn [parse_kind] in H;
    try (apply rmap_ok in H; destruct H as [a [Ha ->]]; cbn [item_mwf]; try exact I).
  - (* EXTINF *) apply (parsed_extinf_title l a Hg Ha).
  - (* BYTERANGE *) unfold parse_xbyterange in Ha. apply bind_ok in Ha. destruct Ha as [rest [_ Ha]]. apply (parsed_range_wf _ _ Ha).
  - (* KEY *) unfold parse_xkey in Ha. apply bind_ok in Ha. destruct Ha as [rest [_ Ha]].
    destruct (is_method_none (attr_pairs rest)); [inversion Ha; split; [reflexivity | exact I]|].
    apply rmap_ok in Ha. destruct Ha as [d [Hd ->]]. split; [apply (parsed_key_wf _ _ Hd) | apply (parsed_key_stripped _ _ Hd)].
  - (* MAP *) apply (parsed_xmap_wf _ _ Ha).
  - (* PDT *) apply (parsed_pdt_wf l a Hg Ha).
  - (* DATERANGE *) intros Hd. apply (parsed_daterange_wf l a Ha Hd).
  - (* TARGET *) unfold parse_target_duration in Ha. apply bind_ok in Ha. destruct Ha as [rest [_ Ha]]. apply (parse_u64_lt _ _ Ha).
  - unfold parse_media_sequence in Ha. apply bind_ok in Ha. destruct Ha as [rest [_ Ha]]. apply (parse_u64_lt _ _ Ha).
  - unfold parse_disc_sequence in Ha. apply bind_ok in Ha. destruct Ha as [rest [_ Ha]]. apply (parse_u64_lt _ _ Ha).
  - (* PLAYLIST-TYPE *) unfold parse_playlist_type in Ha. apply bind_ok in Ha. destruct Ha as [rest [_ Ha]].
    destruct (str_eqb rest s_EVENT); [inversion Ha; lia|]. destruct (str_eqb rest s_VOD); [inversion Ha; lia | discriminate].
  - destruct (is_ok (tag l pfx_VariantStream_EXTXIFRAME)); [|discriminate].
    apply rmap_ok in H. destruct H as [a [Ha ->]]. exact I.
  - inversion H; subst. cbn [item_mwf]. unfold wf_unknown. rewrite Hg, Hh, Hp, <- Hk. reflexivity.
Qed.
Lemma items_item_mwf : forall ls, (forall x, In x ls -> good_line x = true) ->
  forall l, In (Ok l) (items ls) -> item_mwf l.
Proof.
  fix IH 1. intros ls Hall l Hin. destruct ls as [|x rest]; cbn [items] in Hin; [destruct Hin|].
  assert (Hx : good_line x = true) by (apply Hall; left; reflexivity).
  assert (Hrest : forall y, In y rest -> good_line y = true) by (intros y Hy; apply Hall; right; exact Hy).
  destruct (starts_with pairing_prefix x) eqn:Ep.
  - destruct rest as [|u rest'].
    + destruct missing_uri_is_error; cbn [In] in Hin; [destruct Hin as [H|H]; [discriminate|destruct H] | destruct Hin].
    + cbn [In] in Hin. destruct Hin as [H | Hin].
      * apply rmap_ok in H. destruct H as [v [Hv ->]]. exact I.
      * apply (IH rest'); [intros y Hy; apply Hrest; right; exact Hy | exact Hin].
  - destruct (starts_with s_hashEXT x) eqn:Eh.
    + cbn [In] in Hin. destruct Hin as [H | Hin]; [|exact (IH rest Hrest l Hin)].
      apply rmap_ok in H. destruct H as [t [Ht ->]].
      apply (parse_kind_item_mwf (classify x) x t Hx Eh Ep eq_refl Ht).
    + destruct (starts_with [35] x) eqn:E35; cbn [In] in Hin.
      * destruct Hin as [H | Hin]; [inversion H; exact I | exact (IH rest Hrest l Hin)].
      * destruct Hin as [H | Hin]; [|exact (IH rest Hrest l Hin)]. inversion H; subst. cbn [item_mwf].
        unfold wf_uri. rewrite Hx, E35. reflexivity.
Qed.

(* ---------- the parser state ---------- *)
Definition key_ok2 (k : xkey) : Prop := xk_ok k = true /\ stripped k.
Definition odr (o : option DateRange) : Prop := match o with Some d => dr_struct d | None => True end.
Definition seg_struct (sg : Segment) : Prop :=
  oopt (sg_map sg) wf_xmap = true /\ oopt (sg_range sg) wf_range = true /\ odr (sg_daterange sg)
  /\ oopt (sg_pdt sg) (fun p => good_line (print_pdt p)) = true /\ wf_title (inf_title (sg_inf sg)) = true
  /\ wf_uri (sg_uri sg) = true /\ Forall key_ok2 (sg_keys sg).
Definition acc_struct (a : seg_acc) : Prop :=
  oopt (sa_map a) wf_xmap = true /\ oopt (sa_range a) wf_range = true /\ odr (sa_daterange a)
  /\ oopt (sa_pdt a) (fun p => good_line (print_pdt p)) = true
  /\ match sa_inf a with Some i => wf_title (inf_title i) = true | None => True end.
Definition b_struct (b : mbuilder) : Prop :=
  match b_target b with Some t => exists n, t = n * 1000000000 /\ n < two64 | None => True end
  /\ match b_mseq b with Some n => n < two64 | None => True end
  /\ match b_dseq b with Some n => n < two64 | None => True end
  /\ match b_ptype b with Some (Some t) => t < 2 | _ => True end.
Definition minv (s : pstate) : Prop :=
  acc_struct (ps_seg s) /\ Forall key_ok2 (ps_keys s) /\ Forall seg_struct (ps_segs s)
  /\ forallb wf_unknown (ps_unknown s) = true /\ b_struct (ps_b s).

Lemma key_step_ok2 : forall ks k, Forall key_ok2 ks -> key_ok2 k -> Forall key_ok2 (key_step ks k).
Proof.
  intros ks k Hks Hk. apply Forall_forall. intros x Hx. apply key_step_subset in Hx. destruct Hx as [-> | Hx]; [exact Hk|].
  rewrite Forall_forall in Hks. apply Hks, Hx.
Qed.
Lemma step_minv : forall s l s', minv s -> item_mwf l -> step s l = Ok s' -> minv s'.
Proof.
  intros s l s' [[M1 [M2 [M3 [M4 M5]]]] [Hk [Hs [Hu [B1 [B2 [B3 B4]]]]]]] Hl H. destruct l as [t| |u]; unfold step in H.
  - destruct (in_kinds (kind_of t) media_rejects); [discriminate|].
    destruct t; cbn [step_tag set_seg set_b] in H; cbn [item_mwf] in Hl;
      repeat match type of H with context [if ?c then _ else _] => destruct c end;
      try discriminate; inversion H; subst; unfold minv, acc_struct, b_struct;
      cbn [ps_seg ps_keys ps_segs ps_unknown ps_b sa_map sa_range sa_daterange sa_pdt sa_inf oopt odr map_uri map_range
           b_target b_mseq b_dseq b_ptype forallb];
      repeat split; try assumption; try (apply key_step_ok2; assumption); try (eexists; split; [reflexivity | assumption]);
      try (rewrite Hl; reflexivity);
      (* MAP: the parser attaches its keys; wf_xmap does not look at them *)
      try (unfold wf_xmap in *; cbn [map_uri map_range] in *; exact Hl).
    rewrite Hl, Hu. reflexivity.
  - inversion H; subst. repeat split; assumption.
  - destruct (sa_inf (ps_seg s)) as [i|] eqn:Ei; cbn [of_opt bind] in H; [|discriminate]. inversion H; subst.
    unfold minv, acc_struct. cbn [ps_seg ps_keys ps_segs ps_unknown ps_b seg_empty sa_map sa_range sa_daterange sa_pdt sa_inf oopt odr].
    repeat split; try assumption. constructor; [|exact Hs].
    unfold seg_struct. cbn [sg_map sg_range sg_daterange sg_pdt sg_inf sg_uri sg_keys]. repeat split; assumption.
Qed.
Lemma run_lines_minv : forall ls s s', minv s -> (forall l, In (Ok l) ls -> item_mwf l) -> run_lines s ls = Ok s' -> minv s'.
Proof.
  induction ls as [|r ls IH]; intros s s' Hm Hall H; cbn [run_lines] in H.
  - inversion H; subst. exact Hm.
  - apply bind_ok in H. destruct H as [l [Hr H]]. subst r. apply bind_ok in H. destruct H as [s1 [Hs1 H]].
    apply (IH s1 s'); [|intros y Hy; apply Hall; right; exact Hy | exact H].
    apply (step_minv s l s1 Hm); [apply Hall; left; reflexivity | exact Hs1].
Qed.
Lemma init_minv : minv (init_state mb_default).
Proof. unfold minv, init_state, mb_default, acc_struct, b_struct, seg_empty. cbn. repeat split; constructor. Qed.

(* ---------- build ---------- *)
Definition seg_domain (s : Segment) : bool := dur_rt (inf_dur (sg_inf s)) && oopt (sg_daterange s) dr_domain.
Lemma complete_range_wf : forall r prev r', wf_range r = true -> oopt prev wf_range = true ->
  complete_range r prev = Ok r' -> wf_range r' = true.
Proof.
  intros r prev r' Hr Hp H. unfold complete_range in H. destruct (br_start r); [inversion H; subst; exact Hr|].
  destruct prev as [p|].
  - destruct (N.min (br_end r + br_end p) usize_max <? br_end p) eqn:E; [discriminate|]. inversion H; subst.
    unfold wf_range. cbn [br_end br_start]. apply N.ltb_ge in E. apply andb_true_iff. split; [|apply N.leb_le; exact E].
    apply N.ltb_lt. unfold usize_max, two64 in *. lia.
  - inversion H; subst. unfold wf_range in *. cbn [br_end br_start]. apply andb_true_iff in Hr. destruct Hr as [Hr _].
    rewrite Hr. cbn [andb]. apply N.leb_le. lia.
Qed.
Lemma derive_key_ok : forall n k, key_ok2 k -> skey_ok (derive_iv n k) = true.
Proof.
  intros n [d|] [Hw Hs]; [|reflexivity]. cbn [stripped] in Hs. pose proof (strip_derive n d Hs) as E.
  destruct (derive_iv n (Some d)) as [d'|]; [|contradiction]. cbn [skey_ok]. rewrite E. exact Hw.
Qed.
Lemma build_loop_wf : forall raws i mseq prev out, build_loop (map Some raws) i mseq prev = Ok out ->
  Forall seg_struct raws -> oopt prev wf_range = true ->
  exists segs, out = map Some segs /\ Forall (fun s' => seg_domain s' = true -> wf_segment s' = true) segs.
Proof.
  induction raws as [|s raws IH]; intros i mseq prev out H Hs Hp.
  - inversion H. exists []. split; [reflexivity | constructor].
  - inversion Hs as [|? ? Hs1 Hs2]; subst. cbn [map build_loop] in H.
    apply bind_ok in H. destruct H as [num [_ H]]. apply bind_ok in H. destruct H as [rg [Hrg H]].
    apply bind_ok in H. destruct H as [t [Ht H]]. inversion H; subst out. clear H.
    destruct Hs1 as [S1 [S2 [S3 [S4 [S5 [S6 S7]]]]]].
    assert (Hrgwf : oopt rg wf_range = true).
    { destruct (sg_range s) as [r0|]; [|inversion Hrg; reflexivity]. apply rmap_ok in Hrg. destruct Hrg as [r1 [Hc ->]].
      cbn [oopt] in *. apply (complete_range_wf r0 prev r1 S2 Hp Hc). }
    assert (Hprev' : oopt (match rg with Some r => Some r | None => prev end) wf_range = true) by (destruct rg; assumption).
    destruct (IH _ _ _ _ Ht Hs2 Hprev') as [segs [-> Hall]].
    eexists (_ :: segs). split; [reflexivity|]. constructor; [|exact Hall].
    intros Hd. unfold seg_domain in Hd. cbn [sg_inf sg_daterange] in Hd. apply andb_true_iff in Hd. destruct Hd as [D1 D2].
    unfold wf_segment. cbn [sg_map sg_range sg_daterange sg_pdt sg_inf sg_uri sg_keys].
    rewrite S1, Hrgwf, S4, S6. unfold wf_extinf. rewrite D1, S5. cbn [andb].
    assert (Hdr : oopt (sg_daterange s) wf_daterange = true).
    { destruct (sg_daterange s) as [d|]; [|reflexivity]. cbn [oopt odr] in *. apply S3, D2. }
    rewrite Hdr. cbn [andb]. rewrite forallb_map. apply forallb_forall. intros k Hk.
    rewrite Forall_forall in S7. apply derive_key_ok, S7, Hk.
Qed.

Definition media_domain (p : MediaPlaylist) : bool := oopt (mp_start p) wf_start && forallb seg_domain (mp_segs p).
Lemma build_fields : forall b p, build b = Ok p ->
  mp_mseq p = odef (b_mseq b) 0 /\ mp_dseq p = odef (b_dseq b) 0 /\ mp_ptype p = odef (b_ptype b) None
  /\ mp_start p = odef (b_start b) None /\ mp_unknown p = odef (b_unknown b) [] /\ Some (mp_target p) = b_target b.
Proof.
  intros b p H. unfold build in H.
  destruct (match b_target b with Some t => validate_segments b t | None => true end); [|discriminate].
  apply bind_ok in H. destruct H as [slots [_ H]].
  destruct (match present slots with f :: _ => _ | [] => true end); [|discriminate].
  apply bind_ok in H. destruct H as [slots' [_ H]].
  destruct (forallb is_some slots'); [|discriminate].
  apply bind_ok in H. destruct H as [t [Ht H]]. inversion H. cbn. repeat split.
  destruct (b_target b); [inversion Ht; reflexivity | discriminate].
Qed.
Theorem parsed_media_wf : forall s p, parse_media s = Ok p -> media_domain p = true -> wf_media p = true.
Proof.
  intros s p H Hd. unfold parse_media, parse_media_with in H. apply bind_ok in H. destruct H as [rest [_ H]].
  destruct (parse_items_inv _ _ _ H) as [st [Hr [Hpart Hf]]].
  assert (Hall : forall l, In (Ok l) (lines_of rest) -> item_mwf l).
  { intros l Hl. unfold lines_of in Hl. apply (items_item_mwf (clean_lines rest)); [|exact Hl].
    intros x Hx. apply (clean_lines_good_line rest x Hx). }
  destruct (run_lines_minv _ _ _ init_minv Hall Hr) as [_ [_ [Hsegs [Hunk [B1 [B2 [B3 B4]]]]]]].
  unfold finish_media in Hf. rewrite Hpart in Hf.
  destruct (build_fields _ _ Hf) as [F1 [F2 [F3 [F4 [F5 F6]]]]].
  cbn [b_mseq b_dseq b_ptype b_start b_unknown b_target] in *.
  pose proof Hf as Hbuild. apply build_ok_inv in Hf. cbn [b_target b_segments b_mseq b_excess] in Hf.
  destruct Hf as [t [slots [slots' [Ht [Hs [Hv [Hl [Hc [Hp [Hm [Htt _]]]]]]]]]]].
  inversion Hs; subst slots. clear Hs.
  assert (Hraw : Forall seg_struct (rev (ps_segs st))).
  { apply Forall_forall. intros x Hx. rewrite Forall_forall in Hsegs. apply Hsegs, in_rev, Hx. }
  destruct (build_loop_wf _ _ _ _ _ Hl Hraw eq_refl) as [segs [-> Hw]].
  rewrite present_map_some in Hp.
  unfold media_domain in Hd. apply andb_true_iff in Hd. destruct Hd as [Dst Dsegs].
  unfold wf_media. rewrite Hp.
  assert (E1 : mp_target p / 1000000000 <? two64 = true).
  { rewrite <- F6 in B1. destruct B1 as [n [-> Hn]]. rewrite N.div_mul by lia. apply N.ltb_lt, Hn. }
  assert (E2 : mp_mseq p <? two64 = true).
  { rewrite F1. destruct (b_mseq (ps_b st)); cbn [odef]; [apply N.ltb_lt, B2 | reflexivity]. }
  assert (E3 : mp_dseq p <? two64 = true).
  { rewrite F2. destruct (b_dseq (ps_b st)); cbn [odef]; [apply N.ltb_lt, B3 | reflexivity]. }
  assert (E4 : oopt (mp_ptype p) (fun t0 => t0 <? 2) = true).
  { rewrite F3. destruct (b_ptype (ps_b st)) as [[t0|]|]; cbn [odef oopt]; try reflexivity. apply N.ltb_lt, B4. }
  assert (E5 : forallb wf_segment segs = true).
  { apply forallb_forall. intros x Hx. rewrite Forall_forall in Hw. apply (Hw x Hx).
    rewrite Hp in Dsegs. rewrite forallb_forall in Dsegs. apply Dsegs, Hx. }
  assert (E6 : forallb wf_unknown (mp_unknown p) = true).
  { rewrite F5. cbn [odef]. rewrite forallb_rev. exact Hunk. }
  rewrite E1, E2, E3, E4, Dst, E5, E6. reflexivity.
Qed.
