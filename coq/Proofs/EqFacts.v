(* EqFacts.v — the boolean equalities of the model reflect Leibniz equality. *)
From hls Require Import Base Float Lex Kinds Types Tags Line Keys Media.
From Coq Require Import Lia.

Lemma str_eqb_eq : forall a b, str_eqb a b = true <-> a = b.
Proof.
  induction a as [|x a IH]; destruct b as [|y b]; simpl; try (split; congruence).
  rewrite andb_true_iff, N.eqb_eq, IH. split; [intros [-> ->]; reflexivity | intros H; inversion H; auto].
Qed.
Lemma str_eqb_refl : forall a, str_eqb a a = true.
Proof. intros. apply str_eqb_eq. reflexivity. Qed.

Lemma list_eqb_eq : forall A (e : A -> A -> bool), (forall x y, e x y = true <-> x = y) ->
  forall a b, list_eqb e a b = true <-> a = b.
Proof.
  intros A e He. induction a as [|x a IH]; destruct b as [|y b]; simpl; try (split; congruence).
  rewrite andb_true_iff, He, IH. split; [intros [-> ->]; reflexivity | intros H; inversion H; auto].
Qed.
Lemma opt_eqb_eq : forall A (e : A -> A -> bool), (forall x y, e x y = true <-> x = y) ->
  forall a b, opt_eqb e a b = true <-> a = b.
Proof.
  intros A e He [x|] [y|]; simpl; try (split; congruence).
  rewrite He. split; congruence.
Qed.

Lemma kf_eqb_eq : forall a b, kf_eqb a b = true <-> a = b.
Proof.
  intros [| | | |x] [| | | |y]; simpl; try (split; congruence).
  rewrite str_eqb_eq. split; congruence.
Qed.
Lemma iv_eqb_eq : forall a b, iv_eqb a b = true <-> a = b.
Proof.
  intros [x|x|] [y|y|]; simpl; try (split; congruence).
  - rewrite (list_eqb_eq _ N.eqb N.eqb_eq). split; congruence.
  - rewrite N.eqb_eq. split; congruence.
Qed.
Lemma key_eqb_eq : forall a b, key_eqb a b = true <-> a = b.
Proof.
  intros [m1 u1 i1 f1 v1] [m2 u2 i2 f2 v2]. unfold key_eqb. simpl.
  rewrite !andb_true_iff, N.eqb_eq, str_eqb_eq, iv_eqb_eq,
    (opt_eqb_eq _ kf_eqb kf_eqb_eq), (opt_eqb_eq _ _ (list_eqb_eq _ N.eqb N.eqb_eq)).
  split.
  - intros [[[[-> ->] ->] ->] ->]. reflexivity.
  - intros H. inversion H. tauto.
Qed.

Lemma same_fmt_refl : forall a, same_fmt a a = true.
Proof. intros. unfold same_fmt. apply kf_eqb_eq. reflexivity. Qed.
Lemma same_fmt_sym : forall a b, same_fmt a b = same_fmt b a.
Proof.
  intros. unfold same_fmt. destruct (kf_eqb (fmt_of a) (fmt_of b)) eqn:E.
  - apply kf_eqb_eq in E. rewrite E. symmetry. apply kf_eqb_eq. reflexivity.
  - destruct (kf_eqb (fmt_of b) (fmt_of a)) eqn:E2; [|reflexivity].
    apply kf_eqb_eq in E2. rewrite E2 in E. rewrite (proj2 (kf_eqb_eq _ _) eq_refl) in E. discriminate.
Qed.
Lemma same_fmt_trans : forall a b c, same_fmt a b = true -> same_fmt b c = true -> same_fmt a c = true.
Proof.
  unfold same_fmt. intros a b c H1 H2. apply kf_eqb_eq in H1. apply kf_eqb_eq in H2.
  apply kf_eqb_eq. congruence.
Qed.
