(* Slide.v — C16, sliding the window: drop the first k segments, raise EXT-X-MEDIA-SEQUENCE by k;
   the writer restates what is still in effect (keys, maps).  The re-read segments keep number,
   URI, byte range, keys (as a set, effective IVs included). *)
From hls Require Import Base Float Lex Kinds Types Tags Line Keys Media Master.
From hls.Generated Require Import Tables.
From hls.Spec Require Import KeySpec.
From hls.Proofs Require Import EqFacts KeysProof C06 Build Parse MediaProps C11 C03 C12 MasterText MediaText C03Items.
From Coq Require Import Lia ZifyN ZifyNat.
Open Scope N_scope.

Definition slide (k : nat) (p : MediaPlaylist) : MediaPlaylist :=
  {| mp_target := mp_target p; mp_mseq := mp_mseq p + N.of_nat k; mp_dseq := mp_dseq p; mp_ptype := mp_ptype p;
     mp_iframes := mp_iframes p; mp_indep := mp_indep p; mp_start := mp_start p; mp_endlist := mp_endlist p;
     mp_segs := skipn k (mp_segs p); mp_excess := mp_excess p; mp_unknown := mp_unknown p |}.

Lemma numbered_skipn : forall segs n k, numbered_from n segs = true ->
  numbered_from (n + N.of_nat k) (skipn k segs) = true.
Proof.
  induction segs as [|s r IH]; intros n k H; [destruct k; reflexivity|].
  destruct k as [|k]; [cbn [skipn]; replace (n + N.of_nat 0) with n by lia; exact H|].
  cbn [numbered_from] in H. apply andb_true_iff in H. destruct H as [_ H]. cbn [skipn].
  replace (n + N.of_nat (S k)) with (n + 1 + N.of_nat k) by lia. apply IH, H.
Qed.
Lemma forallb_skipn : forall A (f : A -> bool) l k, forallb f l = true -> forallb f (skipn k l) = true.
Proof.
  intros A f l k H. rewrite forallb_forall in *. intros x Hx. apply H. rewrite <- (firstn_skipn k l). apply in_or_app. right. exact Hx.
Qed.
Lemma chain_ok_weaken : forall Ks pe, chain_ok pe Ks -> chain_ok true Ks.
Proof. intros [|K r] pe H; [exact I|]. cbn [chain_ok] in *. destruct H as [H1 [_ H3]]. repeat split; [exact H1 | exact H3]. Qed.
Lemma chain_ok_skipn : forall Ks pe k, chain_ok pe Ks -> chain_ok true (skipn k Ks).
Proof.
  induction Ks as [|K r IH]; intros pe k H; [destruct k; exact I|].
  destruct k as [|k]; [apply (chain_ok_weaken _ pe H)|]. cbn [skipn]. cbn [chain_ok] in H. destruct H as [_ [_ H]].
  apply (IH _ k H).
Qed.
Lemma forall2_skipn : forall A B (R : A -> B -> Prop) l1 l2 k, Forall2 R l1 l2 -> Forall2 R (skipn k l1) (skipn k l2).
Proof.
  intros A B R l1 l2 k H. revert k. induction H as [|x y l1 l2 Hxy Hl IH]; intros k; [destruct k; constructor|].
  destruct k as [|k]; [constructor; assumption | apply IH].
Qed.
Lemma in_skipn : forall A (l : list A) k x, In x (skipn k l) -> In x l.
Proof. intros A l k x H. rewrite <- (firstn_skipn k l). apply in_or_app. right. exact H. Qed.
Lemma indep_ok_skipn : forall segs k, indep_ok segs = true -> indep_ok (skipn k segs) = true.
Proof.
  intros segs k H. rewrite indep_ok_alt in *.
  destruct (existsb is_aes (List.concat (map sg_keys (skipn k segs)))) eqn:E; [|reflexivity].
  assert (Hsub : forall x, In x (List.concat (map sg_keys (skipn k segs))) -> In x (List.concat (map sg_keys segs))).
  { intros x Hx. apply in_concat in Hx. destruct Hx as [l [Hl Hx]]. apply in_map_iff in Hl. destruct Hl as [s [<- Hs]].
    apply in_concat. exists (sg_keys s). split; [apply in_map, (in_skipn _ _ _ _ Hs) | exact Hx]. }
  assert (E2 : existsb is_aes (List.concat (map sg_keys segs)) = true).
  { apply existsb_exists in E. destruct E as [x [Hx Hf]]. apply existsb_exists. exists x. split; [apply Hsub, Hx | exact Hf]. }
  rewrite E2 in H. rewrite forallb_forall in *. intros x Hx. apply H, Hsub, Hx.
Qed.

Lemma built_ok_slide : forall p raws k, built_ok p raws -> built_ok (slide k p) (skipn k raws).
Proof.
  intros p raws k H. constructor; unfold slide; cbn [mp_target mp_mseq mp_segs mp_indep].
  - apply (bo_target _ _ H).
  - apply numbered_skipn, (bo_numbers _ _ H).
  - apply forallb_skipn, (bo_ranges _ _ H).
  - apply forallb_skipn, (bo_durations _ _ H).
  - intros Hi. apply indep_ok_skipn, (bo_indep _ _ H Hi).
  - apply forall2_skipn, (bo_keys _ _ H).
  - apply (chain_ok_skipn raws true k (bo_chain _ _ H)).
Qed.

Lemma numbered_nth_lt : forall segs n k s, numbered_from n segs = true -> nth_error segs k = Some s -> n + N.of_nat k < two64.
Proof.
  induction segs as [|s0 r IH]; intros n k s H Hk; [destruct k; discriminate|].
  cbn [numbered_from] in H. apply andb_true_iff in H. destruct H as [H Hr]. apply andb_true_iff in H. destruct H as [_ Hlt].
  destruct k as [|k]; [apply N.ltb_lt in Hlt; lia|]. cbn [nth_error] in Hk. specialize (IH (n + 1) k s Hr Hk). lia.
Qed.
Lemma wf_media_slide : forall p raws k, wf_media p = true -> built_ok p raws -> (k < List.length (mp_segs p))%nat ->
  wf_media (slide k p) = true.
Proof.
  intros p raws k H Hb Hk. unfold wf_media in *.
  repeat (apply andb_true_iff in H; let H2 := fresh "W" in destruct H as [H H2]).
  unfold slide. cbn [mp_target mp_mseq mp_dseq mp_ptype mp_start mp_segs mp_unknown].
  rewrite H, W3, W2, W1, W, (forallb_skipn _ _ _ k W0). cbn [andb]. rewrite !andb_true_r.
  destruct (nth_error (mp_segs p) k) as [s|] eqn:E; [|apply nth_error_None in E; lia].
  apply N.ltb_lt. apply (numbered_nth_lt _ _ _ _ (bo_numbers _ _ Hb) E).
Qed.

(* the slid playlist, written (keys and maps restated by the writer) and read again *)
Theorem slide_roundtrip : forall p raws k, wf_media p = true -> built_ok p raws -> (k < List.length (mp_segs p))%nat ->
  parse_media (print_media (slide k p)) = Ok (reread (slide k p))
  /\ mp_mseq (reread (slide k p)) = mp_mseq p + N.of_nat k
  /\ Forall2 seg_same (mp_segs (reread (slide k p))) (skipn k (mp_segs p)).
Proof.
  intros p raws k Hwf Hb Hk. pose proof (built_ok_slide p raws k Hb) as Hb'.
  split; [apply (media_text_roundtrip _ _ (wf_media_slide p raws k Hwf Hb Hk) Hb')|].
  destruct (reread_same _ _ Hb') as [_ [Hm [_ [_ [_ [_ [_ [_ [_ Hs]]]]]]]]]. split; [exact Hm | exact Hs].
Qed.
