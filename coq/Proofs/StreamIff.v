(* StreamIff.v — C14 for the stream tags as an iff over ALL attribute lists (any order, duplicates, unknown attributes):
   EXT-X-STREAM-INF / EXT-X-I-FRAME-STREAM-INF are accepted exactly when every BANDWIDTH / AVERAGE-BANDWIDTH / RESOLUTION /
   HDCP-LEVEL / FRAME-RATE attribute is well formed, some BANDWIDTH attribute is present and (I-frame form) some URI attribute. *)
From hls Require Import Base Float Lex Kinds Types Tags.
From hls.Generated Require Import Tables.
From hls.Proofs Require Import EqFacts NoPanic.
Open Scope N_scope.

Definition sd_pair_ok (kv : str * str) : bool :=
  let '(k, v) := kv in
  if str_eqb k s_BANDWIDTH then is_ok (parse_u64 v)
  else if str_eqb k s_AVERAGE_BANDWIDTH then is_ok (parse_u64 v)
  else if str_eqb k s_CODECS then true
  else if str_eqb k s_RESOLUTION then is_ok (parse_resolution v)
  else if str_eqb k s_HDCP_LEVEL then is_ok (enum_parse enum_HdcpLevel v)
  else true.
Definition is_bw (kv : str * str) : bool := str_eqb (fst kv) s_BANDWIDTH.
Definition si_pair_ok (kv : str * str) : bool :=
  let '(k, v) := kv in if str_eqb k s_FRAME_RATE then is_ok (parse_ufloat v) else true.

(* a fold over attributes that fails exactly on the attributes a predicate rejects *)
Lemma fold_res_ok_iff : forall A B (f : A -> B -> res A) (ok : B -> bool),
  (forall a b, match f a b with Ok _ => ok b = true | Err => ok b = false | Panic => False end) ->
  forall l a, match fold_res f l a with Ok _ => forallb ok l = true | Err => forallb ok l = false | Panic => False end.
Proof.
  intros A B f ok Hs. induction l as [|b l IH]; intros a; cbn [fold_res forallb]; [reflexivity|].
  specialize (Hs a b). destruct (f a b) as [a1| |]; cbn [bind].
  - rewrite Hs. cbn [andb]. apply IH.
  - rewrite Hs. reflexivity.
  - exact Hs.
Qed.

Lemma sd_step_spec : forall a kv,
  match sd_attr a kv with
  | Ok a' => sd_pair_ok kv = true /\ is_some (sa_bw a') = is_some (sa_bw a) || is_bw kv
  | Err => sd_pair_ok kv = false
  | Panic => False
  end.
Proof.
  intros a [k v]. unfold sd_attr, sd_pair_ok, is_bw. cbn [fst].
  destruct (str_eqb k s_BANDWIDTH) eqn:E1.
  - destruct (parse_u64 v) as [n| |] eqn:P; cbn [bind is_ok sa_bw is_some]; [rewrite orb_true_r; auto | reflexivity | exact (parse_u64_np _ P)].
  - rewrite orb_false_r. destruct (str_eqb k s_AVERAGE_BANDWIDTH).
    + destruct (parse_u64 v) as [n| |] eqn:P; cbn [bind is_ok sa_bw]; [auto | reflexivity | exact (parse_u64_np _ P)].
    + destruct (str_eqb k s_CODECS); [cbn [sa_bw]; auto|].
      destruct (str_eqb k s_RESOLUTION).
      * destruct (parse_resolution v) as [r| |] eqn:P; cbn [bind is_ok sa_bw]; [auto | reflexivity | exact (parse_resolution_np _ P)].
      * destruct (str_eqb k s_HDCP_LEVEL).
        -- destruct (enum_parse enum_HdcpLevel v) as [h| |] eqn:P; cbn [bind is_ok sa_bw]; [auto | reflexivity | exact (enum_parse_np _ _ P)].
        -- destruct (str_eqb k s_VIDEO); cbn [sa_bw]; auto.
Qed.
Lemma fold_sd_spec : forall l a,
  match fold_res sd_attr l a with
  | Ok a' => forallb sd_pair_ok l = true /\ is_some (sa_bw a') = is_some (sa_bw a) || existsb is_bw l
  | Err => forallb sd_pair_ok l = false
  | Panic => False
  end.
Proof.
  induction l as [|kv l IH]; intros a; cbn [fold_res forallb existsb].
  - rewrite orb_false_r. auto.
  - pose proof (sd_step_spec a kv) as S. destruct (sd_attr a kv) as [a1| |]; cbn [bind].
    + destruct S as [S1 S2]. rewrite S1. cbn [andb]. specialize (IH a1). destruct (fold_res sd_attr l a1) as [a'| |]; [|exact IH|exact IH].
      destruct IH as [I1 I2]. split; [exact I1|]. rewrite I2, S2, orb_assoc. reflexivity.
    + rewrite S. reflexivity.
    + exact S.
Qed.
Theorem stream_data_accept_iff : forall s,
  is_ok (parse_stream_data s) = forallb sd_pair_ok (attr_pairs s) && existsb is_bw (attr_pairs s).
Proof.
  intros s. unfold parse_stream_data.
  pose proof (fold_sd_spec (attr_pairs s) {| sa_bw := None; sa_avg := None; sa_codecs := None; sa_res := None; sa_hdcp := None; sa_video := None |}) as H.
  destruct (fold_res sd_attr (attr_pairs s) _) as [a'| |]; cbn [bind].
  - destruct H as [H1 H2]. cbn [sa_bw is_some orb] in H2. rewrite H1, <- H2. cbn [andb]. destruct (sa_bw a'); reflexivity.
  - rewrite H. reflexivity.
  - destruct H.
Qed.

Lemma si_step_spec : forall a kv,
  match si_attr a kv with Ok _ => si_pair_ok kv = true | Err => si_pair_ok kv = false | Panic => False end.
Proof.
  intros a [k v]. unfold si_attr, si_pair_ok.
  destruct (str_eqb k s_FRAME_RATE).
  - destruct (parse_ufloat v) as [x| |] eqn:P; cbn [bind is_ok]; [reflexivity | reflexivity | exact (parse_ufloat_np _ P)].
  - destruct (str_eqb k s_AUDIO); [reflexivity|]. destruct (str_eqb k s_SUBTITLES); [reflexivity|].
    destruct (str_eqb k s_CLOSED_CAPTIONS); reflexivity.
Qed.

(* EXT-X-STREAM-INF (with its URI line) *)
Theorem streaminf_accept_iff : forall line uri,
  is_ok (parse_streaminf line uri) =
  match tag line pfx_VariantStream_EXTXSTREAMINF with
  | Ok rest => forallb si_pair_ok (attr_pairs rest) && forallb sd_pair_ok (attr_pairs rest) && existsb is_bw (attr_pairs rest)
  | _ => false
  end.
Proof.
  intros line uri. unfold parse_streaminf. destruct (tag line pfx_VariantStream_EXTXSTREAMINF) as [rest| |]; cbn [bind]; try reflexivity.
  pose proof (fold_res_ok_iff _ _ si_attr si_pair_ok si_step_spec (attr_pairs rest)
                {| si_fr := None; si_audio := None; si_subs := None; si_cc := None |}) as H.
  destruct (fold_res si_attr (attr_pairs rest) _) as [a| |]; cbn [bind].
  - rewrite H. cbn [andb]. rewrite <- stream_data_accept_iff.
    destruct (parse_stream_data rest); reflexivity.
  - rewrite H. reflexivity.
  - destruct H.
Qed.
(* EXT-X-I-FRAME-STREAM-INF *)
Theorem iframe_accept_iff : forall line,
  is_ok (parse_iframe line) =
  match tag line pfx_VariantStream_EXTXIFRAME with
  | Ok rest => is_some (find_uri (attr_pairs rest)) && forallb sd_pair_ok (attr_pairs rest) && existsb is_bw (attr_pairs rest)
  | _ => false
  end.
Proof.
  intros line. unfold parse_iframe. destruct (tag line pfx_VariantStream_EXTXIFRAME) as [rest| |]; cbn [bind]; try reflexivity.
  destruct (find_uri (attr_pairs rest)) as [u|]; cbn [of_opt bind is_some andb]; [|reflexivity].
  rewrite <- stream_data_accept_iff. destruct (parse_stream_data rest); reflexivity.
Qed.
