(* AttrOrder2.v — attribute order is irrelevant for EVERY attribute-list parser (the three tags of
   AttrOrder.v and the remaining five), and the composition with the tokenizer: an attribute list in
   any order, with unknown attributes and arbitrary padding, is read like the canonical one. *)
From hls Require Import Base Float Lex Kinds Types Tags Line Keys Media Master.
From hls.Generated Require Import Tables.
From hls.Proofs Require Import EqFacts Build Parse MediaProps NoPanic AttrOrder Lexical.
From Coq Require Import Permutation Lia.
Open Scope N_scope.

Section Generic2.
  Context {A : Type}.
  Variable f : A -> str * str -> res A.
  Hypothesis f_np : forall a kv, f a kv <> Panic.
  (* whether an attribute is accepted does not depend on the accumulator *)
  Hypothesis same_kind : forall a b kv, is_ok (f a kv) = is_ok (f b kv).
  (* attributes with different names update the accumulator independently *)
  Hypothesis commute : forall a x y a1 a2 a12 a21, fst x <> fst y ->
    f a x = Ok a1 -> f a1 y = Ok a12 -> f a y = Ok a2 -> f a2 x = Ok a21 -> a12 = a21.

  Lemma kind_err : forall a b kv, f a kv = Err -> f b kv = Err.
  Proof.
    intros a b kv H. pose proof (same_kind a b kv) as K. rewrite H in K. pose proof (f_np b kv) as N.
    destruct (f b kv); [discriminate K | reflexivity | congruence].
  Qed.
  Lemma kind_ok : forall a b kv a', f a kv = Ok a' -> exists b', f b kv = Ok b'.
  Proof.
    intros a b kv a' H. pose proof (same_kind a b kv) as K. rewrite H in K.
    destruct (f b kv) as [b'| |]; [exists b'; reflexivity | discriminate K | discriminate K].
  Qed.
  Lemma fold_two2 : forall x y l a, fst x <> fst y -> fold_res f (x :: y :: l) a = fold_res f (y :: x :: l) a.
  Proof.
    intros x y l a Hne. cbn [fold_res].
    destruct (f a x) as [a1| |] eqn:Ex; [| |exfalso; exact (f_np _ _ Ex)];
    destruct (f a y) as [a2| |] eqn:Ey; cbn [bind]; try (exfalso; exact (f_np _ _ Ey)).
    - destruct (kind_ok a a1 y a2 Ey) as [a12 E12]. destruct (kind_ok a a2 x a1 Ex) as [a21 E21].
      rewrite E12, E21. cbn [bind]. rewrite (commute a x y a1 a2 a12 a21 Hne Ex E12 Ey E21). reflexivity.
    - rewrite (kind_err a a1 y Ey). reflexivity.
    - rewrite (kind_err a a2 x Ex). reflexivity.
    - reflexivity.
  Qed.
  Theorem attr_order_irrelevant2 : forall l1 l2, Permutation l1 l2 -> NoDup (map fst l1) ->
    forall a, fold_res f l1 a = fold_res f l2 a.
  Proof.
    induction 1 as [|x l1 l2 HP IH|x y l|l1 l2 l3 H12 IH12 H23 IH23]; intros Hnd a.
    - reflexivity.
    - cbn [fold_res]. destruct (f a x); cbn [bind]; try reflexivity. apply IH. inversion Hnd; assumption.
    - apply fold_two2. inversion Hnd as [|? ? Hn _]; subst. intros E. apply Hn. left. symmetry. exact E.
    - rewrite IH12 by assumption. apply IH23.
      eapply Permutation_NoDup; [apply Permutation_map; eassumption | assumption].
  Qed.
End Generic2.

(* binds inside the hypotheses / goal: split on the parser results *)
Ltac split_binds :=
  repeat match goal with
         | H : bind ?r _ = Ok _ |- _ => let E := fresh "E" in destruct r eqn:E; cbn [bind] in H; try discriminate H
         | H : (if ?c then _ else _) = Ok _ |- _ => let E := fresh "E" in destruct c eqn:E; try discriminate H
         end.
Ltac kind_tac := name_cases; try reflexivity;
  repeat match goal with
         | |- context [bind ?r _] => destruct r; cbn [bind is_ok]
         | |- context [if ?c then _ else _] => destruct c
         end; reflexivity.
Ltac commute_tac :=
  name_cases; split_binds;
  repeat match goal with H : Ok _ = Ok _ |- _ => inversion H; clear H end; subst;
  try reflexivity; try same_name_contra; try congruence.

(* ---------- EXT-X-MEDIA ---------- *)
Theorem media_attr_order : forall l1 l2, Permutation l1 l2 -> NoDup (map fst l1) ->
  forall a, fold_res xm_attr l1 a = fold_res xm_attr l2 a.
Proof.
  apply (attr_order_irrelevant2 xm_attr xm_attr_np).
  - intros a b [k v]. unfold xm_attr. kind_tac.
  - intros a [k1 v1] [k2 v2] a1 a2 a12 a21 Hne H1 H12 H2 H21. simpl in Hne. unfold xm_attr in *. commute_tac.
Qed.

(* ---------- DecryptionKey (EXT-X-KEY, EXT-X-SESSION-KEY) ---------- *)
Theorem key_attr_order : forall l1 l2, Permutation l1 l2 -> NoDup (map fst l1) ->
  forall a, fold_res key_attr l1 a = fold_res key_attr l2 a.
Proof.
  apply (attr_order_irrelevant2 key_attr key_attr_np).
  - intros a b [k v]. unfold key_attr. cbv zeta. kind_tac.
  - intros a [k1 v1] [k2 v2] a1 a2 a12 a21 Hne H1 H12 H2 H21. simpl in Hne. unfold key_attr in *. cbv zeta in *. commute_tac.
Qed.

(* ---------- StreamData and the variant-stream attributes ---------- *)
Theorem stream_data_attr_order : forall l1 l2, Permutation l1 l2 -> NoDup (map fst l1) ->
  forall a, fold_res sd_attr l1 a = fold_res sd_attr l2 a.
Proof.
  apply (attr_order_irrelevant2 sd_attr sd_attr_np).
  - intros a b [k v]. unfold sd_attr. kind_tac.
  - intros a [k1 v1] [k2 v2] a1 a2 a12 a21 Hne H1 H12 H2 H21. simpl in Hne. unfold sd_attr in *. commute_tac.
Qed.
Theorem variant_attr_order : forall l1 l2, Permutation l1 l2 -> NoDup (map fst l1) ->
  forall a, fold_res si_attr l1 a = fold_res si_attr l2 a.
Proof.
  apply (attr_order_irrelevant2 si_attr si_attr_np).
  - intros a b [k v]. unfold si_attr. kind_tac.
  - intros a [k1 v1] [k2 v2] a1 a2 a12 a21 Hne H1 H12 H2 H21. simpl in Hne. unfold si_attr in *. commute_tac.
Qed.

(* ---------- EXT-X-DATERANGE ---------- *)
From hls.Proofs Require Import TextLines AttrText TagText TagTextSegment TagTextDateRange MediaParsedWf.
Lemma str_cmp_gt_lt : forall a b, str_cmp a b = Gt -> str_cmp b a = Lt.
Proof. intros a b H. rewrite (str_cmp_antisym a b), H. reflexivity. Qed.
Lemma str_cmp_lt_gt : forall a b, str_cmp a b = Lt -> str_cmp b a = Gt.
Proof. intros a b H. rewrite (str_cmp_antisym a b), H. reflexivity. Qed.
Lemma str_cmp_lt_irrefl : forall a, str_cmp a a = Lt -> False.
Proof. intros a H. rewrite str_cmp_refl in H. discriminate. Qed.
Ltac cmp_contra :=
  (* derive False from an inconsistent set of comparisons among k1, k2, k' *)
  repeat match goal with
         | H : str_cmp ?a ?b = Eq |- _ => apply str_cmp_eq in H; subst
         | H : str_cmp ?a ?b = Gt |- _ => apply str_cmp_gt_lt in H
         end;
  try congruence;
  repeat match goal with
         | H : str_cmp ?a ?a = Lt |- _ => exfalso; exact (str_cmp_lt_irrefl a H)
         | H1 : str_cmp ?a ?b = Lt, H2 : str_cmp ?b ?a = Lt |- _ => exfalso; exact (str_cmp_lt_irrefl a (str_cmp_lt_trans a b a H1 H2))
         | H1 : str_cmp ?a ?b = Lt, H2 : str_cmp ?b ?c = Lt, H3 : str_cmp ?c ?a = Lt |- _ =>
             exfalso; exact (str_cmp_lt_irrefl a (str_cmp_lt_trans a c a (str_cmp_lt_trans a b c H1 H2) H3))
         end.
Lemma btree_insert_comm : forall l k1 v1 k2 v2, k1 <> k2 ->
  btree_insert k1 v1 (btree_insert k2 v2 l) = btree_insert k2 v2 (btree_insert k1 v1 l).
Proof.
  induction l as [|[k' v'] r IH]; intros k1 v1 k2 v2 Hne.
  - cbn [btree_insert]. rewrite (str_cmp_antisym k1 k2). destruct (str_cmp k1 k2) eqn:E12; cbn [CompOpp]; try reflexivity.
    apply str_cmp_eq in E12. congruence.
  - cbn [btree_insert].
    destruct (str_cmp k1 k') eqn:E1; destruct (str_cmp k2 k') eqn:E2; destruct (str_cmp k1 k2) eqn:E12;
      cbn [btree_insert]; rewrite ?(str_cmp_antisym k1 k2), ?E12, ?E1, ?E2; cbn [CompOpp btree_insert];
      rewrite ?E1, ?E2; try reflexivity; try (rewrite (IH k1 v1 k2 v2 Hne); reflexivity);
      try solve [cmp_contra].
Qed.

Theorem daterange_attr_order : forall l1 l2, Permutation l1 l2 -> NoDup (map fst l1) ->
  forall a, fold_res dr_attr l1 a = fold_res dr_attr l2 a.
Proof.
  apply (attr_order_irrelevant2 dr_attr dr_attr_np).
  - intros a b [k v]. unfold dr_attr. kind_tac.
  - intros a [k1 v1] [k2 v2] a1 a2 a12 a21 Hne H1 H12 H2 H21. simpl in Hne. unfold dr_attr in *.
    name_cases; split_binds;
    repeat match goal with H : Ok _ = Ok _ |- _ => inversion H; clear H end; subst;
    try reflexivity; try same_name_contra; try congruence.
    (* two client attributes *)
    cbn [da_id da_class da_start da_end da_duration da_planned da_cmd da_out da_in da_eon da_client].
    f_equal. apply btree_insert_comm. intro E9. apply Hne. symmetry. exact E9.
Qed.

(* ---------- any surface syntax of an attribute list ---------- *)
From hls.Proofs Require Import AttrTables.
Section Styled.
  Context {A : Type}.
  Variable f : A -> str * str -> res A.
  Variable skip : str -> Prop.      (* attribute names the parser ignores *)
  Hypothesis order : forall l1 l2, Permutation l1 l2 -> NoDup (map fst l1) -> forall a, fold_res f l1 a = fold_res f l2 a.
  Hypothesis ignored : forall a k v, skip k -> f a (k, v) = Ok a.

  Lemma fold_skip : forall extra a, (forall p, In p extra -> skip (fst p)) -> fold_res f extra a = Ok a.
  Proof.
    induction extra as [|[k v] r IH]; intros a H; [reflexivity|]. cbn [fold_res].
    rewrite (ignored a k v (H (k, v) (or_introl eq_refl))). cbn [bind]. apply IH. intros p Hp. apply H. right. exact Hp.
  Qed.
  (* an attribute list written in any order, with any white space around names, `=`, values and commas, and with
     additional attributes the parser does not know, is folded exactly like the canonical list *)
  Theorem styled_attrs : forall (entries : list entry) (canon extra : list (str * str)),
    Forall entry_ok entries ->
    Permutation (map (fun e => (e_k e, e_v e)) entries) (canon ++ extra) ->
    NoDup (map fst (canon ++ extra)) ->
    (forall p, In p extra -> skip (fst p)) ->
    forall a, fold_res f (attr_pairs (render_attrs entries)) a = bind (fold_res f canon a) (fun a' => Ok a').
  Proof.
    intros entries canon extra Hok Hperm Hnd Hskip a.
    rewrite (tokenizer_inverts_render entries Hok).
    assert (Hnd' : NoDup (map fst (map (fun e => (e_k e, e_v e)) entries))).
    { eapply Permutation_NoDup; [apply Permutation_map; apply Permutation_sym; exact Hperm | exact Hnd]. }
    rewrite (order _ _ Hperm Hnd' a). rewrite fold_res_app.
    destruct (fold_res f canon a) as [a1| |]; cbn [bind]; try reflexivity. apply fold_skip. exact Hskip.
  Qed.
End Styled.

Definition unknown_to (ty : String.string) (k : str) : Prop := existsb (str_eqb k) (names_of ty) = false.
Theorem styled_all :
  (forall entries canon extra a, Forall entry_ok entries ->
     Permutation (map (fun e => (e_k e, e_v e)) entries) (canon ++ extra) -> NoDup (map fst (canon ++ extra)) ->
     (forall p, In p extra -> unknown_to "ExtXMedia" (fst p)) ->
     fold_res xm_attr (attr_pairs (render_attrs entries)) a = bind (fold_res xm_attr canon a) (fun a' => Ok a'))
  /\ (forall entries canon extra a, Forall entry_ok entries ->
     Permutation (map (fun e => (e_k e, e_v e)) entries) (canon ++ extra) -> NoDup (map fst (canon ++ extra)) ->
     (forall p, In p extra -> unknown_to "ExtXSessionData" (fst p)) ->
     fold_res xs_attr (attr_pairs (render_attrs entries)) a = bind (fold_res xs_attr canon a) (fun a' => Ok a'))
  /\ (forall entries canon extra a, Forall entry_ok entries ->
     Permutation (map (fun e => (e_k e, e_v e)) entries) (canon ++ extra) -> NoDup (map fst (canon ++ extra)) ->
     (forall p, In p extra -> unknown_to "DecryptionKey" (fst p)) ->
     fold_res key_attr (attr_pairs (render_attrs entries)) a = bind (fold_res key_attr canon a) (fun a' => Ok a'))
  /\ (forall entries canon extra a, Forall entry_ok entries ->
     Permutation (map (fun e => (e_k e, e_v e)) entries) (canon ++ extra) -> NoDup (map fst (canon ++ extra)) ->
     (forall p, In p extra -> unknown_to "StreamData" (fst p)) ->
     fold_res sd_attr (attr_pairs (render_attrs entries)) a = bind (fold_res sd_attr canon a) (fun a' => Ok a'))
  /\ (forall entries canon extra a, Forall entry_ok entries ->
     Permutation (map (fun e => (e_k e, e_v e)) entries) (canon ++ extra) -> NoDup (map fst (canon ++ extra)) ->
     (forall p, In p extra -> unknown_to "VariantStream" (fst p)) ->
     fold_res si_attr (attr_pairs (render_attrs entries)) a = bind (fold_res si_attr canon a) (fun a' => Ok a'))
  /\ (forall entries canon extra a, Forall entry_ok entries ->
     Permutation (map (fun e => (e_k e, e_v e)) entries) (canon ++ extra) -> NoDup (map fst (canon ++ extra)) ->
     (forall p, In p extra -> unknown_to "ExtXStart" (fst p)) ->
     fold_res start_attr (attr_pairs (render_attrs entries)) a = bind (fold_res start_attr canon a) (fun a' => Ok a'))
  /\ (forall entries canon extra a, Forall entry_ok entries ->
     Permutation (map (fun e => (e_k e, e_v e)) entries) (canon ++ extra) -> NoDup (map fst (canon ++ extra)) ->
     (forall p, In p extra -> unknown_to "ExtXMap" (fst p)) ->
     fold_res map_attr (attr_pairs (render_attrs entries)) a = bind (fold_res map_attr canon a) (fun a' => Ok a'))
  /\ (forall entries canon extra a, Forall entry_ok entries ->
     Permutation (map (fun e => (e_k e, e_v e)) entries) (canon ++ extra) -> NoDup (map fst (canon ++ extra)) ->
     (forall p, In p extra -> unknown_to "ExtXDateRange" (fst p) /\ starts_with s_Xdash (fst p) = false) ->
     fold_res dr_attr (attr_pairs (render_attrs entries)) a = bind (fold_res dr_attr canon a) (fun a' => Ok a')).
Proof.
  repeat split; intros entries canon extra a H1 H2 H3 H4.
  - apply (styled_attrs xm_attr (unknown_to "ExtXMedia") media_attr_order (fun a k v H => xm_attr_ignores a k v H) entries canon extra H1 H2 H3 H4).
  - apply (styled_attrs xs_attr (unknown_to "ExtXSessionData") session_data_attr_order (fun a k v H => xs_attr_ignores a k v H) entries canon extra H1 H2 H3 H4).
  - apply (styled_attrs key_attr (unknown_to "DecryptionKey") key_attr_order (fun a k v H => key_attr_ignores a k v H) entries canon extra H1 H2 H3 H4).
  - apply (styled_attrs sd_attr (unknown_to "StreamData") stream_data_attr_order (fun a k v H => sd_attr_ignores a k v H) entries canon extra H1 H2 H3 H4).
  - apply (styled_attrs si_attr (unknown_to "VariantStream") variant_attr_order (fun a k v H => si_attr_ignores a k v H) entries canon extra H1 H2 H3 H4).
  - apply (styled_attrs start_attr (unknown_to "ExtXStart") start_attr_order (fun a k v H => start_attr_ignores a k v H) entries canon extra H1 H2 H3 H4).
  - apply (styled_attrs map_attr (unknown_to "ExtXMap") map_attr_order (fun a k v H => map_attr_ignores a k v H) entries canon extra H1 H2 H3 H4).
  - apply (styled_attrs dr_attr (fun k => unknown_to "ExtXDateRange" k /\ starts_with s_Xdash k = false) daterange_attr_order
             (fun a k v H => dr_attr_ignores a k v (proj1 H) (proj2 H)) entries canon extra H1 H2 H3 H4).
Qed.
