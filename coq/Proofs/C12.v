(* Proofs for C12: presentation changes that cannot influence the parse result, on arbitrary
   text / arbitrary item lists (no validity assumption). *)
From hls Require Import Base Float Lex Kinds Types Tags Line Keys Media Master.
From hls.Generated Require Import Tables.
From hls.Proofs Require Import Build Parse C15 C16.
From Coq Require Import Lia.
Open Scope N_scope.

(* ---------- trimming ---------- *)
Lemma trim_end_snoc_ws : forall m c, is_ws c = true -> trim_end (m ++ [c]) = trim_end m.
Proof.
  intros m c H. unfold trim_end. rewrite rev_app_distr. simpl. rewrite H. reflexivity.
Qed.
Lemma trim_end_nil : trim_end [] = [].
Proof. reflexivity. Qed.
Lemma trim_start_allws : forall l, forallb is_ws l = true -> trim_start l = [].
Proof.
  induction l as [|c l IH]; simpl; intros H; [reflexivity|].
  apply andb_true_iff in H. destruct H as [Hc Hl]. rewrite Hc. auto.
Qed.
Lemma trim_start_app_ws : forall w l, forallb is_ws w = true -> trim_start (w ++ l) = trim_start l.
Proof.
  induction w as [|c w IH]; simpl; intros l H; [reflexivity|].
  apply andb_true_iff in H. destruct H as [Hc Hw]. rewrite Hc. auto.
Qed.
Lemma trim_start_snoc : forall l c, is_ws c = true ->
  trim_start (l ++ [c]) = if forallb is_ws l then [] else trim_start l ++ [c].
Proof.
  induction l as [|x l IH]; simpl; intros c H.
  - rewrite H. reflexivity.
  - destruct (is_ws x); simpl; [apply IH; assumption | reflexivity].
Qed.
Lemma trim_snoc_ws : forall l c, is_ws c = true -> trim (l ++ [c]) = trim l.
Proof.
  intros l c H. unfold trim. rewrite trim_start_snoc by assumption.
  destruct (forallb is_ws l) eqn:E.
  - rewrite (trim_start_allws _ E). reflexivity.
  - apply trim_end_snoc_ws. assumption.
Qed.
Lemma trim_end_app_ws : forall m w, forallb is_ws w = true -> trim_end (m ++ w) = trim_end m.
Proof.
  intros m w. revert m. induction w as [|c w IH] using rev_ind; intros m H.
  - rewrite app_nil_r. reflexivity.
  - rewrite forallb_app in H. apply andb_true_iff in H. destruct H as [Hw Hc].
    simpl in Hc. rewrite andb_true_r in Hc.
    rewrite app_assoc, trim_end_snoc_ws by assumption. auto.
Qed.
Lemma trim_start_app_nonws : forall l w, forallb is_ws l = false -> trim_start (l ++ w) = trim_start l ++ w.
Proof.
  induction l as [|x l IH]; simpl; intros w H; [discriminate|].
  destruct (is_ws x); simpl in *; [auto | reflexivity].
Qed.
Lemma trim_pad : forall w1 l w2, forallb is_ws w1 = true -> forallb is_ws w2 = true ->
  trim (w1 ++ l ++ w2) = trim l.
Proof.
  intros w1 l w2 H1 H2. unfold trim. rewrite trim_start_app_ws by assumption.
  destruct (forallb is_ws l) eqn:E.
  - rewrite (trim_start_allws l E).
    rewrite trim_start_allws; [reflexivity|]. rewrite forallb_app, E, H2. reflexivity.
  - rewrite trim_start_app_nonws by assumption. apply trim_end_app_ws. assumption.
Qed.

(* ---------- CRLF versus LF ---------- *)
Definition crlfify (s : str) : str := flat_map (fun c => if c =? 10 then [13; 10] else [c]) s.
Definition crl (l' l : str) : Prop := l' = l \/ l' = l ++ [13].

Lemma split_crlf : forall s, Forall2 crl (split_on 10 (crlfify s)) (split_on 10 s).
Proof.
  induction s as [|c r IH]; simpl.
  - constructor; [left; reflexivity | constructor].
  - destruct (c =? 10) eqn:E.
    + simpl. pose proof (split_on_nonempty 10 (crlfify r)) as Hn.
      constructor; [right; reflexivity | exact IH].
    + simpl. rewrite E.
      pose proof (split_on_nonempty 10 (crlfify r)) as Hn1. pose proof (split_on_nonempty 10 r) as Hn2.
      destruct (split_on 10 (crlfify r)) as [|h' t']; [congruence|].
      destruct (split_on 10 r) as [|h t]; [congruence|].
      inversion IH; subst. constructor; [|assumption].
      destruct H2 as [-> | ->]; [left; reflexivity | right; reflexivity].
Qed.

Lemma crl_trim : forall l' l, crl l' l -> trim l' = trim l.
Proof. intros l' l [-> | ->]; [reflexivity | apply trim_snoc_ws; reflexivity]. Qed.

Lemma forall2_map_eq : forall A B (R : A -> A -> Prop) (f : A -> B) l1 l2,
  (forall a b, R a b -> f a = f b) -> Forall2 R l1 l2 -> map f l1 = map f l2.
Proof. intros A B R f l1 l2 H HF. induction HF; simpl; [reflexivity|]. f_equal; auto. Qed.

Theorem crlf_invariant : forall s, clean_lines (crlfify s) = clean_lines s.
Proof.
  intros s. unfold clean_lines. f_equal.
  eapply forall2_map_eq; [exact crl_trim | apply split_crlf].
Qed.

(* ---------- blank lines and padding ---------- *)
Lemma clean_lines_ws : forall w, forallb is_ws w = true -> clean_lines w = [].
Proof.
  intros w H. unfold clean_lines.
  assert (Hall : forall l, In l (split_on 10 w) -> forallb is_ws l = true).
  { revert H. induction w as [|c r IH]; simpl; intros H l Hin.
    - destruct Hin as [<- | []]; reflexivity.
    - apply andb_true_iff in H. destruct H as [Hc Hr]. destruct (c =? 10).
      + destruct Hin as [<- | Hin]; [reflexivity | auto].
      + pose proof (split_on_nonempty 10 r) as Hn. destruct (split_on 10 r) as [|h t]; [congruence|].
        destruct Hin as [<- | Hin].
        * simpl. rewrite Hc. apply IH; [assumption | left; reflexivity].
        * apply IH; [assumption | right; assumption]. }
  induction (split_on 10 w) as [|l ls IH]; simpl; [reflexivity|].
  assert (Hl : trim l = []).
  { unfold trim. rewrite trim_start_allws; [reflexivity | apply Hall; left; reflexivity]. }
  rewrite Hl. simpl. apply IH. intros x Hx. apply Hall. right; assumption.
Qed.

Theorem blank_line_invariant : forall a w b, forallb is_ws w = true ->
  clean_lines (a ++ 10 :: w ++ 10 :: b) = clean_lines (a ++ 10 :: b).
Proof.
  intros a w b H. rewrite !clean_lines_append. rewrite (clean_lines_ws w H). reflexivity.
Qed.

Theorem line_padding_invariant : forall a w1 l w2 b,
  forallb is_ws w1 = true -> forallb is_ws w2 = true ->
  forallb (fun c => negb (c =? 10)) (w1 ++ l ++ w2) = true ->
  clean_lines (a ++ 10 :: (w1 ++ l ++ w2) ++ 10 :: b) = clean_lines (a ++ 10 :: l ++ 10 :: b).
Proof.
  intros a w1 l w2 b H1 H2 Hn. rewrite !clean_lines_append.
  f_equal. f_equal.
  assert (Hsplit : forall x, forallb (fun c => negb (c =? 10)) x = true -> split_on 10 x = [x]).
  { induction x as [|c r IH]; simpl; intros H; [reflexivity|].
    apply andb_true_iff in H. destruct H as [Hc Hr]. apply negb_true_iff in Hc. rewrite Hc.
    rewrite (IH Hr). reflexivity. }
  unfold clean_lines. rewrite (Hsplit _ Hn).
  assert (Hl : forallb (fun c => negb (c =? 10)) l = true).
  { rewrite !forallb_app in Hn. apply andb_true_iff in Hn. destruct Hn as [_ Hn].
    apply andb_true_iff in Hn. tauto. }
  rewrite (Hsplit _ Hl). simpl. rewrite trim_pad by assumption. reflexivity.
Qed.

(* ---------- comment items, redundant version tags, unknown tags (item level) ---------- *)
Theorem comment_invariant_media : forall l1 l2 s,
  run_lines s (l1 ++ Ok LComment :: l2) = run_lines s (l1 ++ l2).
Proof.
  intros. rewrite !run_lines_app. destruct (run_lines s l1); reflexivity.
Qed.

Lemma mrun_lines_app : forall l1 l2 s,
  mrun_lines s (l1 ++ l2) = bind (mrun_lines s l1) (fun s' => mrun_lines s' l2).
Proof.
  induction l1 as [|r l1 IH]; simpl; intros l2 s; [reflexivity|].
  destruct r as [l| |]; simpl; try reflexivity.
  destruct (mstep s l) as [s1| |]; simpl; try reflexivity. apply IH.
Qed.
Theorem comment_invariant_master : forall l1 l2 s,
  mrun_lines s (l1 ++ Ok LComment :: l2) = mrun_lines s (l1 ++ l2).
Proof.
  intros. rewrite !mrun_lines_app. destruct (mrun_lines s l1); reflexivity.
Qed.

Lemma version_not_rejected : in_kinds K_ExtXVersion media_rejects = false /\ in_kinds K_ExtXVersion master_rejects = false.
Proof. vm_compute. split; reflexivity. Qed.

Theorem version_tag_invariant_media : forall l1 l2 s v,
  run_lines s (l1 ++ Ok (LTag (TVersion v)) :: l2) = run_lines s (l1 ++ l2).
Proof.
  intros. rewrite !run_lines_app. destruct (run_lines s l1) as [s1| |]; reflexivity.
Qed.
Theorem version_tag_invariant_master : forall l1 l2 s v,
  mrun_lines s (l1 ++ Ok (LTag (TVersion v)) :: l2) = mrun_lines s (l1 ++ l2).
Proof.
  intros. rewrite !mrun_lines_app. destruct (mrun_lines s l1) as [s1| |]; reflexivity.
Qed.

(* unknown tags: the state changes in its unknown list only *)
Definition forget_unknown (s : pstate) : pstate :=
  {| ps_seg := ps_seg s; ps_partial := ps_partial s; ps_hasdisc := ps_hasdisc s; ps_unknown := [];
     ps_keys := ps_keys s; ps_segs := ps_segs s; ps_b := ps_b s |}.

Lemma step_forget_eq : forall s l,
  rmap forget_unknown (step s l) = rmap forget_unknown (step (forget_unknown s) l).
Proof.
  intros s l. destruct l as [t| |u]; unfold step.
  - destruct (in_kinds (kind_of t) media_rejects); [reflexivity|].
    destruct t; cbn [step_tag set_seg set_b forget_unknown ps_seg ps_b ps_segs ps_hasdisc ps_keys ps_partial ps_unknown];
      repeat match goal with |- context [if ?c then _ else _] => destruct c end; reflexivity.
  - reflexivity.
  - cbn [forget_unknown ps_seg]. destruct (sa_inf (ps_seg s)); reflexivity.
Qed.

Lemma run_lines_forget : forall ls s,
  rmap forget_unknown (run_lines s ls) = rmap forget_unknown (run_lines (forget_unknown s) ls).
Proof.
  induction ls as [|r ls IH]; simpl; intros s; [reflexivity|].
  destruct r as [l| |]; simpl; try reflexivity.
  pose proof (step_forget_eq s l) as H.
  destruct (step s l) as [s1| |], (step (forget_unknown s) l) as [s2| |]; simpl in H; try discriminate; try reflexivity.
  simpl. assert (H1 : forget_unknown s1 = forget_unknown s2) by congruence.
  rewrite (IH s1), (IH s2), H1. reflexivity.
Qed.

Lemma unknown_not_rejected : in_kinds K_Unknown media_rejects = false /\ in_kinds K_Unknown master_rejects = false.
Proof. vm_compute. split; reflexivity. Qed.

Theorem unknown_tag_invariant_media : forall l1 l2 s u,
  rmap forget_unknown (run_lines s (l1 ++ Ok (LTag (TUnknown u)) :: l2)) =
  rmap forget_unknown (run_lines s (l1 ++ l2)).
Proof.
  intros. rewrite !run_lines_app. destruct (run_lines s l1) as [s1| |]; try reflexivity.
  cbn [bind].
  assert (E : run_lines s1 (Ok (LTag (TUnknown u)) :: l2) =
              run_lines {| ps_seg := ps_seg s1; ps_partial := ps_partial s1; ps_hasdisc := ps_hasdisc s1;
                           ps_unknown := u :: ps_unknown s1; ps_keys := ps_keys s1; ps_segs := ps_segs s1;
                           ps_b := ps_b s1 |} l2) by reflexivity.
  rewrite E. rewrite run_lines_forget. rewrite (run_lines_forget l2 s1). reflexivity.
Qed.

(* everything but the unknown list of the result is determined by the state without it *)
Lemma finish_forget : forall s p, finish_media s = Ok p ->
  exists p', finish_media (forget_unknown s) = Ok p' /\
    mp_segs p' = mp_segs p /\ mp_target p' = mp_target p /\ mp_mseq p' = mp_mseq p /\ mp_dseq p' = mp_dseq p
    /\ mp_ptype p' = mp_ptype p /\ mp_iframes p' = mp_iframes p /\ mp_indep p' = mp_indep p
    /\ mp_start p' = mp_start p /\ mp_endlist p' = mp_endlist p /\ mp_excess p' = mp_excess p.
Proof.
  intros s p H. unfold finish_media in *. cbn [forget_unknown ps_partial ps_b ps_segs ps_unknown].
  destruct (ps_partial s); [discriminate|].
  unfold build in *. cbn [b_target b_segments b_mseq b_dseq b_ptype b_iframes b_indep b_start b_endlist b_excess b_unknown] in *.
  unfold validate_segments in *. cbn [b_segments b_indep b_excess] in *.
  destruct (b_target (ps_b s)) as [t|].
  - match type of H with (if ?c then _ else _) = _ => destruct c end; [|discriminate].
    cbn [of_opt bind] in *.
    match type of H with (if ?c then _ else _) = _ => destruct c end; [|discriminate].
    match type of H with bind ?r _ = _ => destruct r as [sl| |] end; cbn [bind] in *; try discriminate.
    destruct (forallb is_some sl); [|discriminate].
    inversion H; subst p. eexists. split; [reflexivity|]. simpl. repeat split.
  - cbn [of_opt bind] in *.
    match type of H with (if ?c then _ else _) = _ => destruct c end; [|discriminate].
    match type of H with bind ?r _ = _ => destruct r as [sl| |] end; cbn [bind] in *; try discriminate.
    destruct (forallb is_some sl); discriminate.
Qed.
