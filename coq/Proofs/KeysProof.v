(* KeysProof.v — the key-update step computes exactly the keys in effect (RFC 8216
   4.3.2.4), for any key type with an equivalence "same format" and a decidable equality. *)
From hls Require Import Base Keys.
From Coq Require Import Lia.

Section KeysProof.
  Context {K : Type}.
  Variables same eqb : K -> K -> bool.
  Hypothesis same_refl : forall a, same a a = true.
  Hypothesis same_sym : forall a b, same a b = same b a.
  Hypothesis same_trans : forall a b c, same a b = true -> same b c = true -> same a c = true.
  Hypothesis eqb_eq : forall a b, eqb a b = true <-> a = b.

  Notation step := (key_step_gen same eqb).
  Notation run := (keys_after_gen same eqb).
  Notation xeq := (xeqb eqb).

  (* ---------- the specification ---------- *)
  (* a key is in effect iff it occurs in the history and no later event is METHOD=NONE
     or a key of the same format; the marker is in effect iff METHOD=NONE is the last event *)
  Definition later_ok (k : K) (y : option K) : Prop :=
    match y with None => False | Some k' => same k' k = false end.
  Definition InEffect (h : list (option K)) (x : option K) : Prop :=
    match x with
    | None => exists h1, h = h1 ++ [None]
    | Some k => exists h1 h2, h = h1 ++ Some k :: h2 /\ forall y, In y h2 -> later_ok k y
    end.

  (* ---------- equality ---------- *)
  Lemma xeq_eq : forall a b, xeq a b = true <-> a = b.
  Proof.
    intros [a|] [b|]; simpl; try (split; congruence).
    rewrite eqb_eq. split; congruence.
  Qed.
  Lemma xeq_refl : forall a, xeq a a = true.
  Proof. intros a. apply xeq_eq. reflexivity. Qed.

  (* ---------- shape invariant ---------- *)
  Inductive distinct : list (option K) -> Prop :=
  | d_nil : distinct []
  | d_cons : forall k ks, (forall k', In (Some k') ks -> same k' k = false) ->
                          distinct ks -> distinct (Some k :: ks).
  Definition Shape (ks : list (option K)) : Prop := ks = [None] \/ distinct ks.

  Lemma distinct_no_none : forall ks, distinct ks -> ~ In None ks.
  Proof.
    induction 1 as [|k ks Hk Hd IH]; simpl; [tauto|].
    intros [H | H]; [discriminate | tauto].
  Qed.

  Lemma distinct_unique : forall ks, distinct ks ->
    forall a b, In (Some a) ks -> In (Some b) ks -> same a b = true -> a = b.
  Proof.
    induction 1 as [|k ks Hk Hd IH]; simpl; intros a b Ha Hb Hs; [tauto|].
    destruct Ha as [Ha | Ha]; destruct Hb as [Hb | Hb].
    - congruence.
    - inversion Ha; subst a. rewrite same_sym in Hs. rewrite (Hk b Hb) in Hs. discriminate.
    - inversion Hb; subst b. rewrite (Hk a Ha) in Hs. discriminate.
    - eauto.
  Qed.

  Lemma distinct_snoc : forall ks k, distinct ks ->
    (forall k', In (Some k') ks -> same k' k = false) -> distinct (ks ++ [Some k]).
  Proof.
    induction 1 as [|a ks Ha Hd IH]; simpl; intros Hk.
    - constructor; [simpl; tauto | constructor].
    - constructor.
      + intros k' Hin. apply in_app_or in Hin. destruct Hin as [Hin | [Hin | []]].
        * apply Ha; assumption.
        * inversion Hin; subst k'. rewrite same_sym. apply Hk. left; reflexivity.
      + apply IH. intros k' Hin. apply Hk. right; assumption.
  Qed.

  Lemma distinct_filter : forall p ks, distinct ks -> distinct (filter p ks).
  Proof.
    induction 1 as [|a ks Ha Hd IH]; simpl; [constructor|].
    destruct (p (Some a)); [|assumption].
    constructor; [|assumption].
    intros k' Hin. apply filter_In in Hin. apply Ha. tauto.
  Qed.

  Lemma find_first_some : forall A (p : A -> bool) l x,
    find_first p l = Some x -> In x l /\ p x = true.
  Proof.
    induction l as [|a l IH]; simpl; intros x H; [discriminate|].
    destruct (p a) eqn:E.
    - inversion H; subst. tauto.
    - destruct (IH x H). tauto.
  Qed.
  Lemma find_first_none : forall A (p : A -> bool) l,
    find_first p l = None -> forall x, In x l -> p x = false.
  Proof.
    induction l as [|a l IH]; simpl; intros H x Hin; [tauto|].
    destruct (p a) eqn:E; [discriminate|].
    destruct Hin as [<- | Hin]; auto.
  Qed.

  (* membership in one step, under the invariant *)
  Lemma step_in : forall ks k' x, Shape ks ->
    (In x (step ks (Some k')) <->
     x = Some k' \/ (exists k, x = Some k /\ In x ks /\ same k k' = false)).
  Proof.
    intros ks k' x HS. unfold key_step_gen.
    destruct (find_first (key_hit same k') ks) as [old|] eqn:F.
    - apply find_first_some in F. destruct F as [Hold Hhit].
      rewrite in_app_iff, filter_In. simpl.
      split.
      + intros [[Hin Hne] | [H | []]]; [|left; congruence].
        right. destruct x as [k|].
        * exists k. split; [reflexivity|]. split; [assumption|].
          destruct (same k k') eqn:Es; [|reflexivity]. exfalso.
          destruct HS as [-> | Hd].
          { simpl in Hin. destruct Hin as [H|[]]; discriminate. }
          destruct old as [o|]; [|exact (distinct_no_none _ Hd Hold)].
          simpl in Hhit.
          assert (k = o).
          { apply (distinct_unique _ Hd); try assumption.
            apply same_trans with k'; [assumption|]. rewrite same_sym. assumption. }
          subst o. rewrite xeq_refl in Hne. discriminate.
        * exfalso. destruct HS as [-> | Hd].
          { simpl in Hold. destruct Hold as [<- | []]. rewrite xeq_refl in Hne. discriminate. }
          exact (distinct_no_none _ Hd Hin).
      + intros [-> | [k [-> [Hin Hs]]]]; [right; left; reflexivity|].
        left. split; [assumption|].
        destruct (xeq (Some k) old) eqn:E; [|reflexivity]. exfalso.
        apply xeq_eq in E. subst old. simpl in Hhit. congruence.
    - rewrite in_app_iff. simpl. split.
      + intros [Hin | [H | []]]; [|left; congruence].
        right. pose proof (find_first_none _ _ _ F x Hin) as Hn.
        destruct x as [k|]; simpl in Hn; [|discriminate].
        exists k. tauto.
      + intros [-> | [k [-> [Hin Hs]]]]; tauto.
  Qed.

  Lemma step_shape : forall ks x, Shape ks -> Shape (step ks x).
  Proof.
    intros ks [k'|] HS; [|left; reflexivity].
    right. unfold key_step_gen.
    destruct (find_first (key_hit same k') ks) as [old|] eqn:F.
    - apply find_first_some in F. destruct F as [Hold Hhit].
      destruct HS as [-> | Hd].
      + simpl in Hold. destruct Hold as [<- | []]. simpl.
        constructor; [simpl; tauto | constructor].
      + apply distinct_snoc; [apply distinct_filter; assumption|].
        intros k Hin. apply filter_In in Hin. destruct Hin as [Hin Hne].
        destruct (same k k') eqn:Es; [|reflexivity]. exfalso.
        destruct old as [o|]; [|exact (distinct_no_none _ Hd Hold)].
        simpl in Hhit.
        assert (k = o).
        { apply (distinct_unique _ Hd); try assumption.
          apply same_trans with k'; [assumption|]. rewrite same_sym. assumption. }
        subst o. rewrite xeq_refl in Hne. discriminate.
    - destruct HS as [-> | Hd].
      + simpl in F. discriminate.
      + apply distinct_snoc; [assumption|].
        intros k Hin. exact (find_first_none _ _ _ F _ Hin).
  Qed.

  Lemma run_snoc : forall h e, run (h ++ [e]) = step (run h) e.
  Proof. intros. unfold keys_after_gen. rewrite fold_left_app. reflexivity. Qed.

  Lemma run_shape : forall h, Shape (run h).
  Proof.
    induction h as [|e h IH] using rev_ind.
    - right. constructor.
    - rewrite run_snoc. apply step_shape. assumption.
  Qed.

  (* ---------- the specification, one event at a time ---------- *)
  Lemma ineffect_snoc_none : forall h e, InEffect (h ++ [e]) None <-> e = None.
  Proof.
    intros h e. simpl. split.
    - intros [h1 H]. apply app_inj_tail in H. tauto.
    - intros ->. exists h. reflexivity.
  Qed.

  Lemma ineffect_snoc_some : forall h e k,
    InEffect (h ++ [e]) (Some k) <->
    e = Some k \/ (exists k', e = Some k' /\ same k' k = false /\ InEffect h (Some k)).
  Proof.
    intros h e k. simpl. split.
    - intros [h1 [h2 [H Hl]]].
      destruct h2 as [|y h2'] using rev_ind.
      + apply app_inj_tail in H. left. tauto.
      + clear IHh2'. rewrite app_comm_cons, app_assoc in H. apply app_inj_tail in H.
        destruct H as [H He]. subst y. right.
        assert (Hle : later_ok k e) by (apply Hl; apply in_or_app; right; left; reflexivity).
        destruct e as [k'|]; simpl in Hle; [|tauto].
        exists k'. split; [reflexivity|]. split; [assumption|].
        exists h1, h2'. split; [assumption|].
        intros z Hz. apply Hl. apply in_or_app. left; assumption.
    - intros [-> | [k' [-> [Hs [h1 [h2 [-> Hl]]]]]]].
      + exists h, []. split; [reflexivity|]. simpl; tauto.
      + exists h1, (h2 ++ [Some k']). split.
        * rewrite <- app_assoc. reflexivity.
        * intros y Hy. apply in_app_or in Hy. destruct Hy as [Hy | [<- | []]]; [auto|exact Hs].
  Qed.

  (* ---------- main theorems ---------- *)
  Theorem run_in_effect : forall h x, In x (run h) <-> InEffect h x.
  Proof.
    induction h as [|e h IH] using rev_ind; intros x.
    - simpl. split; [tauto|]. destruct x as [k|]; simpl.
      + intros [h1 [h2 [H _]]]. destruct h1; discriminate.
      + intros [h1 H]. destruct h1; discriminate.
    - rewrite run_snoc. pose proof (run_shape h) as HS.
      destruct e as [k'|].
      + rewrite (step_in _ _ _ HS). destruct x as [k|].
        * rewrite ineffect_snoc_some. split.
          { intros [H | [k0 [H [Hin Hs]]]]; [left; congruence|].
            inversion H; subst k0. right. exists k'. split; [reflexivity|].
            rewrite same_sym. split; [assumption|]. apply IH. assumption. }
          { intros [H | [k0 [H [Hs He]]]]; [left; congruence|].
            inversion H; subst k0. right. exists k. split; [reflexivity|].
            split; [apply IH; assumption|]. rewrite same_sym. assumption. }
        * rewrite ineffect_snoc_none. split.
          { intros [H | [k0 [H _]]]; discriminate. }
          { discriminate. }
      + simpl key_step_gen. destruct x as [k|].
        * rewrite ineffect_snoc_some. simpl. split.
          { intros [H | []]; discriminate. }
          { intros [H | [k0 [H _]]]; discriminate. }
        * rewrite ineffect_snoc_none. simpl. tauto.
  Qed.

  Theorem run_one_per_format : forall h a b,
    In (Some a) (run h) -> In (Some b) (run h) -> same a b = true -> a = b.
  Proof.
    intros h a b Ha Hb Hs. destruct (run_shape h) as [E | Hd].
    - rewrite E in Ha. simpl in Ha. destruct Ha as [Ha | []]; discriminate.
    - exact (distinct_unique _ Hd a b Ha Hb Hs).
  Qed.

  Theorem run_marker_alone : forall h, In None (run h) -> run h = [None].
  Proof.
    intros h Hin. destruct (run_shape h) as [E | Hd]; [assumption|].
    exfalso. exact (distinct_no_none _ Hd Hin).
  Qed.

  (* the order of the keys is the order of their (still effective) tags *)
  Inductive subseq {A} : list A -> list A -> Prop :=
  | ss_nil : subseq [] []
  | ss_skip : forall x l1 l2, subseq l1 l2 -> subseq l1 (x :: l2)
  | ss_take : forall x l1 l2, subseq l1 l2 -> subseq (x :: l1) (x :: l2).

  Lemma subseq_nil : forall A (l : list A), subseq [] l.
  Proof. induction l; constructor; assumption. Qed.
  Lemma subseq_filter : forall A (p : A -> bool) l, subseq (filter p l) l.
  Proof.
    induction l as [|a l IH]; simpl; [constructor|].
    destruct (p a); constructor; assumption.
  Qed.
  Lemma subseq_trans : forall A (a b c : list A), subseq a b -> subseq b c -> subseq a c.
  Proof.
    intros A a b c H1 H2. revert a H1.
    induction H2 as [|x l1 l2 H IH|x l1 l2 H IH]; intros a H1.
    - assumption.
    - constructor. apply IH. assumption.
    - inversion H1; subst.
      + apply ss_skip. apply IH. assumption.
      + apply ss_take. apply IH. assumption.
  Qed.
  Lemma subseq_app : forall A (a b c d : list A), subseq a b -> subseq c d -> subseq (a ++ c) (b ++ d).
  Proof.
    intros A a b c d H1 H2. induction H1; simpl; try constructor; assumption.
  Qed.
  Lemma subseq_refl : forall A (l : list A), subseq l l.
  Proof. induction l; constructor; assumption. Qed.

  Theorem run_subseq : forall h, subseq (run h) h.
  Proof.
    induction h as [|e h IH] using rev_ind.
    - constructor.
    - rewrite run_snoc. destruct e as [k'|].
      + unfold key_step_gen.
        destruct (find_first (key_hit same k') (run h)) as [old|].
        * apply subseq_app; [|apply subseq_refl].
          apply subseq_trans with (run h); [apply subseq_filter | assumption].
        * apply subseq_app; [assumption | apply subseq_refl].
      + simpl. apply subseq_app with (a := []) (c := [None]); [apply subseq_nil | apply subseq_refl].
  Qed.
End KeysProof.
