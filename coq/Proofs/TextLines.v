(* TextLines.v — from the text a writer produces (lines, each followed by LF) back to the cleaned
   lines the parsers iterate over. *)
From hls Require Import Base Float Lex Kinds Types Tags Line Keys Media Master.
From hls.Generated Require Import Tables.
From hls.Proofs Require Import EqFacts C16 C12.
From Coq Require Import Lia.
Open Scope N_scope.

(* a line as a writer may emit it: not empty, no LF inside, no white space at either end *)
Definition no_lf (l : str) : bool := forallb (fun c => negb (c =? 10)) l.
Definition first_ok (l : str) : bool := match l with c :: _ => negb (is_ws c) | [] => false end.
Definition good_line (l : str) : bool := first_ok l && first_ok (rev l) && no_lf l.

Lemma trim_start_first_ok : forall l, first_ok l = true -> trim_start l = l.
Proof. intros [|c l] H; simpl in *; [discriminate|]. apply negb_true_iff in H. rewrite H. reflexivity. Qed.
Lemma trim_edges : forall l, first_ok l = true -> first_ok (rev l) = true -> trim l = l.
Proof.
  intros l H1 H2. unfold trim, trim_end. rewrite (trim_start_first_ok l H1).
  rewrite (trim_start_first_ok _ H2). apply rev_involutive.
Qed.
Lemma good_line_trim : forall l, good_line l = true -> trim l = l.
Proof.
  intros l H. unfold good_line in H. apply andb_true_iff in H. destruct H as [H H3].
  apply andb_true_iff in H. destruct H as [H1 H2]. apply trim_edges; assumption.
Qed.
Lemma good_line_nonempty : forall l, good_line l = true -> l <> [].
Proof. intros [|c l] H; [discriminate | discriminate]. Qed.
Lemma good_line_no_lf : forall l, good_line l = true -> no_lf l = true.
Proof. intros l H. unfold good_line in H. apply andb_true_iff in H. tauto. Qed.

Lemma split_on_no_sep : forall x, no_lf x = true -> split_on 10 x = [x].
Proof.
  induction x as [|c r IH]; simpl; intros H; [reflexivity|].
  apply andb_true_iff in H. destruct H as [Hc Hr]. apply negb_true_iff in Hc. rewrite Hc.
  rewrite (IH Hr). reflexivity.
Qed.
Lemma clean_lines_good : forall l, good_line l = true -> clean_lines l = [l].
Proof.
  intros l H. unfold clean_lines. rewrite (split_on_no_sep _ (good_line_no_lf _ H)). simpl.
  rewrite (good_line_trim _ H). destruct l; [discriminate | reflexivity].
Qed.
Lemma clean_lines_nil : clean_lines [] = [].
Proof. reflexivity. Qed.

Lemma clean_lines_flat_nl : forall ls, forallb good_line ls = true -> clean_lines (flat_map nl ls) = ls.
Proof.
  induction ls as [|l ls IH]; intros H; [reflexivity|].
  simpl in H. apply andb_true_iff in H. destruct H as [Hl Hls].
  cbn [flat_map]. unfold nl at 1. rewrite <- app_assoc. cbn [app].
  rewrite clean_lines_append, (clean_lines_good _ Hl), (IH Hls). reflexivity.
Qed.

(* the last character of a text made of good lines, without its final LF *)
Lemma first_ok_rev_app : forall a b, first_ok (rev b) = true -> first_ok (rev (a ++ b)) = true.
Proof.
  intros a b H. rewrite rev_app_distr. destruct (rev b) as [|c r]; [discriminate|]. exact H.
Qed.
Lemma flat_nl_split : forall ls, forallb good_line ls = true -> ls <> [] ->
  exists y, flat_map nl ls = y ++ [10] /\ first_ok (rev y) = true.
Proof.
  induction ls as [|l ls IH]; intros H Hne; [congruence|].
  simpl in H. apply andb_true_iff in H. destruct H as [Hl Hls].
  destruct ls as [|l2 ls'].
  - exists l. split; [simpl; rewrite app_nil_r; reflexivity|].
    unfold good_line in Hl. apply andb_true_iff in Hl. destruct Hl as [Hl _].
    apply andb_true_iff in Hl. tauto.
  - destruct (IH Hls ltac:(discriminate)) as [y [Hy Hf]].
    exists (nl l ++ y). split.
    + change (flat_map nl (l :: l2 :: ls')) with (nl l ++ flat_map nl (l2 :: ls')). rewrite Hy.
      rewrite app_assoc. reflexivity.
    + apply first_ok_rev_app. assumption.
Qed.

Lemma strip_prefix_app : forall p r, strip_prefix p (p ++ r) = Some r.
Proof. induction p as [|c p IH]; intros r; [reflexivity|]. simpl. rewrite N.eqb_refl. apply IH. Qed.

(* `tag(input, "#EXTM3U")` on a written text, and the lines that remain *)
Theorem written_text_lines : forall hd ls, good_line hd = true -> forallb good_line ls = true ->
  exists rest, strip_prefix hd (trim (flat_map nl (hd :: ls))) = Some rest /\ clean_lines rest = ls.
Proof.
  intros hd ls Hh Hls.
  pose proof (strip_prefix_app hd) as Hsp.
  destruct ls as [|l ls'].
  - exists []. split; [|reflexivity]. simpl. rewrite app_nil_r. unfold nl.
    rewrite trim_snoc_ws by reflexivity. rewrite (good_line_trim _ Hh).
    rewrite <- (app_nil_r hd) at 2. apply Hsp.
  - destruct (flat_nl_split (l :: ls') Hls ltac:(discriminate)) as [y [Hy Hf]].
    exists (10 :: y). split.
    + change (flat_map nl (hd :: l :: ls')) with (nl hd ++ flat_map nl (l :: ls')). rewrite Hy.
      unfold nl. rewrite app_assoc. rewrite trim_snoc_ws by reflexivity.
      rewrite <- app_assoc. cbn [app].
      rewrite trim_edges.
      * apply Hsp.
      * unfold good_line in Hh. apply andb_true_iff in Hh. destruct Hh as [Hh _].
        apply andb_true_iff in Hh. destruct Hh as [Hh _]. destruct hd; [discriminate|]. exact Hh.
      * change (hd ++ 10 :: y) with (hd ++ [10] ++ y). rewrite app_assoc. apply first_ok_rev_app. assumption.
    + pose proof (clean_lines_append [] y) as E0. cbn [app] in E0. rewrite E0.
      change (clean_lines []) with (@nil str). cbn [app].
      assert (E : clean_lines (y ++ [10]) = clean_lines y).
      { rewrite (clean_lines_append y []). change (clean_lines []) with (@nil str). apply app_nil_r. }
      rewrite <- E, <- Hy. apply clean_lines_flat_nl. assumption.
Qed.
