(* Proofs for C11: nothing in parsing or writing depends on the iteration order of a hash
   container.  The parser keeps its keys in a list (C06_tag_order).  The writer keeps the keys it
   has announced in a HashSet and iterates it only to find the key a new key replaces; here the
   writer is parametrised by an arbitrary iteration order and shown not to depend on it. *)
From hls Require Import Base Float Lex Kinds Types Tags Line Keys Media.
From hls.Generated Require Import Tables.
From hls.Proofs Require Import EqFacts Build.
From Coq Require Import Permutation Lia.
Open Scope N_scope.

Section Ord.
  Variable ord : list xkey -> list xkey.          (* the iteration order of the set *)
  Hypothesis ord_perm : forall l, Permutation (ord l) l.

  Definition replaces (d' : Key) (key y : xkey) : bool :=
    match y with Some o => same_fmt o d' && negb (xkey_eqb y key) | None => false end.

  Definition write_key_ord (avail : list xkey) (k : xkey) : list xkey * list xkey :=
    match k with
    | Some d =>
        let avail := set_remove None avail in
        let d' := strip_derived d in
        let key := Some d' in
        if set_mem key avail then (avail, [])
        else
          let avail := avail ++ [key] in
          let old := find_first (replaces d' key) (ord avail) in
          let avail := match old with Some o => set_remove o avail | None => avail end in
          (avail, [key])
    | None => ([None], [None])
    end.
  Fixpoint write_keys_ord (avail : list xkey) (ks : list xkey) : list xkey * list xkey :=
    match ks with
    | [] => (avail, [])
    | k :: r => let '(a1, t1) := write_key_ord avail k in
                let '(a2, t2) := write_keys_ord a1 r in (a2, t1 ++ t2)
    end.
  Definition segment_key_events_ord (avail : list xkey) (keys : list xkey) : list xkey * list xkey :=
    let stale := stale_keys avail keys in
    let '(a, t) := write_keys_ord (if stale then [] else avail) keys in
    (a, (if stale then [None] else []) ++ t).
  Fixpoint segments_lines_ord (avail : list xkey) (segs : list Segment) : list str :=
    match segs with
    | [] => []
    | s :: r =>
        let '(a, ev) := segment_key_events_ord avail (sg_keys s) in
        map print_xkey ev ++ segment_lines s ++ segments_lines_ord a r
    end.
  Definition print_media_ord (p : MediaPlaylist) : str :=
    flat_map nl ([pfx_ExtM3u] ++ version_line (media_rv p) ++ media_header_lines p
                 ++ segments_lines_ord [] (mp_segs p) ++ mp_unknown p
                 ++ (if mp_endlist p then [pfx_ExtXEndList] else [])).

  (* ---------- a search that has at most one answer does not depend on the order ---------- *)
  Lemma find_first_in : forall A (p : A -> bool) l x, find_first p l = Some x -> In x l /\ p x = true.
  Proof.
    induction l as [|a l IH]; simpl; intros x H; [discriminate|].
    destruct (p a) eqn:E; [inversion H; subst; tauto|]. destruct (IH x H). tauto.
  Qed.
  Lemma find_first_none_all : forall A (p : A -> bool) l, find_first p l = None -> forall x, In x l -> p x = false.
  Proof.
    induction l as [|a l IH]; simpl; intros H x Hin; [tauto|].
    destruct (p a) eqn:E; [discriminate|]. destruct Hin as [<- | Hin]; auto.
  Qed.
  Lemma find_first_ex : forall A (p : A -> bool) l x, In x l -> p x = true -> exists y, find_first p l = Some y.
  Proof.
    induction l as [|a l IH]; simpl; intros x Hin Hp; [tauto|].
    destruct (p a) eqn:E; [eauto|]. destruct Hin as [<- | Hin]; [congruence | eauto].
  Qed.
  Lemma find_first_unique_perm : forall A (p : A -> bool) l l',
    (forall x y, In x l -> In y l -> p x = true -> p y = true -> x = y) ->
    Permutation l l' -> find_first p l = find_first p l'.
  Proof.
    intros A p l l' Hu HP.
    destruct (find_first p l) as [x|] eqn:E.
    - destruct (find_first_in _ _ _ _ E) as [Hin Hp].
      assert (Hin' : In x l') by (eapply Permutation_in; eassumption).
      destruct (find_first_ex _ p l' x Hin' Hp) as [y Hy]. rewrite Hy.
      destruct (find_first_in _ _ _ _ Hy) as [Hiny Hpy].
      f_equal. apply Hu; try assumption. eapply Permutation_in; [apply Permutation_sym; eassumption | assumption].
    - destruct (find_first p l') as [y|] eqn:E'; [|reflexivity].
      destruct (find_first_in _ _ _ _ E') as [Hiny Hpy].
      assert (Hin : In y l) by (eapply Permutation_in; [apply Permutation_sym; eassumption | assumption]).
      rewrite (find_first_none_all _ _ _ E y Hin) in Hpy. discriminate.
  Qed.

  (* ---------- the writer's set holds at most one key per format ---------- *)
  Definition wdistinct (avail : list xkey) : Prop :=
    forall a b, In (Some a) avail -> In (Some b) avail -> same_fmt a b = true -> a = b.

  Lemma xkey_eqb_eq : forall a b, xkey_eqb a b = true <-> a = b.
  Proof.
    intros [a|] [b|]; unfold xkey_eqb; simpl; try (split; congruence).
    rewrite key_eqb_eq. split; congruence.
  Qed.
  Lemma set_remove_in : forall k l x, In x (set_remove k l) <-> In x l /\ x <> k.
  Proof.
    intros k l x. unfold set_remove. rewrite filter_In, negb_true_iff. split; intros [H1 H2]; split; try assumption.
    - intros ->. rewrite (proj2 (xkey_eqb_eq k k) eq_refl) in H2. discriminate.
    - destruct (xkey_eqb x k) eqn:E; [|reflexivity]. apply xkey_eqb_eq in E. congruence.
  Qed.
  Lemma wdistinct_remove : forall k l, wdistinct l -> wdistinct (set_remove k l).
  Proof.
    intros k l H a b Ha Hb. apply set_remove_in in Ha, Hb. apply H; tauto.
  Qed.

  Lemma replaces_unique : forall avail d',
    wdistinct avail ->
    forall x y, In x (avail ++ [Some d']) -> In y (avail ++ [Some d']) ->
      replaces d' (Some d') x = true -> replaces d' (Some d') y = true -> x = y.
  Proof.
    intros avail d' Hw x y Hx Hy Px Py.
    destruct x as [a|]; [|discriminate]. destruct y as [b|]; [|discriminate]. simpl in Px, Py.
    apply andb_true_iff in Px, Py. destruct Px as [Sa Na]. destruct Py as [Sb Nb].
    apply negb_true_iff in Na, Nb.
    assert (Hrefl : forall z, xkey_eqb (Some z) (Some z) = true) by (intros; apply xkey_eqb_eq; reflexivity).
    assert (Ha : In (Some a) avail).
    { apply in_app_or in Hx. destruct Hx as [H | [H | []]]; [assumption|]. inversion H; subst a.
      specialize (Hrefl d'). unfold xkey_eqb in *. simpl in *. congruence. }
    assert (Hb : In (Some b) avail).
    { apply in_app_or in Hy. destruct Hy as [H | [H | []]]; [assumption|]. inversion H; subst b.
      specialize (Hrefl d'). unfold xkey_eqb in *. simpl in *. congruence. }
    f_equal. apply Hw; try assumption.
    apply same_fmt_trans with d'; [assumption|]. rewrite same_fmt_sym. assumption.
  Qed.

  Lemma write_key_ord_eq : forall avail k, wdistinct avail ->
    write_key_ord avail k = write_key avail k /\ wdistinct (fst (write_key avail k)).
  Proof.
    intros avail k Hw. destruct k as [d|]; unfold write_key_ord, write_key; cbv zeta.
    - set (av1 := set_remove None avail). set (d' := strip_derived d).
      assert (Hw1 : wdistinct av1) by (apply wdistinct_remove; assumption).
      destruct (set_mem (Some d') av1) eqn:Em; [split; [reflexivity | exact Hw1]|].
      assert (Ef : find_first (replaces d' (Some d')) (ord (av1 ++ [Some d'])) =
                   find_first (replaces d' (Some d')) (av1 ++ [Some d'])).
      { symmetry. apply find_first_unique_perm; [apply replaces_unique; assumption | apply Permutation_sym; apply ord_perm]. }
      rewrite Ef. split; [reflexivity|]. unfold replaces.
      (* invariant: after removing the replaced key, formats are distinct again *)
      match goal with |- wdistinct (fst (match ?o with _ => _ end, _)) => destruct o as [old|] eqn:Eo end; cbn [fst].
      + destruct (find_first_in _ _ _ _ Eo) as [Hino Hpo].
        destruct old as [o|]; [|discriminate]. apply andb_true_iff in Hpo. destruct Hpo as [So No].
        intros a b Ha Hb Hs. apply set_remove_in in Ha, Hb. destruct Ha as [Ha Na]. destruct Hb as [Hb Nb].
        apply in_app_or in Ha, Hb.
        assert (Hcase : forall x, In (Some x) av1 -> Some x <> Some o -> same_fmt x d' = false).
        { intros x Hx Hne. destruct (same_fmt x d') eqn:E; [|reflexivity]. exfalso. apply Hne. f_equal.
          apply Hw1; try assumption.
          - apply in_app_or in Hino. destruct Hino as [H | [H | []]]; [assumption|].
            apply negb_true_iff in No. rewrite <- H in No. rewrite (proj2 (xkey_eqb_eq _ _) eq_refl) in No. discriminate.
          - apply same_fmt_trans with d'; [assumption|]. rewrite same_fmt_sym. assumption. }
        destruct Ha as [Ha | [Ha | []]]; destruct Hb as [Hb | [Hb | []]].
        * apply Hw1; assumption.
        * inversion Hb; subst b. rewrite (Hcase a Ha Na) in Hs. discriminate.
        * inversion Ha; subst a. rewrite same_fmt_sym in Hs. rewrite (Hcase b Hb Nb) in Hs. discriminate.
        * congruence.
      + intros a b Ha Hb Hs. apply in_app_or in Ha, Hb.
        assert (Hcase : forall x, In (Some x) av1 -> same_fmt x d' = false).
        { intros x Hx. pose proof (find_first_none_all _ _ _ Eo (Some x)) as Hn.
          specialize (Hn ltac:(apply in_or_app; left; assumption)). simpl in Hn.
          apply andb_false_iff in Hn. destruct Hn as [Hn | Hn]; [assumption|].
          apply negb_false_iff in Hn.
          assert (Hx' : Some x = Some d') by (apply xkey_eqb_eq; exact Hn).
          exfalso. unfold set_mem in Em.
          assert (existsb (xkey_eqb (Some d')) av1 = true); [|congruence].
          apply existsb_exists. exists (Some x). split; [assumption|]. rewrite Hx'. apply xkey_eqb_eq. reflexivity. }
        destruct Ha as [Ha | [Ha | []]]; destruct Hb as [Hb | [Hb | []]].
        * apply Hw1; assumption.
        * inversion Hb; subst b. rewrite (Hcase a Ha) in Hs. discriminate.
        * inversion Ha; subst a. rewrite same_fmt_sym in Hs. rewrite (Hcase b Hb) in Hs. discriminate.
        * congruence.
    - split; [reflexivity|]. cbn [fst]. intros a b [Ha | []]. discriminate.
  Qed.

  Lemma write_keys_ord_eq : forall ks avail, wdistinct avail ->
    write_keys_ord avail ks = write_keys avail ks /\ wdistinct (fst (write_keys avail ks)).
  Proof.
    induction ks as [|k ks IH]; simpl; intros avail Hw; [split; [reflexivity | assumption]|].
    destruct (write_key_ord_eq avail k Hw) as [E1 W1]. rewrite E1.
    destruct (write_key avail k) as [a1 t1]. simpl in W1.
    destruct (IH a1 W1) as [E2 W2]. rewrite E2.
    destruct (write_keys a1 ks) as [a2 t2]. simpl in *. split; [reflexivity | assumption].
  Qed.

  Lemma segments_lines_ord_eq : forall segs avail, wdistinct avail ->
    segments_lines_ord avail segs = segments_lines avail segs.
  Proof.
    induction segs as [|s segs IH]; simpl; intros avail Hw; [reflexivity|].
    assert (Hw0 : wdistinct (if stale_keys avail (sg_keys s) then [] else avail)).
    { destruct (stale_keys avail (sg_keys s)); [intros a b [] | assumption]. }
    unfold segment_key_events_ord, segment_key_events.
    destruct (write_keys_ord_eq (sg_keys s) _ Hw0) as [E W]. rewrite E.
    destruct (write_keys _ (sg_keys s)) as [a t]. simpl in W. rewrite (IH a W). reflexivity.
  Qed.

  Theorem writer_order_free : forall p, print_media_ord p = print_media p.
  Proof.
    intros p. unfold print_media_ord, print_media, media_lines, media_body_lines.
    rewrite segments_lines_ord_eq; [|intros a b []].
    repeat rewrite <- app_assoc. reflexivity.
  Qed.
End Ord.
