(* DateRangeIff.v — C14 for EXT-X-DATERANGE as an iff over ALL attribute lists (any order, duplicates, unknown attributes):
   accepted exactly when every DURATION / PLANNED-DURATION is a non-negative duration, END-ON-NEXT (if present) is YES, every client
   attribute has a well-formed name and value, an ID is present, and with END-ON-NEXT a CLASS is present and DURATION and
   END-DATE are absent. *)
From hls Require Import Base Float Lex Kinds Types Tags.
From hls.Generated Require Import Tables.
From hls.Proofs Require Import EqFacts NoPanic.
Open Scope N_scope.

(* which attribute a name is, by the parser's own chain of comparisons *)
Definition dr_kind (k : str) : N :=
  if str_eqb k s_ID then 1 else if str_eqb k s_CLASS then 2 else if str_eqb k s_START_DATE then 3
  else if str_eqb k s_END_DATE then 4 else if str_eqb k s_DURATION then 5 else if str_eqb k s_PLANNED_DURATION then 6
  else if str_eqb k s_SCTE35_CMD then 7 else if str_eqb k s_SCTE35_OUT then 8 else if str_eqb k s_SCTE35_IN then 9
  else if str_eqb k s_END_ON_NEXT then 10 else if starts_with s_Xdash k then 11 else 0.
Definition dr_pair_ok (kv : str * str) : bool :=
  let '(k, v) := kv in
  match dr_kind k with
  | 5 | 6 => is_ok (parse_duration v)
  | 10 => str_eqb v s_YES
  | 11 => negb (any_char bad_client_char k) && is_ok (parse_value v)
  | _ => true
  end.
Definition has_kind (n : N) (l : list (str * str)) : bool := existsb (fun kv => dr_kind (fst kv) =? n) l.

Definition dr_flags (a : dr_acc) : bool * bool * bool * bool * bool :=
  (is_some (da_id a), is_some (da_class a), is_some (da_duration a), is_some (da_end a), da_eon a).
Definition flags_or (f : bool * bool * bool * bool * bool) (k : N) : bool * bool * bool * bool * bool :=
  let '(i, c, d, e, n) := f in (i || (k =? 1), c || (k =? 2), d || (k =? 5), e || (k =? 4), n || (k =? 10)).

Lemma dr_step_spec : forall a kv,
  match dr_attr a kv with
  | Ok a' => dr_pair_ok kv = true /\ dr_flags a' = flags_or (dr_flags a) (dr_kind (fst kv))
  | Err => dr_pair_ok kv = false
  | Panic => False
  end.
Proof.
  intros a [k v]. unfold dr_attr, dr_pair_ok, dr_kind, dr_flags, flags_or. cbn [fst].
  Ltac dr_ok := cbn [da_id da_class da_duration da_end da_eon is_some N.eqb Pos.eqb]; rewrite ?orb_false_r, ?orb_true_r; auto.
  destruct (str_eqb k s_ID); [dr_ok|].
  destruct (str_eqb k s_CLASS); [dr_ok|].
  destruct (str_eqb k s_START_DATE); [dr_ok|].
  destruct (str_eqb k s_END_DATE); [dr_ok|].
  destruct (str_eqb k s_DURATION).
  { destruct (parse_duration v) as [d| |] eqn:P; cbn [bind is_ok]; [dr_ok | reflexivity | exact (parse_duration_np _ P)]. }
  destruct (str_eqb k s_PLANNED_DURATION).
  { destruct (parse_duration v) as [d| |] eqn:P; cbn [bind is_ok]; [dr_ok | reflexivity | exact (parse_duration_np _ P)]. }
  destruct (str_eqb k s_SCTE35_CMD); [dr_ok|].
  destruct (str_eqb k s_SCTE35_OUT); [dr_ok|].
  destruct (str_eqb k s_SCTE35_IN); [dr_ok|].
  destruct (str_eqb k s_END_ON_NEXT).
  { destruct (str_eqb v s_YES); [dr_ok | reflexivity]. }
  destruct (starts_with s_Xdash k); [|dr_ok].
  destruct (any_char bad_client_char k); cbn [negb andb]; [reflexivity|].
  destruct (parse_value v) as [x| |] eqn:P; cbn [bind is_ok]; [dr_ok | reflexivity | exact (parse_value_np _ P)].
Qed.

Fixpoint flags_of (f : bool * bool * bool * bool * bool) (l : list (str * str)) : bool * bool * bool * bool * bool :=
  match l with [] => f | kv :: r => flags_of (flags_or f (dr_kind (fst kv))) r end.
Lemma flags_of_spec : forall l i c d e n,
  flags_of (i, c, d, e, n) l = (i || has_kind 1 l, c || has_kind 2 l, d || has_kind 5 l, e || has_kind 4 l, n || has_kind 10 l).
Proof.
  induction l as [|kv l IH]; intros i c d e n; cbn [flags_of has_kind existsb].
  - rewrite !orb_false_r. reflexivity.
  - cbn [flags_or]. rewrite IH. unfold has_kind. rewrite !orb_assoc. reflexivity.
Qed.
Lemma fold_dr_spec : forall l a,
  match fold_res dr_attr l a with
  | Ok a' => forallb dr_pair_ok l = true /\ dr_flags a' = flags_of (dr_flags a) l
  | Err => forallb dr_pair_ok l = false
  | Panic => False
  end.
Proof.
  induction l as [|kv l IH]; intros a; cbn [fold_res forallb flags_of]; [auto|].
  pose proof (dr_step_spec a kv) as S. destruct (dr_attr a kv) as [a1| |]; cbn [bind].
  - destruct S as [S1 S2]. rewrite S1, <- S2. cbn [andb]. apply IH.
  - rewrite S. reflexivity.
  - exact S.
Qed.

Theorem daterange_accept_iff : forall line,
  is_ok (parse_daterange line) =
  match tag line pfx_ExtXDateRange with
  | Ok rest =>
      let l := attr_pairs rest in
      forallb dr_pair_ok l && has_kind 1 l
      && negb (has_kind 10 l && (negb (has_kind 2 l) || has_kind 5 l || has_kind 4 l))
  | _ => false
  end.
Proof.
  intros line. unfold parse_daterange. destruct (tag line pfx_ExtXDateRange) as [rest| |]; cbn [bind]; try reflexivity.
  cbv zeta. set (l := attr_pairs rest).
  pose proof (fold_dr_spec l {| da_id := None; da_class := None; da_start := None; da_end := None; da_duration := None;
       da_planned := None; da_cmd := None; da_out := None; da_in := None; da_eon := false; da_client := [] |}) as H.
  destruct (fold_res dr_attr l _) as [a| |]; cbn [bind].
  - destruct H as [H1 H2]. unfold dr_flags in H2. cbn [da_id da_class da_duration da_end da_eon is_some] in H2.
    rewrite flags_of_spec in H2. cbn [orb] in H2. inversion H2 as [[E1 E2 E3 E4 E5]]. rewrite H1. cbn [andb].
    destruct (da_id a); cbn [of_opt bind is_some andb]; [|reflexivity].
    destruct (da_eon a); cbn [andb negb orb]; [|reflexivity].
    destruct (da_class a); cbn [is_some negb orb]; [|reflexivity].
    destruct (da_duration a); cbn [is_some orb negb]; [reflexivity|].
    destruct (da_end a); reflexivity.
  - rewrite H. reflexivity.
  - destruct H.
Qed.
