(* Proofs for C14: per-tag attribute rules. *)
From hls Require Import Base Float Lex Kinds Types Tags Line Keys Media Master.
From hls.Generated Require Import Tables.
From hls.Proofs Require Import EqFacts Build Values C15 C16.
From Coq Require Import Lia.
Open Scope N_scope.

(* ---------- EXT-X-MEDIA: accepted exactly when the rules hold ---------- *)
Definition media_rules (a : xm_acc) : Prop :=
  exists t, ma_type a = Some t /\ ma_group a <> None /\ ma_name a <> None
    /\ (t = mt_subtitles -> ma_uri a <> None)
    /\ (t = mt_cc -> ma_uri a = None /\ ma_instream a <> None)
    /\ (t <> mt_cc -> ma_instream a = None)
    /\ ~ (ma_default a = Some true /\ ma_autoselect a = Some false)
    /\ (ma_forced a = Some true -> t = mt_subtitles).

Lemma is_some_ne : forall A (o : option A), is_some o = true <-> o <> None.
Proof. intros A [x|]; simpl; split; congruence. Qed.
Lemma is_some_false : forall A (o : option A), is_some o = false <-> o = None.
Proof. intros A [x|]; simpl; split; congruence. Qed.

Lemma validate_rules : forall a t, ma_type a = Some t ->
  (xm_validate a = true <->
   (t = mt_subtitles -> ma_uri a <> None)
   /\ (t = mt_cc -> ma_uri a = None /\ ma_instream a <> None)
   /\ (t <> mt_cc -> ma_instream a = None)
   /\ ~ (ma_default a = Some true /\ ma_autoselect a = Some false)
   /\ (ma_forced a = Some true -> t = mt_subtitles)).
Proof.
  intros a t Ht. unfold xm_validate. rewrite Ht. unfold mt_subtitles, mt_cc.
  rewrite !andb_true_iff, !negb_true_iff.
  assert (R1 : ((t =? 2) && negb (is_some (ma_uri a)) = false) <-> (t = 2 -> ma_uri a <> None)).
  { destruct (N.eqb_spec t 2); simpl.
    - rewrite negb_false_iff, is_some_ne. tauto.
    - split; [intros _ H; congruence | reflexivity]. }
  assert (R2 : ((if t =? 3 then negb (is_some (ma_uri a)) && is_some (ma_instream a) else negb (is_some (ma_instream a))) = true)
               <-> ((t = 3 -> ma_uri a = None /\ ma_instream a <> None) /\ (t <> 3 -> ma_instream a = None))).
  { destruct (N.eqb_spec t 3).
    - rewrite andb_true_iff, negb_true_iff, is_some_false, is_some_ne. tauto.
    - rewrite negb_true_iff, is_some_false. tauto. }
  assert (R3 : (obool (ma_default a) && match ma_autoselect a with Some b => negb b | None => false end = false)
               <-> ~ (ma_default a = Some true /\ ma_autoselect a = Some false)).
  { destruct (ma_default a) as [[|]|]; destruct (ma_autoselect a) as [[|]|]; simpl; split; try congruence; try tauto;
      intros H; try reflexivity; try (intros [H1 H2]; discriminate); exfalso; apply H; split; reflexivity. }
  assert (R4 : (negb (t =? 2) && obool (ma_forced a) = false) <-> (ma_forced a = Some true -> t = 2)).
  { destruct (N.eqb_spec t 2); simpl.
    - split; [intros _ _; assumption | reflexivity].
    - destruct (ma_forced a) as [[|]|]; simpl; split; try congruence; try reflexivity; intros H; try discriminate.
      exfalso. apply n. apply H. reflexivity. }
  rewrite R1, R2, R3, R4. tauto.
Qed.

Theorem media_accept_iff : forall a, is_ok (xm_build a) = true <-> media_rules a.
Proof.
  intros a. unfold media_rules, xm_build.
  destruct (ma_type a) as [t|] eqn:Et.
  - pose proof (validate_rules a t Et) as HV.
    destruct (xm_validate a) eqn:Ev.
    + assert (HR := proj1 HV eq_refl). cbn [of_opt bind].
      destruct (ma_group a) as [g|]; destruct (ma_name a) as [n|]; simpl; split;
        try discriminate;
        try (intros _; exists t; repeat split; try discriminate; tauto);
        try (intros [t' [Ht [Hg [Hn _]]]]; congruence); try reflexivity.
    + split; [discriminate|]. intros [t' [Ht Hr]]. inversion Ht; subst t'. exfalso.
      assert (Hc : false = true) by (apply HV; tauto). discriminate.
  - unfold xm_validate. rewrite Et. split; [discriminate | intros [t [H _]]; discriminate].
Qed.

(* no ExtXMedia violating the rules can be obtained from parsing *)
Theorem media_invariant : forall l m, parse_xmedia l = Ok m ->
  (xm_type m = mt_subtitles -> xm_uri m <> None)
  /\ (xm_type m = mt_cc -> xm_uri m = None /\ xm_instream m <> None)
  /\ (xm_type m <> mt_cc -> xm_instream m = None)
  /\ (xm_forced m = true -> xm_type m = mt_subtitles).
Proof.
  intros l m H. unfold parse_xmedia in H. apply bind_ok in H. destruct H as [rest [_ H]].
  apply bind_ok in H. destruct H as [a [_ H]].
  assert (Hr : media_rules a) by (apply media_accept_iff; rewrite H; reflexivity).
  destruct Hr as [t [Ht [Hg [Hn [Hs [Hc [Hnc [Hd Hf]]]]]]]].
  unfold xm_build in H. destruct (xm_validate a); [|discriminate].
  rewrite Ht in H. cbn [of_opt bind] in H.
  destruct (ma_group a); [|discriminate]. destruct (ma_name a); [|discriminate].
  cbn [of_opt bind] in H. inversion H; subst m; simpl. repeat split; auto.
  - apply (Hc H0).
  - apply (Hc H0).
  - intros Hfo. apply Hf. destruct (ma_forced a) as [[|]|]; simpl in Hfo; congruence.
Qed.

(* ---------- EXT-X-DATERANGE ---------- *)
Theorem daterange_invariant : forall l d, parse_daterange l = Ok d ->
  dr_eon d = true -> dr_class d <> None /\ dr_duration d = None /\ dr_end d = None.
Proof.
  intros l d H Heon. unfold parse_daterange in H.
  apply bind_ok in H. destruct H as [rest [_ H]].
  apply bind_ok in H. destruct H as [a [_ H]].
  apply bind_ok in H. destruct H as [id [_ H]].
  destruct (da_eon a) eqn:E; simpl in H.
  - destruct (da_class a) eqn:Ec; simpl in H; [|discriminate].
    destruct (da_duration a) eqn:Ed; simpl in H; [discriminate|].
    destruct (da_end a) eqn:Ee; simpl in H; [discriminate|].
    inversion H; subst d; simpl. rewrite ?Ec, ?Ed, ?Ee. repeat split; congruence.
  - inversion H; subst d. simpl in Heon. congruence.
Qed.

(* ---------- keys ---------- *)
Lemma fold_res_inv : forall A B (f : A -> B -> res A) (P : A -> Prop),
  (forall a b a', P a -> f a b = Ok a' -> P a') ->
  forall l a a', P a -> fold_res f l a = Ok a' -> P a'.
Proof.
  intros A B f P Hstep. induction l as [|x l IH]; simpl; intros a a' Ha H.
  - inversion H; subst; assumption.
  - apply bind_ok in H. destruct H as [a1 [H1 H2]]. eapply IH; [|exact H2]. eapply Hstep; eassumption.
Qed.

Definition key_acc_ok (a : key_acc) : Prop :=
  (match ka_uri a with Some u => is_nil (trim u) = false | None => True end)
  /\ (match ka_versions a with Some v => (1 <= List.length v <= 9)%nat | None => True end).

Lemma parse_kfv_items_len : forall l n v, parse_kfv_items l n = Ok v -> (List.length v <= n)%nat /\ List.length v = List.length l.
Proof.
  induction l as [|x l IH]; simpl; intros n v H.
  - inversion H; subst. simpl. lia.
  - apply bind_ok in H. destruct H as [a [_ H]]. destruct n; [discriminate|].
    apply bind_ok in H. destruct H as [t [Ht H]]. inversion H; subst. simpl.
    destruct (IH _ _ Ht). lia.
Qed.

Lemma key_attr_ok : forall a kv a', key_acc_ok a -> key_attr a kv = Ok a' -> key_acc_ok a'.
Proof.
  intros a [k v] a' [Hu Hv] H. unfold key_attr in H.
  repeat match type of H with context [if str_eqb ?x ?y then _ else _] => destruct (str_eqb x y) end.
  - apply bind_ok in H. destruct H as [m [_ H]]. inversion H; subst; split; assumption.
  - destruct (is_nil (trim (unquote v))) eqn:E; inversion H; subst; split; simpl; assumption.
  - apply bind_ok in H. destruct H as [iv [_ H]]. inversion H; subst; split; assumption.
  - inversion H; subst; split; assumption.
  - apply bind_ok in H. destruct H as [vs [Hvs H]]. inversion H; subst; split; [assumption|]. simpl.
    unfold parse_kfv in Hvs. destruct (parse_kfv_items_len _ _ _ Hvs) as [H9 Hl].
    pose proof (C16.split_on_nonempty 47 (unquote v)) as Hne. destruct (split_on 47 (unquote v)); [congruence | simpl in Hl; lia].
  - inversion H; subst; split; assumption.
Qed.

Theorem key_invariant : forall s k, parse_decryption_key s = Ok k ->
  is_nil (trim (k_uri k)) = false
  /\ (match k_versions k with Some v => (1 <= List.length v <= 9)%nat | None => True end).
Proof.
  intros s k H. unfold parse_decryption_key in H.
  apply bind_ok in H. destruct H as [a [Hf H]].
  assert (Ha : key_acc_ok a).
  { eapply (fold_res_inv _ _ key_attr key_acc_ok key_attr_ok); [|exact Hf]. split; exact I. }
  apply bind_ok in H. destruct H as [m [_ H]]. apply bind_ok in H. destruct H as [u [Hu H]].
  inversion H; subst k; simpl. destruct Ha as [Ha1 Ha2].
  destruct (ka_uri a) as [u'|]; simpl in Hu; [|discriminate]. inversion Hu; subst u'. tauto.
Qed.

(* an IV attribute is always 128 bit *)
Lemma hex_decode_len_n : forall n s bs, (List.length s <= n)%nat -> hex_decode s = Some bs ->
  List.length s = (2 * List.length bs)%nat.
Proof.
  induction n as [|n IH]; intros s bs Hn H.
  - destruct s; [inversion H; reflexivity | simpl in Hn; lia].
  - destruct s as [|a s1]; [inversion H; reflexivity|]. destruct s1 as [|b r]; [discriminate|].
    cbn [hex_decode] in H.
    destruct (hex_val a); [|discriminate]. destruct (hex_val b); [|discriminate].
    destruct (hex_decode r) as [t|] eqn:E; [|discriminate]. inversion H; subst. simpl.
    rewrite (IH r t); [lia | simpl in Hn; lia | exact E].
Qed.
Lemma hex_decode_len : forall s bs, hex_decode s = Some bs -> List.length s = (2 * List.length bs)%nat.
Proof. intros s bs. apply (hex_decode_len_n (List.length s)). lia. Qed.
Lemma hex_val_ascii : forall c v, hex_val c = Some v -> utf8_len c = 1.
Proof.
  intros c v H. unfold hex_val, is_digit in H. unfold utf8_len.
  destruct ((48 <=? c) && (c <=? 57)) eqn:E1.
  - apply andb_true_iff in E1. destruct E1 as [_ E]. apply N.leb_le in E.
    destruct (c <? 128) eqn:E2; [reflexivity | apply N.ltb_ge in E2; lia].
  - destruct ((97 <=? c) && (c <=? 102)) eqn:E2.
    + apply andb_true_iff in E2. destruct E2 as [_ E]. apply N.leb_le in E.
      destruct (c <? 128) eqn:E3; [reflexivity | apply N.ltb_ge in E3; lia].
    + destruct ((65 <=? c) && (c <=? 70)) eqn:E3; [|discriminate].
      apply andb_true_iff in E3. destruct E3 as [_ E]. apply N.leb_le in E.
      destruct (c <? 128) eqn:E4; [reflexivity | apply N.ltb_ge in E4; lia].
Qed.
Lemma hex_decode_bytes_n : forall n s bs, (List.length s <= n)%nat -> hex_decode s = Some bs ->
  byte_len s = N.of_nat (List.length s).
Proof.
  induction n as [|n IH]; intros s bs Hn H.
  - destruct s; [reflexivity | simpl in Hn; lia].
  - destruct s as [|a s1]; [reflexivity|]. destruct s1 as [|b r]; [discriminate|].
    cbn [hex_decode] in H.
    destruct (hex_val a) eqn:Ea; [|discriminate]. destruct (hex_val b) eqn:Eb; [|discriminate].
    destruct (hex_decode r) as [t|] eqn:E; [|discriminate].
    cbn [byte_len List.length]. rewrite (hex_val_ascii _ _ Ea), (hex_val_ascii _ _ Eb).
    rewrite (IH r t); [lia | simpl in Hn; lia | exact E].
Qed.
Lemma hex_decode_bytes : forall s bs, hex_decode s = Some bs -> byte_len s = N.of_nat (List.length s).
Proof. intros s bs. apply (hex_decode_bytes_n (List.length s)). lia. Qed.
Theorem iv_invariant : forall s bs, parse_iv s = Ok (IvAes bs) -> List.length bs = 16%nat.
Proof.
  intros s bs H. unfold parse_iv in H.
  destruct (match strip_prefix s_0x s with Some r => Some r | None => strip_prefix s_0X s end) as [r|]; [|discriminate].
  destruct (byte_len r =? 32) eqn:E; [|discriminate]. apply N.eqb_eq in E.
  destruct (hex_decode r) as [b|] eqn:Eh; [|discriminate]. inversion H; subst b.
  pose proof (hex_decode_len _ _ Eh). pose proof (hex_decode_bytes _ _ Eh). lia.
Qed.

(* ---------- EXT-X-SESSION-DATA: DATA-ID and exactly one of VALUE / URI ---------- *)
Theorem session_data_rule : forall a,
  (exists d, (let! id := of_opt (xa_id a) in
              let! dd := match xa_value a, xa_uri a with
                         | Some _, Some _ => Err | Some v, None => Ok (SdValue v)
                         | None, Some u => Ok (SdUri u) | None, None => Err end in
              Ok {| xs_id := id; xs_data := dd; xs_lang := xa_lang a |}) = Ok d)
  <-> xa_id a <> None /\ ((xa_value a <> None /\ xa_uri a = None) \/ (xa_value a = None /\ xa_uri a <> None)).
Proof.
  intros a. destruct (xa_id a) as [i|]; destruct (xa_value a) as [v|]; destruct (xa_uri a) as [u|]; simpl;
    split; try (intros [d H]; discriminate);
    try (intros [H1 [[H2 H3] | [H2 H3]]]; congruence);
    try (intros _; split; [discriminate|]; first [left; split; [discriminate | reflexivity] | right; split; [reflexivity | discriminate]]);
    try (intros _; eexists; reflexivity).
Qed.
