(* KeyCost.v — the work the parser spends on keys: the list of keys in effect never holds more entries than there are key formats
   in the text (one per format: pigeonhole over the `distinct` invariant of KeysProof), so the comparisons spent on EXT-X-KEY
   lines and the keys copied into segments are linear in the number of lines when the number of formats is bounded, and at most
   quadratic otherwise (C05's cost clause, at the level of the key machinery). *)
From hls Require Import Base Float Lex Kinds Types Tags Line Keys Media.
From hls.Generated Require Import Tables.
From hls.Spec Require Import KeySpec.
From hls.Proofs Require Import EqFacts KeysProof C06.
From Coq Require Import Lia.

Section KeyCostGen.
  Context {K : Type}.
  Variables same eqb : K -> K -> bool.
  Hypothesis same_refl : forall a, same a a = true.
  Hypothesis same_sym : forall a b, same a b = same b a.
  Hypothesis same_trans : forall a b c, same a b = true -> same b c = true -> same a c = true.
  Hypothesis eqb_eq : forall a b, eqb a b = true <-> a = b.
  Notation step := (key_step_gen same eqb).
  Notation run := (keys_after_gen same eqb).

  (* pigeonhole: pairwise different formats, each among `reps` *)
  Lemma distinct_bound : forall ks, distinct same ks -> forall reps,
    (forall k, In (Some k) ks -> exists r, In r reps /\ same k r = true) -> (List.length ks <= List.length reps)%nat.
  Proof.
    induction 1 as [|k ks Hk Hd IH]; intros reps Hr; [cbn; lia|].
    destruct (Hr k (or_introl eq_refl)) as [r [Hin Hs]].
    destruct (in_split _ _ Hin) as [r1 [r2 E]]. subst reps.
    assert (B : (List.length ks <= List.length (r1 ++ r2))%nat).
    { apply IH. intros k' Hk'. destruct (Hr k' (or_intror Hk')) as [r' [Hin' Hs']].
      exists r'. split; [|exact Hs'].
      apply in_app_or in Hin'. apply in_or_app. destruct Hin' as [H1 | [H2 | H3]]; [left; exact H1 | | right; exact H3].
      exfalso. subst r'. assert (S : same k' k = true) by (apply (same_trans k' r k); [exact Hs' | rewrite same_sym; exact Hs]).
      rewrite (Hk k' Hk') in S. discriminate. }
    rewrite app_length in *. cbn [List.length]. lia.
  Qed.
  Lemma run_bound : forall h reps, (forall k, In (Some k) h -> exists r, In r reps /\ same k r = true) ->
    (List.length (run h) <= Nat.max 1 (List.length reps))%nat.
  Proof.
    intros h reps Hr. assert (RS : Shape same (run h)) by (apply run_shape; assumption). destruct RS as [E | D].
    - rewrite E. cbn [List.length]. lia.
    - pose proof (distinct_bound _ D reps) as B. assert (B' : (List.length (run h) <= List.length reps)%nat).
      { apply B. intros k Hk. apply Hr. assert (S : subseq (run h) h) by (apply run_subseq; assumption).
        clear - S Hk. induction S as [|x l1 l2 S IH | x l1 l2 S IH]; [destruct Hk | right; apply IH; exact Hk |].
        destruct Hk as [Hk | Hk]; [left; exact Hk | right; apply IH; exact Hk]. }
      lia.
  Qed.

  (* work: per key event a search and a filter over the keys in effect, per segment a copy of them *)
  Fixpoint work_from (ks : list (option K)) (h : list (option K)) : nat :=
    match h with [] => 0 | x :: r => (2 * List.length ks + 1 + work_from (step ks x) r)%nat end.
  Lemma work_bound_from : forall h h0 reps M, (forall k, In (Some k) (h0 ++ h) -> exists r, In r reps /\ same k r = true) ->
    M = Nat.max 1 (List.length reps) -> (work_from (run h0) h <= List.length h * (2 * M + 1))%nat.
  Proof.
    induction h as [|x h IH]; intros h0 reps M Hr HM; [cbn; lia|].
    cbn [work_from List.length].
    assert (B : (List.length (run h0) <= M)%nat).
    { rewrite HM. apply run_bound. intros k Hk. apply Hr. apply in_or_app. left. exact Hk. }
    replace (step (run h0) x) with (run (h0 ++ [x])) by (apply run_snoc).
    assert (I : (work_from (run (h0 ++ [x])) h <= List.length h * (2 * M + 1))%nat).
    { apply (IH (h0 ++ [x]) reps M); [|exact HM]. intros k Hk. apply Hr. rewrite <- app_assoc in Hk. exact Hk. }
    lia.
  Qed.
  Theorem work_bound : forall h reps, (forall k, In (Some k) h -> exists r, In r reps /\ same k r = true) ->
    (work_from [] h <= List.length h * (2 * Nat.max 1 (List.length reps) + 1))%nat.
  Proof. intros h reps Hr. apply (work_bound_from h [] reps); [exact Hr | reflexivity]. Qed.
  (* without a bound on the formats: at most quadratic *)
  Theorem work_quadratic : forall h, (work_from [] h <= List.length h * (2 * List.length h + 1))%nat.
  Proof.
    assert (G : forall h h0, (work_from (run h0) h <= List.length h * (2 * (List.length h0 + List.length h) + 1))%nat).
    { induction h as [|x h IH]; intros h0; [cbn; lia|]. cbn [work_from List.length].
      assert (B : (List.length (run h0) <= List.length h0)%nat).
      { assert (S : subseq (run h0) h0) by (apply run_subseq; assumption). clear - S. induction S; cbn [List.length]; lia. }
      replace (step (run h0) x) with (run (h0 ++ [x])) by (apply run_snoc). specialize (IH (h0 ++ [x])). rewrite app_length in IH. cbn [List.length] in IH. nia. }
    intros h. specialize (G h []). cbn [List.length] in G. exact G.
  Qed.
End KeyCostGen.

(* the model's keys *)
Definition key_work (h : list xkey) : nat := work_from same_fmt key_eqb [] h.
Theorem keys_bounded : forall h reps, (forall k, In (Some k) h -> exists r, In r reps /\ same_fmt k r = true) ->
  (List.length (keys_after h) <= Nat.max 1 (List.length reps))%nat.
Proof.
  intros h reps Hr. rewrite keys_after_unfold.
  apply run_bound; first [exact same_fmt_refl | exact same_fmt_sym | exact same_fmt_trans | exact key_eqb_eq | exact Hr].
Qed.
Theorem key_work_linear : forall h reps, (forall k, In (Some k) h -> exists r, In r reps /\ same_fmt k r = true) ->
  (key_work h <= List.length h * (2 * Nat.max 1 (List.length reps) + 1))%nat.
Proof.
  intros h reps Hr. unfold key_work.
  apply work_bound; first [exact same_fmt_refl | exact same_fmt_sym | exact same_fmt_trans | exact key_eqb_eq | exact Hr].
Qed.
Theorem key_work_quadratic : forall h, (key_work h <= List.length h * (2 * List.length h + 1))%nat.
Proof. intros h. unfold key_work. apply work_quadratic. Qed.
