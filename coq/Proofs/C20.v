(* Proofs for C20: builder call sequences. *)
From hls Require Import Base Float Lex Kinds Types Tags Line Keys Media Dump Builder.
From hls.Generated Require Import Tables.
From hls.Proofs Require Import EqFacts Build Parse MediaProps NoPanic.
From Coq Require Import Lia.
Open Scope N_scope.

(* ---------- field setters: the result depends on the final field map only ---------- *)
Definition setter_field (o : bop) : option nat :=
  match o with
  | BTarget _ => Some 0%nat | BMseq _ => Some 1%nat | BDseq _ => Some 2%nat | BPtype _ => Some 3%nat
  | BIframes _ => Some 4%nat | BIndep _ => Some 5%nat | BEndlist _ => Some 6%nat | BExcess _ => Some 7%nat
  | _ => None
  end.

Lemma setters_commute : forall o1 o2 f1 f2 s,
  setter_field o1 = Some f1 -> setter_field o2 = Some f2 -> f1 <> f2 ->
  bind (bstep s o1) (fun s' => bstep s' o2) = bind (bstep s o2) (fun s' => bstep s' o1).
Proof.
  intros o1 o2 f1 f2 s H1 H2 Hne.
  destruct o1; simpl in H1; try discriminate; destruct o2; simpl in H2; try discriminate;
    inversion H1; inversion H2; subst; try congruence; reflexivity.
Qed.

Lemma last_setter_wins : forall o1 o2 f s,
  setter_field o1 = Some f -> setter_field o2 = Some f ->
  bind (bstep s o1) (fun s' => bstep s' o2) = bstep s o2.
Proof.
  intros o1 o2 f s H1 H2.
  destruct o1; simpl in H1; try discriminate; destruct o2; simpl in H2; try discriminate;
    inversion H1; inversion H2; subst; try congruence; reflexivity.
Qed.

(* ---------- a built playlist is gap-free and numbered as documented ---------- *)
Lemma build_loop_shape : forall slots i seq prev r,
  build_loop slots i seq prev = Ok r -> map is_some r = map is_some slots.
Proof.
  induction slots as [|[s|] slots IH]; simpl; intros i seq prev r H.
  - inversion H; reflexivity.
  - apply bind_ok in H. destruct H as [num [_ H]].
    apply bind_ok in H. destruct H as [rg [_ H]].
    apply bind_ok in H. destruct H as [t [Ht H]]. inversion H; subst. simpl. f_equal. eauto.
  - apply bind_ok in H. destruct H as [t [Ht H]]. inversion H; subst. simpl. f_equal. eauto.
Qed.

Lemma all_some_map : forall A (l : list (option A)), forallb is_some l = true -> l = map Some (present l).
Proof.
  induction l as [|[x|] l IH]; simpl; intros H; try discriminate; [reflexivity|].
  f_equal. auto.
Qed.
Lemma forallb_map_eq : forall A B (f : A -> bool) (g : B -> bool) (l1 : list A) (l2 : list B),
  map f l1 = map g l2 -> forallb f l1 = forallb g l2.
Proof.
  induction l1 as [|a l1 IH]; destruct l2 as [|b l2]; simpl; intros H; try discriminate; [reflexivity|].
  inversion H. rewrite H1. f_equal. auto.
Qed.

Lemma built_numbers : forall b p slots, build b = Ok p -> b_segments b = Some slots ->
  forallb is_some slots = true /\
  List.length (mp_segs p) = List.length (present slots) /\
  forall k s, nth_error (present slots) k = Some s ->
    exists s', nth_error (mp_segs p) k = Some s' /\
      sg_number s' = (if sg_explicit s then sg_number s else mp_mseq p + N.of_nat k) /\
      sg_uri s' = sg_uri s /\ sg_inf s' = sg_inf s.
Proof.
  intros b p slots H Hs.
  apply build_ok_inv in H.
  destruct H as [t [slots0 [slots' [Ht [Hs0 [Hv [Hl [Hc [Hp [Hm _]]]]]]]]]].
  rewrite Hs in Hs0. inversion Hs0; subst slots0. clear Hs0.
  pose proof (build_loop_shape _ _ _ _ _ Hl) as Hshape.
  assert (Hcompact : forallb is_some slots = true).
  { rewrite <- Hc. symmetry. apply forallb_map_eq. assumption. }
  split; [assumption|].
  rewrite (all_some_map _ _ Hcompact) in Hl.
  destruct (build_loop_all_some _ _ _ _ _ Hl) as [segs' [-> Hlen]].
  rewrite present_map_some in Hp. rewrite Hp. split; [assumption|].
  intros k s Hk.
  destruct (build_loop_nth _ _ _ _ _ Hl k s Hk) as [s' [Hs' [Hcnt [Hn _]]]].
  exists s'. split; [assumption|]. destruct Hcnt as [Hu [Hi _]].
  split; [|tauto]. rewrite Hn, Hm. destruct (sg_explicit s); [reflexivity | lia].
Qed.

(* ---------- builder calls never panic ---------- *)
Lemma seg_tag_np : forall g line, seg_tag g line <> Panic.
Proof.
  intros. unfold seg_tag. apply bind_np; [apply parse_kind_np|]. intros t _. destruct t; discriminate.
Qed.
Lemma bstep_np : forall s o, bstep s o <> Panic.
Proof.
  intros s o. destruct o; cbn [bstep]; try discriminate.
  - apply bind_np; [apply parse_start_np | intros; discriminate].
  - apply bind_np; [apply seg_tag_np | intros; discriminate].
  - apply bind_np; [unfold sb_build; np | intros; discriminate].
  - apply bind_np; [unfold sb_build; np | intros; discriminate].
Qed.
Lemma run_ops_np : forall ops, run_ops ops <> Panic.
Proof. intros. unfold run_ops. apply fold_res_np. apply bstep_np. Qed.
